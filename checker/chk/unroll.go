package chk

// Table-driven checks back to straight-line code (first pre-round of the normalisation). A local
//
//	T := []E{ {..}, {..}, .. }        (or [N]E, E a struct type or a pointer to one; every element a literal)
//
// that is never assigned again, never addressed, and used only as the operand of `for _, v := range T { BODY }` loops
// (and of len(T)) is a list of cases written as data. With BODY reading v only through its fields, and without a
// break of the loop or a label in it (a `continue` of the loop becomes a jump to the end of its copy), the loop is
// BODY once per element, in order:
//
//	T_e0 := E{..}; T_e1 := E{..}; ..   (where T was defined: the elements are still evaluated there, in order)
//	{ BODY[v := T_e0] } { BODY[v := T_e1] } ..
//
// which is what the loop does (Go spec, "For statements with range clause": the range expression is evaluated once,
// the iteration values are the elements in index order). The per-element structs are then split into their fields by
// the ordinary scalar replacement of local structs, and the rules see `if COND { return R }` once per case, as when
// the checks are written one after the other. The result is type-checked like every other rewrite; when that fails
// the function is analysed as written.

import (
	"fmt"
	"go/ast"
	"go/token"
	"go/types"
	"strings"
)

const maxTableElems = 8

func planTableUnroll(p *Prog) roundPlan {
	in := &inliner{p: p, files: map[string]*fileEdits{}, elig: map[*Fn]bool{}}
	plan := roundPlan{files: in.files}
	for _, pkg := range p.Pkgs {
		info := pkg.TypesInfo
		for _, file := range pkg.Syntax {
			if strings.HasSuffix(p.Fset.Position(file.Pos()).Filename, "_test.go") {
				continue
			}
			for _, d := range file.Decls {
				fd, ok := d.(*ast.FuncDecl)
				if !ok || fd.Body == nil {
					continue
				}
				in.unrollTablesIn(pkg.Types, info, fd, &plan)
			}
		}
	}
	return plan
}

func (in *inliner) unrollTablesIn(tpkg *types.Package, info *types.Info, fd *ast.FuncDecl, plan *roundPlan) {
	p := in.p
	var taken [][2]token.Pos
	overlaps := func(a, b token.Pos) bool {
		for _, r := range taken {
			if a < r[1] && r[0] < b {
				return true
			}
		}
		return false
	}
	ast.Inspect(fd.Body, func(n ast.Node) bool {
		as, ok := n.(*ast.AssignStmt)
		if !ok || as.Tok != token.DEFINE || len(as.Lhs) != 1 || len(as.Rhs) != 1 {
			return true
		}
		tid, ok := as.Lhs[0].(*ast.Ident)
		if !ok || tid.Name == "_" {
			return true
		}
		lit, ok := ast.Unparen(as.Rhs[0]).(*ast.CompositeLit)
		if !ok || len(lit.Elts) == 0 || len(lit.Elts) > maxTableElems {
			return true
		}
		at, ok := lit.Type.(*ast.ArrayType)
		if !ok {
			return true
		}
		tobj := info.Defs[tid]
		if tobj == nil {
			return true
		}
		// the element type: a struct, or a pointer to one
		var et types.Type
		switch u := tobj.Type().Underlying().(type) {
		case *types.Slice:
			et = u.Elem()
		case *types.Array:
			et = u.Elem()
		default:
			return true
		}
		ptrElem := false
		if pt, isP := et.Underlying().(*types.Pointer); isP {
			ptrElem = true
			et = pt.Elem()
		}
		plain := false
		if _, isStruct := et.Underlying().(*types.Struct); !isStruct {
			// a table of plain values (`[][]string{a, b}`): the loop variable is read as a whole
			if ptrElem {
				return true
			}
			plain = true
		}
		eltText := in.text(at.Elt.Pos(), at.Elt.End())
		if ptrElem {
			se, isStar := at.Elt.(*ast.StarExpr)
			if !isStar {
				return true
			}
			eltText = "&" + in.text(se.X.Pos(), se.X.End())
		}
		// every element a literal
		var elems []string
		for _, e := range lit.Elts {
			if _, isKV := e.(*ast.KeyValueExpr); isKV {
				return true // indexed elements
			}
			if plain {
				if !callFree(e) {
					return true
				}
				elems = append(elems, in.text(e.Pos(), e.End()))
				continue
			}
			var cl *ast.CompositeLit
			switch v := ast.Unparen(e).(type) {
			case *ast.CompositeLit:
				cl = v
			case *ast.UnaryExpr:
				if c2, isC := ast.Unparen(v.X).(*ast.CompositeLit); isC && v.Op == token.AND && ptrElem {
					cl = c2
				}
			}
			if cl == nil {
				return true
			}
			elems = append(elems, eltText+in.text(cl.Lbrace, cl.Rbrace+1))
		}
		// the uses of T
		var loops []*ast.RangeStmt
		var lens []*ast.CallExpr
		okUses := true
		ast.Inspect(fd.Body, func(m ast.Node) bool {
			id, isId := m.(*ast.Ident)
			if !isId || info.Uses[id] != tobj {
				return true
			}
			switch par := p.parents[id].(type) {
			case *ast.RangeStmt:
				if par.X != ast.Expr(id) {
					okUses = false
					return true
				}
				loops = append(loops, par)
			case *ast.CallExpr:
				if fn, isF := par.Fun.(*ast.Ident); isF && fn.Name == "len" && len(par.Args) == 1 {
					if _, isB := info.Uses[fn].(*types.Builtin); isB {
						lens = append(lens, par)
						return true
					}
				}
				okUses = false
			default:
				okUses = false
			}
			return true
		})
		if !okUses || len(loops) == 0 {
			return true
		}
		// fresh names
		scope := tpkg.Scope().Innermost(as.Pos())
		names := make([]string, len(elems))
		for i := range elems {
			names[i] = fmt.Sprintf("%s_e%d", tid.Name, i)
			if scope != nil {
				if _, at := scope.LookupParent(names[i], token.NoPos); at != nil {
					return true
				}
			}
			clash := false
			ast.Inspect(fd, func(m ast.Node) bool {
				if id, isId := m.(*ast.Ident); isId && id.Name == names[i] {
					clash = true
				}
				return !clash
			})
			if clash {
				return true
			}
		}
		// the loops
		type loopEdit struct {
			rs   *ast.RangeStmt
			txt  string
			used bool
		}
		var les []loopEdit
		for _, rs := range loops {
			if rs.Tok != token.DEFINE || rs.Value == nil || overlaps(rs.Pos(), rs.End()) || rs.Pos() < as.End() {
				return true
			}
			if rs.Key != nil {
				if k, isId := rs.Key.(*ast.Ident); !isId || k.Name != "_" {
					return true
				}
			}
			vid, isId := rs.Value.(*ast.Ident)
			if !isId || vid.Name == "_" {
				return true
			}
			vobj := info.Defs[vid]
			if vobj == nil {
				return true
			}
			if _, labelled := p.parents[rs].(*ast.LabeledStmt); labelled {
				return true
			}
			okBody := true
			var uses []*ast.Ident
			var conts []*ast.BranchStmt
			var walk func(m ast.Node, depthLoop bool)
			walk = func(m ast.Node, inner bool) {
				ast.Inspect(m, func(x ast.Node) bool {
					if !okBody || x == nil {
						return false
					}
					switch y := x.(type) {
					case *ast.LabeledStmt:
						okBody = false
					case *ast.BranchStmt:
						if y.Tok == token.GOTO || y.Tok == token.FALLTHROUGH {
							okBody = false
						} else if y.Label != nil {
							// a labelled break / continue leaves for a statement outside this (unlabelled) loop: it does the
							// same in a copy of the body - unless the label sits inside the body
							inside := false
							ast.Inspect(rs.Body, func(z ast.Node) bool {
								if ls, isL := z.(*ast.LabeledStmt); isL && ls.Label.Name == y.Label.Name {
									inside = true
								}
								return !inside
							})
							if inside {
								okBody = false
							}
						} else if !inner && y.Tok == token.CONTINUE {
							// the rest of this copy is skipped: a jump to the end of the copy
							conts = append(conts, y)
						} else if !inner && y.Tok == token.BREAK {
							okBody = false
						}
					case *ast.ForStmt, *ast.RangeStmt:
						if x != m {
							walk(bodyOf(y), true)
							// the loop's own header
							switch l := y.(type) {
							case *ast.ForStmt:
								for _, h := range []ast.Node{l.Init, l.Cond, l.Post} {
									if h != nil && !isNilNode(h) {
										walk(h, inner)
									}
								}
							case *ast.RangeStmt:
								walk(l.X, inner)
							}
							return false
						}
					case *ast.SwitchStmt, *ast.TypeSwitchStmt, *ast.SelectStmt:
						if x != m {
							// a break inside belongs to the switch; a continue still to our loop
							ast.Inspect(y, func(z ast.Node) bool {
								if b, isB := z.(*ast.BranchStmt); isB && b.Tok == token.CONTINUE && b.Label == nil && !inner {
									// only when not nested in a loop of the switch body: be conservative
									okBody = false
								}
								return okBody
							})
							if okBody {
								walkSwitch(y, func(z ast.Node) { walk(z, true) })
							}
							return false
						}
					case *ast.Ident:
						if info.Uses[y] == vobj && plain {
							switch pp := p.parents[y].(type) {
							case *ast.AssignStmt:
								for _, l := range pp.Lhs {
									if l == ast.Expr(y) {
										okBody = false
									}
								}
							case *ast.UnaryExpr:
								if pp.Op == token.AND {
									okBody = false
								}
							case *ast.IncDecStmt:
								okBody = false
							case *ast.RangeStmt:
								if pp.Key == ast.Expr(y) || pp.Value == ast.Expr(y) {
									okBody = false
								}
							}
							uses = append(uses, y)
							return okBody
						}
						if info.Uses[y] == vobj {
							sel, isSel := p.parents[y].(*ast.SelectorExpr)
							if !isSel || sel.X != ast.Expr(y) {
								okBody = false
								return false
							}
							// a field read, not a store or an address
							switch pp := p.parents[sel].(type) {
							case *ast.AssignStmt:
								for _, l := range pp.Lhs {
									if l == ast.Expr(sel) {
										okBody = false
									}
								}
							case *ast.UnaryExpr:
								if pp.Op == token.AND {
									okBody = false
								}
							case *ast.IncDecStmt:
								okBody = false
							}
							if s := info.Selections[sel]; s == nil || s.Kind() != types.FieldVal {
								okBody = false // a method of the element (it could take the address)
							}
							uses = append(uses, y)
						}
					}
					return okBody
				})
			}
			walk(rs.Body, false)
			if !okBody {
				return true
			}
			var sb strings.Builder
			for i := range elems {
				var eds []posEdit
				for _, u := range uses {
					eds = append(eds, posEdit{u.Pos(), u.End(), names[i]})
				}
				for _, c := range conts {
					eds = append(eds, posEdit{c.Pos(), c.End(), fmt.Sprintf("goto _unr%d_%d", in.off(rs.Pos()), i)})
				}
				sb.WriteString(in.renderEdits(rs.Body.Pos(), rs.Body.End(), eds))
				sb.WriteString("\n")
				if len(conts) > 0 {
					fmt.Fprintf(&sb, "_unr%d_%d:\n", in.off(rs.Pos()), i)
				}
			}
			les = append(les, loopEdit{rs, "{\n" + sb.String() + "}", len(uses) > 0})
		}
		// the definition
		var def strings.Builder
		anyUse := false
		for _, le := range les {
			anyUse = anyUse || le.used
		}
		for i, e := range elems {
			switch {
			case plain:
				fmt.Fprintf(&def, "var %s %s = %s\n_ = %s\n", names[i], eltText, e, names[i])
			case anyUse:
				fmt.Fprintf(&def, "%s := %s\n", names[i], e)
			default:
				fmt.Fprintf(&def, "%s := %s\n_ = %s\n", names[i], e, names[i])
			}
		}
		fe := in.file(as.Pos())
		fe.edits = append(fe.edits, textEdit{start: in.off(as.Pos()), end: in.off(as.End()), text: strings.TrimSuffix(def.String(), "\n")})
		taken = append(taken, [2]token.Pos{as.Pos(), as.End()})
		for _, le := range les {
			fe.edits = append(fe.edits, textEdit{start: in.off(le.rs.Pos()), end: in.off(le.rs.End()), text: le.txt})
			taken = append(taken, [2]token.Pos{le.rs.Pos(), le.rs.End()})
		}
		for _, lc := range lens {
			if overlaps(lc.Pos(), lc.End()) {
				continue // inside a rewritten loop: T is gone there only if the loop body mentions len(T); refuse below
			}
			fe.edits = append(fe.edits, textEdit{start: in.off(lc.Pos()), end: in.off(lc.End()), text: fmt.Sprintf("%d", len(elems))})
		}
		plan.expanded = append(plan.expanded, fmt.Sprintf("loop over the %d-element table %s unrolled", len(elems), tid.Name))
		return true
	})
}

func bodyOf(n ast.Node) ast.Node {
	switch l := n.(type) {
	case *ast.ForStmt:
		return l.Body
	case *ast.RangeStmt:
		return l.Body
	}
	return n
}

func isNilNode(n ast.Node) bool {
	switch v := n.(type) {
	case ast.Expr:
		return v == nil
	case ast.Stmt:
		return v == nil
	}
	return n == nil
}

func walkSwitch(n ast.Node, f func(ast.Node)) {
	switch s := n.(type) {
	case *ast.SwitchStmt:
		if s.Init != nil {
			f(s.Init)
		}
		if s.Tag != nil {
			f(s.Tag)
		}
		f(s.Body)
	case *ast.TypeSwitchStmt:
		if s.Init != nil {
			f(s.Init)
		}
		f(s.Assign)
		f(s.Body)
	case *ast.SelectStmt:
		f(s.Body)
	}
}
