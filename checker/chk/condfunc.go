package chk

// A predicate chosen once and called later (pre-round of the normalisation):
//
//	v := func(P0) bool { return E0 }
//	if C {
//		v = func(P1) bool { return E1 }
//	}
//	... v(a) ...
//
// where v is assigned nowhere else, is only ever called, and C reads nothing but parameters of the enclosing function
// that nothing assigns, calls v with the choice made at every call:
//
//	... ((C) && (E1[P1 := a]) || !(C) && (E0[P0 := a])) ...
//
// The guard rules then see the condition that decides, instead of a function value they cannot look into. The literals'
// bodies are a single return of an expression; their free variables are unassigned parameters of the enclosing function
// or package-level names; the arguments are plain operands (they are evaluated once per use, as before, since a
// parameter is substituted only where it occurs once - otherwise the rewrite is not made).

import (
	"go/ast"
	"go/token"
	"go/types"
	"strings"
)

func planCondFuncValue(p *Prog, in *inliner, plan *roundPlan) {
	for _, pkg := range p.Pkgs {
		info := pkg.TypesInfo
		for _, file := range pkg.Syntax {
			if strings.HasSuffix(p.Fset.Position(file.Pos()).Filename, "_test.go") {
				continue
			}
			for _, d := range file.Decls {
				fd, ok := d.(*ast.FuncDecl)
				if !ok || fd.Body == nil {
					continue
				}
				in.condFuncEdits(info, fd, plan)
			}
		}
	}
}

func (in *inliner) condFuncEdits(info *types.Info, fd *ast.FuncDecl, plan *roundPlan) {
	p := in.p
	// unassigned parameters of the enclosing function
	params := map[types.Object]bool{}
	if fd.Type.Params != nil {
		for _, fl := range fd.Type.Params.List {
			for _, nm := range fl.Names {
				if o := info.Defs[nm]; o != nil {
					params[o] = true
				}
			}
		}
	}
	if fd.Recv != nil {
		for _, fl := range fd.Recv.List {
			for _, nm := range fl.Names {
				if o := info.Defs[nm]; o != nil {
					params[o] = true
				}
			}
		}
	}
	ast.Inspect(fd.Body, func(n ast.Node) bool {
		switch x := n.(type) {
		case *ast.AssignStmt:
			for _, l := range x.Lhs {
				if id, ok := ast.Unparen(l).(*ast.Ident); ok {
					delete(params, info.ObjectOf(id))
				}
			}
		case *ast.UnaryExpr:
			if id, ok := ast.Unparen(x.X).(*ast.Ident); ok && x.Op == token.AND {
				delete(params, info.ObjectOf(id))
			}
		case *ast.IncDecStmt:
			if id, ok := ast.Unparen(x.X).(*ast.Ident); ok {
				delete(params, info.ObjectOf(id))
			}
		case *ast.RangeStmt:
			for _, e := range []ast.Expr{x.Key, x.Value} {
				if id, ok := e.(*ast.Ident); ok && x.Tok == token.ASSIGN {
					delete(params, info.ObjectOf(id))
				}
			}
		}
		return true
	})
	// an expression that reads only unassigned parameters, package-level names and the given bound names
	stable := func(e ast.Expr, bound map[types.Object]bool) bool {
		ok := true
		ast.Inspect(e, func(n ast.Node) bool {
			switch x := n.(type) {
			case *ast.FuncLit:
				ok = false
				return false
			case *ast.SelectorExpr:
				// a qualified name: only the package part is an identifier to judge
				if id, isId := x.X.(*ast.Ident); isId {
					if _, isPkg := info.Uses[id].(*types.PkgName); isPkg {
						return false
					}
				}
				ast.Inspect(x.X, func(m ast.Node) bool { return true })
				return true
			case *ast.Ident:
				o := info.Uses[x]
				if o == nil {
					return true
				}
				switch v := o.(type) {
				case *types.Var:
					if v.IsField() {
						return true
					}
					if !params[o] && !bound[o] && (v.Parent() == nil || v.Parent() != v.Pkg().Scope()) {
						ok = false
					}
					if v.Pkg() != nil && v.Parent() == v.Pkg().Scope() {
						ok = false // a package-level variable can change between the choice and the call
					}
				}
			}
			return true
		})
		return ok
	}
	singleReturn := func(lit *ast.FuncLit) ast.Expr {
		if lit == nil || len(lit.Body.List) != 1 {
			return nil
		}
		rt, ok := lit.Body.List[0].(*ast.ReturnStmt)
		if !ok || len(rt.Results) != 1 {
			return nil
		}
		return rt.Results[0]
	}
	var walk func(list []ast.Stmt)
	walk = func(list []ast.Stmt) {
		for i, st := range list {
			as, ok := st.(*ast.AssignStmt)
			if !ok || as.Tok != token.DEFINE || len(as.Lhs) != 1 || len(as.Rhs) != 1 {
				continue
			}
			id, isId := as.Lhs[0].(*ast.Ident)
			lit0, isLit := ast.Unparen(as.Rhs[0]).(*ast.FuncLit)
			if !isId || !isLit {
				continue
			}
			v := info.Defs[id]
			e0 := singleReturn(lit0)
			if v == nil || e0 == nil {
				continue
			}
			// the one conditional re-assignment, a later statement of the same block
			var ifs *ast.IfStmt
			var lit1 *ast.FuncLit
			for _, later := range list[i+1:] {
				is, isIf := later.(*ast.IfStmt)
				if !isIf || is.Init != nil || is.Else != nil || len(is.Body.List) != 1 {
					continue
				}
				ras, isAs := is.Body.List[0].(*ast.AssignStmt)
				if !isAs || ras.Tok != token.ASSIGN || len(ras.Lhs) != 1 || len(ras.Rhs) != 1 {
					continue
				}
				if lid, isL := ras.Lhs[0].(*ast.Ident); !isL || info.Uses[lid] != v {
					continue
				}
				l1, isL1 := ast.Unparen(ras.Rhs[0]).(*ast.FuncLit)
				if !isL1 {
					continue
				}
				ifs, lit1 = is, l1
				break
			}
			e1 := singleReturn(lit1)
			if ifs == nil || e1 == nil || !stable(ifs.Cond, nil) {
				continue
			}
			// every other mention of v is a call with plain operands, after the if statement
			var calls []*ast.CallExpr
			good := true
			ast.Inspect(fd.Body, func(n ast.Node) bool {
				uid, isU := n.(*ast.Ident)
				if !isU || info.Uses[uid] != v {
					return true
				}
				if Encloses(ifs, uid) {
					return true
				}
				call, isCall := p.parents[uid].(*ast.CallExpr)
				if !isCall || call.Fun != ast.Expr(uid) || call.Ellipsis.IsValid() || uid.Pos() < ifs.End() {
					good = false
					return true
				}
				for _, a := range call.Args {
					if !isPlainOperand(a) {
						good = false
					}
				}
				// not inside a function literal (it could run before the choice is made) or a go / defer statement
				for m := p.parents[ast.Node(call)]; m != nil && m != ast.Node(fd); m = p.parents[m] {
					switch m.(type) {
					case *ast.FuncLit, *ast.GoStmt, *ast.DeferStmt:
						good = false
					}
				}
				calls = append(calls, call)
				return true
			})
			if !good || len(calls) == 0 {
				continue
			}
			// the literals: free names stable, each parameter used at most once
			render := func(lit *ast.FuncLit, e ast.Expr, args []ast.Expr) (string, bool) {
				bound := map[types.Object]bool{}
				var names []types.Object
				for _, fl := range lit.Type.Params.List {
					if len(fl.Names) == 0 {
						names = append(names, nil)
					}
					for _, nm := range fl.Names {
						o := info.Defs[nm]
						bound[o] = true
						names = append(names, o)
					}
				}
				if len(names) != len(args) || !stable(e, bound) {
					return "", false
				}
				var eds []posEdit
				count := map[types.Object]int{}
				okk := true
				ast.Inspect(e, func(n ast.Node) bool {
					uid, isU := n.(*ast.Ident)
					if !isU {
						return true
					}
					o := info.Uses[uid]
					if o == nil || !bound[o] {
						return true
					}
					count[o]++
					if count[o] > 1 {
						okk = false
					}
					for k, nm := range names {
						if nm == o {
							eds = append(eds, posEdit{uid.Pos(), uid.End(), "(" + in.text(args[k].Pos(), args[k].End()) + ")"})
						}
					}
					return true
				})
				if !okk {
					return "", false
				}
				return in.renderEdits(e.Pos(), e.End(), eds), true
			}
			cond := in.text(ifs.Cond.Pos(), ifs.Cond.End())
			var eds []textEdit
			okAll := true
			for _, c := range calls {
				t1, ok1 := render(lit1, e1, c.Args)
				t0, ok0 := render(lit0, e0, c.Args)
				if !ok1 || !ok0 {
					okAll = false
					break
				}
				eds = append(eds, textEdit{start: in.off(c.Pos()), end: in.off(c.End()), text: "((" + cond + ") && (" + t1 + ") || !(" + cond + ") && (" + t0 + "))"})
			}
			if !okAll {
				continue
			}
			eds = append(eds, textEdit{start: in.off(as.Pos()), end: in.off(as.End()), text: ""})
			eds = append(eds, textEdit{start: in.off(ifs.Pos()), end: in.off(ifs.End()), text: ""})
			fe := in.file(fd.Pos())
			fe.edits = append(fe.edits, eds...)
			plan.expanded = append(plan.expanded, "predicate "+id.Name+" of "+fd.Name.Name+" chosen by a condition: the choice written out at its calls")
		}
		for _, st := range list {
			switch x := st.(type) {
			case *ast.BlockStmt:
				walk(x.List)
			case *ast.IfStmt:
				walk(x.Body.List)
			case *ast.ForStmt:
				walk(x.Body.List)
			case *ast.RangeStmt:
				walk(x.Body.List)
			}
		}
	}
	walk(fd.Body.List)
}
