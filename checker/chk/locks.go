package chk

import (
	"fmt"
	"go/ast"
	"go/token"
	"go/types"
	"os"
	"sort"
	"strings"
)

// Engine C: lock discipline.
//
// A lock is identified by the struct field that holds it (a named sync.Mutex /
// sync.RWMutex field, or the embedded one); which *instance* is locked is not
// tracked (no pointer analysis): a guarded structure is assumed to be reached
// through its owning receiver, which holds for every entry of the guarded-by
// tables on the pinned tree.
//
// For every function a must-hold lockset is computed by forward dataflow over
// the CFG (Lock/RLock add, Unlock/RUnlock remove, merge = intersection). Defers
// are modelled at the function's exits in LIFO order. The entry lockset of an
// unexported function is the intersection of the locksets at its call sites
// (fixed point over the module); exported functions, goroutine roots and
// functions whose value is taken start with the empty set.

// SyncHigherOrder lists functions known to invoke their function argument
// synchronously, before returning (reviewed): the literal inherits the
// creator's lockset.
var SyncHigherOrder = map[string]bool{
	"sigs.k8s.io/controller-runtime/pkg/controller/controllerutil.CreateOrUpdate": true,
}

// HeldLock is a lock with its mode.
type HeldLock struct {
	Lock  *types.Var
	Write bool
}

// Lockset maps a lock to whether it is held for writing.
type Lockset map[*types.Var]bool

func (l Lockset) clone() Lockset {
	c := Lockset{}
	for k, v := range l {
		c[k] = v
	}
	return c
}

func intersect(a, b Lockset) Lockset {
	c := Lockset{}
	for k, v := range a {
		if w, ok := b[k]; ok {
			c[k] = v && w
		}
	}
	return c
}

func sameSet(a, b Lockset) bool {
	if len(a) != len(b) {
		return false
	}
	for k, v := range a {
		if w, ok := b[k]; !ok || w != v {
			return false
		}
	}
	return true
}

// LockOp classifies a call as a lock operation.
func (f *Fn) LockOp(call *ast.CallExpr) (lock *types.Var, op string) {
	sel, ok := ast.Unparen(call.Fun).(*ast.SelectorExpr)
	if !ok {
		return nil, ""
	}
	switch sel.Sel.Name {
	case "Lock", "Unlock", "RLock", "RUnlock":
	default:
		return nil, ""
	}
	s := f.Info().Selections[sel]
	if s == nil {
		return nil, ""
	}
	m, ok := s.Obj().(*types.Func)
	if !ok || m.Pkg() == nil || m.Pkg().Path() != "sync" {
		return nil, ""
	}
	// explicit field: x.mu.Lock()
	if inner, ok := ast.Unparen(sel.X).(*ast.SelectorExpr); ok && len(s.Index()) == 1 {
		if is := f.Info().Selections[inner]; is != nil {
			if v, ok := is.Obj().(*types.Var); ok && v.IsField() {
				return v, sel.Sel.Name
			}
		}
	}
	// promoted through an embedded mutex: x.Lock()
	if len(s.Index()) > 1 {
		t := s.Recv()
		var fld *types.Var
		for _, i := range s.Index()[:len(s.Index())-1] {
			if p, ok := t.Underlying().(*types.Pointer); ok {
				t = p.Elem()
			}
			st, ok := t.Underlying().(*types.Struct)
			if !ok {
				return nil, ""
			}
			fld = st.Field(i)
			t = fld.Type()
		}
		return fld, sel.Sel.Name
	}
	// local / package-level mutex variable
	if id, ok := ast.Unparen(sel.X).(*ast.Ident); ok {
		if v, ok := f.ObjOf(id).(*types.Var); ok {
			return v, sel.Sel.Name
		}
	}
	return nil, ""
}

// LockAnalysis is the per-program result.
type LockAnalysis struct {
	reacq []Reacquire
	Prog  *Prog
	entry map[*Fn]Lockset              // entry lockset (caller holds)
	dead  map[*Fn]bool                 // unexported functions nothing references
	at    map[*Fn]map[ast.Node]Lockset // lockset before each top-level CFG node
	exit  map[*Fn][]exitState
	lits  map[*ast.FuncLit]*Fn
}

type exitState struct {
	ret  ast.Node
	held Lockset
}

// AnalyseLocks computes locksets for every function of the given packages
// (module-relative paths); call sites in those packages refine entry locksets.
func (p *Prog) AnalyseLocks(pkgs ...string) *LockAnalysis {
	la := &LockAnalysis{Prog: p, entry: map[*Fn]Lockset{}, at: map[*Fn]map[ast.Node]Lockset{}, exit: map[*Fn][]exitState{}, lits: map[*ast.FuncLit]*Fn{}}
	var fns []*Fn
	for _, pk := range pkgs {
		fns = append(fns, p.FuncsIn(pk)...)
	}
	// functions with unknown callers start empty; others start "top" (nil) and are narrowed
	escapes := map[*Fn]bool{}
	for _, f := range fns {
		if f.Obj == nil {
			escapes[f] = true
			continue
		}
		if f.Obj.Exported() {
			// an exported method of an unexported type is callable only through
			// values created in its package; its call sites there are analysed
			recvUnexported := false
			if sig, ok := f.Obj.Type().(*types.Signature); ok && sig.Recv() != nil {
				t := sig.Recv().Type()
				if pt, ok := t.(*types.Pointer); ok {
					t = pt.Elem()
				}
				if n, ok := t.(*types.Named); ok && !n.Obj().Exported() {
					recvUnexported = true
				}
			}
			if !recvUnexported {
				escapes[f] = true
			}
		}
	}
	// function values and goroutine roots
	for _, f := range fns {
		ast.Inspect(f.Body, func(n ast.Node) bool {
			switch x := n.(type) {
			case *ast.GoStmt:
				if fn, ok := f.Callee(x.Call).(*types.Func); ok {
					if cf := p.FnOf(fn); cf != nil {
						escapes[cf] = true
					}
				}
			case *ast.SelectorExpr, *ast.Ident:
				var id *ast.Ident
				if s, ok := x.(*ast.SelectorExpr); ok {
					id = s.Sel
				} else {
					id = x.(*ast.Ident)
				}
				fn, ok := f.Info().Uses[id].(*types.Func)
				if !ok {
					return true
				}
				par := p.Parent(n)
				if s, ok := par.(*ast.SelectorExpr); ok && s.Sel == id {
					return true
				}
				if c, ok := par.(*ast.CallExpr); ok && ast.Unparen(c.Fun) == n.(ast.Expr) {
					return true
				}
				if cf := p.FnOf(fn); cf != nil {
					escapes[cf] = true // method value / function value: callers unknown
				}
			}
			return true
		})
	}
	for _, f := range fns {
		if escapes[f] {
			la.entry[f] = Lockset{}
		}
	}
	for iter := 0; iter < 8; iter++ {
		changed := false
		callEntry := map[*Fn]Lockset{}
		seenCall := map[*Fn]bool{}
		for _, f := range fns {
			ent, known := la.entry[f]
			if !known {
				ent = nil // top: not yet constrained, analyse with empty to be safe later
			}
			start := Lockset{}
			if ent != nil {
				start = ent
			}
			la.flow(f, start, func(callee *Fn, held Lockset) {
				if escapes[callee] {
					return
				}
				if !seenCall[callee] {
					seenCall[callee] = true
					callEntry[callee] = held.clone()
				} else {
					callEntry[callee] = intersect(callEntry[callee], held)
				}
			})
		}
		for _, f := range fns {
			if escapes[f] {
				continue
			}
			ne := Lockset{}
			if seenCall[f] {
				ne = callEntry[f]
			}
			if old, ok := la.entry[f]; !ok || !sameSet(old, ne) {
				la.entry[f] = ne
				changed = true
			}
		}
		if !changed {
			// functions that nothing references (a helper left behind after all its calls were expanded, dead code):
			// no execution reaches them
			la.dead = map[*Fn]bool{}
			for _, f := range fns {
				if escapes[f] || seenCall[f] || f.Obj == nil || f.Obj.Exported() || f.Lit != nil {
					continue
				}
				if inInterface(p, f) {
					continue
				}
				la.dead[f] = true
			}
			break
		}
	}
	return la
}

// inInterface: some interface type of the function's package declares a method with its name (it may be called
// dynamically).
func inInterface(p *Prog, f *Fn) bool {
	if f.Decl == nil || f.Decl.Recv == nil {
		return false
	}
	found := false
	for _, file := range f.Pkg.Syntax {
		ast.Inspect(file, func(n ast.Node) bool {
			it, ok := n.(*ast.InterfaceType)
			if !ok || it.Methods == nil {
				return !found
			}
			for _, m := range it.Methods.List {
				for _, nm := range m.Names {
					if nm.Name == f.Decl.Name.Name {
						found = true
					}
				}
			}
			return !found
		})
	}
	return found
}

// flow runs the lockset dataflow for one function and records the lockset
// before every top-level node; onCall is told the lockset at each call to a
// module function.
func (la *LockAnalysis) flow(f *Fn, entry Lockset, onCall func(*Fn, Lockset)) {
	g := f.Graph()
	in := map[*Block]Lockset{}
	if g.Entry == nil {
		return
	}
	in[g.Entry] = entry.clone()
	at := map[ast.Node]Lockset{}
	la.at[f] = at
	la.exit[f] = nil
	work := []*Block{g.Entry}
	visits := map[*Block]int{}
	for len(work) > 0 {
		b := work[0]
		work = work[1:]
		visits[b]++
		if visits[b] > 50 {
			continue
		}
		cur := in[b].clone()
		for _, n := range b.Nodes {
			at[n] = cur.clone()
			la.transfer(f, n, cur, onCall)
		}
		if len(b.Succs) == 0 {
			continue
		}
		for _, s := range b.Succs {
			if old, ok := in[s]; !ok {
				in[s] = cur.clone()
				work = append(work, s)
			} else {
				m := intersect(old, cur)
				if !sameSet(m, old) {
					in[s] = m
					work = append(work, s)
				}
			}
		}
	}
	// exits: record lockset at each return / fall-off
	for _, b := range g.Blocks {
		if len(b.Succs) != 0 {
			continue
		}
		cur, ok := in[b]
		if !ok {
			continue
		}
		cur = cur.clone()
		var last ast.Node
		for _, n := range b.Nodes {
			la.transfer(f, n, cur, nil)
			last = n
		}
		k := g.exitKind(b)
		if k == ExitReturn || k == ExitFall {
			la.exit[f] = append(la.exit[f], exitState{last, cur})
		}
	}
}

// transfer applies the lock operations of one node (in evaluation order).
func (la *LockAnalysis) transfer(f *Fn, n ast.Node, cur Lockset, onCall func(*Fn, Lockset)) {
	if _, isDefer := n.(*ast.DeferStmt); isDefer {
		return // handled at exits
	}
	if g, isGo := n.(*ast.GoStmt); isGo {
		_ = g
		return
	}
	InspectNoLit(n, func(m ast.Node) bool {
		call, ok := m.(*ast.CallExpr)
		if !ok {
			return true
		}
		if lk, op := f.LockOp(call); lk != nil {
			switch op {
			case "Lock":
				if _, held := cur[lk]; held {
					la.noteReacquire(f, call, lk, op)
				}
				cur[lk] = true
			case "RLock":
				if _, held := cur[lk]; !held {
					cur[lk] = false
				} else {
					la.noteReacquire(f, call, lk, op)
				}
			case "Unlock", "RUnlock":
				delete(cur, lk)
			}
			return true
		}
		if onCall != nil {
			if fn, ok := f.Callee(call).(*types.Func); ok {
				if cf := la.Prog.FnOf(fn); cf != nil {
					onCall(cf, cur)
				}
			}
		}
		return true
	})
}

// Defers returns the defer statements of f in source order (function literals'
// own defers excluded).
func (f *Fn) Defers() []*ast.DeferStmt {
	var out []*ast.DeferStmt
	InspectNoLit(f.Body, func(n ast.Node) bool {
		if d, ok := n.(*ast.DeferStmt); ok {
			out = append(out, d)
		}
		return true
	})
	return out
}

// HeldAt returns the must-hold lockset just before the top-level CFG node that
// contains n (nil if n is not in a live block). For nodes inside a function
// literal the lockset of the literal's own flow is used: literals passed
// directly to sort/slices functions inherit the creator's lockset, deferred
// literals get the lockset at their execution point in the exit sequence, all
// others start empty.
func (la *LockAnalysis) HeldAt(f *Fn, n ast.Node) Lockset {
	p := la.Prog
	// innermost enclosing function literal
	var lit *ast.FuncLit
	for q := p.Parent(n); q != nil; q = p.Parent(q) {
		if l, ok := q.(*ast.FuncLit); ok {
			lit = l
			break
		}
		if q == ast.Node(f.Body) {
			break
		}
	}
	if lit != nil && f.Lit != lit {
		lf := la.lits[lit]
		if lf == nil {
			lf = f.LitFn(lit)
			la.lits[lit] = lf
			la.flow(lf, la.litEntry(f, lit), nil)
		}
		return la.HeldAt(lf, n)
	}
	g := f.Graph()
	for _, b := range g.Blocks {
		for _, top := range b.Nodes {
			if Encloses(top, n) {
				base := la.at[f][top]
				if base == nil {
					return nil
				}
				// apply lock operations inside `top` that precede n
				cur := base.clone()
				InspectNoLit(top, func(m ast.Node) bool {
					call, ok := m.(*ast.CallExpr)
					if ok && call.End() <= n.Pos() {
						if lk, op := f.LockOp(call); lk != nil {
							switch op {
							case "Lock":
								cur[lk] = true
							case "RLock":
								if _, h := cur[lk]; !h {
									cur[lk] = false
								}
							default:
								delete(cur, lk)
							}
						}
					}
					return true
				})
				return cur
			}
		}
	}
	return nil
}

// LitEntry is the entry lockset of a function literal created in f.
func (la *LockAnalysis) LitEntry(f *Fn, lit *ast.FuncLit) Lockset { return la.litEntry(f, lit) }

// litEntry computes the entry lockset of a function literal created in f.
func (la *LockAnalysis) litEntry(f *Fn, lit *ast.FuncLit) Lockset {
	p := la.Prog
	par := p.Parent(lit)
	if call, ok := par.(*ast.CallExpr); ok {
		if ast.Unparen(call.Fun) == ast.Expr(lit) {
			// immediately invoked, or deferred / go
			switch gp := p.Parent(call).(type) {
			case *ast.DeferStmt:
				return la.heldWhenDeferredRuns(f, gp)
			case *ast.GoStmt:
				return Lockset{}
			}
			return la.heldOrEmpty(f, call)
		}
		if fn, ok := f.Callee(call).(*types.Func); ok && fn.Pkg() != nil {
			switch fn.Pkg().Path() {
			case "sort", "slices":
				return la.heldOrEmpty(f, call)
			}
			if SyncHigherOrder[fn.FullName()] {
				return la.heldOrEmpty(f, call)
			}
			// a module function that calls its function parameter itself, synchronously: the literal runs with
			// the locks that function holds at those calls (`func (l *L) locked(fn func()) { l.Lock(); defer l.Unlock(); fn() }`)
			if hf := p.FnOf(fn); hf != nil && hf != f {
				for i, a := range call.Args {
					if ast.Unparen(a) != ast.Expr(lit) {
						continue
					}
					if hs, ok := la.paramCallLocks(hf, i); ok {
						return hs
					}
				}
			}
		}
	}
	return Lockset{}
}

// paramCallLocks: the function calls its i-th parameter (a function value)
// directly, not in a goroutine or a deferred call, and uses it in no other way;
// the result is the intersection of the locksets held at those calls.
func (la *LockAnalysis) paramCallLocks(hf *Fn, i int) (Lockset, bool) {
	pv := hf.Param(i)
	if pv == nil || hf.Body == nil {
		return nil, false
	}
	if _, isFunc := pv.Type().Underlying().(*types.Signature); !isFunc {
		return nil, false
	}
	var held Lockset
	ok, n := true, 0
	ast.Inspect(hf.Body, func(m ast.Node) bool {
		id, isId := m.(*ast.Ident)
		if !isId || hf.Info().Uses[id] != types.Object(pv) {
			return true
		}
		call, isCall := la.Prog.Parent(id).(*ast.CallExpr)
		if !isCall || ast.Unparen(call.Fun) != ast.Expr(id) {
			ok = false // stored, passed on, compared ...
			return true
		}
		switch la.Prog.Parent(call).(type) {
		case *ast.GoStmt, *ast.DeferStmt:
			ok = false
			return true
		}
		h := la.HeldAt(hf, call)
		if h == nil {
			ok = false
			return true
		}
		if n == 0 {
			held = h.clone()
		} else {
			held = intersect(held, h)
		}
		n++
		return true
	})
	if !ok || n == 0 {
		return nil, false
	}
	return held, true
}

func (la *LockAnalysis) heldOrEmpty(f *Fn, n ast.Node) Lockset {
	if h := la.HeldAt(f, n); h != nil {
		return h
	}
	return Lockset{}
}

// heldWhenDeferredRuns simulates the exit sequence: starting from the
// intersection of the locksets at all exits, the deferred calls registered
// after d run first (LIFO); deferred Unlocks release.
func (la *LockAnalysis) heldWhenDeferredRuns(f *Fn, d *ast.DeferStmt) Lockset {
	var cur Lockset
	for i, e := range la.exit[f] {
		if i == 0 {
			cur = e.held.clone()
		} else {
			cur = intersect(cur, e.held)
		}
	}
	if cur == nil {
		cur = Lockset{}
	}
	defers := f.Defers()
	for i := len(defers) - 1; i >= 0; i-- {
		if defers[i] == d {
			break
		}
		if lk, op := f.LockOp(defers[i].Call); lk != nil && (op == "Unlock" || op == "RUnlock") {
			delete(cur, lk)
		}
	}
	return cur
}

// HeldWhenDeferredCallRuns is the lockset in force when the deferred call d
// itself executes.
func (la *LockAnalysis) HeldWhenDeferredCallRuns(f *Fn, d *ast.DeferStmt) Lockset {
	return la.heldWhenDeferredRuns(f, d)
}

// Entry returns the entry lockset computed for f.
func (la *LockAnalysis) Entry(f *Fn) Lockset { return la.entry[f] }

// Describe renders a lockset.
func DescribeLocks(l Lockset) string {
	var s []string
	for k, w := range l {
		m := "R"
		if w {
			m = "W"
		}
		s = append(s, k.Name()+"("+m+")")
	}
	sort.Strings(s)
	return "{" + strings.Join(s, ",") + "}"
}

// EmbeddedLock returns the embedded sync.Mutex / sync.RWMutex field of a named
// struct type, or the named field.
func (p *Prog) LockField(pkg, typ, field string) *types.Var {
	n := p.LookupType(pkg, typ)
	if n == nil {
		return nil
	}
	st, ok := n.Underlying().(*types.Struct)
	if !ok {
		return nil
	}
	isSync := func(fl *types.Var) bool {
		nt, ok := fl.Type().(*types.Named)
		return ok && nt.Obj().Pkg() != nil && nt.Obj().Pkg().Path() == "sync" && (nt.Obj().Name() == "Mutex" || nt.Obj().Name() == "RWMutex")
	}
	var syncFields []*types.Var
	for i := 0; i < st.NumFields(); i++ {
		fl := st.Field(i)
		if field != "" && fl.Name() == field {
			return fl
		}
		if field == "" && fl.Embedded() && isSync(fl) {
			return fl
		}
		if isSync(fl) {
			syncFields = append(syncFields, fl)
		}
	}
	// the struct's one mutex under another spelling: embedded <-> named field, or renamed
	if len(syncFields) == 1 {
		return syncFields[0]
	}
	return nil
}

// GuardedAccess is one access to a guarded field with the locks held.
type GuardedAccess struct {
	Access
	Held Lockset
	OK   bool
	Why  string
}

// CheckGuarded decides LOCK-GUARDED for one field: every access is made with
// lock held (write mode for writes). Accesses in `exempt` functions (e.g.
// constructors before the object is shared) are skipped.
func (la *LockAnalysis) CheckGuarded(fld, lock *types.Var, exempt map[string]bool) []GuardedAccess {
	var out []GuardedAccess
	for _, a := range la.Prog.FieldAccesses(fld) {
		if a.Fn == nil || exempt[a.Fn.Name()] {
			continue
		}
		if la.dead[a.Fn] {
			out = append(out, GuardedAccess{Access: a, OK: true, Why: "the function is never referenced (unreachable)"})
			continue
		}
		held := la.HeldAt(a.Fn, a.Sel)
		ga := GuardedAccess{Access: a, Held: held}
		w, ok := held[lock]
		needW := a.IsWrite() || strings.HasPrefix(a.Kind, "method:") && mutatingName(a.Kind[7:])
		switch {
		case held == nil:
			ga.Why = "access in unreachable or unanalysed code"
			ga.OK = true
		case !ok:
			ga.Why = "lock " + lock.Name() + " is not held (held: " + DescribeLocks(held) + ")"
		case needW && !w:
			ga.Why = "written under a read lock"
		default:
			ga.OK = true
		}
		out = append(out, ga)
		// the guarded map / slice / pointer taken into a local under the lock (`m := x.f`): the local is the same shared
		// storage, so every later use of it needs the lock as well (a "snapshot" of a map header is not a copy)
		if os.Getenv("MLB_DEBUG_ALIAS") != "" && fld.Name() == os.Getenv("MLB_DEBUG_ALIAS") {
			fmt.Fprintf(os.Stderr, "access %s kind=%s fn=%s alias=%v\n", la.Prog.Fset.Position(a.Sel.Pos()), a.Kind, a.Fn.Name(), la.aliasLocal(a))
		}
		if (a.Kind == "read" || a.Kind == "escape") && refLike(fld.Type()) {
			if v := la.aliasLocal(a); v != nil {
				ast.Inspect(a.Fn.Body, func(n ast.Node) bool {
					id, isId := n.(*ast.Ident)
					if !isId || a.Fn.Info().Uses[id] != types.Object(v) || id.Pos() < a.Sel.End() {
						return true
					}
					h := la.HeldAt(a.Fn, id)
					if h == nil {
						return true
					}
					if _, okH := h[lock]; !okH {
						sel := &ast.SelectorExpr{X: a.Sel.X, Sel: &ast.Ident{NamePos: id.Pos(), Name: a.Sel.Sel.Name}}
						out = append(out, GuardedAccess{Access: Access{Fn: a.Fn, Sel: sel, Kind: "alias:" + v.Name(), Stmt: id}, Held: h,
							Why: "the local " + v.Name() + " aliases the guarded value and is used after lock " + lock.Name() + " was released (held: " + DescribeLocks(h) + ")"})
					}
					return true
				})
			}
		}
	}
	return out
}

func refLike(t types.Type) bool {
	switch t.Underlying().(type) {
	case *types.Map, *types.Slice, *types.Pointer, *types.Chan:
		return true
	}
	return false
}

// aliasLocal: the read of the field is, as a whole, the value assigned to a local variable (`v := x.f`, `v, w := x.f,
// x.g`, `var v = x.f`): it returns v.
func (la *LockAnalysis) aliasLocal(a Access) *types.Var {
	p := la.Prog
	var e ast.Expr = a.Sel
	for {
		par, ok := p.parents[e].(*ast.ParenExpr)
		if !ok {
			break
		}
		e = par
	}
	info := a.Fn.Info()
	obj := func(l ast.Expr) *types.Var {
		id, ok := l.(*ast.Ident)
		if !ok || id.Name == "_" {
			return nil
		}
		var o types.Object = info.Defs[id]
		if o == nil {
			o = info.Uses[id]
		}
		v, _ := o.(*types.Var)
		if v == nil || v.IsField() || v.Pkg() == nil || v.Parent() == v.Pkg().Scope() {
			return nil
		}
		return v
	}
	switch st := p.parents[e].(type) {
	case *ast.AssignStmt:
		if len(st.Lhs) != len(st.Rhs) {
			return nil
		}
		for i, r := range st.Rhs {
			if r == e {
				return obj(st.Lhs[i])
			}
		}
	case *ast.ValueSpec:
		if len(st.Names) != len(st.Values) {
			return nil
		}
		for i, r := range st.Values {
			if r == e {
				return obj(st.Names[i])
			}
		}
	}
	return nil
}

func mutatingName(n string) bool {
	switch n {
	case "Insert", "Delete", "Clear", "PopAny":
		return true
	}
	return false
}

// BlockingUnder lists, for function f, the nodes satisfying isOp that execute
// while `lock` is held (deferred calls are evaluated at their execution point).
func (la *LockAnalysis) BlockingUnder(f *Fn, lock *types.Var, isOp func(n ast.Node) bool) []token.Pos {
	var out []token.Pos
	ast.Inspect(f.Body, func(n ast.Node) bool {
		if n == nil {
			return true
		}
		if d, ok := n.(*ast.DeferStmt); ok {
			if isOp(d.Call) {
				if _, held := la.heldWhenDeferredRuns(f, d)[lock]; held {
					out = append(out, d.Pos())
				}
			}
			// the literal body (if any) is visited below with its own entry
			if _, isLit := d.Call.Fun.(*ast.FuncLit); !isLit {
				return false
			}
			return true
		}
		if !isOp(n) {
			return true
		}
		if held := la.HeldAt(f, n); held != nil {
			if _, h := held[lock]; h {
				out = append(out, n.Pos())
			}
		}
		return true
	})
	return out
}

// Reacquire is a Lock / RLock of a mutex that is certainly already held on every
// path to the call (sync.Mutex and sync.RWMutex are not re-entrant: a second Lock
// deadlocks, a second RLock deadlocks as soon as a writer waits in between).
type Reacquire struct {
	Fn   *Fn
	Call *ast.CallExpr
	Lock *types.Var
	Op   string
}

func (la *LockAnalysis) noteReacquire(f *Fn, call *ast.CallExpr, lk *types.Var, op string) {
	for _, r := range la.reacq {
		if r.Call == call {
			return
		}
	}
	la.reacq = append(la.reacq, Reacquire{f, call, lk, op})
}

// Reacquires lists the re-entrant acquisitions found while the locksets were computed.
func (la *LockAnalysis) Reacquires() []Reacquire { return la.reacq }

// acquires returns the locks that the function (or the methods it calls on its
// own receiver, transitively) acquires.
func (la *LockAnalysis) acquires(f *Fn, depth int, seen map[*Fn]bool) map[*types.Var]string {
	out := map[*types.Var]string{}
	if f == nil || f.Body == nil || seen[f] || depth > 3 {
		return out
	}
	seen[f] = true
	recv := f.Recv()
	InspectNoLit(f.Body, func(n ast.Node) bool {
		call, ok := n.(*ast.CallExpr)
		if !ok {
			return true
		}
		if lk, op := f.LockOp(call); lk != nil {
			if op == "Lock" || op == "RLock" {
				out[lk] = op
			}
			return true
		}
		if sel, ok := ast.Unparen(call.Fun).(*ast.SelectorExpr); ok && recv != nil && f.ObjOf(sel.X) == types.Object(recv) {
			if fn, ok := f.Callee(call).(*types.Func); ok {
				for lk, op := range la.acquires(la.Prog.FnOf(fn), depth+1, seen) {
					out[lk] = op
				}
			}
		}
		return true
	})
	return out
}

// ReentrantCalls lists calls of a method on the function's own receiver that
// (transitively) acquires a mutex the caller certainly holds at the call.
func (la *LockAnalysis) ReentrantCalls(pkgs ...string) []Reacquire {
	var out []Reacquire
	for _, pk := range pkgs {
		for _, f := range la.Prog.FuncsIn(pk) {
			recv := f.Recv()
			if recv == nil || f.Body == nil {
				continue
			}
			// A call started with the go keyword runs on another goroutine:
			// it waits for the lock, it does not re-enter it.
			spawned := map[*ast.CallExpr]bool{}
			InspectNoLit(f.Body, func(n ast.Node) bool {
				if gs, ok := n.(*ast.GoStmt); ok {
					spawned[gs.Call] = true
				}
				call, ok := n.(*ast.CallExpr)
				if !ok || spawned[call] {
					return true
				}
				if lk, _ := f.LockOp(call); lk != nil {
					return true
				}
				sel, ok := ast.Unparen(call.Fun).(*ast.SelectorExpr)
				if !ok || f.ObjOf(sel.X) != types.Object(recv) {
					return true
				}
				fn, ok := f.Callee(call).(*types.Func)
				if !ok {
					return true
				}
				cf := la.Prog.FnOf(fn)
				if cf == nil {
					return true
				}
				held := la.HeldAt(f, call)
				if len(held) == 0 {
					return true
				}
				for lk, op := range la.acquires(cf, 0, map[*Fn]bool{}) {
					if _, h := held[lk]; h {
						out = append(out, Reacquire{f, call, lk, op})
					}
				}
				return true
			})
		}
	}
	return out
}
