package chk

import (
	"go/ast"
	"go/parser"
	"go/token"
	"go/types"
	"regexp"
	"strings"
	"sync"
)

// Patterns are Go expressions in which
//   - identifiers written in capitals (RECV, X, IP2) are holes that bind to a
//     sub-expression; a hole used twice must bind to the same expression (same
//     objects, see SameExpr);
//   - `_` matches any expression;
//   - every other identifier is an *anchor name*: a field, method, function,
//     package or type name that must be spelt the same (local variables are
//     never named in a pattern, they are holes whose binding is then constrained
//     through type information / definitions by the rule).
// Commutative operators match in either operand order, `a < b` matches `b > a`,
// and parentheses are ignored. A pattern is matched against the syntax tree of
// the type-checked program, never against text.

// Binds maps hole names to the expressions they matched.
type Binds map[string]ast.Expr

var (
	holeRe   = regexp.MustCompile(`^[A-Z][A-Z0-9]*$`)
	patCache sync.Map
)

func parsePat(p string) ast.Expr {
	if v, ok := patCache.Load(p); ok {
		return v.(ast.Expr)
	}
	e, err := parser.ParseExpr(p)
	if err != nil {
		panic("bad pattern " + p + ": " + err.Error())
	}
	ast.Inspect(e, func(n ast.Node) bool {
		if id, ok := n.(*ast.Ident); ok && !holeRe.MatchString(id.Name) && id.Name != "_" {
			Anchors.addIdent(id.Name)
		}
		return true
	})
	patCache.Store(p, e)
	return e
}

// Match matches expression e against the pattern, extending b.
func (f *Fn) Match(pat string, e ast.Expr, b Binds) bool {
	if e == nil {
		return false
	}
	if b == nil {
		b = Binds{}
	}
	return f.matchRoot(parsePat(pat), e, b)
}

// matchRoot: outside a search (Find, FindPat, ContainsPat walk every node, so a
// variable's definition is visited anyway) a local variable in value position
// stands for its definition; inside a search only the node itself is matched.
func (f *Fn) matchRoot(p ast.Expr, e ast.Expr, b Binds) bool {
	if f.searching > 0 {
		return f.matchNode(p, e, b)
	}
	return f.match(p, e, b)
}

// MatchNew matches and returns fresh bindings (nil when there is no match).
func (f *Fn) MatchNew(pat string, e ast.Expr) Binds {
	b := Binds{}
	if e != nil && f.matchRoot(parsePat(pat), e, b) {
		return b
	}
	return nil
}

func copyBinds(b Binds) Binds {
	c := Binds{}
	for k, v := range b {
		c[k] = v
	}
	return c
}

func restore(dst, src Binds) {
	for k := range dst {
		if _, ok := src[k]; !ok {
			delete(dst, k)
		}
	}
}

var mirrorOp = map[token.Token]token.Token{token.LSS: token.GTR, token.GTR: token.LSS, token.LEQ: token.GEQ, token.GEQ: token.LEQ}

func (f *Fn) match(p ast.Expr, e ast.Expr, b Binds) bool {
	p = ast.Unparen(p)
	if e == nil {
		return false
	}
	e = ast.Unparen(e)
	// see through temporaries: a structured pattern matched against a local variable
	// is matched against the variable's unambiguous definition (LocalDef).
	if id, ok := e.(*ast.Ident); ok {
		if _, isIdentPat := p.(*ast.Ident); !isIdentPat && f.matchDepth < 6 {
			if rhs := f.LocalDef(id); rhs != nil {
				save := copyBinds(b)
				f.matchDepth++
				ok := f.match(p, rhs, b)
				f.matchDepth--
				if ok {
					return true
				}
				restore(b, save)
			}
		}
	}
	// a field of a parameter struct built in place: in.a for in := T{a: x} is x
	if sel, ok := e.(*ast.SelectorExpr); ok && f.matchDepth < 6 {
		if v := f.FieldOfLocalLit(sel); v != nil {
			save := copyBinds(b)
			f.matchDepth++
			ok := f.match(p, v, b)
			f.matchDepth--
			if ok {
				return true
			}
			restore(b, save)
		}
	}
	// a conversion to the operand's own type is transparent: (string)(x) for a string x
	if c, ok := e.(*ast.CallExpr); ok && len(c.Args) == 1 && f.matchDepth < 6 {
		if tv, isT := f.Info().Types[c.Fun]; isT && tv.IsType() {
			if at, okA := f.Info().Types[c.Args[0]]; okA && at.Type != nil && types.Identical(at.Type, tv.Type) {
				if _, patIsCall := p.(*ast.CallExpr); !patIsCall {
					return f.match(p, c.Args[0], b)
				}
			}
		}
	}
	return f.matchNode(p, e, b)
}

// matchNode matches without looking through e itself (its sub-expressions are matched with match).
func (f *Fn) matchNode(p ast.Expr, e ast.Expr, b Binds) bool {
	p = ast.Unparen(p)
	if e == nil {
		return false
	}
	e = ast.Unparen(e)
	switch p := p.(type) {
	case *ast.Ident:
		if p.Name == "_" {
			return true
		}
		if holeRe.MatchString(p.Name) {
			if prev, ok := b[p.Name]; ok {
				return f.SameExpr(prev, e)
			}
			b[p.Name] = e
			return true
		}
		id, ok := e.(*ast.Ident)
		return ok && id.Name == p.Name
	case *ast.BasicLit:
		y, ok := e.(*ast.BasicLit)
		if ok && y.Kind == p.Kind && y.Value == p.Value {
			return true
		}
		// constants folded by the type checker
		if c := f.ConstVal(e); c != nil && c.ExactString() == p.Value {
			return true
		}
		return false
	case *ast.SelectorExpr:
		y, ok := e.(*ast.SelectorExpr)
		return ok && y.Sel.Name == p.Sel.Name && f.match(p.X, y.X, b)
	case *ast.IndexExpr:
		y, ok := e.(*ast.IndexExpr)
		return ok && f.match(p.X, y.X, b) && f.match(p.Index, y.Index, b)
	case *ast.StarExpr:
		y, ok := e.(*ast.StarExpr)
		return ok && f.match(p.X, y.X, b)
	case *ast.UnaryExpr:
		y, ok := e.(*ast.UnaryExpr)
		return ok && y.Op == p.Op && f.match(p.X, y.X, b)
	case *ast.BinaryExpr:
		y, ok := e.(*ast.BinaryExpr)
		if !ok {
			return false
		}
		save := copyBinds(b)
		if y.Op == p.Op && f.match(p.X, y.X, b) && f.match(p.Y, y.Y, b) {
			return true
		}
		restore(b, save)
		switch p.Op {
		case token.EQL, token.NEQ, token.LAND, token.LOR, token.ADD, token.MUL:
			if y.Op == p.Op && f.match(p.X, y.Y, b) && f.match(p.Y, y.X, b) {
				return true
			}
			restore(b, save)
		}
		if m, ok := mirrorOp[p.Op]; ok && y.Op == m {
			if f.match(p.X, y.Y, b) && f.match(p.Y, y.X, b) {
				return true
			}
			restore(b, save)
		}
		return false
	case *ast.CallExpr:
		y, ok := e.(*ast.CallExpr)
		if !ok {
			return false
		}
		if !f.match(p.Fun, y.Fun, b) {
			return false
		}
		// a trailing ETC hole matches any remaining arguments
		n := len(p.Args)
		if n > 0 {
			if id, ok := p.Args[n-1].(*ast.Ident); ok && id.Name == "ETC" {
				if len(y.Args) < n-1 {
					return false
				}
				for i := 0; i < n-1; i++ {
					if !f.match(p.Args[i], y.Args[i], b) {
						return false
					}
				}
				return true
			}
		}
		if len(y.Args) != n {
			return false
		}
		for i := range p.Args {
			if !f.match(p.Args[i], y.Args[i], b) {
				return false
			}
		}
		return true
	case *ast.SliceExpr:
		y, ok := e.(*ast.SliceExpr)
		if !ok || !f.match(p.X, y.X, b) {
			return false
		}
		opt := func(pp, ee ast.Expr) bool {
			if pp == nil {
				return ee == nil
			}
			return ee != nil && f.match(pp, ee, b)
		}
		return opt(p.Low, y.Low) && opt(p.High, y.High)
	case *ast.TypeAssertExpr:
		y, ok := e.(*ast.TypeAssertExpr)
		return ok && f.match(p.X, y.X, b)
	case *ast.CompositeLit:
		y, ok := e.(*ast.CompositeLit)
		if !ok {
			return false
		}
		if p.Type != nil && (y.Type == nil || !f.match(p.Type, y.Type, b)) {
			return false
		}
		// positional elements: same length, element-wise
		if len(p.Elts) > 0 {
			if _, isKV := p.Elts[0].(*ast.KeyValueExpr); !isKV {
				if len(p.Elts) != len(y.Elts) {
					return false
				}
				for i := range p.Elts {
					if !f.match(p.Elts[i], y.Elts[i], b) {
						return false
					}
				}
				return true
			}
		}
		// every key: value of the pattern must be present in e
		for _, pe := range p.Elts {
			pkv, ok := pe.(*ast.KeyValueExpr)
			if !ok {
				return false
			}
			found := false
			for _, ye := range y.Elts {
				ykv, ok := ye.(*ast.KeyValueExpr)
				if !ok {
					continue
				}
				save := copyBinds(b)
				if f.match(pkv.Key, ykv.Key, b) && f.match(pkv.Value, ykv.Value, b) {
					found = true
					break
				}
				restore(b, save)
			}
			if !found {
				return false
			}
		}
		return true
	case *ast.ArrayType:
		y, ok := e.(*ast.ArrayType)
		return ok && f.match(p.Elt, y.Elt, b)
	case *ast.MapType:
		y, ok := e.(*ast.MapType)
		return ok && f.match(p.Key, y.Key, b) && f.match(p.Value, y.Value, b)
	case *ast.StructType, *ast.InterfaceType, *ast.FuncType, *ast.ChanType:
		return types.ExprString(p) == types.ExprString(e)
	}
	return false
}

// HoleCheck constrains the binding of one hole.
type HoleCheck struct {
	Hole string
	OK   func(e ast.Expr) bool
}

// H is a convenience constructor.
func H(hole string, ok func(e ast.Expr) bool) HoleCheck { return HoleCheck{hole, ok} }

func holesOK(b Binds, checks []HoleCheck) bool {
	for _, c := range checks {
		e, ok := b[c.Hole]
		if !ok || !c.OK(e) {
			return false
		}
	}
	return true
}

// MatchWith matches and applies hole checks.
func (f *Fn) MatchWith(pat string, e ast.Expr, checks ...HoleCheck) Binds {
	b := f.MatchNew(pat, e)
	if b == nil || !holesOK(b, checks) {
		return nil
	}
	return b
}

// GPat builds a guard from a pattern: the guard states that an expression
// matching pat has truth value val. The pattern is decomposed along &&, || and !
// into a formula; each atomic sub-pattern is a leaf. `x != y` with value v is the
// same fact as `x == y` with value !v; comparison complements (!(a < b) is
// a >= b) and boolean locals assigned from a matching expression are recognised.
// A sub-pattern that is just an unconstrained hole is dropped (always true).
func (g *Graph) GPat(val bool, pat string, checks ...HoleCheck) Guard {
	gd := g.gpatForm(parsePat(pat), checks)
	if !val {
		return GNot(gd)
	}
	return gd
}

func (g *Graph) gpatForm(p ast.Expr, checks []HoleCheck) Guard {
	p = ast.Unparen(p)
	switch x := p.(type) {
	case *ast.UnaryExpr:
		if x.Op == token.NOT {
			return GNot(g.gpatForm(x.X, checks))
		}
	case *ast.BinaryExpr:
		switch x.Op {
		case token.LAND:
			return GAnd(g.gpatForm(x.X, checks), g.gpatForm(x.Y, checks))
		case token.LOR:
			return GOr(g.gpatForm(x.X, checks), g.gpatForm(x.Y, checks))
		}
	case *ast.Ident:
		if holeRe.MatchString(x.Name) {
			constrained := false
			for _, c := range checks {
				if c.Hole == x.Name {
					constrained = true
				}
			}
			if !constrained {
				return Guard{op: gTrue}
			}
		}
	}
	// the checks that concern holes of this sub-pattern
	holes := map[string]bool{}
	ast.Inspect(p, func(n ast.Node) bool {
		if id, ok := n.(*ast.Ident); ok && holeRe.MatchString(id.Name) {
			holes[id.Name] = true
		}
		return true
	})
	var mine []HoleCheck
	for _, c := range checks {
		if holes[c.Hole] {
			mine = append(mine, c)
		}
	}
	return GFunc(g.gpatLeaf(p, mine))
}

// gpatLeaf recognises facts stating that an expression matching p is true.
func (g *Graph) gpatLeaf(p ast.Expr, checks []HoleCheck) func(Fact) bool {
	want := true
	if be, ok := p.(*ast.BinaryExpr); ok && be.Op == token.NEQ {
		p = &ast.BinaryExpr{X: be.X, Op: token.EQL, Y: be.Y}
		want = false
	}
	return func(ft Fact) bool {
		e, v := ast.Unparen(ft.E), ft.Val
		for {
			if u, ok := e.(*ast.UnaryExpr); ok && u.Op == token.NOT {
				e, v = ast.Unparen(u.X), !v
				continue
			}
			break
		}
		if be, ok := e.(*ast.BinaryExpr); ok && be.Op == token.NEQ {
			e = &ast.BinaryExpr{X: be.X, Op: token.EQL, Y: be.Y, OpPos: be.OpPos}
			v = !v
		}
		try := func(e ast.Expr) bool {
			b := Binds{}
			return g.Fn.match(p, e, b) && holesOK(b, checks)
		}
		if v == want && try(e) {
			return true
		}
		// comparison complements: !(a < b) is a >= b etc.
		if be, ok := e.(*ast.BinaryExpr); ok && v != want {
			if c, ok := complementOp[be.Op]; ok {
				if try(&ast.BinaryExpr{X: be.X, Op: c, Y: be.Y, OpPos: be.OpPos}) {
					return true
				}
			}
		}
		// boolean local assigned from the expression
		if id, ok := e.(*ast.Ident); ok && v == want {
			if rhs, _ := g.DefOf(id, g.FactSite(id)); rhs != nil && try(ast.Unparen(rhs)) {
				return true
			}
		}
		return false
	}
}

var complementOp = map[token.Token]token.Token{token.LSS: token.GEQ, token.GEQ: token.LSS, token.GTR: token.LEQ, token.LEQ: token.GTR}

// GErrNil builds the guard "the error returned by a call matching callPat is
// nil" (isNil) or "is not nil" (!isNil); it recognises `f(...) == nil` and
// `err == nil` where err was last assigned from the call (the
// `if err := f(); err != nil` idiom).
func (g *Graph) GErrNil(isNil bool, callPat string, checks ...HoleCheck) Guard {
	return GFunc(func(ft Fact) bool {
		if c := g.okFlagCall(ft, isNil); c != nil {
			return g.Fn.MatchWith(callPat, c, checks...) != nil
		}
		x, y, eq, ok := EqParts(ft)
		if !ok || eq != isNil {
			return false
		}
		var other ast.Expr
		switch {
		case g.Fn.IsNilLit(y):
			other = x
		case g.Fn.IsNilLit(x):
			other = y
		default:
			return false
		}
		c := g.resolveCall(other)
		if c == nil {
			return false
		}
		// client.IgnoreNotFound(err) != nil says err != nil (and more); it says nothing when it is nil
		if fo, isF := g.Fn.Callee(c).(*types.Func); isF && fo.Name() == "IgnoreNotFound" && fo.Pkg() != nil && strings.HasSuffix(fo.Pkg().Path(), "controller-runtime/pkg/client") && len(c.Args) == 1 {
			if isNil {
				return false
			}
			if c = g.resolveCall(c.Args[0]); c == nil {
				return false
			}
		}
		return g.Fn.MatchWith(callPat, c, checks...) != nil
	})
}

// FindPat returns the sites of expressions matching the pattern.
func (g *Graph) FindPat(pat string, checks ...HoleCheck) []Site {
	return g.Find(func(n ast.Node) bool {
		e, ok := n.(ast.Expr)
		if !ok {
			return false
		}
		// do not match through parentheses twice
		if _, isParen := e.(*ast.ParenExpr); isParen {
			return false
		}
		return g.Fn.MatchWith(pat, e, checks...) != nil
	})
}

// ContainsPat builds a node predicate: the node contains an expression
// matching pat (function literals excluded).
func (f *Fn) ContainsPat(pat string, checks ...HoleCheck) func(ast.Node) bool {
	return func(top ast.Node) bool {
		found := false
		f.searching++
		defer func() { f.searching-- }()
		InspectNoLit(top, func(n ast.Node) bool {
			if e, ok := n.(ast.Expr); ok && f.MatchWith(pat, e, checks...) != nil {
				found = true
			}
			return !found
		})
		return found
	}
}

// IsAssignPat builds a node predicate for assignment statements `LHS = RHS`
// (any assignment token) whose single left and right sides match the patterns.
func (f *Fn) IsAssignPat(lhs, rhs string, checks ...HoleCheck) func(ast.Node) bool {
	return func(n ast.Node) bool {
		as, ok := n.(*ast.AssignStmt)
		if !ok || len(as.Lhs) != 1 || len(as.Rhs) != 1 {
			return false
		}
		b := Binds{}
		return f.Match(lhs, as.Lhs[0], b) && f.Match(rhs, as.Rhs[0], b) && holesOK(b, checks)
	}
}
