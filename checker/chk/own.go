package chk

import (
	"go/ast"
	"go/token"
	"go/types"
	"golang.org/x/tools/go/types/typeutil"
	"sort"
)

// Access is one syntactic access to a struct field anywhere in the module.
type Access struct {
	Fn   *Fn // enclosing declared function (nil for package-level initialisers)
	Sel  *ast.SelectorExpr
	Kind string   // "read", "assign" (whole value), "elem" (indexed store), "incdec", "delete", "addr", "method:<name>"
	Stmt ast.Node // the statement / call performing the access
}

func (a Access) IsWrite() bool {
	switch a.Kind {
	case "assign", "elem", "incdec", "delete", "addr":
		return true
	}
	return false
}

// EnclosingFn returns the declared function containing n.
func (p *Prog) EnclosingFn(n ast.Node) *Fn {
	for q := n; q != nil; q = p.parents[q] {
		if lit, ok := q.(*ast.FuncLit); ok {
			for _, f := range p.fnList {
				if f.Lit == lit {
					return f
				}
			}
		}
		if fd, ok := q.(*ast.FuncDecl); ok {
			for _, f := range p.fnList {
				if f.Decl == fd {
					return f
				}
			}
		}
	}
	return nil
}

// FieldAccesses returns every access to field fld in non-test files of the
// module, classified as read or one of the write kinds.
func (p *Prog) FieldAccesses(fld *types.Var) []Access {
	var out []Access
	if fld == nil {
		return nil
	}
	for _, fn := range p.fnList {
		info := fn.Info()
		ast.Inspect(fn.Body, func(n ast.Node) bool {
			s, ok := n.(*ast.SelectorExpr)
			if !ok {
				return true
			}
			sel := info.Selections[s]
			if sel == nil || sel.Obj() != types.Object(fld) {
				return true
			}
			out = append(out, p.classify(fn, s))
			return true
		})
	}
	sort.SliceStable(out, func(i, j int) bool { return out[i].Sel.Pos() < out[j].Sel.Pos() })
	return out
}

func (p *Prog) classify(fn *Fn, s *ast.SelectorExpr) Access {
	a := Access{Fn: fn, Sel: s, Kind: "read", Stmt: s}
	var cur ast.Node = s
	indexed := false
	for {
		par := p.parents[cur]
		switch x := par.(type) {
		case *ast.ParenExpr:
			cur = par
			continue
		case *ast.IndexExpr:
			if x.X == cur {
				indexed = true
				cur = par
				continue
			}
		case *ast.AssignStmt:
			for _, rh := range x.Rhs {
				if rh == cur && !indexed && isRefType(fn.Info().TypeOf(s)) {
					a.Kind, a.Stmt = "escape", x
				}
			}
			for _, l := range x.Lhs {
				if l == cur {
					a.Stmt = x
					if indexed {
						a.Kind = "elem"
					} else {
						a.Kind = "assign"
					}
					if x.Tok == token.DEFINE {
						a.Kind = "read"
					}
				}
			}
		case *ast.IncDecStmt:
			if x.X == cur {
				a.Kind, a.Stmt = "incdec", x
			}
		case *ast.UnaryExpr:
			if x.Op == token.AND && x.X == cur {
				a.Kind, a.Stmt = "addr", x
			}
		case *ast.CallExpr:
			isArg := false
			for _, arg := range x.Args {
				if arg == cur {
					isArg = true
				}
			}
			if id, ok := x.Fun.(*ast.Ident); ok && isArg {
				if b, ok := fn.Info().Uses[id].(*types.Builtin); ok {
					if b.Name() == "delete" && x.Args[0] == cur {
						a.Kind, a.Stmt = "delete", x
					}
					// len, cap, append(x.f, ...) (the assignment is classified separately) and
					// copy are not escapes
					return a
				}
			}
			if isArg && !indexed && isRefType(fn.Info().TypeOf(s)) {
				a.Kind, a.Stmt = "escape", x
			}
		case *ast.ReturnStmt:
			if !indexed && isRefType(fn.Info().TypeOf(s)) {
				a.Kind, a.Stmt = "escape", x
			}
		case *ast.KeyValueExpr:
			if x.Value == cur && !indexed && isRefType(fn.Info().TypeOf(s)) {
				a.Kind, a.Stmt = "escape", x
			}
		case *ast.SelectorExpr:
			// x.f.Method(...) on the field value
			if x.X == cur {
				if call, ok := p.parents[x].(*ast.CallExpr); ok && call.Fun == ast.Expr(x) {
					if _, isFn := fn.ObjOf(x).(*types.Func); isFn {
						a.Kind, a.Stmt = "method:"+x.Sel.Name, call
					}
				}
			}
		}
		return a
	}
}

// Writers returns the sorted set of function names that write the field.
func Writers(acc []Access) []string {
	set := map[string]bool{}
	for _, a := range acc {
		if a.IsWrite() && a.Fn != nil {
			set[a.Fn.Name()] = true
		}
	}
	var out []string
	for k := range set {
		out = append(out, k)
	}
	sort.Strings(out)
	return out
}

// CallSites returns every call in the module (function literals included)
// whose resolved callee is one of names, with the enclosing function.
type CallSite struct {
	Fn   *Fn
	Call *ast.CallExpr
}

func (p *Prog) CallSites(names ...string) []CallSite {
	var out []CallSite
	for _, fn := range p.fnList {
		for _, c := range fn.AllCallsIn(fn.Body, names...) {
			out = append(out, CallSite{fn, c})
		}
	}
	return out
}

// CallersOf lists the static call sites of f in the module (by object, whatever the spelling).
func (p *Prog) CallersOf(f *Fn) []CallSite {
	var out []CallSite
	if f == nil || f.Obj == nil {
		return nil
	}
	for _, fn := range p.fnList {
		if fn.Lit != nil {
			continue // literals are visited as part of their enclosing function
		}
		info := fn.Info()
		ast.Inspect(fn.Body, func(n ast.Node) bool {
			c, ok := n.(*ast.CallExpr)
			if !ok {
				return true
			}
			if o := typeutil.StaticCallee(info, c); o != nil && o.Origin() == f.Obj.Origin() {
				out = append(out, CallSite{fn, c})
			}
			return true
		})
	}
	return out
}

// FuncValueUses lists uses of the named function/method as a value (not in call
// position), e.g. method values stored into struct fields.
func (p *Prog) FuncValueUses(name string) []CallSite {
	var out []CallSite
	for _, fn := range p.fnList {
		info := fn.Info()
		ast.Inspect(fn.Body, func(n ast.Node) bool {
			var id *ast.Ident
			var expr ast.Expr
			switch x := n.(type) {
			case *ast.SelectorExpr:
				id, expr = x.Sel, x
			case *ast.Ident:
				id, expr = x, x
			default:
				return true
			}
			o, ok := info.Uses[id].(*types.Func)
			if !ok || ObjName(o) != name {
				return true
			}
			par := p.parents[expr]
			if sel, ok := par.(*ast.SelectorExpr); ok && sel.Sel == id {
				return true // visited through the selector
			}
			if call, ok := par.(*ast.CallExpr); ok && ast.Unparen(call.Fun) == expr {
				return true
			}
			out = append(out, CallSite{fn, &ast.CallExpr{Fun: expr}})
			return true
		})
	}
	return out
}

// isRefType: maps, slices, pointers, channels and funcs share storage when copied.
func isRefType(t types.Type) bool {
	if t == nil {
		return false
	}
	switch t.Underlying().(type) {
	case *types.Map, *types.Slice, *types.Pointer, *types.Chan:
		return true
	}
	return false
}

// ScratchReuse is a slice that is truncated in place (`x = x[:0]`) although its
// value escapes elsewhere (stored into a literal, a field, another variable,
// passed on): the holder of the old value sees the new elements.
type ScratchReuse struct {
	Fn     *Fn
	Reset  ast.Node // the x = x[:0] statement
	Escape ast.Node // a use through which the old backing array stays referenced
}

// ScratchReuses finds in-place truncations of slices that escape, in the given packages.
func (p *Prog) ScratchReuses(pkgs ...string) []ScratchReuse {
	var out []ScratchReuse
	type reset struct {
		f    *Fn
		stmt *ast.AssignStmt
		lhs  ast.Expr
	}
	var resets []reset
	for _, pk := range pkgs {
		for _, f := range p.FuncsIn(pk) {
			ast.Inspect(f.Body, func(n ast.Node) bool {
				as, ok := n.(*ast.AssignStmt)
				if !ok || len(as.Lhs) != len(as.Rhs) {
					return true
				}
				for i := range as.Lhs {
					sl, ok := ast.Unparen(as.Rhs[i]).(*ast.SliceExpr)
					if !ok || sl.Low != nil || sl.High == nil || !f.IsConstInt(sl.High, 0) {
						continue
					}
					if f.SameExpr(as.Lhs[i], sl.X) {
						resets = append(resets, reset{f, as, as.Lhs[i]})
					}
				}
				return true
			})
		}
	}
	for _, rs := range resets {
		obj := rs.f.ObjOf(rs.lhs)
		if obj == nil {
			continue
		}
		v, _ := obj.(*types.Var)
		scope := []*Fn{rs.f}
		if v != nil && v.IsField() {
			scope = nil
			for _, pk := range pkgs {
				scope = append(scope, p.FuncsIn(pk)...)
			}
		}
		for _, f := range scope {
			var esc ast.Node
			ast.Inspect(f.Body, func(n ast.Node) bool {
				if esc != nil {
					return false
				}
				e, ok := n.(ast.Expr)
				if !ok || f.ObjOf(e) != obj {
					return true
				}
				if _, isSelPart := p.parents[e].(*ast.SelectorExpr); isSelPart && p.parents[e].(*ast.SelectorExpr).Sel == e {
					return true // visited through the selector expression
				}
				// classify the use through its parents (conversions are transparent)
				cur := ast.Node(e)
				for {
					par := p.parents[cur]
					switch x := par.(type) {
					case *ast.ParenExpr:
						cur = par
						continue
					case *ast.CallExpr:
						if tv, ok := f.Info().Types[x.Fun]; ok && tv.IsType() {
							cur = par // conversion
							continue
						}
						if id, ok := x.Fun.(*ast.Ident); ok {
							switch id.Name {
							case "len", "cap":
								return true
							case "append":
								if len(x.Args) > 0 && x.Args[0] == cur {
									// x = append(x, ...) keeps ownership; anything else hands the slice on
									if as, ok := p.parents[par].(*ast.AssignStmt); ok && len(as.Lhs) == 1 && f.ObjOf(as.Lhs[0]) == obj {
										return true
									}
								}
							case "copy":
								return true
							}
						}
						esc = par // passed to a function
						return false
					case *ast.KeyValueExpr, *ast.CompositeLit, *ast.ReturnStmt:
						esc = par
						return false
					case *ast.AssignStmt:
						for i, r := range x.Rhs {
							if r == cur && i < len(x.Lhs) && f.ObjOf(x.Lhs[i]) != obj {
								esc = par
							}
						}
						return false
					case *ast.IndexExpr, *ast.SliceExpr, *ast.RangeStmt:
						return true
					}
					return true
				}
			})
			if esc != nil {
				out = append(out, ScratchReuse{rs.f, rs.stmt, esc})
				break
			}
		}
	}
	return out
}
