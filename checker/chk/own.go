package chk

import (
	"go/ast"
	"go/token"
	"go/types"
	"sort"
)

// Access is one syntactic access to a struct field anywhere in the module.
type Access struct {
	Fn   *Fn // enclosing declared function (nil for package-level initialisers)
	Sel  *ast.SelectorExpr
	Kind string   // "read", "assign" (whole value), "elem" (indexed store), "incdec", "delete", "addr", "method:<name>"
	Stmt ast.Node // the statement / call performing the access
}

func (a Access) IsWrite() bool {
	switch a.Kind {
	case "assign", "elem", "incdec", "delete", "addr":
		return true
	}
	return false
}

// EnclosingFn returns the declared function containing n.
func (p *Prog) EnclosingFn(n ast.Node) *Fn {
	for q := n; q != nil; q = p.parents[q] {
		if lit, ok := q.(*ast.FuncLit); ok {
			for _, f := range p.fnList {
				if f.Lit == lit {
					return f
				}
			}
		}
		if fd, ok := q.(*ast.FuncDecl); ok {
			for _, f := range p.fnList {
				if f.Decl == fd {
					return f
				}
			}
		}
	}
	return nil
}

// FieldAccesses returns every access to field fld in non-test files of the
// module, classified as read or one of the write kinds.
func (p *Prog) FieldAccesses(fld *types.Var) []Access {
	var out []Access
	if fld == nil {
		return nil
	}
	for _, fn := range p.fnList {
		info := fn.Info()
		ast.Inspect(fn.Body, func(n ast.Node) bool {
			s, ok := n.(*ast.SelectorExpr)
			if !ok {
				return true
			}
			sel := info.Selections[s]
			if sel == nil || sel.Obj() != types.Object(fld) {
				return true
			}
			out = append(out, p.classify(fn, s))
			return true
		})
	}
	sort.SliceStable(out, func(i, j int) bool { return out[i].Sel.Pos() < out[j].Sel.Pos() })
	return out
}

func (p *Prog) classify(fn *Fn, s *ast.SelectorExpr) Access {
	a := Access{Fn: fn, Sel: s, Kind: "read", Stmt: s}
	var cur ast.Node = s
	indexed := false
	for {
		par := p.parents[cur]
		switch x := par.(type) {
		case *ast.ParenExpr:
			cur = par
			continue
		case *ast.IndexExpr:
			if x.X == cur {
				indexed = true
				cur = par
				continue
			}
		case *ast.AssignStmt:
			for _, rh := range x.Rhs {
				if rh == cur && !indexed && isRefType(fn.Info().TypeOf(s)) {
					a.Kind, a.Stmt = "escape", x
				}
			}
			for _, l := range x.Lhs {
				if l == cur {
					a.Stmt = x
					if indexed {
						a.Kind = "elem"
					} else {
						a.Kind = "assign"
					}
					if x.Tok == token.DEFINE {
						a.Kind = "read"
					}
				}
			}
		case *ast.IncDecStmt:
			if x.X == cur {
				a.Kind, a.Stmt = "incdec", x
			}
		case *ast.UnaryExpr:
			if x.Op == token.AND && x.X == cur {
				a.Kind, a.Stmt = "addr", x
			}
		case *ast.CallExpr:
			isArg := false
			for _, arg := range x.Args {
				if arg == cur {
					isArg = true
				}
			}
			if id, ok := x.Fun.(*ast.Ident); ok && isArg {
				if b, ok := fn.Info().Uses[id].(*types.Builtin); ok {
					if b.Name() == "delete" && x.Args[0] == cur {
						a.Kind, a.Stmt = "delete", x
					}
					// len, cap, append(x.f, ...) (the assignment is classified separately) and
					// copy are not escapes
					return a
				}
			}
			if isArg && !indexed && isRefType(fn.Info().TypeOf(s)) {
				a.Kind, a.Stmt = "escape", x
			}
		case *ast.ReturnStmt:
			if !indexed && isRefType(fn.Info().TypeOf(s)) {
				a.Kind, a.Stmt = "escape", x
			}
		case *ast.KeyValueExpr:
			if x.Value == cur && !indexed && isRefType(fn.Info().TypeOf(s)) {
				a.Kind, a.Stmt = "escape", x
			}
		case *ast.SelectorExpr:
			// x.f.Method(...) on the field value
			if x.X == cur {
				if call, ok := p.parents[x].(*ast.CallExpr); ok && call.Fun == ast.Expr(x) {
					if _, isFn := fn.ObjOf(x).(*types.Func); isFn {
						a.Kind, a.Stmt = "method:"+x.Sel.Name, call
					}
				}
			}
		}
		return a
	}
}

// Writers returns the sorted set of function names that write the field.
func Writers(acc []Access) []string {
	set := map[string]bool{}
	for _, a := range acc {
		if a.IsWrite() && a.Fn != nil {
			set[a.Fn.Name()] = true
		}
	}
	var out []string
	for k := range set {
		out = append(out, k)
	}
	sort.Strings(out)
	return out
}

// CallSites returns every call in the module (function literals included)
// whose resolved callee is one of names, with the enclosing function.
type CallSite struct {
	Fn   *Fn
	Call *ast.CallExpr
}

func (p *Prog) CallSites(names ...string) []CallSite {
	var out []CallSite
	for _, fn := range p.fnList {
		for _, c := range fn.AllCallsIn(fn.Body, names...) {
			out = append(out, CallSite{fn, c})
		}
	}
	return out
}

// FuncValueUses lists uses of the named function/method as a value (not in call
// position), e.g. method values stored into struct fields.
func (p *Prog) FuncValueUses(name string) []CallSite {
	var out []CallSite
	for _, fn := range p.fnList {
		info := fn.Info()
		ast.Inspect(fn.Body, func(n ast.Node) bool {
			var id *ast.Ident
			var expr ast.Expr
			switch x := n.(type) {
			case *ast.SelectorExpr:
				id, expr = x.Sel, x
			case *ast.Ident:
				id, expr = x, x
			default:
				return true
			}
			o, ok := info.Uses[id].(*types.Func)
			if !ok || ObjName(o) != name {
				return true
			}
			par := p.parents[expr]
			if sel, ok := par.(*ast.SelectorExpr); ok && sel.Sel == id {
				return true // visited through the selector
			}
			if call, ok := par.(*ast.CallExpr); ok && ast.Unparen(call.Fun) == expr {
				return true
			}
			out = append(out, CallSite{fn, &ast.CallExpr{Fun: expr}})
			return true
		})
	}
	return out
}

// isRefType: maps, slices, pointers, channels and funcs share storage when copied.
func isRefType(t types.Type) bool {
	if t == nil {
		return false
	}
	switch t.Underlying().(type) {
	case *types.Map, *types.Slice, *types.Pointer, *types.Chan:
		return true
	}
	return false
}
