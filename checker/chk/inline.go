package chk

// Normalisation pre-pass: calls to small unexported helper functions that no rule
// names (non-anchors) are expanded at their call sites, textually, through the
// loader's overlay; the expanded program is type-checked again and the rules run
// on it. Extracting a helper out of an analysed function (or the tree already
// having such a helper) therefore does not change what the path rules see.
//
// The expansion preserves evaluation order: a call is expanded only where it is
// the first thing its statement evaluates (statement call, right-hand side,
// returned value, if/switch/range header), or where the helper is a single
// `return <expr>` whose parameters can be substituted by side-effect-free
// arguments. Everything else is left as a call. /repo is never written.

import (
	"fmt"
	"go/ast"
	"go/token"
	"go/types"
	"os"
	"regexp"
	"sort"
	"strings"
	"sync"

	"golang.org/x/tools/go/types/typeutil"
)

// ---- anchors ----------------------------------------------------------------

// anchorSet records the function names the rules refer to: full names passed to
// LookupFunc / IsCallTo and the bare identifiers spelt in expression patterns.
type anchorSet struct {
	mu     sync.Mutex
	names  map[string]bool
	idents map[string]bool
	// pinned: "pkgpath.name" of the functions of the confirmed tree that carry an anchor identifier (rules/anchors_gen.go);
	// pinnedBare: their bare names. A function whose bare name is an anchor identifier of functions in *other* packages
	// only (a new helper that happens to be called like an anchor elsewhere) is not an anchor.
	pinned     map[string]bool
	pinnedBare map[string]bool
}

// SetPinned installs the recorded anchor functions ("pkgpath.name").
func (a *anchorSet) SetPinned(keys []string) {
	a.mu.Lock()
	defer a.mu.Unlock()
	a.pinned, a.pinnedBare = map[string]bool{}, map[string]bool{}
	for _, k := range keys {
		a.pinned[k] = true
		if i := strings.LastIndexByte(k, '.'); i >= 0 {
			a.pinnedBare[k[i+1:]] = true
		}
	}
}

// AnchorKey is the key under which a function is recorded by SetPinned.
func AnchorKey(f *Fn) string {
	if f.Decl == nil || f.Pkg == nil {
		return ""
	}
	return f.Pkg.PkgPath + "." + f.Decl.Name.Name
}

// Anchors is the process-wide anchor record.
var Anchors = &anchorSet{names: map[string]bool{}, idents: map[string]bool{}}

func (a *anchorSet) addName(n string) {
	a.mu.Lock()
	a.names[n] = true
	a.mu.Unlock()
}

func (a *anchorSet) addIdent(n string) {
	a.mu.Lock()
	a.idents[n] = true
	a.mu.Unlock()
}

// AddNames registers frozen anchor names.
func (a *anchorSet) AddNames(ns ...string) {
	for _, n := range ns {
		a.addName(n)
	}
}

// AddIdents registers frozen anchor identifiers.
func (a *anchorSet) AddIdents(ns ...string) {
	for _, n := range ns {
		a.addIdent(n)
	}
}

// Snapshot returns the sorted anchor names and identifiers.
func (a *anchorSet) Snapshot() (names, idents []string) {
	a.mu.Lock()
	defer a.mu.Unlock()
	for n := range a.names {
		names = append(names, n)
	}
	for n := range a.idents {
		idents = append(idents, n)
	}
	sort.Strings(names)
	sort.Strings(idents)
	return
}

// Has reports whether the normalisation treats f as an anchor.
func (a *anchorSet) Has(f *Fn) bool { return a.has(f) }

func (a *anchorSet) has(f *Fn) bool {
	a.mu.Lock()
	defer a.mu.Unlock()
	if a.names[f.Name()] {
		return true
	}
	if f.Decl != nil && a.idents[f.Decl.Name.Name] {
		if ast.IsExported(f.Decl.Name.Name) && f.Body != nil && fieldGetter(f) {
			// the exported accessor of a field of an unexported type: no rule asks for it by its full name (that is
			// a.names), it only shares an identifier with something the patterns mention
			return false
		}
		if len(a.pinned) > 0 {
			// the table of the confirmed tree decides: a function that is not in it only shares the name of a variable,
			// a field or a function of another package that the rules mention
			return a.pinned[AnchorKey(f)]
		}
		return true
	}
	return false
}

// ---- normalised loading -----------------------------------------------------

// NormInfo describes what the normalisation pre-pass did.
type NormInfo struct {
	Rounds   int      `json:"rounds"`
	Expanded []string `json:"expanded_calls,omitempty"` // "caller <- helper"
	Removed  []string `json:"helpers_fully_expanded,omitempty"`
	Fallback string   `json:"fallback,omitempty"`
	Skipped  []string `json:"files_left_unexpanded,omitempty"` // files whose expansion did not type-check in some round
}

// LoadNormalised loads the tree, lets `dry` touch the rules once (to record the
// anchors), expands non-anchor helpers (at most maxRounds rounds) and returns the
// program the rules are decided on.
func LoadNormalised(opts LoadOpts, dry func(*Prog)) (*Prog, error) {
	p, err := Load(opts)
	if err != nil {
		return nil, err
	}
	if os.Getenv("MLB_NO_NORMALISE") != "" {
		return p, nil
	}
	if dry != nil {
		dry(p)
	}
	info := &NormInfo{}
	written := p
	const maxRounds = 4
	canonTry := 0 // 0: both rewrites, 1: library forms only, 2: methods only
	canonAgain := 0
	// round 0 and the last round rewrite library forms (canon.go); the rounds between expand helpers
	for round := -2; round <= maxRounds+2; round++ {
		var res roundPlan
		if round == -2 {
			// first pre-round: loops over a literal table of cases become one copy of the body per case (unroll.go)
			if os.Getenv("MLB_NO_CANON") != "" || os.Getenv("MLB_NO_UNROLL") != "" {
				continue
			}
			res = planTableUnroll(p)
			if len(res.files) == 0 {
				continue
			}
		} else if round == -1 {
			// pre-round: loops over this module's function iterators become the iterators' own loops (rangefunc.go)
			if os.Getenv("MLB_NO_CANON") != "" {
				continue
			}
			res = planRangeFunc(p)
			if len(res.files) == 0 {
				continue
			}
		} else if round == maxRounds+2 {
			// last round: lists that are only collected and then consumed by one loop (fuse.go)
			if os.Getenv("MLB_NO_CANON") != "" || os.Getenv("MLB_NO_FUSE") != "" {
				continue
			}
			res = planCollectFuse(p)
			if len(res.files) == 0 {
				continue
			}
		} else if round == 0 || round == maxRounds+1 {
			if os.Getenv("MLB_NO_CANON") != "" {
				continue
			}
			if round == 0 {
				res = planCanon(p, canonTry != 2, canonTry != 1).roundPlan
			} else {
				res = planCanon(p, true, false).roundPlan
			}
			if len(res.files) == 0 {
				continue
			}
		} else {
			res = planRound(p, round)
			if len(res.files) == 0 {
				round = maxRounds
				continue
			}
		}
		try := func(withRemovals bool) (*Prog, error) {
			changed := map[string][]byte{}
			lm := map[string][]int{}
			for k, v := range p.lineMaps {
				lm[k] = v
			}
			for name, fe := range res.files {
				txt, m := fe.apply(withRemovals)
				changed[name] = txt
				lm[name] = composeLines(p.lineMaps[name], m)
			}
			np, err := p.recheck(opts, changed)
			if err != nil {
				return nil, err
			}
			np.lineMaps = lm
			return np, nil
		}
		np, err := try(true)
		if err != nil {
			if os.Getenv("MLB_DEBUG_NORM") != "" {
				fmt.Fprintln(os.Stderr, "normalise: with removals:", err)
			}
			np, err = try(false)
			// an expansion that does not type-check spoils only its own file: the edits of the files named in the
			// errors are dropped and the rest of the round is kept
			for attempt := 0; err != nil && attempt < 3; attempt++ {
				dropped := 0
				for name := range res.files {
					if strings.Contains(err.Error(), name+":") {
						delete(res.files, name)
						info.Skipped = append(info.Skipped, fmt.Sprintf("round %d: %s (%s)", round, strings.TrimPrefix(name, p.Dir+"/"), firstLine(err.Error())))
						dropped++
					}
				}
				if dropped == 0 || len(res.files) == 0 {
					break
				}
				np, err = try(false)
			}
			if err != nil {
				info.Fallback = fmt.Sprintf("round %d: expanded sources do not type-check (%v); analysing the previous form", round, firstLine(err.Error()))
				if round < 0 {
					continue
				}
				if round == 0 {
					if canonTry < 2 {
						canonTry++
						round--
					}
					continue
				}
				if round < maxRounds {
					round = maxRounds
					continue
				}
				break
			}
		} else {
			info.Removed = append(info.Removed, res.removed...)
		}
		info.Expanded = append(info.Expanded, res.expanded...)
		if round == 0 && canonAgain < 3 {
			// a rename made in this round can enable another rewrite of the same round (a function that got an anchored
			// method's name back gets its receiver back next): one more pass
			for _, e := range res.expanded {
				if strings.HasSuffix(e, "(again)") {
					canonAgain++
					round--
					break
				}
			}
		}
		if round <= maxRounds && round >= 0 {
			info.Rounds = round
		}
		p = np
	}
	p.Norm = info
	if p != written {
		p.Written = written
	}
	if d := os.Getenv("MLB_DUMP_NORM"); d != "" {
		for name, b := range p.overlay {
			if ob, orig := opts.Overlay[name]; orig && string(ob) == string(b) {
				continue
			}
			rel := strings.TrimPrefix(name, p.Dir)
			out := d + rel
			os.MkdirAll(out[:strings.LastIndexByte(out, '/')], 0o755)
			os.WriteFile(out, b, 0o644)
		}
		os.WriteFile(d+"/EXPANDED.txt", []byte(strings.Join(info.Expanded, "\n")+"\n--removed--\n"+strings.Join(info.Removed, "\n")+"\n"), 0o644)
	}
	return p, nil
}

func firstLine(s string) string {
	if i := strings.IndexByte(s, '\n'); i >= 0 {
		if j := strings.IndexByte(s[i+1:], '\n'); j >= 0 {
			return s[:i+1+j]
		}
	}
	return s
}

// composeLines composes line maps: prev maps lines of the previous text to the
// original, cur maps lines of the new text to the previous text.
func composeLines(prev, cur []int) []int {
	if prev == nil {
		return cur
	}
	out := make([]int, len(cur))
	for i, l := range cur {
		if l >= 0 && l < len(prev) {
			out[i] = prev[l]
		} else {
			out[i] = l
		}
	}
	return out
}

// ---- planning one round -----------------------------------------------------

type textEdit struct {
	start, end int // byte offsets in the file
	text       string
	removal    bool // deletion of a fully expanded helper (optional)
}

type fileEdits struct {
	name    string
	src     []byte
	edits   []textEdit
	imports []string // extra import lines
}

func (fe *fileEdits) apply(withRemovals bool) ([]byte, []int) {
	eds := make([]textEdit, 0, len(fe.edits))
	for _, e := range fe.edits {
		if e.removal && !withRemovals {
			continue
		}
		eds = append(eds, e)
	}
	sort.Slice(eds, func(i, j int) bool { return eds[i].start < eds[j].start })
	var out []byte
	var lines []int // new line index (0-based) -> original line number (1-based)
	origLine := 1
	emit := func(b []byte, fixed bool, fixedLine int) {
		for _, c := range b {
			if len(lines) == 0 {
				lines = append(lines, origLine)
			}
			out = append(out, c)
			if c == '\n' {
				if !fixed {
					origLine++
					lines = append(lines, origLine)
				} else {
					lines = append(lines, fixedLine)
				}
			}
		}
	}
	pos := 0
	for _, e := range eds {
		if e.start < pos {
			continue // overlapping (must not happen; keep the first)
		}
		emit(fe.src[pos:e.start], false, 0)
		emit([]byte(e.text), true, origLine)
		// skip the replaced text, counting its lines
		for _, c := range fe.src[e.start:e.end] {
			if c == '\n' {
				origLine++
			}
		}
		if len(lines) > 0 {
			lines[len(lines)-1] = origLine
		}
		pos = e.end
	}
	emit(fe.src[pos:], false, 0)
	// 1-based access: lines[k] is the original line of new line k+1; shift so that index = new line
	m := make([]int, len(lines)+1)
	copy(m[1:], lines)
	return out, m
}

type roundPlan struct {
	files    map[string]*fileEdits
	expanded []string
	removed  []string
}

type inliner struct {
	lastImports  map[string]string // import path -> name needed by the expansion prepared last (freeNamesAgree)
	addedImports map[string]bool   // file name + path: already added in this round
	p            *Prog
	round        int
	ctr          int
	files        map[string]*fileEdits
	elig         map[*Fn]bool
	refs         map[*types.Func]int // references to each function of the module outside test files (lazily computed)
}

// references counts the identifiers that denote f outside test files.
func (in *inliner) references(f *types.Func) int {
	if in.refs == nil {
		in.refs = map[*types.Func]int{}
		for _, pkg := range in.p.Pkgs {
			for id, o := range pkg.TypesInfo.Uses {
				if fo, ok := o.(*types.Func); ok && !strings.HasSuffix(in.p.Fset.Position(id.Pos()).Filename, "_test.go") {
					in.refs[fo.Origin()]++
				}
			}
		}
	}
	return in.refs[f.Origin()]
}

func (in *inliner) file(pos token.Pos) *fileEdits {
	name := in.p.Fset.Position(pos).Filename
	if fe := in.files[name]; fe != nil {
		return fe
	}
	var src []byte
	if b, ok := in.p.overlay[name]; ok {
		src = b
	} else {
		src, _ = os.ReadFile(name)
	}
	fe := &fileEdits{name: name, src: src}
	in.files[name] = fe
	return fe
}

func (in *inliner) srcOf(pos token.Pos) []byte {
	name := in.p.Fset.Position(pos).Filename
	if fe := in.files[name]; fe != nil {
		return fe.src
	}
	if b, ok := in.p.overlay[name]; ok {
		return b
	}
	b, _ := os.ReadFile(name)
	return b
}

func (in *inliner) off(pos token.Pos) int { return in.p.Fset.Position(pos).Offset }

func (in *inliner) text(from, to token.Pos) string {
	src := in.srcOf(from)
	a, b := in.off(from), in.off(to)
	if a < 0 || b > len(src) || a > b {
		return ""
	}
	return string(src[a:b])
}

// eligible decides whether calls to f may be expanded.
func (in *inliner) eligible(f *Fn) bool {
	if v, ok := in.elig[f]; ok {
		return v
	}
	ok := in.eligible1(f)
	if os.Getenv("MLB_DEBUG_EXPAND") != "" && f.Decl != nil && strings.HasSuffix(os.Getenv("MLB_DEBUG_EXPAND"), "."+f.Decl.Name.Name) {
		fmt.Fprintf(os.Stderr, "eligible %s = %v (getter=%v anchor=%v)\n", f.Name(), ok, fieldGetter(f), Anchors.has(f))
	}
	in.elig[f] = ok
	return ok
}

// eligibleGo: f may be expanded as the body of `go f(...)`: unexported, no anchor, no results, not recursive, not
// generic; anything else (select, defer, labels) is fine because the body is not spliced into other statements.
func (in *inliner) eligibleGo(f *Fn) bool {
	if f.Decl == nil || f.Obj == nil || f.Body == nil || ast.IsExported(f.Decl.Name.Name) || Anchors.has(f) {
		return false
	}
	sig, _ := f.Obj.Type().(*types.Signature)
	if sig == nil || sig.Results().Len() != 0 || sig.Variadic() || sig.TypeParams().Len() > 0 || sig.RecvTypeParams().Len() > 0 {
		return false
	}
	rec := false
	ast.Inspect(f.Body, func(n ast.Node) bool {
		if c, ok := n.(*ast.CallExpr); ok {
			if o := typeutil.StaticCallee(f.Info(), c); o != nil && o == f.Obj {
				rec = true
			}
		}
		return !rec
	})
	return !rec
}

func (in *inliner) eligible1(f *Fn) bool {
	if f.Decl == nil || f.Obj == nil || f.Body == nil {
		return false
	}
	name := f.Decl.Name.Name
	if name == "init" || name == "main" || name == "_" {
		return false
	}
	if ast.IsExported(name) && !fieldGetter(f) {
		return false
	}
	if Anchors.has(f) {
		return false
	}
	sig, _ := f.Obj.Type().(*types.Signature)
	if sig == nil || sig.RecvTypeParams().Len() > 0 {
		return false
	}
	if sig.TypeParams().Len() > 0 && f.Decl.Type.Results != nil {
		// a generic helper is expanded with the type arguments of the call written out; named results are left alone
		for _, r := range f.Decl.Type.Results.List {
			if len(r.Names) > 0 {
				return false
			}
		}
	}
	if f.Decl.Recv != nil {
		for _, r := range f.Decl.Recv.List {
			if len(r.Names) > 1 {
				return false
			}
		}
	}
	nstmt := 0
	bad := false
	ast.Inspect(f.Body, func(n ast.Node) bool {
		switch x := n.(type) {
		case *ast.DeferStmt, *ast.LabeledStmt, *ast.SelectStmt, *ast.GoStmt:
			bad = true
		case *ast.BranchStmt:
			if x.Tok == token.GOTO || x.Label != nil {
				bad = true
			}
		case *ast.CallExpr:
			if id, ok := x.Fun.(*ast.Ident); ok && id.Name == "recover" {
				bad = true
			}
			if o := typeutil.StaticCallee(f.Info(), x); o != nil && o == f.Obj {
				bad = true // recursive
			}
		case ast.Stmt:
			nstmt++
		}
		return !bad
	})
	if bad {
		return false
	}
	if nstmt > 60 && !(nstmt <= 400 && in.references(f.Obj) == 1) {
		// a long function is expanded only where it is used once (a phase of its only caller moved out: nothing is
		// duplicated)
		return false
	}
	// build-constrained files are left alone
	for _, cg := range in.fileOfNode(f.Decl).Comments {
		if cg.End() < in.fileOfNode(f.Decl).Package {
			for _, c := range cg.List {
				if strings.HasPrefix(c.Text, "//go:build") || strings.HasPrefix(c.Text, "// +build") {
					return false
				}
			}
		}
	}
	return true
}

// fieldGetter: `func (r *T) Name() F { return r.f }` on an unexported type T: the accessor of a field. A static call of
// it is the field read, exported name or not.
func fieldGetter(f *Fn) bool {
	if f.Decl.Recv == nil || len(f.Decl.Recv.List) != 1 || len(f.Decl.Recv.List[0].Names) != 1 || f.Decl.Type.Params.NumFields() != 0 || len(f.Body.List) != 1 {
		return false
	}
	rt := f.Decl.Recv.List[0].Type
	if st, ok := rt.(*ast.StarExpr); ok {
		rt = st.X
	}
	if id, ok := rt.(*ast.Ident); !ok || ast.IsExported(id.Name) {
		return false
	}
	ret, ok := f.Body.List[0].(*ast.ReturnStmt)
	if !ok || len(ret.Results) != 1 {
		return false
	}
	sel, ok := ast.Unparen(ret.Results[0]).(*ast.SelectorExpr)
	if !ok {
		return false
	}
	x, ok := ast.Unparen(sel.X).(*ast.Ident)
	if !ok || f.Info().Uses[x] != f.Info().Defs[f.Decl.Recv.List[0].Names[0]] {
		return false
	}
	s := f.Info().Selections[sel]
	return s != nil && s.Kind() == types.FieldVal
}

func (in *inliner) fileOfNode(n ast.Node) *ast.File {
	for m := n; m != nil; m = in.p.parents[m] {
		if f, ok := m.(*ast.File); ok {
			return f
		}
	}
	return nil
}

// site is one expandable call.
type callSite struct {
	call   *ast.CallExpr
	callee *Fn
	owner  *ast.FuncDecl // enclosing declaration (nil for package-level var literals)
	pkgFn  *Fn           // any Fn of the package (for Info)
	file   *ast.File
}

func planRound(p *Prog, round int) roundPlan {
	in := &inliner{p: p, round: round, files: map[string]*fileEdits{}, elig: map[*Fn]bool{}}
	// collect sites
	var sites []callSite
	uses := map[*types.Func]int{}     // all references to a helper
	callUses := map[*types.Func]int{} // references in expandable call position
	for _, pkg := range p.Pkgs {
		info := pkg.TypesInfo
		for _, file := range pkg.Syntax {
			fname := p.Fset.Position(file.Pos()).Filename
			if strings.HasSuffix(fname, "_test.go") {
				continue
			}
			for id, o := range info.Uses {
				if fo, ok := o.(*types.Func); ok && id.Pos() >= file.Pos() && id.End() <= file.End() {
					uses[fo.Origin()]++
				}
			}
			ast.Inspect(file, func(n ast.Node) bool {
				call, ok := n.(*ast.CallExpr)
				if !ok {
					return true
				}
				fo := typeutil.StaticCallee(info, call)
				if fo == nil {
					return true
				}
				cf := p.FnOf(fo)
				if cf == nil || cf.Pkg != pkg {
					return true
				}
				if !in.eligible(cf) {
					// the function started by a go statement moves as a whole into a literal: its returns, defers,
					// selects and labels stay valid there
					if gs, isGo := p.parents[call].(*ast.GoStmt); !isGo || gs.Call != call || !in.eligibleGo(cf) {
						return true
					}
				}
				var owner *ast.FuncDecl
				for m := ast.Node(call); m != nil; m = p.parents[m] {
					if fd, ok := m.(*ast.FuncDecl); ok {
						owner = fd
						break
					}
				}
				if owner != nil && owner == cf.Decl {
					return true
				}
				callUses[fo.Origin()]++
				sites = append(sites, callSite{call: call, callee: cf, owner: owner, file: file, pkgFn: cf})
				return true
			})
		}
	}
	sort.Slice(sites, func(i, j int) bool { return sites[i].call.Pos() < sites[j].call.Pos() })
	type rng struct{ a, b token.Pos }
	var taken []rng
	overlaps := func(a, b token.Pos) bool {
		for _, r := range taken {
			if a < r.b && r.a < b {
				return true
			}
		}
		return false
	}
	done := map[*types.Func]int{}
	plan := roundPlan{files: in.files}
	var frozen []rng // declarations whose text was copied in this round
	inFrozen := func(a, b token.Pos) bool {
		for _, r := range frozen {
			if a < r.b && r.a < b {
				return true
			}
		}
		return false
	}
	for _, s := range sites {
		in.lastImports = nil
		ed, a, b, ok := in.expand(s)
		if !ok {
			continue
		}
		needImports := in.lastImports
		// the copied helper text must not itself be edited in this round, and edits must not overlap
		if overlaps(a, b) || inFrozen(a, b) || overlaps(s.callee.Decl.Pos(), s.callee.Decl.End()) {
			continue
		}
		taken = append(taken, rng{a, b})
		frozen = append(frozen, rng{s.callee.Decl.Pos(), s.callee.Decl.End()})
		// the copy contains the helper's own calls once more
		ast.Inspect(s.callee.Body, func(n ast.Node) bool {
			if id, ok := n.(*ast.Ident); ok {
				if fo, ok := s.callee.Info().Uses[id].(*types.Func); ok {
					uses[fo.Origin()]++
				}
			}
			return true
		})
		fe := in.file(a)
		fe.edits = append(fe.edits, ed...)
		for path, name := range needImports {
			if in.addedImports == nil {
				in.addedImports = map[string]bool{}
			}
			key := fe.name + "\x00" + path
			if s.file != nil && !in.addedImports[key] {
				in.addedImports[key] = true
				fe.edits = append(fe.edits, textEdit{start: in.off(s.file.Name.End()), end: in.off(s.file.Name.End()), text: "\n\nimport " + name + " \"" + path + "\"\n"})
			}
		}
		done[s.callee.Obj]++
		caller := "package-level"
		if s.owner != nil {
			caller = s.owner.Name.Name
		}
		plan.expanded = append(plan.expanded, caller+" <- "+s.callee.Name())
	}
	// local closures that are one expression (`key := func(i int) T { return E }`) are expanded at their calls
	for _, pkg := range p.Pkgs {
		info := pkg.TypesInfo
		for _, file := range pkg.Syntax {
			if strings.HasSuffix(p.Fset.Position(file.Pos()).Filename, "_test.go") {
				continue
			}
			ast.Inspect(file, func(n ast.Node) bool {
				as, ok := n.(*ast.AssignStmt)
				if !ok || as.Tok != token.DEFINE || len(as.Lhs) != 1 || len(as.Rhs) != 1 {
					return true
				}
				lit, ok := as.Rhs[0].(*ast.FuncLit)
				name, ok2 := as.Lhs[0].(*ast.Ident)
				if !ok || !ok2 || len(lit.Body.List) == 0 {
					return true
				}
				// one expression: substituted at the calls; otherwise a block of statements expanded like a helper
				_, single := lit.Body.List[0].(*ast.ReturnStmt)
				single = single && len(lit.Body.List) == 1
				obj := info.Defs[name]
				if obj == nil {
					return true
				}
				switch p.parents[as].(type) {
				case *ast.BlockStmt, *ast.CaseClause:
				default:
					return true
				}
				var calls []*ast.CallExpr
				var blanks []*ast.AssignStmt
				okAll := true
				for id, o := range info.Uses {
					if o != obj {
						continue
					}
					// `_ = name` (written by an earlier expansion round to keep the binding used)
					if bs, isAs := p.parents[id].(*ast.AssignStmt); isAs && bs.Tok == token.ASSIGN && len(bs.Lhs) == 1 && len(bs.Rhs) == 1 && bs.Rhs[0] == ast.Expr(id) {
						if l, isId := bs.Lhs[0].(*ast.Ident); isId && l.Name == "_" {
							blanks = append(blanks, bs)
							continue
						}
					}
					call, isCall := p.parents[id].(*ast.CallExpr)
					if !isCall || call.Fun != ast.Expr(id) || containsNode(lit, call) {
						okAll = false
						break
					}
					calls = append(calls, call)
				}
				if !okAll || len(calls) == 0 {
					return true
				}
				pf := &Fn{Prog: p, Pkg: pkg, Lit: lit, Body: lit.Body, Type: lit.Type, name: name.Name + "$closure"}
				var eds []textEdit
				var rs []rng
				for _, call := range calls {
					if !single {
						var owner *ast.FuncDecl
						for m := ast.Node(call); m != nil; m = p.parents[m] {
							if fd, ok := m.(*ast.FuncDecl); ok {
								owner = fd
								break
							}
						}
						ce, a, b, ok := in.expand(callSite{call: call, callee: pf, owner: owner, file: file, pkgFn: pf})
						if !ok || overlaps(a, b) || inFrozen(a, b) {
							return true
						}
						eds = append(eds, ce...)
						rs = append(rs, rng{a, b})
						continue
					}
					bb := &bodyBuilder{in: in, s: callSite{call: call, callee: pf, file: file, pkgFn: pf}, info: info}
					if !bb.prepare() {
						return true
					}
					txt, ok := bb.asExpression()
					if !ok || overlaps(call.Pos(), call.End()) || inFrozen(call.Pos(), call.End()) {
						return true
					}
					eds = append(eds, textEdit{start: in.off(call.Pos()), end: in.off(call.End()), text: txt})
					rs = append(rs, rng{call.Pos(), call.End()})
				}
				// calls nested in one another would overlap
				for i := range rs {
					for j := range rs {
						if i != j && rs[i].a < rs[j].b && rs[j].a < rs[i].b {
							return true
						}
					}
				}
				if overlaps(as.Pos(), as.End()) || inFrozen(as.Pos(), as.End()) {
					return true
				}
				taken = append(taken, rs...)
				taken = append(taken, rng{as.Pos(), as.End()})
				fe := in.file(as.Pos())
				fe.edits = append(fe.edits, eds...)
				fe.edits = append(fe.edits, textEdit{start: in.off(as.Pos()), end: in.off(as.End()), text: ""})
				for _, bs := range blanks {
					if !overlaps(bs.Pos(), bs.End()) && !inFrozen(bs.Pos(), bs.End()) {
						fe.edits = append(fe.edits, textEdit{start: in.off(bs.Pos()), end: in.off(bs.End()), text: ""})
						taken = append(taken, rng{bs.Pos(), bs.End()})
					}
				}
				plan.expanded = append(plan.expanded, "local closure "+name.Name+" at "+p.Rel(as.Pos()))
				return true
			})
		}
	}
	// index loops over a collection become range loops (same iterations, same element expressions)
	for _, pkg := range p.Pkgs {
		for _, file := range pkg.Syntax {
			if strings.HasSuffix(p.Fset.Position(file.Pos()).Filename, "_test.go") {
				continue
			}
			ast.Inspect(file, func(n ast.Node) bool {
				fs, ok := n.(*ast.ForStmt)
				if !ok {
					return true
				}
				hdr, ok := in.indexLoopHeader(pkg.TypesInfo, fs)
				if !ok || overlaps(fs.Pos(), fs.Body.Lbrace) || inFrozen(fs.Pos(), fs.Body.Lbrace) {
					return true
				}
				taken = append(taken, rng{fs.Pos(), fs.Body.Lbrace})
				fe := in.file(fs.Pos())
				fe.edits = append(fe.edits, textEdit{start: in.off(fs.Pos()), end: in.off(fs.Body.Lbrace), text: hdr})
				plan.expanded = append(plan.expanded, "index loop -> range loop at "+p.Rel(fs.Pos()))
				return true
			})
		}
	}
	// helpers whose every reference was expanded are removed (optional edit)
	for fo, n := range done {
		if dbg := os.Getenv("MLB_DEBUG_EXPAND"); dbg != "" && strings.HasSuffix(ShortName(fo), dbg) {
			fmt.Fprintln(os.Stderr, "removal", ShortName(fo), "done", n, "uses", uses[fo], "callUses", callUses[fo])
		}
		if n == uses[fo] && n == callUses[fo] {
			cf := p.FnOf(fo)
			if cf == nil || cf.Decl.Recv != nil && in.methodNeeded(cf) {
				continue
			}
			start := cf.Decl.Pos()
			if cf.Decl.Doc != nil {
				start = cf.Decl.Doc.Pos()
			}
			if overlaps(start, cf.Decl.End()) {
				continue
			}
			fe := in.file(start)
			fe.edits = append(fe.edits, textEdit{start: in.off(start), end: in.off(cf.Decl.End()), text: "", removal: true})
			plan.removed = append(plan.removed, cf.Name())
		}
	}
	// unexported helpers that nothing refers to any more (their calls were expanded in an earlier round) go too
	for _, cf := range p.fnList {
		if cf.Decl == nil || cf.Obj == nil || uses[cf.Obj] != 0 || !in.eligible(cf) {
			continue
		}
		if cf.Decl.Recv != nil && in.methodNeeded(cf) {
			continue
		}
		start := cf.Decl.Pos()
		if cf.Decl.Doc != nil {
			start = cf.Decl.Doc.Pos()
		}
		if overlaps(start, cf.Decl.End()) || inFrozen(start, cf.Decl.End()) {
			continue
		}
		taken = append(taken, rng{start, cf.Decl.End()})
		fe := in.file(start)
		fe.edits = append(fe.edits, textEdit{start: in.off(start), end: in.off(cf.Decl.End()), text: "", removal: true})
		plan.removed = append(plan.removed, cf.Name())
	}
	in.keepImportsUsed(&plan)
	for name, fe := range in.files {
		if len(fe.edits) == 0 {
			delete(in.files, name)
		}
	}
	sort.Strings(plan.expanded)
	sort.Strings(plan.removed)
	return plan
}

// indexLoopHeader recognises `for i := 0; i < len(X); i++ {` where the body
// neither assigns i nor X, and returns the equivalent range header.
func (in *inliner) indexLoopHeader(info *types.Info, fs *ast.ForStmt) (string, bool) {
	init, ok := fs.Init.(*ast.AssignStmt)
	if !ok || init.Tok != token.DEFINE || len(init.Lhs) != 1 || len(init.Rhs) != 1 {
		return "", false
	}
	iv, ok := init.Lhs[0].(*ast.Ident)
	if !ok {
		return "", false
	}
	if tv, ok := info.Types[init.Rhs[0]]; !ok || tv.Value == nil || tv.Value.ExactString() != "0" {
		return "", false
	}
	iobj := info.Defs[iv]
	cond, ok := fs.Cond.(*ast.BinaryExpr)
	if !ok || cond.Op != token.LSS {
		return "", false
	}
	if id, ok := ast.Unparen(cond.X).(*ast.Ident); !ok || info.Uses[id] != iobj {
		return "", false
	}
	lc, ok := ast.Unparen(cond.Y).(*ast.CallExpr)
	if !ok || len(lc.Args) != 1 {
		return "", false
	}
	if id, ok := lc.Fun.(*ast.Ident); !ok || id.Name != "len" {
		return "", false
	} else if _, isB := info.Uses[id].(*types.Builtin); !isB {
		return "", false
	}
	coll := lc.Args[0]
	if !callFree(coll) {
		return "", false
	}
	switch info.TypeOf(coll).Underlying().(type) {
	case *types.Slice, *types.Array:
	default:
		return "", false // strings range over runes, maps have no index
	}
	post, ok := fs.Post.(*ast.IncDecStmt)
	if !ok || post.Tok != token.INC {
		return "", false
	}
	if id, ok := post.X.(*ast.Ident); !ok || info.Uses[id] != iobj {
		return "", false
	}
	// the body must not assign i or the collection
	collRoot := coll
	for {
		switch x := ast.Unparen(collRoot).(type) {
		case *ast.SelectorExpr:
			collRoot = x.X
			continue
		}
		break
	}
	var collObj types.Object
	if id, ok := ast.Unparen(collRoot).(*ast.Ident); ok {
		collObj = info.Uses[id]
	}
	collText := in.text(coll.Pos(), coll.End())
	bad := false
	uses := 0
	ast.Inspect(fs.Body, func(n ast.Node) bool {
		mark := func(e ast.Expr) {
			e = ast.Unparen(e)
			if id, ok := e.(*ast.Ident); ok && (info.Uses[id] == iobj || (collObj != nil && info.Uses[id] == collObj)) {
				bad = true
			}
			if in.text(e.Pos(), e.End()) == collText {
				bad = true
			}
		}
		switch s := n.(type) {
		case *ast.Ident:
			if info.Uses[s] == iobj {
				uses++
			}
		case *ast.AssignStmt:
			for _, l := range s.Lhs {
				mark(l)
			}
		case *ast.IncDecStmt:
			mark(s.X)
		case *ast.UnaryExpr:
			if s.Op == token.AND {
				if id, ok := ast.Unparen(s.X).(*ast.Ident); ok && info.Uses[id] == iobj {
					bad = true
				}
			}
		case *ast.RangeStmt:
			if s.Tok == token.ASSIGN {
				if s.Key != nil {
					mark(s.Key)
				}
				if s.Value != nil {
					mark(s.Value)
				}
			}
		}
		return !bad
	})
	if bad {
		return "", false
	}
	if uses == 0 {
		return "for range " + collText + " ", true
	}
	return "for " + iv.Name + " := range " + collText + " ", true
}

// keepImportsUsed cancels the removals in a file when they would leave one of
// the file's imports without a use.
func (in *inliner) keepImportsUsed(plan *roundPlan) {
	for _, pkg := range in.p.Pkgs {
		for _, file := range pkg.Syntax {
			name := in.p.Fset.Position(file.Pos()).Filename
			fe := in.files[name]
			if fe == nil {
				continue
			}
			var rem []textEdit
			for _, e := range fe.edits {
				if e.removal {
					rem = append(rem, e)
				}
			}
			if len(rem) == 0 {
				continue
			}
			inRem := func(pos token.Pos) bool {
				o := in.off(pos)
				for _, e := range rem {
					if o >= e.start && o < e.end {
						return true
					}
				}
				return false
			}
			outside, inside := map[*types.PkgName]int{}, map[*types.PkgName]int{}
			for id, o := range pkg.TypesInfo.Uses {
				pn, ok := o.(*types.PkgName)
				if !ok || id.Pos() < file.Pos() || id.End() > file.End() {
					continue
				}
				if inRem(id.Pos()) {
					inside[pn]++
				} else {
					outside[pn]++
				}
			}
			cancel := false
			for pn := range inside {
				if outside[pn] == 0 {
					// the helper's text was copied to its callers in this round: the import is still used there
					copied := false
					for _, e := range fe.edits {
						if !e.removal && strings.Contains(e.text, pn.Name()+".") {
							copied = true
						}
					}
					if copied {
						continue
					}
					// the import goes with its last user
					var spec *ast.ImportSpec
					for _, is := range file.Imports {
						if o := pkg.TypesInfo.Implicits[is]; o == types.Object(pn) {
							spec = is
						}
						if is.Name != nil && pkg.TypesInfo.Defs[is.Name] == types.Object(pn) {
							spec = is
						}
					}
					gd, _ := in.p.parents[spec].(*ast.GenDecl)
					if spec == nil || gd == nil {
						cancel = true
						continue
					}
					if gd.Lparen.IsValid() {
						fe.edits = append(fe.edits, textEdit{start: in.off(spec.Pos()), end: in.off(spec.End()), text: "", removal: true})
					} else {
						fe.edits = append(fe.edits, textEdit{start: in.off(gd.Pos()), end: in.off(gd.End()), text: "", removal: true})
					}
				}
			}
			if cancel {
				var keep []textEdit
				for _, e := range fe.edits {
					if !e.removal {
						keep = append(keep, e)
					}
				}
				fe.edits = keep
				// the names stay listed as removed only if removed; rebuild below
				var still []string
				for _, r := range plan.removed {
					f := r
					found := false
					for _, fn := range in.p.fnList {
						if fn.Name() == f && fn.Decl != nil && in.p.Fset.Position(fn.Decl.Pos()).Filename == name {
							found = true
						}
					}
					if !found {
						still = append(still, r)
					}
				}
				plan.removed = still
			}
		}
	}
}

// methodNeeded: removing an unexported method could break interface satisfaction;
// the reload would fail and the removal is retried without, so this is only a
// cheap pre-filter (methods are kept when their name occurs in any interface of
// the package).
func (in *inliner) methodNeeded(f *Fn) bool {
	name := f.Decl.Name.Name
	found := false
	for _, file := range f.Pkg.Syntax {
		ast.Inspect(file, func(n ast.Node) bool {
			if it, ok := n.(*ast.InterfaceType); ok && it.Methods != nil {
				for _, m := range it.Methods.List {
					for _, nm := range m.Names {
						if nm.Name == name {
							found = true
						}
					}
				}
			}
			return !found
		})
	}
	return found
}

// ---- expanding one call -----------------------------------------------------

// leftmost reports whether `target` is the first operand evaluated inside root:
// on the path from root to target every step goes to the operand that Go
// evaluates first and evaluates unconditionally.
// isTempOrLit: a temporary introduced by an earlier expansion (never shared, never addressed) or a literal.
func isTempOrLit(e ast.Expr) bool {
	switch x := ast.Unparen(e).(type) {
	case *ast.BasicLit:
		return true
	case *ast.Ident:
		return strings.HasPrefix(x.Name, "_inl")
	}
	return false
}

// leftmostSkipPlain is set by expand for the helper at hand: the helper stores through nothing but its own local
// variables and calls nothing of this module, so plain variable / field reads evaluated before its call commute with it.
var leftmostSkipPlain bool

func leftmost(root ast.Expr, target ast.Expr) bool {
	e := root
	for {
		if e == target {
			return true
		}
		switch x := e.(type) {
		case *ast.ParenExpr:
			e = x.X
		case *ast.UnaryExpr:
			if x.Op == token.ARROW {
				return false
			}
			e = x.X
		case *ast.BinaryExpr:
			// what is evaluated before the call may be a temporary of an earlier expansion or a literal: reading it
			// commutes with the call
			if x.Op != token.LAND && x.Op != token.LOR && isTempOrLit(x.X) && containsNode(x.Y, target) {
				e = x.Y
			} else {
				e = x.X
			}
		case *ast.SelectorExpr:
			e = x.X
		case *ast.IndexExpr:
			e = x.X
		case *ast.SliceExpr:
			e = x.X
		case *ast.StarExpr:
			e = x.X
		case *ast.TypeAssertExpr:
			e = x.X
		case *ast.CompositeLit:
			// the first element of a struct / slice literal is evaluated first
			if len(x.Elts) == 0 {
				return false
			}
			if kv, ok := x.Elts[0].(*ast.KeyValueExpr); ok {
				if _, isField := kv.Key.(*ast.Ident); !isField {
					return false
				}
				e = kv.Value
			} else {
				e = x.Elts[0]
			}
		case *ast.CallExpr:
			// f(target, ...) with a plain function name, or target.m(...)
			switch fun := ast.Unparen(x.Fun).(type) {
			case *ast.Ident:
				if len(x.Args) == 0 {
					return false
				}
				e = x.Args[0]
				for k := 0; k+1 < len(x.Args) && isTempOrLit(x.Args[k]) && !containsNode(x.Args[k], target); k++ {
					e = x.Args[k+1]
				}
				// append(list, h(..)...) with list a plain variable: reading the variable commutes with the call (a helper
				// of this module cannot reach a local of its caller)
				if _, plainList := ast.Unparen(x.Args[0]).(*ast.Ident); plainList && fun.Name == "append" && len(x.Args) == 2 && containsNode(x.Args[1], target) {
					e = x.Args[1]
				}
			case *ast.SelectorExpr:
				if containsNode(fun.X, target) {
					e = fun.X
				} else if isPlainOperand(fun.X) && len(x.Args) > 0 {
					e = x.Args[0]
					// arguments evaluated before the helper's call that are plain reads (c.logger) commute with a helper that
					// stores nothing outside its own locals
					for k := 0; leftmostSkipPlain && k+1 < len(x.Args) && (isTempOrLit(x.Args[k]) || isPlainOperand(x.Args[k])) && !containsNode(x.Args[k], target); k++ {
						e = x.Args[k+1]
					}
				} else {
					return false
				}
			default:
				return false
			}
		default:
			return false
		}
	}
}

func containsNode(root ast.Node, target ast.Node) bool {
	return root != nil && target != nil && root.Pos() <= target.Pos() && target.End() <= root.End()
}

// isPlainOperand: identifiers and selector chains of identifiers (no calls, no indexing).
func isPlainOperand(e ast.Expr) bool {
	switch x := ast.Unparen(e).(type) {
	case *ast.Ident:
		return true
	case *ast.SelectorExpr:
		return isPlainOperand(x.X)
	}
	return false
}

func callFree(e ast.Node) bool {
	ok := true
	if e == nil {
		return true
	}
	ast.Inspect(e, func(n ast.Node) bool {
		switch n.(type) {
		case *ast.CallExpr, *ast.FuncLit:
			ok = false
		case *ast.UnaryExpr:
			if n.(*ast.UnaryExpr).Op == token.ARROW {
				ok = false
			}
		}
		return ok
	})
	return ok
}

// constantValue: the expression denotes the same value whenever it is evaluated and evaluating it does nothing: a
// constant, nil, or a composite literal of a struct type whose elements are such values.
func constantValue(info *types.Info, e ast.Expr) bool {
	e = ast.Unparen(e)
	if tv, ok := info.Types[e]; ok && (tv.Value != nil || tv.IsNil()) {
		return true
	}
	cl, ok := e.(*ast.CompositeLit)
	if !ok {
		return false
	}
	if tv, has := info.Types[cl]; !has || tv.Type == nil {
		return false
	} else if _, isStruct := tv.Type.Underlying().(*types.Struct); !isStruct {
		return false
	}
	for _, el := range cl.Elts {
		v := el
		if kv, isKV := el.(*ast.KeyValueExpr); isKV {
			v = kv.Value
		}
		if !constantValue(info, v) {
			return false
		}
	}
	return true
}

// storeFree: the function assigns only to identifiers (its locals, parameters and results), sends nothing, starts
// nothing, and calls only builtins, conversions and functions outside this module (which cannot reach the module's
// variables): whatever its caller read before calling it reads the same after.
func storeFree(p *Prog, f *Fn) bool {
	if f == nil || f.Body == nil {
		return false
	}
	mod := Module
	ok := true
	info := f.Info()
	// an identifier, or a field (of a field ..) of a struct-valued variable declared in this body
	ownStorage := func(l ast.Expr) bool {
		e := ast.Unparen(l)
		if _, isId := e.(*ast.Ident); isId {
			return true
		}
		for {
			se, isSel := e.(*ast.SelectorExpr)
			if !isSel {
				break
			}
			if sel := info.Selections[se]; sel == nil || sel.Kind() != types.FieldVal || sel.Indirect() {
				return false
			}
			e = ast.Unparen(se.X)
		}
		id, isId := e.(*ast.Ident)
		if !isId {
			return false
		}
		v, isVar := info.Uses[id].(*types.Var)
		if !isVar || v.IsField() || v.Pos() < f.Body.Pos() || v.Pos() > f.Body.End() {
			return false
		}
		_, isStruct := v.Type().Underlying().(*types.Struct)
		return isStruct
	}
	ast.Inspect(f.Body, func(n ast.Node) bool {
		switch x := n.(type) {
		case *ast.AssignStmt:
			for _, l := range x.Lhs {
				if !ownStorage(l) {
					ok = false
				}
			}
		case *ast.IncDecStmt:
			if !ownStorage(x.X) {
				ok = false
			}
		case *ast.SendStmt, *ast.GoStmt, *ast.DeferStmt:
			ok = false
		case *ast.CallExpr:
			if tv, has := info.Types[x.Fun]; has && (tv.IsType() || tv.IsBuiltin()) {
				if id, isId := ast.Unparen(x.Fun).(*ast.Ident); isId && (id.Name == "delete" || id.Name == "copy" || id.Name == "clear") {
					ok = false
				}
				return true
			}
			fo, _ := typeutil.Callee(info, x).(*types.Func)
			if fo == nil || fo.Pkg() == nil || fo.Pkg().Path() == mod || strings.HasPrefix(fo.Pkg().Path(), mod+"/") {
				// a function of this module: only the listed pure ones and other store-free helpers of the same package
				if fo != nil && fo != f.Obj {
					if cf := p.FnOf(fo); cf != nil && cf != f && cf.Pkg == f.Pkg && storeFreeDepth < 3 {
						storeFreeDepth++
						sub := storeFree(p, cf)
						storeFreeDepth--
						if sub {
							return true
						}
					}
				}
				ok = false
			}
		}
		return ok
	})
	return ok
}

var storeFreeDepth int

// expand builds the edits for one call site; a, b is the source range replaced.
func (in *inliner) expand(s callSite) (eds []textEdit, a, b token.Pos, ok bool) {
	p := in.p
	info := s.callee.Info()
	call := s.call
	// enclosing statement
	var stmt ast.Stmt
	for m := p.parents[call]; m != nil; m = p.parents[m] {
		if _, isLit := m.(*ast.FuncLit); isLit {
			// the call lives in a function literal: its statement is inside the literal
		}
		if st, isStmt := m.(ast.Stmt); isStmt {
			stmt = st
			break
		}
	}
	if stmt == nil {
		return nil, 0, 0, false
	}
	leftmostSkipPlain = storeFree(p, s.callee)
	b0 := &bodyBuilder{in: in, s: s, info: info}
	if !b0.prepare() || !b0.typesOK() {
		if os.Getenv("MLB_DEBUG_EXPAND") == s.callee.Name() {
			fmt.Fprintf(os.Stderr, "expand %s at %s: prepare/typesOK failed\n", s.callee.Name(), p.Fset.Position(call.Pos()))
		}
		return nil, 0, 0, false
	}
	// 1. single-expression helper with substitutable parameters: replace the call by the expression
	if txt, ok := b0.asExpression(); ok {
		return []textEdit{{start: in.off(call.Pos()), end: in.off(call.End()), text: txt}}, call.Pos(), call.End(), true
	}
	// 2. statement forms
	parent := p.parents[stmt]
	inList := false
	switch parent.(type) {
	case *ast.BlockStmt, *ast.CaseClause, *ast.CommClause:
		inList = true
	}
	nres := b0.nres
	tmp := func(i int) string { return fmt.Sprintf("_inl%d_%dr%d", in.round, b0.id, i) }
	tmps := func() string {
		var t []string
		for i := 0; i < nres; i++ {
			t = append(t, tmp(i))
		}
		return strings.Join(t, ", ")
	}
	replaceCall := func(from, to token.Pos, with string) string {
		return in.text(from, call.Pos()) + with + in.text(call.End(), to)
	}
	switch st := stmt.(type) {
	case *ast.GoStmt:
		// `go h(a, b)` with arguments that are variables nothing assigns after their definition is
		// `go func() { <body of h> }()`: the goroutine body is seen where it is started
		if !inList || st.Call != call || s.owner == nil {
			return nil, 0, 0, false
		}
		// only for a function that does nothing but start the goroutine (`func run(..) { go loop(..) }`): elsewhere the
		// started function stays a function of its own for the rules
		if s.owner.Body == nil || len(s.owner.Body.List) != 1 || s.owner.Body.List[0] != ast.Stmt(st) {
			return nil, 0, 0, false
		}
		for _, a := range call.Args {
			id, isId := ast.Unparen(a).(*ast.Ident)
			if !isId {
				return nil, 0, 0, false
			}
			v, isVar := info.Uses[id].(*types.Var)
			if !isVar || v.IsField() {
				return nil, 0, 0, false
			}
			assigned := false
			ast.Inspect(s.owner, func(n ast.Node) bool {
				switch x := n.(type) {
				case *ast.AssignStmt:
					for _, l := range x.Lhs {
						if lid, ok := ast.Unparen(l).(*ast.Ident); ok && (info.Uses[lid] == types.Object(v)) {
							assigned = true
						}
					}
				case *ast.IncDecStmt:
					if lid, ok := ast.Unparen(x.X).(*ast.Ident); ok && info.Uses[lid] == types.Object(v) {
						assigned = true
					}
				case *ast.UnaryExpr:
					if lid, ok := ast.Unparen(x.X).(*ast.Ident); ok && x.Op == token.AND && info.Uses[lid] == types.Object(v) {
						assigned = true
					}
				case *ast.RangeStmt:
					for _, kv := range []ast.Expr{x.Key, x.Value} {
						if lid, ok := kv.(*ast.Ident); ok && x.Tok == token.ASSIGN && info.Uses[lid] == types.Object(v) {
							assigned = true
						}
					}
				}
				return true
			})
			if assigned {
				return nil, 0, 0, false
			}
		}
		if sel, isSel := ast.Unparen(call.Fun).(*ast.SelectorExpr); isSel {
			if _, isId := ast.Unparen(sel.X).(*ast.Ident); !isId {
				return nil, 0, 0, false
			}
		}
		if nres == 0 {
			body, _ := b0.build(modeReturn, nil) // returns stay returns of the literal
			return []textEdit{{start: in.off(st.Pos()), end: in.off(st.End()), text: "go func() {\n" + body + "}()"}}, st.Pos(), st.End(), true
		}
		if !in.eligible(s.callee) {
			return nil, 0, 0, false
		}
		{
			body, label := b0.build(modeDiscard, nil)
			txt := "go func() {\n" + body
			if label != "" {
				txt += label + ":\n{\n}\n"
			}
			txt += "}()"
			return []textEdit{{start: in.off(st.Pos()), end: in.off(st.End()), text: txt}}, st.Pos(), st.End(), true
		}
	case *ast.ExprStmt:
		if !inList {
			return nil, 0, 0, false
		}
		if ast.Unparen(st.X) == ast.Expr(call) {
			body, label := b0.build(modeDiscard, nil)
			txt := body
			if label != "" {
				txt += label + ":\n{\n}\n"
			}
			return []textEdit{{start: in.off(st.Pos()), end: in.off(st.End()), text: txt}}, st.Pos(), st.End(), true
		}
		if nres == 1 && leftmost(st.X, call) {
			hoist, label := b0.build(modeTemps, tmp)
			txt := hoist + labelled(label) + replaceCall(st.Pos(), st.End(), tmp(0))
			return []textEdit{{start: in.off(st.Pos()), end: in.off(st.End()), text: txt}}, st.Pos(), st.End(), true
		}
	case *ast.AssignStmt:
		if len(st.Rhs) != 1 || (st.Tok != token.ASSIGN && st.Tok != token.DEFINE) {
			return nil, 0, 0, false
		}
		// `h(x)[k] = v`: the helper's result is the first thing the statement evaluates; with nothing else to call it
		// is `t := h(x); t[k] = v`
		if inList && st.Tok == token.ASSIGN && len(st.Lhs) == 1 && nres == 1 && containsNode(st.Lhs[0], call) && leftmost(st.Lhs[0], call) && callFree(st.Rhs[0]) {
			others := true
			ast.Inspect(st.Lhs[0], func(n ast.Node) bool {
				if c, isCall := n.(*ast.CallExpr); isCall && c != call && !containsNode(call, c) {
					if tv, has := info.Types[c.Fun]; !has || !tv.IsType() {
						others = false
					}
				}
				return others
			})
			if others {
				hoist, label := b0.build(modeTemps, tmp)
				txt := hoist + labelled(label) + replaceCall(st.Pos(), st.End(), tmp(0))
				return []textEdit{{start: in.off(st.Pos()), end: in.off(st.End()), text: txt}}, st.Pos(), st.End(), true
			}
		}
		for _, l := range st.Lhs {
			if !callFree(l) {
				return nil, 0, 0, false
			}
		}
		whole := ast.Unparen(st.Rhs[0]) == ast.Expr(call)
		if !whole && !(nres == 1 && leftmost(st.Rhs[0], call)) {
			// `x := a || h(y)` is `x := a; if !x { x = h(y) }` (and `a && h(y)`: `if x { x = h(y) }`)
			be, isBin := ast.Unparen(st.Rhs[0]).(*ast.BinaryExpr)
			xid, isId := st.Lhs[0].(*ast.Ident)
			if inList && nres == 1 && len(st.Lhs) == 1 && isBin && isId && xid.Name != "_" && (be.Op == token.LOR || be.Op == token.LAND) &&
				containsNode(be.Y, call) && leftmost(be.Y, call) && !mentionsName(in.text(be.Y.Pos(), be.Y.End()), xid.Name) && !mentionsName(in.text(be.X.Pos(), be.X.End()), xid.Name) {
				if tv, okT := info.Types[st.Rhs[0]]; okT && tv.Type != nil {
					if bt, isB := tv.Type.Underlying().(*types.Basic); isB && (bt.Kind() == types.Bool || bt.Kind() == types.UntypedBool) {
						op := " = "
						if st.Tok == token.DEFINE {
							op = " := "
						}
						cond := "!" + xid.Name
						if be.Op == token.LAND {
							cond = xid.Name
						}
						hoist, label := b0.build(modeTemps, tmp)
						txt := xid.Name + op + in.text(be.X.Pos(), be.X.End()) + "\nif " + cond + " {\n" + hoist + labelled(label) +
							xid.Name + " = " + in.text(be.Y.Pos(), call.Pos()) + tmp(0) + in.text(call.End(), be.Y.End()) + "\n}\n"
						return []textEdit{{start: in.off(st.Pos()), end: in.off(st.End()), text: txt}}, st.Pos(), st.End(), true
					}
				}
			}
			return nil, 0, 0, false
		}
		if nres == 0 {
			return nil, 0, 0, false
		}
		// the results are stored straight into the assigned variables when these are plain
		// identifiers that the helper body does not declare itself
		direct := whole && len(st.Lhs) == nres
		var names []string
		if direct {
			b0.declare = make([]bool, nres)
			for i, l := range st.Lhs {
				id, ok := l.(*ast.Ident)
				// a newly declared variable that has the name of the helper's named result at the same position
				// plays the part of that result (both start as the zero value)
				reuse := ok && id.Name != "_" && st.Tok == token.DEFINE && info.Defs[id] != nil && !b0.localNames[id.Name] && !b0.isBound(id.Name) && b0.isNamedResult(i, id.Name)
				if !ok || (id.Name != "_" && !reuse && (b0.localNames[id.Name] || b0.isBound(id.Name) || b0.declaresName(id.Name))) {
					direct = false
					break
				}
				if reuse {
					if b0.reuse == nil {
						b0.reuse = map[int]bool{}
					}
					b0.reuse[i] = true
				}
				names = append(names, id.Name)
				b0.declare[i] = st.Tok == token.DEFINE && id.Name != "_" && info.Defs[id] != nil
				if b0.declare[i] {
					// the new variable must not hide one that an argument mentions
					for _, at := range b0.argText {
						if mentionsName(at, id.Name) {
							direct = false
						}
					}
				}
			}
		}
		if !direct {
			b0.declare = nil
			b0.reuse = nil
		}
		after := func() string {
			if direct {
				return "{\n}"
			}
			return replaceCall(st.Pos(), st.End(), tmps())
		}
		tf := tmp
		if direct {
			tf = func(i int) string { return names[i] }
		}
		if inList {
			hoist, label := b0.build(modeTemps, tf)
			txt := hoist
			if label != "" || !direct {
				txt += labelled(label) + after()
			}
			return []textEdit{{start: in.off(st.Pos()), end: in.off(st.End()), text: txt}}, st.Pos(), st.End(), true
		}
		// init of an if / switch: wrap the compound statement
		switch outer := parent.(type) {
		case *ast.IfStmt:
			if outer.Init != ast.Stmt(st) || !in.wrappable(outer) {
				return nil, 0, 0, false
			}
			hoist, label := b0.build(modeTemps, tf)
			mid := ""
			if !direct {
				mid = after() + "\n"
			}
			txt := "{\n" + hoist + labelled(label) + mid + "if " + in.text(outer.Cond.Pos(), outer.End()) + "\n}"
			return []textEdit{{start: in.off(outer.Pos()), end: in.off(outer.End()), text: txt}}, outer.Pos(), outer.End(), true
		case *ast.SwitchStmt:
			if outer.Init != ast.Stmt(st) || !in.wrappable(outer) {
				return nil, 0, 0, false
			}
			hoist, label := b0.build(modeTemps, tf)
			rest := in.text(outer.Body.Pos(), outer.End())
			if outer.Tag != nil {
				rest = in.text(outer.Tag.Pos(), outer.End())
			}
			mid := ""
			if !direct {
				mid = after() + "\n"
			}
			txt := "{\n" + hoist + labelled(label) + mid + "switch " + rest + "\n}"
			return []textEdit{{start: in.off(outer.Pos()), end: in.off(outer.End()), text: txt}}, outer.Pos(), outer.End(), true
		}
	case *ast.DeclStmt:
		if !inList {
			return nil, 0, 0, false
		}
		gd, _ := st.Decl.(*ast.GenDecl)
		if gd == nil || gd.Tok != token.VAR || len(gd.Specs) != 1 {
			return nil, 0, 0, false
		}
		vs := gd.Specs[0].(*ast.ValueSpec)
		if len(vs.Values) != 1 || nres == 0 {
			return nil, 0, 0, false
		}
		whole := ast.Unparen(vs.Values[0]) == ast.Expr(call)
		if !whole && !(nres == 1 && leftmost(vs.Values[0], call)) {
			return nil, 0, 0, false
		}
		hoist, label := b0.build(modeTemps, tmp)
		txt := hoist + labelled(label) + replaceCall(st.Pos(), st.End(), tmps())
		return []textEdit{{start: in.off(st.Pos()), end: in.off(st.End()), text: txt}}, st.Pos(), st.End(), true
	case *ast.ReturnStmt:
		if inList && len(st.Results) > 1 && nres == 1 {
			// `return K, h(x)` with K constant values (ctrl.Result{}, nil, true): the helper runs, then the return
			idx := -1
			for i, r := range st.Results {
				if ast.Unparen(r) == ast.Expr(call) {
					idx = i
				} else if !constantValue(info, r) {
					return nil, 0, 0, false
				}
			}
			if idx < 0 {
				return nil, 0, 0, false
			}
			hoist, label := b0.build(modeTemps, tmp)
			txt := hoist + labelled(label) + replaceCall(st.Pos(), st.End(), tmp(0))
			return []textEdit{{start: in.off(st.Pos()), end: in.off(st.End()), text: txt}}, st.Pos(), st.End(), true
		}
		if !inList || len(st.Results) != 1 || nres == 0 {
			return nil, 0, 0, false
		}
		if ast.Unparen(st.Results[0]) == ast.Expr(call) {
			// the helper's returns become the caller's returns
			if !b0.sameResultTypes(stmt) {
				return nil, 0, 0, false
			}
			body, _ := b0.build(modeReturn, nil)
			return []textEdit{{start: in.off(st.Pos()), end: in.off(st.End()), text: body}}, st.Pos(), st.End(), true
		}
		if nres == 1 && leftmost(st.Results[0], call) {
			hoist, label := b0.build(modeTemps, tmp)
			txt := hoist + labelled(label) + replaceCall(st.Pos(), st.End(), tmp(0))
			return []textEdit{{start: in.off(st.Pos()), end: in.off(st.End()), text: txt}}, st.Pos(), st.End(), true
		}
		// `return a || h(x)` is `if a { return true }; return h(x)` (and `a && h(x)`: `if !(a) { return false }; ...`):
		// the call becomes the first thing the remaining expression evaluates
		if be, isBin := ast.Unparen(st.Results[0]).(*ast.BinaryExpr); isBin && nres == 1 && (be.Op == token.LOR || be.Op == token.LAND) &&
			containsNode(be.Y, call) && leftmost(be.Y, call) {
			if tv, okT := info.Types[st.Results[0]]; okT && tv.Type != nil {
				if bt, isB := tv.Type.Underlying().(*types.Basic); isB && bt.Kind() == types.Bool || isB && bt.Kind() == types.UntypedBool {
					pre := "if " + in.text(be.X.Pos(), be.X.End()) + " {\nreturn true\n}\n"
					if be.Op == token.LAND {
						pre = "if !(" + in.text(be.X.Pos(), be.X.End()) + ") {\nreturn false\n}\n"
					}
					hoist, label := b0.build(modeTemps, tmp)
					txt := pre + hoist + labelled(label) + "return " + in.text(be.Y.Pos(), call.Pos()) + tmp(0) + in.text(call.End(), be.Y.End())
					return []textEdit{{start: in.off(st.Pos()), end: in.off(st.End()), text: txt}}, st.Pos(), st.End(), true
				}
			}
		}
	case *ast.IfStmt:
		if nres != 1 || !containsNode(st.Cond, call) || !in.wrappable(st) {
			return nil, 0, 0, false
		}
		if !leftmost(st.Cond, call) {
			// `if a || h(x) { body } else { other }` is `c := a; if !c { c = h(x) }; if c { body } else { other }`
			if be, isOr := ast.Unparen(st.Cond).(*ast.BinaryExpr); isOr && be.Op == token.LOR && containsNode(be.Y, call) && leftmost(be.Y, call) && !containsNode(be.X, call) {
				cn := fmt.Sprintf("_inl%d_%dc", in.round, b0.id)
				hoist, label := b0.build(modeTemps, tmp)
				init := ""
				if st.Init != nil {
					init = in.text(st.Init.Pos(), st.Init.End()) + "\n"
				}
				rest := in.text(st.Body.Pos(), st.End())
				txt := "{\n" + init + cn + " := " + in.text(be.X.Pos(), be.X.End()) + "\nif !" + cn + " {\n" + hoist + labelled(label) +
					cn + " = " + in.text(be.Y.Pos(), call.Pos()) + tmp(0) + in.text(call.End(), be.Y.End()) + "\n}\nif " + cn + " " + rest + "\n}"
				return []textEdit{{start: in.off(st.Pos()), end: in.off(st.End()), text: txt}}, st.Pos(), st.End(), true
			}
			// `if a && b && h(x) { body }` (no else) is `if a && b { if h(x) { body } }`: the call becomes
			// the first thing the inner condition evaluates
			if st.Else != nil {
				return nil, 0, 0, false
			}
			var conj []ast.Expr
			var flat func(e ast.Expr)
			flat = func(e ast.Expr) {
				if be, ok := ast.Unparen(e).(*ast.BinaryExpr); ok && be.Op == token.LAND {
					flat(be.X)
					flat(be.Y)
					return
				}
				conj = append(conj, e)
			}
			flat(st.Cond)
			k := -1
			for i, c := range conj {
				if containsNode(c, call) && leftmost(c, call) {
					k = i
				}
			}
			if k <= 0 {
				return nil, 0, 0, false
			}
			var outer, inner []string
			for i, c := range conj {
				t := in.text(c.Pos(), c.End())
				if i == k {
					t = in.text(c.Pos(), call.Pos()) + tmp(0) + in.text(call.End(), c.End())
				}
				if i < k {
					outer = append(outer, t)
				} else {
					inner = append(inner, t)
				}
			}
			hoist, label := b0.build(modeTemps, tmp)
			init := ""
			if st.Init != nil {
				init = in.text(st.Init.Pos(), st.Init.End()) + "\n"
			}
			txt := "{\n" + init + "if " + strings.Join(outer, " && ") + " {\n" + hoist + labelled(label) + "if " + strings.Join(inner, " && ") + " " + in.text(st.Body.Pos(), st.Body.End()) + "\n}\n}"
			return []textEdit{{start: in.off(st.Pos()), end: in.off(st.End()), text: txt}}, st.Pos(), st.End(), true
		}
		hoist, label := b0.build(modeTemps, tmp)
		init := ""
		if st.Init != nil {
			init = in.text(st.Init.Pos(), st.Init.End()) + "\n"
		}
		txt := "{\n" + init + hoist + labelled(label) + "if " + replaceCall(st.Cond.Pos(), st.End(), tmp(0)) + "\n}"
		return []textEdit{{start: in.off(st.Pos()), end: in.off(st.End()), text: txt}}, st.Pos(), st.End(), true
	case *ast.SwitchStmt:
		if nres != 1 || st.Tag == nil || !containsNode(st.Tag, call) || !leftmost(st.Tag, call) || !in.wrappable(st) {
			return nil, 0, 0, false
		}
		hoist, label := b0.build(modeTemps, tmp)
		init := ""
		if st.Init != nil {
			init = in.text(st.Init.Pos(), st.Init.End()) + "\n"
		}
		txt := "{\n" + init + hoist + labelled(label) + "switch " + replaceCall(st.Tag.Pos(), st.End(), tmp(0)) + "\n}"
		return []textEdit{{start: in.off(st.Pos()), end: in.off(st.End()), text: txt}}, st.Pos(), st.End(), true
	case *ast.RangeStmt:
		if nres != 1 || !containsNode(st.X, call) || !leftmost(st.X, call) || !in.wrappable(st) {
			return nil, 0, 0, false
		}
		hoist, label := b0.build(modeTemps, tmp)
		txt := "{\n" + hoist + labelled(label) + replaceCall(st.Pos(), st.End(), tmp(0)) + "\n}"
		return []textEdit{{start: in.off(st.Pos()), end: in.off(st.End()), text: txt}}, st.Pos(), st.End(), true
	}
	return nil, 0, 0, false
}

func labelled(label string) string {
	if label == "" {
		return ""
	}
	return label + ":\n"
}

// wrappable: the compound statement may be wrapped into a block (it is not labelled).
func (in *inliner) wrappable(st ast.Stmt) bool {
	switch in.p.parents[st].(type) {
	case *ast.LabeledStmt:
		return false
	case *ast.BlockStmt, *ast.CaseClause, *ast.CommClause, *ast.IfStmt:
		return true
	}
	return false
}

const (
	modeDiscard = iota // results are dropped
	modeTemps          // results are stored into temporaries
	modeReturn         // the helper's returns return from the caller
)

type bodyBuilder struct {
	in   *inliner
	s    callSite
	info *types.Info
	id   int
	nres int

	sig         *types.Signature
	params      []*types.Var // receiver first
	args        []ast.Expr
	argText     []string
	subst       map[*types.Var]string // parameters replaced by argument text
	binds       []string              // "name" of bound parameters, parallel to bindArgs
	bindArgs    []string
	localNames  map[string]bool
	declare     []bool                    // direct targets: which results need a declaration (nil: temporaries, all declared)
	reuse       map[int]bool              // direct targets that stand for the helper's named result of the same name
	spreadEdits []posEdit                 // `args...` of a forwarded variadic parameter -> the extra arguments of the call
	tsubst      map[types.Object]string   // generic helper: type parameter -> text of the call's type argument
	ptypes      map[*types.Var]types.Type // generic helper: parameter -> its type in the instance
}

// ptype: the parameter's type at this call (the instantiated type for a generic helper).
func (b *bodyBuilder) ptype(pv *types.Var) types.Type {
	if t, ok := b.ptypes[pv]; ok {
		return t
	}
	return pv.Type()
}

// isNamedResult: the helper's i-th result is named `name` and no other parameter or result has that name.
func (b *bodyBuilder) isNamedResult(i int, name string) bool {
	nr := b.namedResults()
	if i >= len(nr) || nr[i] != name {
		return false
	}
	for k, n := range nr {
		if k != i && n == name {
			return false
		}
	}
	for _, pv := range b.params {
		if pv != nil && pv.Name() == name {
			if _, substituted := b.subst[pv]; !substituted {
				return false
			}
		}
	}
	return true
}

// declaresName: the helper's signature declares the name (a parameter that is not substituted away, the
// receiver, a named result): inside the expanded block the name would refer to that declaration.
func (b *bodyBuilder) declaresName(name string) bool {
	for _, n := range b.namedResults() {
		if n == name {
			return true
		}
	}
	for _, pv := range b.params {
		if pv != nil && pv.Name() == name {
			if _, substituted := b.subst[pv]; !substituted {
				return true
			}
		}
	}
	return false
}

func (b *bodyBuilder) isBound(name string) bool {
	for _, n := range b.binds {
		if n == name {
			return true
		}
	}
	return false
}

func (b *bodyBuilder) prepare() bool {
	in := b.in
	in.ctr++
	b.id = in.ctr
	f := b.s.callee
	if f.Obj != nil {
		b.sig = f.Obj.Type().(*types.Signature)
	} else {
		b.sig, _ = b.info.TypeOf(f.Lit).(*types.Signature)
		if b.sig == nil {
			return false
		}
	}
	call := b.s.call
	if b.sig.TypeParams().Len() > 0 {
		var fid *ast.Ident
		switch x := ast.Unparen(call.Fun).(type) {
		case *ast.Ident:
			fid = x
		case *ast.SelectorExpr:
			fid = x.Sel
		case *ast.IndexExpr:
			if id, ok := ast.Unparen(x.X).(*ast.Ident); ok {
				fid = id
			} else if se, ok := ast.Unparen(x.X).(*ast.SelectorExpr); ok {
				fid = se.Sel
			}
		case *ast.IndexListExpr:
			if id, ok := ast.Unparen(x.X).(*ast.Ident); ok {
				fid = id
			} else if se, ok := ast.Unparen(x.X).(*ast.SelectorExpr); ok {
				fid = se.Sel
			}
		}
		if fid == nil {
			return false
		}
		inst, ok := b.info.Instances[fid]
		if !ok || inst.TypeArgs == nil || inst.TypeArgs.Len() != b.sig.TypeParams().Len() {
			return false
		}
		isig, ok := inst.Type.(*types.Signature)
		if !ok || isig.Params().Len() != b.sig.Params().Len() {
			return false
		}
		b.tsubst = map[types.Object]string{}
		for i := 0; i < b.sig.TypeParams().Len(); i++ {
			tt, ok := b.typeText(inst.TypeArgs.At(i))
			if !ok {
				return false
			}
			b.tsubst[b.sig.TypeParams().At(i).Obj()] = tt
		}
		b.ptypes = map[*types.Var]types.Type{}
		for i := 0; i < isig.Params().Len(); i++ {
			if pv := f.Param(i); pv != nil {
				b.ptypes[pv] = isig.Params().At(i).Type()
			}
		}
		b.sig = isig
	}
	b.nres = b.sig.Results().Len()
	// arguments: receiver first
	if b.sig.Recv() != nil {
		sel, ok := ast.Unparen(call.Fun).(*ast.SelectorExpr)
		if !ok {
			return false // method expression / method value call
		}
		seln := b.info.Selections[sel]
		if seln == nil || seln.Kind() != types.MethodVal || len(seln.Index()) != 1 {
			return false // promoted through embedding
		}
		b.params = append(b.params, f.Recv())
		b.args = append(b.args, sel.X)
		rt := b.sig.Recv().Type()
		at := b.info.TypeOf(sel.X)
		txt := in.text(sel.X.Pos(), sel.X.End())
		switch {
		case at == nil:
			return false
		case types.Identical(at, rt):
		case types.Identical(types.NewPointer(at), rt):
			txt = "&" + paren(txt)
		default:
			if pt, ok := at.Underlying().(*types.Pointer); ok && types.Identical(pt.Elem(), rt) {
				txt = "*" + paren(txt)
			} else {
				return false
			}
		}
		b.argText = append(b.argText, txt)
	}
	nfix := b.sig.Params().Len()
	if b.sig.Variadic() {
		// a variadic parameter that the body only forwards (`g(x, args...)`): the extra arguments take its place
		nfix--
		vpv := f.Param(nfix)
		if vpv == nil || len(call.Args) < nfix || (call.Ellipsis.IsValid() && len(call.Args) != nfix+1) {
			return false
		}
		var parts []string
		for _, a := range call.Args[nfix:] {
			if !callFree(a) {
				return false // its evaluation would move
			}
			parts = append(parts, in.text(a.Pos(), a.End()))
		}
		spread := strings.Join(parts, ", ")
		if call.Ellipsis.IsValid() {
			spread += "..."
		}
		okFwd := true
		ast.Inspect(f.Body, func(n ast.Node) bool {
			id, isId := n.(*ast.Ident)
			if !isId || b.info.Uses[id] != types.Object(vpv) {
				return true
			}
			c, isCall := in.p.parents[id].(*ast.CallExpr)
			if !isCall || !c.Ellipsis.IsValid() || len(c.Args) == 0 || c.Args[len(c.Args)-1] != ast.Expr(id) {
				okFwd = false
				return true
			}
			b.spreadEdits = append(b.spreadEdits, posEdit{id.Pos(), c.Ellipsis + 3, spread})
			return true
		})
		if !okFwd {
			return false
		}
	} else if len(call.Args) != nfix {
		return false // f(g()) multi-value spread
	}
	for i := 0; i < nfix; i++ {
		b.params = append(b.params, f.Param(i))
		b.args = append(b.args, call.Args[i])
		b.argText = append(b.argText, in.text(call.Args[i].Pos(), call.Args[i].End()))
	}
	if call.Ellipsis.IsValid() && !b.sig.Variadic() {
		return false
	}
	// names declared inside the helper body
	b.localNames = map[string]bool{}
	ast.Inspect(f.Body, func(n ast.Node) bool {
		if id, ok := n.(*ast.Ident); ok {
			if o := b.info.Defs[id]; o != nil {
				b.localNames[id.Name] = true
			}
		}
		return true
	})
	// free identifiers of the helper body must mean the same thing at the call site
	if !b.freeNamesAgree() {
		return false
	}
	// decide substitution vs binding per parameter
	assigned := b.assignedParams()
	b.subst = map[*types.Var]string{}
	for i, pv := range b.params {
		if pv == nil || pv.Name() == "_" || pv.Name() == "" {
			// unnamed: only evaluated
			if callFree(b.args[i]) {
				continue
			}
			b.binds = append(b.binds, "_")
			b.bindArgs = append(b.bindArgs, b.argText[i])
			continue
		}
		if lit, isLit := ast.Unparen(b.args[i]).(*ast.BasicLit); isLit && !assigned[pv] && (lit.Kind == token.INT || lit.Kind == token.STRING) {
			// a literal argument for a parameter the helper never assigns or addresses: the typed constant stands for it
			if bt, isBasic := b.ptype(pv).(*types.Basic); isBasic && bt.Info()&types.IsUntyped == 0 {
				if tt, ok := b.typeText(bt); ok {
					b.subst[pv] = tt + "(" + lit.Value + ")"
					continue
				}
			}
		}
		if assigned[pv] && b.threaded(i, pv) {
			// `a = h(.., a, ..)` where every exit of h returns that parameter: h works on a itself
			b.subst[pv] = b.argText[i]
			continue
		}
		if !assigned[pv] && b.substitutable(i, pv) {
			t := b.argText[i]
			if _, isId := ast.Unparen(b.args[i]).(*ast.Ident); !isId {
				t = paren(t)
			}
			b.subst[pv] = t
			continue
		}
		tt, ok := b.typeText(b.ptype(pv))
		if !ok {
			return false
		}
		b.binds = append(b.binds, pv.Name())
		if _, isLit := ast.Unparen(b.args[i]).(*ast.FuncLit); isLit {
			if tv, ok := b.info.Types[b.args[i]]; ok && tv.Type != nil && types.Identical(tv.Type, b.ptype(pv)) {
				// a function literal keeps its spelling: a later round expands its calls
				b.bindArgs = append(b.bindArgs, b.argText[i])
				continue
			}
		}
		if tv, ok := b.info.Types[b.args[i]]; ok && tv.Type != nil && tv.Value == nil && !tv.IsNil() && types.Identical(tv.Type, b.ptype(pv)) &&
			b.argText[i] == b.in.text(b.args[i].Pos(), b.args[i].End()) {
			// same type already: the bound name is the argument's value, no conversion needed
			b.bindArgs = append(b.bindArgs, b.argText[i])
			continue
		}
		b.bindArgs = append(b.bindArgs, paren(tt)+paren(b.argText[i]))
	}
	// bound names must not capture identifiers of substituted arguments
	for _, nm := range b.binds {
		for pv, t := range b.subst {
			_ = pv
			if nm != "_" && mentionsName(t, nm) {
				return false
			}
		}
	}
	return true
}

func paren(s string) string { return "(" + s + ")" }

func mentionsName(text, name string) bool {
	i := 0
	for {
		j := strings.Index(text[i:], name)
		if j < 0 {
			return false
		}
		j += i
		before := j == 0 || !isIdentChar(text[j-1])
		after := j+len(name) >= len(text) || !isIdentChar(text[j+len(name)])
		if before && after {
			return true
		}
		i = j + 1
	}
}

func isIdentChar(c byte) bool {
	return c == '_' || c >= '0' && c <= '9' || c >= 'a' && c <= 'z' || c >= 'A' && c <= 'Z' || c >= 0x80
}

// threaded: the call is the whole right-hand side of `a = h(.., a, ..)` (one result), argument i is that same local
// variable a, and every return of h hands back parameter i itself; h never takes the parameter's address nor captures it
// in a literal, and a is a plain local of the caller whose address is not taken there. The helper then updates a in
// place: the parameter is the variable (`lbIPs = c.assignMissingFamily(.., lbIPs, ..)`, `sel = appendIf(sel, x)`).
func (b *bodyBuilder) threaded(i int, pv *types.Var) bool {
	p := b.in.p
	as, ok := p.parents[b.s.call].(*ast.AssignStmt)
	if !ok || as.Tok != token.ASSIGN || len(as.Lhs) != 1 || len(as.Rhs) != 1 || as.Rhs[0] != ast.Expr(b.s.call) {
		return false
	}
	lhs, ok := as.Lhs[0].(*ast.Ident)
	if !ok {
		return false
	}
	arg, ok := ast.Unparen(b.args[i]).(*ast.Ident)
	if !ok || b.argText[i] != arg.Name {
		return false
	}
	// the caller's side (same package, same types.Info): both names denote one local variable
	callerInfo := b.info
	av, _ := callerInfo.Uses[arg].(*types.Var)
	lv, _ := callerInfo.Uses[lhs].(*types.Var)
	if av == nil || av != lv || av.IsField() || av.Pkg() == nil || av.Parent() == av.Pkg().Scope() || b.s.owner == nil {
		return false
	}
	if !types.Identical(av.Type(), b.ptype(pv)) || b.sig.Results().Len() != 1 {
		return false
	}
	okCaller := true
	ast.Inspect(b.s.owner, func(n ast.Node) bool {
		switch x := n.(type) {
		case *ast.UnaryExpr:
			if id, isId := ast.Unparen(x.X).(*ast.Ident); isId && x.Op == token.AND && callerInfo.Uses[id] == types.Object(av) {
				okCaller = false
			}
		case *ast.FuncLit:
			ast.Inspect(x, func(m ast.Node) bool {
				if id, isId := m.(*ast.Ident); isId && callerInfo.Uses[id] == types.Object(av) {
					okCaller = false
				}
				return okCaller
			})
			return false
		}
		return okCaller
	})
	if !okCaller {
		return false
	}
	// the helper's side
	if b.s.callee.Decl != nil && b.s.callee.Decl.Type.Results != nil {
		for _, r := range b.s.callee.Decl.Type.Results.List {
			if len(r.Names) > 0 {
				return false
			}
		}
	}
	okCallee, nRet := true, 0
	ast.Inspect(b.s.callee.Body, func(n ast.Node) bool {
		switch x := n.(type) {
		case *ast.FuncLit:
			ast.Inspect(x, func(m ast.Node) bool {
				if id, isId := m.(*ast.Ident); isId && b.info.Uses[id] == types.Object(pv) {
					okCallee = false
				}
				return okCallee
			})
			return false
		case *ast.UnaryExpr:
			if id, isId := ast.Unparen(x.X).(*ast.Ident); isId && x.Op == token.AND && b.info.Uses[id] == types.Object(pv) {
				okCallee = false
			}
		case *ast.ReturnStmt:
			nRet++
			if len(x.Results) != 1 {
				okCallee = false
			} else if id, isId := ast.Unparen(x.Results[0]).(*ast.Ident); !isId || b.info.Uses[id] != types.Object(pv) {
				okCallee = false
			}
		}
		return okCallee
	})
	// no other argument may mention a (it would be evaluated before the helper changes a; bound arguments are, but a
	// substituted one would see the updates)
	for j, a := range b.args {
		if j == i {
			continue
		}
		ast.Inspect(a, func(n ast.Node) bool {
			if id, isId := n.(*ast.Ident); isId && callerInfo.Uses[id] == types.Object(av) {
				okCallee = false
			}
			return okCallee
		})
	}
	return okCallee && nRet > 0
}

func (b *bodyBuilder) assignedParams() map[*types.Var]bool {
	out := map[*types.Var]bool{}
	mark := func(e ast.Expr) {
		if id, ok := ast.Unparen(e).(*ast.Ident); ok {
			if v, ok := b.info.Uses[id].(*types.Var); ok {
				out[v] = true
			}
		}
	}
	ast.Inspect(b.s.callee.Body, func(n ast.Node) bool {
		switch s := n.(type) {
		case *ast.AssignStmt:
			for _, l := range s.Lhs {
				mark(l)
			}
		case *ast.IncDecStmt:
			mark(s.X)
		case *ast.UnaryExpr:
			if s.Op == token.AND {
				mark(s.X)
			}
		case *ast.RangeStmt:
			if s.Tok == token.ASSIGN {
				if s.Key != nil {
					mark(s.Key)
				}
				if s.Value != nil {
					mark(s.Value)
				}
			}
		}
		return true
	})
	return out
}

// substitutable: the argument can stand for the parameter everywhere in the body.
func (b *bodyBuilder) substitutable(i int, pv *types.Var) bool {
	arg := ast.Unparen(b.args[i])
	addrOf := false
	if plain := b.in.text(b.args[i].Pos(), b.args[i].End()); b.argText[i] != plain {
		// adjusted receiver: x.m() with a pointer receiver is (&x).m(). When the body only selects through the receiver
		// (s.f, s.m()), x itself can stand for it: x.f is (&x).f
		if !strings.HasPrefix(b.argText[i], "&") || !b.onlySelectedThrough(pv) {
			return false
		}
		addrOf = true
		b.argText[i] = plain
	}
	tv, ok := b.info.Types[arg]
	if !ok || tv.Value != nil || tv.IsNil() || tv.Type == nil {
		return false
	}
	if addrOf {
		if !tv.Addressable() {
			return false
		}
	} else if !types.Identical(tv.Type, b.ptype(pv)) && !b.onlyForwardedAsInterface(pv, tv.Type) {
		return false
	}
	simple := true
	indexOK := b.usedOnceBeforeCalls(pv) || b.stableArg(arg)
	ast.Inspect(arg, func(n ast.Node) bool {
		switch x := n.(type) {
		case nil, *ast.Ident, *ast.SelectorExpr, *ast.ParenExpr, *ast.StarExpr:
		case *ast.IndexExpr, *ast.BasicLit:
			// an element read can stand for the parameter when the helper is one returned expression that uses
			// the parameter once with no call completed before that use (the read happens in the same state)
			if !indexOK {
				simple = false
			}
		case *ast.UnaryExpr:
			if x.Op != token.AND {
				simple = false
			}
		case *ast.CallExpr:
			// a pure library method of a variable (ip.String()): it yields the same value at every use when the helper
			// body cannot change the variable's contents
			if !b.pureCallArg(x) {
				simple = false
			}
		default:
			simple = false
		}
		return simple
	})
	if !simple {
		return false
	}
	// no identifier of the argument may be captured by a declaration of the helper
	capture := false
	ast.Inspect(arg, func(n ast.Node) bool {
		if id, ok := n.(*ast.Ident); ok {
			if _, isSel := b.in.p.parents[id].(*ast.SelectorExpr); isSel && b.in.p.parents[id].(*ast.SelectorExpr).Sel == id {
				return true
			}
			if b.localNames[id.Name] {
				// the parameter's own name is fine (it disappears), another local is not
				if id.Name == pv.Name() {
					// only if no *other* declaration of that name exists in the body
					n := 0
					ast.Inspect(b.s.callee.Body, func(m ast.Node) bool {
						if d, ok := m.(*ast.Ident); ok && d.Name == id.Name && b.info.Defs[d] != nil {
							n++
						}
						return true
					})
					if n == 0 {
						return true
					}
				}
				capture = true
			}
		}
		return true
	})
	if capture {
		return false
	}
	// a field read must not be written by the helper (the read would move)
	if sel, ok := arg.(*ast.SelectorExpr); ok {
		fld := b.info.Selections[sel]
		if fld != nil {
			written := false
			ast.Inspect(b.s.callee.Body, func(n ast.Node) bool {
				if as, ok := n.(*ast.AssignStmt); ok {
					for _, l := range as.Lhs {
						if ls, ok := ast.Unparen(l).(*ast.SelectorExpr); ok && b.info.Selections[ls] != nil && b.info.Selections[ls].Obj() == fld.Obj() {
							written = true
						}
					}
				}
				return true
			})
			if written {
				return false
			}
		}
	}
	return true
}

// pureCallArg: `v.M()` with v a local variable or parameter of the caller, M one of the listed side-effect-free library
// methods, and a helper body that stores through no slice element or pointer, copies into nothing, starts nothing and
// calls nothing of this module: the call can be evaluated at each use of the parameter instead of once before.
func (b *bodyBuilder) pureCallArg(c *ast.CallExpr) bool {
	fo, _ := typeutil.Callee(b.info, c).(*types.Func)
	if fo == nil || !fusePure[fo.FullName()] || len(c.Args) != 0 {
		return false
	}
	sel, ok := ast.Unparen(c.Fun).(*ast.SelectorExpr)
	if !ok {
		return false
	}
	id, ok := ast.Unparen(sel.X).(*ast.Ident)
	if !ok {
		return false
	}
	if v, isVar := b.info.Uses[id].(*types.Var); !isVar || v.IsField() || v.Parent() == nil || v.Parent() == v.Pkg().Scope() {
		return false
	}
	mod := b.s.callee.Pkg.Types.Path()
	if i := strings.Index(mod, "/internal/"); i >= 0 {
		mod = mod[:i]
	}
	cinfo := b.s.callee.Pkg.TypesInfo
	okBody := true
	storeOK := func(l ast.Expr) bool {
		switch x := ast.Unparen(l).(type) {
		case *ast.Ident:
			return true
		case *ast.IndexExpr:
			if tv, has := cinfo.Types[x.X]; has && tv.Type != nil {
				_, isMap := tv.Type.Underlying().(*types.Map)
				return isMap
			}
		}
		return false
	}
	ast.Inspect(b.s.callee.Body, func(n ast.Node) bool {
		switch x := n.(type) {
		case *ast.AssignStmt:
			for _, l := range x.Lhs {
				if !storeOK(l) {
					okBody = false
				}
			}
		case *ast.IncDecStmt:
			if !storeOK(x.X) {
				okBody = false
			}
		case *ast.RangeStmt:
			if x.Tok == token.ASSIGN {
				okBody = false
			}
		case *ast.FuncLit, *ast.GoStmt, *ast.DeferStmt:
			okBody = false
		case *ast.CallExpr:
			if tv, has := cinfo.Types[x.Fun]; has && tv.IsType() {
				return true
			}
			if fid, isId := ast.Unparen(x.Fun).(*ast.Ident); isId {
				if _, isB := cinfo.Uses[fid].(*types.Builtin); isB {
					if fid.Name == "copy" || fid.Name == "append" || fid.Name == "clear" {
						okBody = false
					}
					return true
				}
			}
			f2, _ := typeutil.Callee(cinfo, x).(*types.Func)
			if f2 == nil || f2.Pkg() == nil || f2.Pkg().Path() == mod || strings.HasPrefix(f2.Pkg().Path(), mod+"/") || !fusePure[f2.FullName()] {
				okBody = false
			}
		}
		return okBody
	})
	return okBody
}

// stableArg: the argument (an element or field read with call-free operands) denotes the same thing wherever the helper
// body uses the parameter: the body assigns nothing rooted at the variables the argument mentions and calls nothing of
// this module (builtins and functions of other modules cannot reach them).
func (b *bodyBuilder) stableArg(arg ast.Expr) bool {
	if !callFree(arg) {
		return false
	}
	if tv, ok := b.info.Types[arg]; !ok || tv.Type == nil {
		return false
	} else {
		switch tv.Type.Underlying().(type) {
		case *types.Map, *types.Pointer, *types.Chan:
		default:
			return false
		}
	}
	roots := map[types.Object]bool{}
	ast.Inspect(arg, func(n ast.Node) bool {
		if id, ok := n.(*ast.Ident); ok {
			if v, isVar := b.info.Uses[id].(*types.Var); isVar && !v.IsField() {
				roots[v] = true
			}
		}
		return true
	})
	if len(roots) == 0 {
		return false
	}
	rootOf := func(e ast.Expr) types.Object {
		for {
			switch x := ast.Unparen(e).(type) {
			case *ast.Ident:
				return b.info.Uses[x]
			case *ast.SelectorExpr:
				e = x.X
			case *ast.IndexExpr:
				e = x.X
			case *ast.StarExpr:
				e = x.X
			default:
				return nil
			}
		}
	}
	ok := true
	mod := b.s.callee.Pkg.Types.Path()
	if i := strings.Index(mod, "/internal/"); i >= 0 {
		mod = mod[:i]
	}
	ast.Inspect(b.s.callee.Body, func(n ast.Node) bool {
		switch x := n.(type) {
		case *ast.AssignStmt:
			for _, l := range x.Lhs {
				if roots[rootOf(l)] {
					ok = false
				}
			}
		case *ast.IncDecStmt:
			if roots[rootOf(x.X)] {
				ok = false
			}
		case *ast.UnaryExpr:
			if x.Op == token.AND && roots[rootOf(x.X)] {
				ok = false
			}
		case *ast.RangeStmt:
			if x.Tok == token.ASSIGN {
				for _, kv := range []ast.Expr{x.Key, x.Value} {
					if kv != nil && roots[rootOf(kv)] {
						ok = false
					}
				}
			}
		case *ast.FuncLit, *ast.GoStmt, *ast.DeferStmt:
			ok = false
		case *ast.CallExpr:
			if tv, has := b.info.Types[x.Fun]; has && (tv.IsType() || tv.IsBuiltin()) {
				return true
			}
			fo, _ := typeutil.Callee(b.info, x).(*types.Func)
			if fo == nil || fo.Pkg() == nil || fo.Pkg().Path() == mod || strings.HasPrefix(fo.Pkg().Path(), mod+"/") {
				ok = false
			}
		}
		return ok
	})
	return ok
}

// onlySelectedThrough: every use of the (pointer) parameter in the helper body is the operand of a selector.
func (b *bodyBuilder) onlySelectedThrough(pv *types.Var) bool {
	ok, n := true, 0
	ast.Inspect(b.s.callee.Body, func(m ast.Node) bool {
		id, isId := m.(*ast.Ident)
		if !isId || b.info.Uses[id] != types.Object(pv) {
			return true
		}
		n++
		sel, isSel := b.in.p.parents[id].(*ast.SelectorExpr)
		if !isSel || sel.X != ast.Expr(id) {
			ok = false
		}
		return true
	})
	return ok && n > 0
}

// onlyForwardedAsInterface: the parameter has an interface type the argument's type implements, and the helper does
// nothing with it but pass it on as an argument of that same interface type: the argument converts there exactly as it
// would have at the helper's call.
func (b *bodyBuilder) onlyForwardedAsInterface(pv *types.Var, argT types.Type) bool {
	if _, isIface := pv.Type().Underlying().(*types.Interface); !isIface || !types.AssignableTo(argT, pv.Type()) {
		return false
	}
	if _, argIface := argT.Underlying().(*types.Interface); argIface {
		return false
	}
	ok, n := true, 0
	ast.Inspect(b.s.callee.Body, func(m ast.Node) bool {
		id, isId := m.(*ast.Ident)
		if !isId || b.info.Uses[id] != types.Object(pv) {
			return true
		}
		n++
		call, isCall := b.in.p.parents[id].(*ast.CallExpr)
		if !isCall || call.Ellipsis.IsValid() {
			ok = false
			return true
		}
		sig, _ := b.info.TypeOf(call.Fun).(*types.Signature)
		if sig == nil {
			ok = false
			return true
		}
		for j, a := range call.Args {
			if a != ast.Expr(id) {
				continue
			}
			var pt types.Type
			switch {
			case sig.Variadic() && j >= sig.Params().Len()-1:
				pt = sig.Params().At(sig.Params().Len() - 1).Type().(*types.Slice).Elem()
			case j < sig.Params().Len():
				pt = sig.Params().At(j).Type()
			}
			if pt == nil || !types.Identical(pt, pv.Type()) {
				ok = false
			}
			return true
		}
		ok = false
		return true
	})
	return ok && n > 0
}

// usedOnceBeforeCalls: the helper is `return E`, E mentions the parameter exactly once, and no call of E is complete
// before that mention (conversions aside).
func (b *bodyBuilder) usedOnceBeforeCalls(pv *types.Var) bool {
	f := b.s.callee
	if len(f.Body.List) != 1 {
		return false
	}
	rs, ok := f.Body.List[0].(*ast.ReturnStmt)
	if !ok || len(rs.Results) != 1 {
		return false
	}
	var use *ast.Ident
	n := 0
	ast.Inspect(rs.Results[0], func(m ast.Node) bool {
		if id, ok := m.(*ast.Ident); ok && b.info.Uses[id] == types.Object(pv) {
			use = id
			n++
		}
		return true
	})
	if n != 1 {
		return false
	}
	okc := true
	ast.Inspect(rs.Results[0], func(m ast.Node) bool {
		switch x := m.(type) {
		case *ast.FuncLit:
			if x.Pos() <= use.Pos() && use.End() <= x.End() {
				okc = false
			}
			return false
		case *ast.CallExpr:
			if tv, has := b.info.Types[x.Fun]; has && tv.IsType() {
				return true
			} else if id, isId := x.Fun.(*ast.Ident); isId && has && tv.IsBuiltin() && (id.Name == "len" || id.Name == "cap") {
				return true
			}
			if x.End() <= use.Pos() {
				// a call of another module's code (net.IP.String, strings.ToLower, ...) completed earlier cannot reach the
				// caller's variables: the element read still happens in the same state
				mod := b.s.callee.Pkg.Types.Path()
				if i := strings.Index(mod, "/internal/"); i >= 0 {
					mod = mod[:i]
				}
				fo, _ := typeutil.Callee(b.info, x).(*types.Func)
				if fo == nil || fo.Pkg() == nil || fo.Pkg().Path() == mod || strings.HasPrefix(fo.Pkg().Path(), mod+"/") {
					okc = false
				}
			}
		}
		return okc
	})
	return okc
}

// freeNamesAgree: every identifier of the helper body that refers to something
// declared outside the helper resolves to the same thing at the call site.
func (b *bodyBuilder) freeNamesAgree() bool {
	in := b.in
	f := b.s.callee
	pkg := f.Pkg.Types
	scope := pkg.Scope().Innermost(b.s.call.Pos())
	if scope == nil {
		return false
	}
	ok := true
	check := func(root ast.Node) {
		ast.Inspect(root, func(n ast.Node) bool {
			id, isId := n.(*ast.Ident)
			if !isId || !ok {
				return ok
			}
			if par, isSel := in.p.parents[id].(*ast.SelectorExpr); isSel && par.Sel == id {
				return true
			}
			if kv, isKV := in.p.parents[id].(*ast.KeyValueExpr); isKV && kv.Key == ast.Expr(id) {
				if _, isField := b.info.Uses[id].(*types.Var); isField && b.info.Uses[id].(*types.Var).IsField() {
					return true
				}
			}
			o := b.info.Uses[id]
			if o == nil {
				return true // a definition
			}
			// declared inside the helper (locals, parameters)?
			var dn ast.Node = f.Lit
			if f.Decl != nil {
				dn = f.Decl
			}
			if o.Pos() >= dn.Pos() && o.Pos() <= dn.End() {
				if o.Pkg() == pkg {
					return true
				}
			}
			_, at := scope.LookupParent(id.Name, b.s.call.Pos())
			switch ov := o.(type) {
			case *types.PkgName:
				if at == nil && id.Name != "_" && id.Name != "." {
					// the caller's file does not import the package (and nothing else has the name there): the import
					// is added with the expansion
					if in.lastImports == nil {
						in.lastImports = map[string]string{}
					}
					in.lastImports[ov.Imported().Path()] = id.Name
					return true
				}
				ap, isPkg := at.(*types.PkgName)
				if !isPkg || ap.Imported() != ov.Imported() {
					ok = false
				}
			default:
				if at != o {
					ok = false
				}
			}
			return ok
		})
	}
	check(f.Body)
	return ok
}

// typeText renders a type for the call site's file.
func (b *bodyBuilder) typeText(t types.Type) (string, bool) {
	ok := true
	pkg := b.s.callee.Pkg.Types
	scope := pkg.Scope().Innermost(b.s.call.Pos())
	qual := func(p *types.Package) string {
		if p == pkg {
			return ""
		}
		// find an import of p in the call site's file
		for _, imp := range b.s.file.Imports {
			path := strings.Trim(imp.Path.Value, "\"")
			if path != p.Path() {
				continue
			}
			name := p.Name()
			if imp.Name != nil {
				name = imp.Name.Name
			}
			if name == "." || name == "_" {
				ok = false
				return name
			}
			if scope != nil {
				if _, at := scope.LookupParent(name, b.s.call.Pos()); at != nil {
					if pn, isPkg := at.(*types.PkgName); !isPkg || pn.Imported() != p {
						ok = false
					}
				}
			}
			return name
		}
		ok = false
		return p.Name()
	}
	s := types.TypeString(t, qual)
	return s, ok
}

func (b *bodyBuilder) sameResultTypes(ret ast.Stmt) bool {
	// the enclosing function of the return statement
	for m := b.in.p.parents[ret]; m != nil; m = b.in.p.parents[m] {
		var ft *ast.FuncType
		switch x := m.(type) {
		case *ast.FuncLit:
			ft = x.Type
		case *ast.FuncDecl:
			ft = x.Type
		default:
			continue
		}
		var outer []types.Type
		if ft.Results != nil {
			for _, r := range ft.Results.List {
				n := len(r.Names)
				if n == 0 {
					n = 1
				} else {
					return false // named results: bare returns possible, keep the call
				}
				for i := 0; i < n; i++ {
					outer = append(outer, b.info.TypeOf(r.Type))
				}
			}
		}
		if len(outer) != b.nres {
			return false
		}
		for i, t := range outer {
			if t == nil || !types.Identical(t, b.sig.Results().At(i).Type()) {
				return false
			}
		}
		return true
	}
	return false
}

// asExpression: `func h(p) T { return E }` with substitutable parameters.
func (b *bodyBuilder) asExpression() (string, bool) {
	f := b.s.callee
	if len(f.Body.List) != 1 || b.nres != 1 || len(b.binds) != 0 {
		return "", false
	}
	rs, ok := f.Body.List[0].(*ast.ReturnStmt)
	if !ok || len(rs.Results) != 1 {
		return "", false
	}
	// a parameter that is used more than once needs a call-free argument (it is: substitutable)
	e := rs.Results[0]
	txt := b.render(e.Pos(), e.End(), nil)
	tv, ok := b.info.Types[e]
	rt := b.sig.Results().At(0).Type()
	if !ok || tv.Value != nil || tv.IsNil() || !types.Identical(tv.Type, rt) {
		tt, ok := b.typeText(rt)
		if !ok {
			return "", false
		}
		return paren(tt) + paren(txt), true
	}
	return paren(txt), true
}

// render copies helper text [from, to) with parameter substitution applied and
// the edits in `extra` (sorted, non-overlapping, absolute positions).
type posEdit struct {
	a, b token.Pos
	text string
}

var addrOfIdent = regexp.MustCompile(`^\(&[A-Za-z_][A-Za-z0-9_]*\)$`)

func (b *bodyBuilder) render(from, to token.Pos, extra []posEdit) string {
	in := b.in
	var eds []posEdit
	eds = append(eds, extra...)
	for _, se := range b.spreadEdits {
		if se.a >= from && se.b <= to {
			covered := false
			for _, e := range extra {
				if se.a >= e.a && se.b <= e.b {
					covered = true
				}
			}
			if !covered {
				eds = append(eds, se)
				extra = append(extra, se)
			}
		}
	}
	inExtra := func(p token.Pos) bool {
		for _, e := range extra {
			if p >= e.a && p < e.b {
				return true
			}
		}
		return false
	}
	ast.Inspect(b.s.callee.Body, func(n ast.Node) bool {
		id, ok := n.(*ast.Ident)
		if !ok || id.Pos() < from || id.End() > to || inExtra(id.Pos()) {
			return true
		}
		if v, ok := b.info.Uses[id].(*types.Var); ok {
			if t, ok := b.subst[v]; ok {
				if sel, isSel := b.in.p.parents[id].(*ast.SelectorExpr); isSel && sel.X == ast.Expr(id) && addrOfIdent.MatchString(t) {
					// (&x).f and (&x).m() are x.f and x.m(): x is addressable, or &x would not have compiled
					t = t[2 : len(t)-1]
				}
				eds = append(eds, posEdit{id.Pos(), id.End(), t})
			}
		}
		if tn, ok := b.info.Uses[id].(*types.TypeName); ok && b.tsubst != nil {
			if t, ok := b.tsubst[tn]; ok {
				eds = append(eds, posEdit{id.Pos(), id.End(), t})
			}
		}
		return true
	})
	sort.Slice(eds, func(i, j int) bool { return eds[i].a < eds[j].a })
	var sb strings.Builder
	pos := from
	for _, e := range eds {
		if e.a < pos {
			continue
		}
		sb.WriteString(in.text(pos, e.a))
		sb.WriteString(e.text)
		pos = e.b
	}
	sb.WriteString(in.text(pos, to))
	return sb.String()
}

// build renders the helper body as a block for the given mode. It returns the
// text (declarations of the temporaries, then the block) and the label that
// follows the block when the body leaves through a goto.
func (b *bodyBuilder) build(mode int, tmp func(int) string) (string, string) {
	f := b.s.callee
	label := fmt.Sprintf("_inl%d_%d", b.in.round, b.id)
	usedLabel := false
	var tail *ast.ReturnStmt
	if n := len(f.Body.List); n > 0 {
		tail, _ = f.Body.List[n-1].(*ast.ReturnStmt)
	}
	var edits []posEdit
	// a helper that builds its single result in one local and returns it at the end writes
	// straight into the assigned variable (the local is renamed): `x := build()` reads like
	// the loop it was extracted from
	nrvo := false
	if mode == modeTemps && b.declare != nil && b.nres == 1 && tail != nil && len(tail.Results) == 1 {
		nret := 0
		ast.Inspect(f.Body, func(n ast.Node) bool {
			if _, ok := n.(*ast.FuncLit); ok {
				return false
			}
			if _, ok := n.(*ast.ReturnStmt); ok {
				nret++
			}
			return true
		})
		if id, ok := ast.Unparen(tail.Results[0]).(*ast.Ident); ok && nret == 1 && tmp(0) != "_" {
			if v, ok := b.info.Uses[id].(*types.Var); ok && !v.IsField() && types.Identical(v.Type(), b.sig.Results().At(0).Type()) {
				for _, st := range f.Body.List {
					switch d := st.(type) {
					case *ast.AssignStmt:
						if d.Tok == token.DEFINE && len(d.Lhs) == 1 && len(d.Rhs) == 1 {
							if did, ok := d.Lhs[0].(*ast.Ident); ok && b.info.Defs[did] == types.Object(v) {
								edits = append(edits, posEdit{d.Pos(), d.End(), tmp(0) + " = " + b.render(d.Rhs[0].Pos(), d.Rhs[0].End(), nil)})
								nrvo = true
							}
						}
					case *ast.DeclStmt:
						gd, _ := d.Decl.(*ast.GenDecl)
						if gd == nil || gd.Tok != token.VAR || len(gd.Specs) != 1 {
							continue
						}
						vs := gd.Specs[0].(*ast.ValueSpec)
						if len(vs.Names) != 1 || b.info.Defs[vs.Names[0]] != types.Object(v) {
							continue
						}
						switch {
						case len(vs.Values) == 1:
							edits = append(edits, posEdit{d.Pos(), d.End(), tmp(0) + " = " + b.render(vs.Values[0].Pos(), vs.Values[0].End(), nil)})
							nrvo = true
						case len(vs.Values) == 0 && b.declare[0]:
							edits = append(edits, posEdit{d.Pos(), d.End(), ""})
							nrvo = true
						}
					}
				}
				if nrvo {
					b.subst[v] = tmp(0)
					edits = append(edits, posEdit{tail.Pos(), tail.End(), ""})
				}
			}
		}
	}
	var walk func(n ast.Node)
	walk = func(root ast.Node) {
		ast.Inspect(root, func(n ast.Node) bool {
			if _, ok := n.(*ast.FuncLit); ok {
				return false
			}
			rs, ok := n.(*ast.ReturnStmt)
			if !ok {
				return true
			}
			if mode == modeReturn || nrvo {
				return false
			}
			var res []string
			for _, r := range rs.Results {
				res = append(res, b.render(r.Pos(), r.End(), nil))
			}
			if len(rs.Results) == 0 && b.nres > 0 {
				res = append(res, b.namedResults()...) // bare return of named results
			}
			var txt string
			switch {
			case b.nres == 0 || (mode == modeDiscard && len(res) == 0):
				txt = ""
			case mode == modeDiscard:
				blanks := strings.TrimSuffix(strings.Repeat("_, ", b.nres), ", ")
				txt = blanks + " = " + strings.Join(res, ", ")
			default:
				var ts, rs2 []string
				for i := 0; i < b.nres; i++ {
					if i < len(res) && b.reuse[i] && strings.TrimSpace(res[i]) == tmp(i) {
						continue // the result variable is returned as it is
					}
					ts = append(ts, tmp(i))
					if i < len(res) {
						rs2 = append(rs2, res[i])
					}
				}
				if len(res) != b.nres {
					rs2 = res // a call that yields all results
					ts = ts[:0]
					for i := 0; i < b.nres; i++ {
						ts = append(ts, tmp(i))
					}
				}
				if len(ts) > 0 {
					// `_ = nil` does not compile: a nil stored into a blank target is given the result's type
					for i := range ts {
						if ts[i] == "_" && i < len(rs2) && strings.TrimSpace(rs2[i]) == "nil" && len(rs2) == len(ts) && len(ts) == b.nres {
							if tt, ok := b.typeText(b.sig.Results().At(i).Type()); ok {
								rs2[i] = "(" + tt + ")(nil)"
							}
						}
					}
					txt = strings.Join(ts, ", ") + " = " + strings.Join(rs2, ", ")
				}
			}
			if rs == tail {
				edits = append(edits, posEdit{rs.Pos(), rs.End(), txt})
			} else {
				usedLabel = true
				if txt != "" {
					txt += "; "
				}
				edits = append(edits, posEdit{rs.Pos(), rs.End(), "{ " + txt + "goto " + label + " }"})
			}
			return false
		})
	}
	walk(f.Body)
	body := b.render(f.Body.Lbrace+1, f.Body.Rbrace, edits)
	var sb strings.Builder
	if mode == modeTemps {
		for i := 0; i < b.nres; i++ {
			if b.declare != nil && !b.declare[i] {
				continue
			}
			tt, _ := b.typeText(b.sig.Results().At(i).Type())
			sb.WriteString("var " + tmp(i) + " " + tt + "\n")
		}
	}
	sb.WriteString("{\n")
	if len(b.binds) > 0 {
		allBlank := true
		for _, n := range b.binds {
			if n != "_" {
				allBlank = false
			}
		}
		op := " := "
		if allBlank {
			op = " = "
		}
		// one definition per parameter (so that a bound function literal or call is expanded by the next round) unless a
		// later argument mentions an earlier parameter's name, which the earlier definition would capture
		sequential := len(b.binds) > 1
		for i := range b.binds {
			for j := i + 1; j < len(b.bindArgs); j++ {
				if b.binds[i] != "_" && mentionsName(b.bindArgs[j], b.binds[i]) {
					sequential = false
				}
			}
		}
		if sequential {
			for i, n := range b.binds {
				o := " := "
				if n == "_" {
					o = " = "
				}
				sb.WriteString(n + o + b.bindArgs[i] + "\n")
			}
		} else {
			sb.WriteString(strings.Join(b.binds, ", ") + op + strings.Join(b.bindArgs, ", ") + "\n")
		}
		var named []string
		for _, n := range b.binds {
			if n != "_" {
				named = append(named, n)
			}
		}
		for _, n := range named {
			sb.WriteString("_ = " + n + "\n")
		}
	}
	// named results are ordinary locals of the expanded block (zero-initialised)
	if names := b.namedResults(); len(names) > 0 {
		for i, nm := range names {
			if nm == "_" || b.reuse[i] {
				continue
			}
			tt, _ := b.typeText(b.sig.Results().At(i).Type())
			sb.WriteString("var " + nm + " " + tt + "\n_ = " + nm + "\n")
		}
	}
	sb.WriteString(body)
	sb.WriteString("\n}\n")
	if !usedLabel {
		label = ""
	}
	return sb.String(), label
}

// namedResults lists the names of the helper's results when they are named.
func (b *bodyBuilder) namedResults() []string {
	var out []string
	if r := b.s.callee.Type.Results; r != nil {
		for _, fld := range r.List {
			for _, nm := range fld.Names {
				out = append(out, nm.Name)
			}
		}
	}
	if len(out) != b.nres {
		return nil
	}
	return out
}

// typesOK reports whether every result type can be written at the call site.
func (b *bodyBuilder) typesOK() bool {
	for i := 0; i < b.nres; i++ {
		if _, ok := b.typeText(b.sig.Results().At(i).Type()); !ok {
			return false
		}
	}
	return true
}
