package chk

import (
	"fmt"
	"go/ast"
	"go/types"
	"path/filepath"
	"sort"
	"strings"
	"text/template/parse"
)

// Engine G: static analysis of text/template sources against Go types.
//
// The embedded FRR templates are parsed with text/template/parse (the FuncMap
// names are extracted from the Go source that builds it). A small type checker
// resolves every field chain against go/types starting from the data type of
// the root template, follows {{template "x" arg}} calls (the dict helper yields
// a record type), and reports unknown fields, unknown functions, arity errors
// and inconsistent call sites. Templates are also flattened into output lines
// (text interleaved with actions) for the structural rules.

// TemplateSet is a parsed set of templates plus the FuncMap signatures.
type TemplateSet struct {
	Prog     *Prog
	Trees    map[string]*parse.Tree
	FileOf   map[string]string
	Funcs    map[string]*types.Signature
	FuncLits map[string]*ast.FuncLit
	FuncFn   *Fn
	Nodes    int

	UsedFields  map[*types.Var]bool
	UsedMethods map[*types.Func]bool
	Issues      []TplIssue
	checked     map[string]string // template name -> arg type signature
	DictFunc    string            // name of the record-building helper ("dict")
	CallSites   map[string][]TplCall
}

// TplIssue is a type error found in a template.
type TplIssue struct {
	Template string
	File     string
	Line     int
	Msg      string
}

// TplCall is one {{template "name" arg}} call site.
type TplCall struct {
	From string
	Node *parse.TemplateNode
	Arg  TType
}

var tplBuiltins = []string{"and", "or", "not", "eq", "ne", "lt", "le", "gt", "ge", "len", "index", "slice", "print", "printf", "println", "html", "js", "urlquery", "call"}

// LoadTemplates parses the template files matching glob (relative to the repo
// root); funcMapFn is the Go function that builds the template.FuncMap literal.
func (p *Prog) LoadTemplates(glob string, funcMapFn *Fn) (*TemplateSet, error) {
	ts := &TemplateSet{Prog: p, Trees: map[string]*parse.Tree{}, FileOf: map[string]string{}, Funcs: map[string]*types.Signature{},
		FuncLits: map[string]*ast.FuncLit{}, FuncFn: funcMapFn, UsedFields: map[*types.Var]bool{}, UsedMethods: map[*types.Func]bool{},
		checked: map[string]string{}, DictFunc: "dict", CallSites: map[string][]TplCall{}}
	// the FuncMap literals of the function that renders, then those of the other functions of its package (the templates
	// parsed once by a helper, the stateful functions bound again per render): a name bound in the rendering function wins
	var fmFns []*Fn
	if funcMapFn != nil {
		fmFns = append(fmFns, funcMapFn)
		for _, o := range p.FuncsIn(strings.TrimPrefix(funcMapFn.Pkg.PkgPath, Module+"/")) {
			if o != funcMapFn && o.Body != nil {
				fmFns = append(fmFns, o)
			}
		}
	}
	for _, funcMapFn := range fmFns {
		ast.Inspect(funcMapFn.Body, func(n ast.Node) bool {
			cl, ok := n.(*ast.CompositeLit)
			if !ok {
				return true
			}
			t := funcMapFn.Info().TypeOf(cl)
			if t == nil || !strings.HasSuffix(t.String(), "text/template.FuncMap") {
				return true
			}
			for _, e := range cl.Elts {
				kv, ok := e.(*ast.KeyValueExpr)
				if !ok {
					continue
				}
				name := ""
				if c := funcMapFn.ConstVal(kv.Key); c != nil {
					name = strings.Trim(c.ExactString(), `"`)
				}
				if _, bound := ts.Funcs[name]; bound {
					continue
				}
				if sig, ok := funcMapFn.Info().TypeOf(kv.Value).(*types.Signature); ok && name != "" {
					ts.Funcs[name] = sig
					if lit, ok := kv.Value.(*ast.FuncLit); ok {
						ts.FuncLits[name] = lit
					} else if lit := p.funcValueAsLit(funcMapFn, kv.Value); lit != nil {
						ts.FuncLits[name] = lit
					}
				}
			}
			return true
		})
	}
	funcs := map[string]any{}
	for _, b := range tplBuiltins {
		funcs[b] = true
	}
	for n := range ts.Funcs {
		funcs[n] = true
	}
	files := p.Glob(glob)
	if len(files) == 0 {
		return nil, fmt.Errorf("no template files match %s", glob)
	}
	for _, f := range files {
		b, err := p.ReadFile(f)
		if err != nil {
			return nil, err
		}
		trees, err := parse.Parse(filepath.Base(f), string(b), "", "", funcs)
		if err != nil {
			return nil, fmt.Errorf("%s: %w", f, err)
		}
		for name, t := range trees {
			if t.Root == nil {
				continue
			}
			if _, dup := ts.Trees[name]; dup && len(t.Root.Nodes) == 0 {
				continue
			}
			ts.Trees[name] = t
			ts.FileOf[name] = f
			countNodes(t.Root, &ts.Nodes)
		}
	}
	return ts, nil
}

func countNodes(n parse.Node, c *int) {
	if n == nil {
		return
	}
	*c++
	switch x := n.(type) {
	case *parse.ListNode:
		if x != nil {
			for _, m := range x.Nodes {
				countNodes(m, c)
			}
		}
	case *parse.IfNode:
		countNodes(x.Pipe, c)
		countNodes(x.List, c)
		if x.ElseList != nil {
			countNodes(x.ElseList, c)
		}
	case *parse.RangeNode:
		countNodes(x.Pipe, c)
		countNodes(x.List, c)
		if x.ElseList != nil {
			countNodes(x.ElseList, c)
		}
	case *parse.WithNode:
		countNodes(x.Pipe, c)
		countNodes(x.List, c)
		if x.ElseList != nil {
			countNodes(x.ElseList, c)
		}
	case *parse.ActionNode:
		countNodes(x.Pipe, c)
	case *parse.TemplateNode:
		if x.Pipe != nil {
			countNodes(x.Pipe, c)
		}
	case *parse.PipeNode:
		if x != nil {
			for _, cmd := range x.Cmds {
				countNodes(cmd, c)
			}
		}
	case *parse.CommandNode:
		for _, a := range x.Args {
			countNodes(a, c)
		}
	}
}

// ---- types ------------------------------------------------------------------

// TType is the static type of a template value.
type TType interface{ tstring() string }

type GoT struct{ T types.Type }
type RecT struct{ Fields map[string]TType }
type AnyT struct{}
type ConstT struct{ Kind string } // "number", "string", "bool", "nil"

func (g GoT) tstring() string { return g.T.String() }
func (r RecT) tstring() string {
	var ks []string
	for k, v := range r.Fields {
		ks = append(ks, k+":"+v.tstring())
	}
	sort.Strings(ks)
	return "dict{" + strings.Join(ks, ",") + "}"
}
func (AnyT) tstring() string     { return "any" }
func (c ConstT) tstring() string { return c.Kind }

type tEnv struct {
	ts   *TemplateSet
	tmpl string
	dot  TType
	root TType
	vars map[string]TType
}

func (e *tEnv) child() *tEnv {
	v := map[string]TType{}
	for k, t := range e.vars {
		v[k] = t
	}
	return &tEnv{ts: e.ts, tmpl: e.tmpl, dot: e.dot, root: e.root, vars: v}
}

func (e *tEnv) issue(n parse.Node, format string, args ...any) {
	ts := e.ts
	line := 0
	if t := ts.Trees[e.tmpl]; t != nil && n != nil {
		// line number from byte offset
		src, _ := ts.Prog.ReadFile(ts.FileOf[e.tmpl])
		off := int(n.Position())
		if off <= len(src) {
			line = 1 + strings.Count(string(src[:off]), "\n")
		}
	}
	ts.Issues = append(ts.Issues, TplIssue{e.tmpl, ts.FileOf[e.tmpl], line, fmt.Sprintf(format, args...)})
}

// Check type-checks the template set starting at root with the given data type.
func (ts *TemplateSet) Check(root string, data types.Type) {
	t := ts.Trees[root]
	if t == nil {
		ts.Issues = append(ts.Issues, TplIssue{root, "", 0, "root template not found"})
		return
	}
	env := &tEnv{ts: ts, tmpl: root, dot: GoT{data}, root: GoT{data}, vars: map[string]TType{"$": GoT{data}}}
	env.list(t.Root)
}

func (e *tEnv) list(l *parse.ListNode) {
	if l == nil {
		return
	}
	for _, n := range l.Nodes {
		e.node(n)
	}
}

func (e *tEnv) node(n parse.Node) {
	switch x := n.(type) {
	case *parse.TextNode, *parse.CommentNode:
	case *parse.ActionNode:
		e.pipe(x.Pipe)
	case *parse.IfNode:
		c := e.child()
		c.pipe(x.Pipe)
		c.child().list(x.List)
		if x.ElseList != nil {
			c.child().list(x.ElseList)
		}
	case *parse.WithNode:
		c := e.child()
		t := c.pipe(x.Pipe)
		b := c.child()
		b.dot = t
		b.list(x.List)
		if x.ElseList != nil {
			c.child().list(x.ElseList)
		}
	case *parse.RangeNode:
		c := e.child()
		// declared variables get the element type
		t := c.pipeNoDecl(x.Pipe)
		elem, key := e.elemOf(x, t)
		if len(x.Pipe.Decl) == 1 {
			c.vars[x.Pipe.Decl[0].Ident[0]] = elem
		} else if len(x.Pipe.Decl) == 2 {
			c.vars[x.Pipe.Decl[0].Ident[0]] = key
			c.vars[x.Pipe.Decl[1].Ident[0]] = elem
		}
		b := c.child()
		b.dot = elem
		b.list(x.List)
		if x.ElseList != nil {
			c.child().list(x.ElseList)
		}
	case *parse.TemplateNode:
		var arg TType = ConstT{"nil"}
		if x.Pipe != nil {
			arg = e.pipe(x.Pipe)
		}
		e.ts.CallSites[x.Name] = append(e.ts.CallSites[x.Name], TplCall{e.tmpl, x, arg})
		t := e.ts.Trees[x.Name]
		if t == nil {
			e.issue(x, "template %q is not defined", x.Name)
			return
		}
		sig := arg.tstring()
		if prev, ok := e.ts.checked[x.Name]; ok {
			if prev != sig {
				e.issue(x, "template %q is called with %s here but with %s elsewhere", x.Name, sig, prev)
			}
			return
		}
		e.ts.checked[x.Name] = sig
		sub := &tEnv{ts: e.ts, tmpl: x.Name, dot: arg, root: arg, vars: map[string]TType{"$": arg}}
		sub.list(t.Root)
	case *parse.ListNode:
		e.list(x)
	}
}

func (e *tEnv) elemOf(n parse.Node, t TType) (elem, key TType) {
	g, ok := t.(GoT)
	if !ok {
		if _, isAny := t.(AnyT); !isAny {
			e.issue(n, "range over %s", t.tstring())
		}
		return AnyT{}, AnyT{}
	}
	u := g.T.Underlying()
	if p, ok := u.(*types.Pointer); ok {
		u = p.Elem().Underlying()
	}
	switch c := u.(type) {
	case *types.Slice:
		return GoT{c.Elem()}, GoT{types.Typ[types.Int]}
	case *types.Array:
		return GoT{c.Elem()}, GoT{types.Typ[types.Int]}
	case *types.Map:
		return GoT{c.Elem()}, GoT{c.Key()}
	}
	e.issue(n, "range over non-iterable %s", g.T)
	return AnyT{}, AnyT{}
}

func (e *tEnv) pipe(p *parse.PipeNode) TType {
	t := e.pipeNoDecl(p)
	for _, d := range p.Decl {
		e.vars[d.Ident[0]] = t
	}
	return t
}

func (e *tEnv) pipeNoDecl(p *parse.PipeNode) TType {
	if p == nil {
		return AnyT{}
	}
	var cur TType
	for i, c := range p.Cmds {
		var extra []TType
		if i > 0 {
			extra = []TType{cur}
		}
		cur = e.cmd(c, extra)
	}
	return cur
}

func (e *tEnv) cmd(c *parse.CommandNode, piped []TType) TType {
	if len(c.Args) == 0 {
		return AnyT{}
	}
	first := c.Args[0]
	switch f := first.(type) {
	case *parse.IdentifierNode:
		var args []TType
		for _, a := range c.Args[1:] {
			args = append(args, e.arg(a))
		}
		args = append(args, piped...)
		return e.call(f, f.Ident, args, c.Args[1:])
	case *parse.PipeNode:
		return e.pipeNoDecl(f)
	}
	t := e.arg(first)
	if len(c.Args) > 1 || len(piped) > 0 {
		// method call with arguments: not used by these templates
		for _, a := range c.Args[1:] {
			e.arg(a)
		}
	}
	return t
}

func (e *tEnv) arg(n parse.Node) TType {
	switch x := n.(type) {
	case *parse.DotNode:
		return e.dot
	case *parse.NilNode:
		return ConstT{"nil"}
	case *parse.FieldNode:
		return e.chain(n, e.dot, x.Ident)
	case *parse.VariableNode:
		v, ok := e.vars[x.Ident[0]]
		if !ok {
			e.issue(n, "undefined variable %s", x.Ident[0])
			return AnyT{}
		}
		return e.chain(n, v, x.Ident[1:])
	case *parse.ChainNode:
		return e.chain(n, e.arg(x.Node), x.Field)
	case *parse.PipeNode:
		return e.pipeNoDecl(x)
	case *parse.StringNode:
		return ConstT{"string"}
	case *parse.NumberNode:
		return ConstT{"number"}
	case *parse.BoolNode:
		return ConstT{"bool"}
	case *parse.IdentifierNode:
		return e.call(x, x.Ident, nil, nil)
	}
	return AnyT{}
}

func (e *tEnv) chain(n parse.Node, t TType, fields []string) TType {
	for _, name := range fields {
		switch c := t.(type) {
		case AnyT:
			return AnyT{}
		case RecT:
			ft, ok := c.Fields[name]
			if !ok {
				e.issue(n, "the template argument has no key %q (keys: %s)", name, c.tstring())
				return AnyT{}
			}
			t = ft
		case GoT:
			obj, _, _ := types.LookupFieldOrMethod(c.T, true, nil, name)
			if obj == nil || !obj.Exported() {
				// map with string keys: index
				if m, ok := derefU(c.T).(*types.Map); ok {
					t = GoT{m.Elem()}
					continue
				}
				e.issue(n, "%s has no exported field or method %q", c.T, name)
				return AnyT{}
			}
			switch o := obj.(type) {
			case *types.Var:
				e.ts.UsedFields[o] = true
				t = GoT{o.Type()}
			case *types.Func:
				e.ts.UsedMethods[o] = true
				sig := o.Type().(*types.Signature)
				if sig.Results().Len() == 0 {
					e.issue(n, "method %s returns nothing", name)
					return AnyT{}
				}
				t = GoT{sig.Results().At(0).Type()}
			}
		default:
			e.issue(n, "field %q of a constant", name)
			return AnyT{}
		}
	}
	return t
}

func derefU(t types.Type) types.Type {
	u := t.Underlying()
	if p, ok := u.(*types.Pointer); ok {
		return p.Elem().Underlying()
	}
	return u
}

func (e *tEnv) call(n parse.Node, name string, args []TType, argNodes []parse.Node) TType {
	if name == e.ts.DictFunc {
		if _, ok := e.ts.Funcs[name]; ok {
			rec := RecT{map[string]TType{}}
			if len(argNodes)%2 != 0 {
				e.issue(n, "dict called with an odd number of arguments")
				return rec
			}
			for i := 0; i+1 < len(argNodes); i += 2 {
				s, ok := argNodes[i].(*parse.StringNode)
				if !ok {
					e.issue(n, "dict key is not a string literal")
					continue
				}
				rec.Fields[s.Text] = args[i+1]
			}
			return rec
		}
	}
	if sig, ok := e.ts.Funcs[name]; ok {
		np := sig.Params().Len()
		if sig.Variadic() {
			if len(args) < np-1 {
				e.issue(n, "function %s needs at least %d arguments, got %d", name, np-1, len(args))
			}
		} else if len(args) != np {
			e.issue(n, "function %s needs %d arguments, got %d", name, np, len(args))
		} else {
			for i, a := range args {
				pt := sig.Params().At(i).Type()
				if !compatible(a, pt) {
					e.issue(n, "argument %d of %s has type %s, want %s", i+1, name, a.tstring(), pt)
				}
			}
		}
		if sig.Results().Len() == 0 {
			return AnyT{}
		}
		return GoT{sig.Results().At(0).Type()}
	}
	switch name {
	case "eq", "ne", "lt", "le", "gt", "ge", "not":
		return GoT{types.Typ[types.Bool]}
	case "and", "or":
		return AnyT{}
	case "len":
		return GoT{types.Typ[types.Int]}
	case "print", "printf", "println", "html", "js", "urlquery":
		return GoT{types.Typ[types.String]}
	case "index":
		if len(args) >= 1 {
			if g, ok := args[0].(GoT); ok {
				switch c := derefU(g.T).(type) {
				case *types.Slice:
					return GoT{c.Elem()}
				case *types.Map:
					return GoT{c.Elem()}
				}
			}
		}
		return AnyT{}
	case "slice", "call":
		return AnyT{}
	}
	e.issue(n, "function %q is not defined", name)
	return AnyT{}
}

func compatible(a TType, param types.Type) bool {
	switch x := a.(type) {
	case AnyT:
		return true
	case ConstT:
		b, ok := param.Underlying().(*types.Basic)
		switch x.Kind {
		case "string":
			return ok && b.Info()&types.IsString != 0 || isEmptyInterface(param)
		case "number":
			return ok && b.Info()&types.IsNumeric != 0 || isEmptyInterface(param)
		case "bool":
			return ok && b.Info()&types.IsBoolean != 0 || isEmptyInterface(param)
		case "nil":
			return true
		}
		return false
	case RecT:
		return isEmptyInterface(param) || strings.HasPrefix(param.String(), "map[string]")
	case GoT:
		if types.AssignableTo(x.T, param) {
			return true
		}
		// text/template dereferences / takes addresses where needed
		if p, ok := x.T.(*types.Pointer); ok && types.AssignableTo(p.Elem(), param) {
			return true
		}
		if types.AssignableTo(types.NewPointer(x.T), param) {
			return true
		}
		return false
	}
	return false
}

func isEmptyInterface(t types.Type) bool {
	i, ok := t.Underlying().(*types.Interface)
	return ok && i.NumMethods() == 0
}

// ---- flattening ---------------------------------------------------------------

// TSeg is a piece of an output line: literal text or an action.
type TSeg struct {
	Text   string
	Action parse.Node
}

// TLine is one output line of a template (actions kept symbolic).
type TLine struct {
	Tmpl string
	Segs []TSeg
	Ctx  []parse.Node      // enclosing if / range / with nodes, outermost first
	vars map[string]string // variables of the template whose definitions ($v := pipe) are all the same pipeline
}

// String renders the line with actions in {{…}} form.
func (l TLine) String() string {
	var sb strings.Builder
	for _, s := range l.Segs {
		if s.Action != nil {
			sb.WriteString("{{" + l.canonAction(actionString(s.Action)) + "}}")
		} else {
			sb.WriteString(s.Text)
		}
	}
	return sb.String()
}

// canonAction spells an action independently of two naming choices: the element variable of an enclosing
// {{range $c := …}} is the dot (when nothing in between rebinds the dot), and an action that is nothing but a variable
// defined once in the template ({{$name}}) is that variable's pipeline.
func (l TLine) canonAction(a string) string {
	for i, c := range l.Ctx {
		r, ok := c.(*parse.RangeNode)
		if !ok || len(r.Pipe.Decl) == 0 {
			continue
		}
		rebound := false
		for _, inner := range l.Ctx[i+1:] {
			switch inner.(type) {
			case *parse.RangeNode, *parse.WithNode:
				rebound = true
			}
		}
		if rebound {
			continue
		}
		elem := r.Pipe.Decl[len(r.Pipe.Decl)-1].Ident[0]
		a = replaceVar(a, elem, ".")
	}
	if strings.HasPrefix(a, "$") && !strings.ContainsAny(a, " .|(") {
		if def, ok := l.vars[a]; ok {
			return def
		}
	}
	return a
}

// replaceVar replaces the variable (a whole word, not followed by a field selector) by repl.
func replaceVar(s, name, repl string) string {
	var sb strings.Builder
	for i := 0; i < len(s); {
		if strings.HasPrefix(s[i:], name) {
			j := i + len(name)
			if j == len(s) || !(s[j] == '_' || s[j] == '.' || s[j] >= '0' && s[j] <= '9' || s[j] >= 'a' && s[j] <= 'z' || s[j] >= 'A' && s[j] <= 'Z') {
				sb.WriteString(repl)
				i = j
				continue
			}
		}
		sb.WriteByte(s[i])
		i++
	}
	return sb.String()
}

func actionString(n parse.Node) string {
	switch x := n.(type) {
	case *parse.ActionNode:
		return x.Pipe.String()
	case *parse.TemplateNode:
		return strings.TrimSuffix(strings.TrimPrefix(x.String(), "{{"), "}}")
	}
	return n.String()
}

// InRangeOver reports whether the line lies inside a {{range}} whose pipeline
// renders as pipe.
func (l TLine) InRangeOver(pipe string) bool {
	for _, c := range l.Ctx {
		if r, ok := c.(*parse.RangeNode); ok {
			s := r.Pipe.String()
			if i := strings.Index(s, ":= "); i >= 0 {
				s = s[i+3:]
			}
			if s == pipe {
				return true
			}
		}
	}
	return false
}

// Lines flattens template `name` into output lines. Bodies of if/range/with are
// included once, inline, in source order; variable declarations produce no output.
func (ts *TemplateSet) Lines(name string) []TLine {
	t := ts.Trees[name]
	if t == nil {
		return nil
	}
	var lines []TLine
	cur := TLine{Tmpl: name}
	flush := func() {
		lines = append(lines, cur)
		cur = TLine{Tmpl: name, Ctx: cur.Ctx}
	}
	var walk func(l *parse.ListNode, ctx []parse.Node)
	walk = func(l *parse.ListNode, ctx []parse.Node) {
		if l == nil {
			return
		}
		for _, n := range l.Nodes {
			switch x := n.(type) {
			case *parse.TextNode:
				parts := strings.Split(string(x.Text), "\n")
				for i, p := range parts {
					if i > 0 {
						flush()
						cur.Ctx = append([]parse.Node{}, ctx...)
					}
					if p != "" {
						cur.Segs = append(cur.Segs, TSeg{Text: p})
					}
				}
			case *parse.ActionNode:
				if len(x.Pipe.Decl) > 0 {
					continue // assignment: no output
				}
				cur.Segs = append(cur.Segs, TSeg{Action: x})
			case *parse.TemplateNode:
				cur.Segs = append(cur.Segs, TSeg{Action: x})
			case *parse.IfNode:
				// a line's context is the nesting in force where the line starts
				c2 := append(append([]parse.Node{}, ctx...), x)
				walk(x.List, c2)
				if x.ElseList != nil {
					walk(x.ElseList, c2)
				}
			case *parse.RangeNode:
				c2 := append(append([]parse.Node{}, ctx...), x)
				walk(x.List, c2)
			case *parse.WithNode:
				c2 := append(append([]parse.Node{}, ctx...), x)
				walk(x.List, c2)
			}
		}
	}
	walk(t.Root, nil)
	flush()
	vars := map[string]string{}
	for v, defs := range ts.VarDefs(name) {
		same := len(defs) > 0
		for _, d := range defs {
			if d != defs[0] {
				same = false
			}
		}
		if same {
			vars[v] = defs[0] // every definition is the same pipeline
		}
	}
	// drop empty lines
	var out []TLine
	for _, l := range lines {
		l.vars = vars
		if strings.TrimSpace(l.String()) != "" {
			out = append(out, l)
		}
	}
	return out
}

// VarDefs returns, for template `name`, the pipelines assigned to variables
// ($x := pipe) rendered as strings.
func (ts *TemplateSet) VarDefs(name string) map[string][]string {
	out := map[string][]string{}
	t := ts.Trees[name]
	if t == nil {
		return out
	}
	var walk func(n parse.Node)
	walk = func(n parse.Node) {
		switch x := n.(type) {
		case *parse.ListNode:
			if x != nil {
				for _, m := range x.Nodes {
					walk(m)
				}
			}
		case *parse.ActionNode:
			for _, d := range x.Pipe.Decl {
				s := x.Pipe.String()
				if i := strings.Index(s, "= "); i >= 0 {
					s = s[i+2:]
				}
				out[d.Ident[0]] = append(out[d.Ident[0]], s)
			}
		case *parse.IfNode:
			walk(x.List)
			if x.ElseList != nil {
				walk(x.ElseList)
			}
		case *parse.RangeNode:
			walk(x.List)
		case *parse.WithNode:
			walk(x.List)
		}
	}
	walk(t.Root)
	return out
}

// DotAsField rewrites the parsed template `name`, whose argument is a value V passed directly, into the calling
// convention in which V arrives as the entry `field` of a record: `.X` (where the dot is still the argument: outside
// range / with bodies) becomes `.field.X`, `$.X` becomes `$.field.X`, a bare `$` or root dot becomes `$.field` /
// `.field`. The two conventions render the same text for the same V; the structure rules are written against the
// record form. Call it after the template was type-checked as written.
func (ts *TemplateSet) DotAsField(name, field string) {
	t := ts.Trees[name]
	if t == nil || t.Root == nil {
		return
	}
	var fix func(n parse.Node, rebound bool) parse.Node
	fixPipe := func(p *parse.PipeNode, rebound bool) {
		if p == nil {
			return
		}
		for _, c := range p.Cmds {
			for i, a := range c.Args {
				c.Args[i] = fix(a, rebound)
			}
		}
	}
	fix = func(n parse.Node, rebound bool) parse.Node {
		switch x := n.(type) {
		case *parse.FieldNode:
			if !rebound {
				x.Ident = append([]string{field}, x.Ident...)
			}
		case *parse.VariableNode:
			if len(x.Ident) >= 1 && x.Ident[0] == "$" {
				x.Ident = append([]string{"$", field}, x.Ident[1:]...)
			}
		case *parse.DotNode:
			if !rebound {
				return &parse.FieldNode{NodeType: parse.NodeField, Pos: x.Pos, Ident: []string{field}}
			}
		case *parse.PipeNode:
			fixPipe(x, rebound)
		case *parse.ChainNode:
			x.Node = fix(x.Node, rebound)
		case *parse.CommandNode:
			for i, a := range x.Args {
				x.Args[i] = fix(a, rebound)
			}
		}
		return n
	}
	var walk func(l *parse.ListNode, rebound bool)
	walk = func(l *parse.ListNode, rebound bool) {
		if l == nil {
			return
		}
		for _, n := range l.Nodes {
			switch x := n.(type) {
			case *parse.ActionNode:
				fixPipe(x.Pipe, rebound)
			case *parse.TemplateNode:
				fixPipe(x.Pipe, rebound)
			case *parse.IfNode:
				fixPipe(x.Pipe, rebound)
				walk(x.List, rebound)
				walk(x.ElseList, rebound)
			case *parse.RangeNode:
				fixPipe(x.Pipe, rebound)
				walk(x.List, true)
				walk(x.ElseList, rebound)
			case *parse.WithNode:
				fixPipe(x.Pipe, rebound)
				walk(x.List, true)
				walk(x.ElseList, rebound)
			}
		}
	}
	walk(t.Root, false)
}

// ArgIsGo reports whether every call site of template `name` passes a Go value of the named struct type (or a pointer
// to it) directly, not a record.
func (ts *TemplateSet) ArgIsGo(name, typeName string) bool {
	cs := ts.CallSites[name]
	if len(cs) == 0 {
		return false
	}
	for _, c := range cs {
		g, ok := c.Arg.(GoT)
		if !ok {
			return false
		}
		t := g.T
		if pt, isP := t.(*types.Pointer); isP {
			t = pt.Elem()
		}
		nt, isN := t.(*types.Named)
		if !isN || nt.Obj().Name() != typeName {
			return false
		}
	}
	return true
}

// funcValueAsLit: a function of the analysed package named where a literal could stand - `f`, or a method expression
// `(*T).m` / `T.m` - read as the literal with the same parameters (the receiver first) and the same body.
func (p *Prog) funcValueAsLit(in *Fn, e ast.Expr) *ast.FuncLit {
	var obj types.Object
	switch v := ast.Unparen(e).(type) {
	case *ast.Ident:
		obj = in.Info().Uses[v]
	case *ast.SelectorExpr:
		if sel := in.Info().Selections[v]; sel != nil && sel.Kind() == types.MethodExpr {
			obj = sel.Obj()
		} else {
			obj = in.Info().Uses[v.Sel]
		}
	}
	fo, isFn := obj.(*types.Func)
	if !isFn {
		return nil
	}
	df := p.FnOf(fo)
	if df == nil || df.Decl == nil || df.Body == nil || df.Pkg != in.Pkg {
		return nil
	}
	ft := &ast.FuncType{Func: df.Decl.Type.Func, Params: &ast.FieldList{}, Results: df.Decl.Type.Results}
	if df.Decl.Recv != nil {
		if _, isME := ast.Unparen(e).(*ast.SelectorExpr); !isME || in.Info().Selections[ast.Unparen(e).(*ast.SelectorExpr)] == nil {
			return nil
		}
		ft.Params.List = append(ft.Params.List, df.Decl.Recv.List...)
	}
	if df.Decl.Type.Params != nil {
		ft.Params.List = append(ft.Params.List, df.Decl.Type.Params.List...)
	}
	return &ast.FuncLit{Type: ft, Body: df.Body}
}
