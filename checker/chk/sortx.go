package chk

import (
	"go/ast"
	"go/token"
	"go/types"
)

// SortCall is one sort.Slice / sort.SliceStable call with a literal comparator.
type SortCall struct {
	Fn    *Fn
	Call  *ast.CallExpr
	Slice ast.Expr
	Less  *ast.FuncLit // nil when the comparator is not a literal
	I, J  types.Object
}

// SortCalls lists every sort.Slice/sort.SliceStable call of the module.
func (p *Prog) SortCalls() []SortCall {
	var out []SortCall
	for _, cs := range p.CallSites("sort.Slice", "sort.SliceStable") {
		sc := SortCall{Fn: cs.Fn, Call: cs.Call}
		if len(cs.Call.Args) != 2 {
			continue
		}
		sc.Slice = cs.Call.Args[0]
		if lit, ok := ast.Unparen(cs.Call.Args[1]).(*ast.FuncLit); ok {
			sc.Less = lit
			var ps []types.Object
			for _, f := range lit.Type.Params.List {
				for _, n := range f.Names {
					ps = append(ps, cs.Fn.Info().Defs[n])
				}
			}
			if len(ps) == 2 {
				sc.I, sc.J = ps[0], ps[1]
			}
		}
		out = append(out, sc)
	}
	return out
}

// IndexesOnlySorted checks SORT-IDX: inside the comparator the index
// parameters are used only to index the slice being sorted. It returns the
// first offending expression.
func (sc SortCall) IndexesOnlySorted() (bool, ast.Node) {
	if sc.Less == nil || sc.I == nil || sc.J == nil {
		return false, sc.Call
	}
	f := sc.Fn
	ok := true
	var bad ast.Node
	ast.Inspect(sc.Less.Body, func(n ast.Node) bool {
		if !ok {
			return false
		}
		id, isID := n.(*ast.Ident)
		if !isID {
			return true
		}
		o := f.Info().Uses[id]
		if o == nil || (o != sc.I && o != sc.J) {
			return true
		}
		par := f.Prog.Parent(id)
		ix, isIx := par.(*ast.IndexExpr)
		if !isIx || ix.Index != ast.Expr(id) || !f.SameExpr(ix.X, sc.Slice) {
			ok, bad = false, par
		}
		return true
	})
	return ok, bad
}

// KeyCompare describes a comparator of the form `return key(x[i]) OP key(x[j])`.
type KeyCompare struct {
	Ret   *ast.ReturnStmt
	Op    string
	Left  ast.Expr // mentions i
	Right ast.Expr // mentions j
	// Swapped is true when the left operand is the j-side (e.g. `x[j].p > x[i].p`).
	Swapped bool
}

// ReturnsOfLess lists the return statements of the comparator.
func (sc SortCall) ReturnsOfLess() []*ast.ReturnStmt {
	var out []*ast.ReturnStmt
	if sc.Less == nil {
		return nil
	}
	InspectNoLit(sc.Less.Body, func(n ast.Node) bool {
		if r, ok := n.(*ast.ReturnStmt); ok {
			out = append(out, r)
		}
		return true
	})
	return out
}

// AsKeyCompare views a return statement of the comparator as a comparison of
// the same key expression applied to element i and element j.
func (sc SortCall) AsKeyCompare(ret *ast.ReturnStmt) *KeyCompare {
	if len(ret.Results) != 1 {
		return nil
	}
	be, ok := ast.Unparen(ret.Results[0]).(*ast.BinaryExpr)
	if !ok {
		return nil
	}
	f := sc.Fn
	bx, by := be.X, be.Y
	// cmp.Compare(A, B) < 0 is A < B, > 0 is A > B (strings.Compare likewise)
	if call, isCall := ast.Unparen(be.X).(*ast.CallExpr); isCall && len(call.Args) == 2 && (be.Op == token.LSS || be.Op == token.GTR) {
		if tv, has := f.Info().Types[be.Y]; has && tv.Value != nil && tv.Value.ExactString() == "0" {
			if fo := f.Callee(call); fo != nil && fo.Pkg() != nil && (fo.Pkg().Path() == "cmp" || fo.Pkg().Path() == "strings") && fo.Name() == "Compare" {
				bx, by = call.Args[0], call.Args[1]
			}
		}
	}
	li, lj := f.Mentions(bx, sc.I), f.Mentions(bx, sc.J)
	ri, rj := f.Mentions(by, sc.I), f.Mentions(by, sc.J)
	kc := &KeyCompare{Ret: ret, Op: be.Op.String()}
	switch {
	case li && !lj && rj && !ri:
		kc.Left, kc.Right = bx, by
		if !f.SameModulo(bx, by, sc.I, sc.J) {
			return nil
		}
	case lj && !li && ri && !rj:
		kc.Left, kc.Right, kc.Swapped = by, bx, true
		if !f.SameModulo(by, bx, sc.I, sc.J) {
			return nil
		}
	default:
		return nil
	}
	return kc
}

// Ascending reports whether the key comparison orders ascending by key.
func (k *KeyCompare) Ascending() bool {
	return (k.Op == "<" && !k.Swapped) || (k.Op == ">" && k.Swapped)
}

// Descending reports whether the key comparison orders descending by key.
func (k *KeyCompare) Descending() bool {
	return (k.Op == ">" && !k.Swapped) || (k.Op == "<" && k.Swapped)
}

// FreeVars returns the objects used inside the comparator that are declared
// outside of it (excluding package-level objects and the sorted slice's root).
func (sc SortCall) FreeVars() []types.Object {
	f := sc.Fn
	seen := map[types.Object]bool{}
	var out []types.Object
	ast.Inspect(sc.Less.Body, func(n ast.Node) bool {
		id, ok := n.(*ast.Ident)
		if !ok {
			return true
		}
		o := f.Info().Uses[id]
		v, isVar := o.(*types.Var)
		if !isVar || v.IsField() || seen[o] {
			return true
		}
		if v.Pkg() != nil && v.Parent() == v.Pkg().Scope() {
			return true
		}
		if o.Pos() >= sc.Less.Pos() && o.Pos() <= sc.Less.End() {
			return true
		}
		seen[o] = true
		out = append(out, o)
		return true
	})
	return out
}
