package chk

// Collect-then-process fusion (last round of the normalisation). A list that is only ever built by
// `res = append(res, E)` and then consumed by one `for _, x := range res { BODY }` - typically a helper "the things this
// applies to" expanded at its only use - is the loop run at the places where the elements are produced:
//
//	var res []T                          var res []T
//	for .. { res = append(res, E) }  =>  for .. { { x := E; BODY } }
//	for _, x := range res { BODY }       { _ = res }
//
// The rewrite is made only when the producing region cannot observe the consumer: the region between the declaration
// of the list and the loop contains nothing but assignments to its own locals, builtin calls, conversions and a short
// list of pure library functions; BODY does not assign a variable or a field (by name) that the region reads, nor does it
// pass to a function a value whose type is, or directly contains, one of the container types the region traverses.
// Under these conditions producing everything first and consuming afterwards performs the same BODY executions, on the
// same values, in the same order; an early exit of BODY skips only the rest of the (effect-free) production.
// The result is type-checked; when that fails the tree is analysed without this round.

import (
	"fmt"
	"go/ast"
	"go/token"
	"go/types"
	"os"
	"strings"

	"golang.org/x/tools/go/types/typeutil"
)

var fusePure = map[string]bool{
	"strings.HasPrefix": true, "strings.HasSuffix": true, "strings.Contains": true, "strings.EqualFold": true, "strings.Compare": true,
	"strings.TrimSpace": true, "strings.ToLower": true, "strings.Split": true, "strings.TrimPrefix": true, "strings.TrimSuffix": true,
	"bytes.Compare": true, "bytes.Equal": true,
	"(net.IP).To4": true, "(net.IP).To16": true, "(net.IP).Equal": true, "(net.IP).String": true, "(*net.IPNet).Contains": true, "(*net.IPNet).String": true,
	"k8s.io/apimachinery/pkg/labels.(Selector).Matches": true, "(k8s.io/apimachinery/pkg/labels.Selector).Matches": true,
}

func planCollectFuse(p *Prog) roundPlan {
	in := &inliner{p: p, files: map[string]*fileEdits{}, elig: map[*Fn]bool{}}
	plan := roundPlan{files: in.files}
	ctr := 0
	for _, pkg := range p.Pkgs {
		info := pkg.TypesInfo
		for _, file := range pkg.Syntax {
			if strings.HasSuffix(p.Fset.Position(file.Pos()).Filename, "_test.go") {
				continue
			}
			for _, d := range file.Decls {
				fd, ok := d.(*ast.FuncDecl)
				if !ok || fd.Body == nil {
					continue
				}
				var taken [][2]token.Pos
				ast.Inspect(fd.Body, func(n ast.Node) bool {
					if _, isLit := n.(*ast.FuncLit); isLit {
						return false
					}
					rs, ok := n.(*ast.RangeStmt)
					if !ok {
						return true
					}
					for _, r := range taken {
						if rs.Pos() < r[1] && r[0] < rs.End() {
							return true
						}
					}
					ctr++
					eds, from, ok := in.fuseLoop(info, fd, rs, ctr)
					if !ok {
						return true
					}
					fe := in.file(rs.Pos())
					fe.edits = append(fe.edits, eds...)
					taken = append(taken, [2]token.Pos{from, rs.End()})
					plan.expanded = append(plan.expanded, "collect-then-process loop in "+fd.Name.Name+" run where the elements are produced")
					return false
				})
			}
		}
	}
	return plan
}

func (in *inliner) fuseLoop(info *types.Info, fd *ast.FuncDecl, rs *ast.RangeStmt, n int) (eds []textEdit, from token.Pos, ok bool) {
	p := in.p
	fail := func(why string) ([]textEdit, token.Pos, bool) {
		if os.Getenv("MLB_DEBUG_FUSE") != "" {
			fmt.Fprintln(os.Stderr, "fuse:", fd.Name.Name, p.Rel(rs.Pos()), "not fused:", why)
		}
		return nil, 0, false
	}
	rid, isId := ast.Unparen(rs.X).(*ast.Ident)
	if !isId {
		return fail("range expression")
	}
	objR, isVar := info.Uses[rid].(*types.Var)
	if !isVar || objR.IsField() || objR.Pos() < fd.Body.Pos() || objR.Pos() > fd.Body.End() {
		return fail("not a local")
	}
	st, isSlice := objR.Type().Underlying().(*types.Slice)
	if !isSlice {
		return fail("not a slice")
	}
	if k, has := rs.Key.(*ast.Ident); rs.Key != nil && (!has || k.Name != "_") {
		return fail("index used")
	}
	if rs.Tok != token.DEFINE && rs.Value != nil {
		if v, isV := rs.Value.(*ast.Ident); !isV || v.Name != "_" {
			return fail("assigning range")
		}
	}
	if lab, isLab := p.parents[rs].(*ast.LabeledStmt); isLab {
		used := false
		ast.Inspect(rs.Body, func(m ast.Node) bool {
			if b, isB := m.(*ast.BranchStmt); isB && b.Label != nil && b.Label.Name == lab.Label.Name {
				used = true
			}
			return true
		})
		if used {
			return fail("label used in body")
		}
	}
	// every reference to a variable, classified
	type use struct {
		id   *ast.Ident
		stmt ast.Stmt
	}
	refs := func(o types.Object) []*ast.Ident {
		var out []*ast.Ident
		ast.Inspect(fd.Body, func(m ast.Node) bool {
			if id, ok := m.(*ast.Ident); ok && (info.Uses[id] == o || info.Defs[id] == o) {
				out = append(out, id)
			}
			return true
		})
		return out
	}
	emptyInit := func(e ast.Expr) bool {
		switch x := ast.Unparen(e).(type) {
		case *ast.Ident:
			return x.Name == "nil"
		case *ast.CompositeLit:
			return len(x.Elts) == 0
		case *ast.CallExpr:
			if id, ok := x.Fun.(*ast.Ident); ok && id.Name == "make" && len(x.Args) >= 2 {
				if tv, has := info.Types[x.Args[1]]; has && tv.Value != nil && tv.Value.String() == "0" {
					return true
				}
			}
		}
		return false
	}
	// declOf: the statement that declares the variable with an empty value; nil when it is declared otherwise
	declOf := func(o types.Object) ast.Node {
		for _, id := range refs(o) {
			if info.Defs[id] != o {
				continue
			}
			switch par := p.parents[id].(type) {
			case *ast.ValueSpec:
				if len(par.Values) == 0 {
					return p.parents[p.parents[par]] // DeclStmt
				}
				for i, nm := range par.Names {
					if nm == id && i < len(par.Values) && len(par.Values) == len(par.Names) && emptyInit(par.Values[i]) {
						return p.parents[p.parents[par]]
					}
				}
			case *ast.AssignStmt:
				if par.Tok == token.DEFINE && len(par.Lhs) == len(par.Rhs) {
					for i, l := range par.Lhs {
						if l == ast.Expr(id) && emptyInit(par.Rhs[i]) {
							return par
						}
					}
				}
			}
		}
		return nil
	}
	isAppendTo := func(as *ast.AssignStmt, o types.Object) ast.Expr {
		if as.Tok != token.ASSIGN || len(as.Lhs) != 1 || len(as.Rhs) != 1 {
			return nil
		}
		l, ok := as.Lhs[0].(*ast.Ident)
		if !ok || info.Uses[l] != o {
			return nil
		}
		c, ok := ast.Unparen(as.Rhs[0]).(*ast.CallExpr)
		if !ok || len(c.Args) != 2 || c.Ellipsis.IsValid() {
			return nil
		}
		f, ok := c.Fun.(*ast.Ident)
		if !ok || f.Name != "append" {
			return nil
		}
		if _, isB := info.Uses[f].(*types.Builtin); !isB {
			return nil
		}
		a0, ok := ast.Unparen(c.Args[0]).(*ast.Ident)
		if !ok || info.Uses[a0] != o {
			return nil
		}
		return c.Args[1]
	}
	// R is the list itself, or a copy target: every assignment to it is `R = res`
	res := types.Object(objR)
	var copies []*ast.AssignStmt
	{
		var q types.Object
		all := true
		nAssign := 0
		for _, id := range refs(objR) {
			as, isAs := p.parents[id].(*ast.AssignStmt)
			if !isAs || info.Defs[id] != nil {
				continue
			}
			isLhs := false
			for _, l := range as.Lhs {
				if l == ast.Expr(id) {
					isLhs = true
				}
			}
			if !isLhs {
				continue
			}
			nAssign++
			if as.Tok != token.ASSIGN || len(as.Lhs) != 1 || len(as.Rhs) != 1 {
				all = false
				continue
			}
			src, isId := ast.Unparen(as.Rhs[0]).(*ast.Ident)
			if !isId {
				all = false
				continue
			}
			so, isV := info.Uses[src].(*types.Var)
			if !isV || so == objR || so.IsField() || so.Pos() < fd.Body.Pos() || so.Pos() > fd.Body.End() || (q != nil && q != types.Object(so)) {
				all = false
				continue
			}
			q = so
			copies = append(copies, as)
		}
		if nAssign > 0 && all && q != nil {
			res = q
		} else {
			copies = nil
		}
	}
	if declOf(res) == nil || (res != types.Object(objR) && declOf(objR) == nil) {
		return fail("declaration")
	}
	if !types.Identical(res.Type(), objR.Type()) {
		return fail("types")
	}
	// uses of res: appends, copies into R, the declaration, the range expression
	type site struct {
		as *ast.AssignStmt
		e  ast.Expr
	}
	var sites []site
	seenAs := map[*ast.AssignStmt]bool{}
	for _, id := range refs(res) {
		if info.Defs[id] == res {
			continue
		}
		if id == rid {
			continue
		}
		var as *ast.AssignStmt
		for m := ast.Node(id); m != nil; m = p.parents[m] {
			if a, isAs := m.(*ast.AssignStmt); isAs {
				as = a
				break
			}
			if _, isStmt := m.(ast.Stmt); isStmt {
				break
			}
		}
		if as == nil {
			return fail("other use of the list")
		}
		if e := isAppendTo(as, res); e != nil {
			if !seenAs[as] {
				seenAs[as] = true
				sites = append(sites, site{as, e})
			}
			continue
		}
		isCopy := false
		for _, c := range copies {
			if c == as {
				isCopy = true
			}
		}
		if !isCopy {
			return fail("other use of the list")
		}
	}
	if res != types.Object(objR) {
		for _, id := range refs(objR) {
			if info.Defs[id] == types.Object(objR) || id == rid {
				continue
			}
			as, isAs := p.parents[id].(*ast.AssignStmt)
			ok := false
			for _, c := range copies {
				if isAs && c == as && as.Lhs[0] == ast.Expr(id) {
					ok = true
				}
			}
			if !ok {
				return fail("other use of the copy")
			}
		}
	}
	if len(sites) == 0 {
		return fail("no producer")
	}
	resDecl := declOf(res)
	regionFrom := resDecl.Pos()
	if res != types.Object(objR) {
		if d := declOf(objR); d.Pos() < regionFrom {
			regionFrom = d.Pos()
		}
	}
	loopOf := func(n ast.Node) ast.Node {
		for m := p.parents[n]; m != nil; m = p.parents[m] {
			switch m.(type) {
			case *ast.ForStmt, *ast.RangeStmt:
				return m
			case *ast.FuncDecl, *ast.FuncLit:
				return nil
			}
		}
		return nil
	}
	if loopOf(resDecl) != loopOf(rs) {
		return fail("declared in another iteration scope")
	}
	for _, s := range sites {
		if s.as.Pos() < resDecl.End() || s.as.End() > rs.Pos() {
			return fail("producer outside the region")
		}
		for m := p.parents[s.as]; m != nil; m = p.parents[m] {
			if _, isLit := m.(*ast.FuncLit); isLit {
				return fail("producer in a literal")
			}
			if m == ast.Node(fd) {
				break
			}
		}
		tv, has := info.Types[s.e]
		if !has || tv.Type == nil || !types.Identical(tv.Type, st.Elem()) {
			return fail("element type")
		}
	}
	for _, c := range copies {
		if c.Pos() < regionFrom || c.End() > rs.Pos() {
			return fail("copy outside the region")
		}
	}
	// the region is effect-free apart from its own locals
	inRegion := func(pos token.Pos) bool { return pos >= regionFrom && pos < rs.Pos() }
	regionReadsObj := map[types.Object]bool{}
	regionReadsField := map[string]bool{}
	var containers []types.Type
	regionDeclared := map[string][]types.Object{}
	pure := true
	ast.Inspect(fd.Body, func(m ast.Node) bool {
		if m == nil {
			return true
		}
		if m.End() <= regionFrom || m.Pos() >= rs.Pos() {
			return m.Pos() < rs.Pos() && m.End() > regionFrom // descend only into nodes overlapping the region
		}
		if m.Pos() < regionFrom {
			return true // a node that starts before the region and reaches into it (enclosing blocks)
		}
		switch x := m.(type) {
		case *ast.FuncLit, *ast.DeferStmt, *ast.GoStmt, *ast.SendStmt, *ast.SelectStmt:
			pure = false
		case *ast.UnaryExpr:
			if x.Op == token.ARROW {
				pure = false
			}
		case *ast.Ident:
			if d := info.Defs[x]; d != nil {
				regionDeclared[x.Name] = append(regionDeclared[x.Name], d)
			}
			if o := info.Uses[x]; o != nil {
				if v, isV := o.(*types.Var); isV && !v.IsField() {
					regionReadsObj[o] = true
				}
			}
		case *ast.SelectorExpr:
			if s := info.Selections[x]; s != nil && s.Kind() == types.FieldVal {
				regionReadsField[x.Sel.Name] = true
			}
		case *ast.RangeStmt:
			if t := info.TypeOf(x.X); t != nil {
				containers = append(containers, t)
			}
		case *ast.IndexExpr:
			if t := info.TypeOf(x.X); t != nil {
				if _, isMap := t.Underlying().(*types.Map); isMap {
					containers = append(containers, t)
				}
			}
		case *ast.AssignStmt:
			for _, l := range x.Lhs {
				id, isId := ast.Unparen(l).(*ast.Ident)
				if !isId {
					pure = false
					continue
				}
				if id.Name == "_" {
					continue
				}
				o := info.Defs[id]
				if o == nil {
					o = info.Uses[id]
				}
				if o == nil || !(inRegion(o.Pos()) || o == res || o == types.Object(objR)) {
					pure = false
				}
			}
		case *ast.IncDecStmt:
			id, isId := ast.Unparen(x.X).(*ast.Ident)
			if !isId || info.Uses[id] == nil || !inRegion(info.Uses[id].Pos()) {
				pure = false
			}
		case *ast.CallExpr:
			if tv, has := info.Types[x.Fun]; has && tv.IsType() {
				return true // conversion
			}
			if id, isId := ast.Unparen(x.Fun).(*ast.Ident); isId {
				if _, isB := info.Uses[id].(*types.Builtin); isB {
					switch id.Name {
					case "len", "cap", "append", "make", "new", "min", "max":
						return true
					}
				}
			}
			if fo := typeutil.StaticCallee(info, x); fo != nil {
				if fusePure[fo.FullName()] {
					return true
				}
			}
			pure = false
		}
		return true
	})
	if !pure {
		return fail("region has effects")
	}
	// the consumer does not touch what the region reads
	// mapsOnly: what a callee could change under the producer's feet is the key set of a map it ranges over or looks up
	// (the slices it ranges over were read when their loops began; their elements are covered by the store test below)
	reachesKind := func(t types.Type, mapsOnly bool) bool {
		if t == nil {
			return false
		}
		check := func(u types.Type) bool {
			for _, c := range containers {
				if _, isMap := c.Underlying().(*types.Map); mapsOnly && !isMap {
					continue
				}
				if types.Identical(u, c) {
					return true
				}
			}
			return false
		}
		if check(t) {
			return true
		}
		if pt, isPtr := t.Underlying().(*types.Pointer); isPtr {
			t = pt.Elem()
			if check(t) {
				return true
			}
		}
		if s, isStruct := t.Underlying().(*types.Struct); isStruct {
			for i := 0; i < s.NumFields(); i++ {
				if check(s.Field(i).Type()) {
					return true
				}
			}
		}
		return false
	}
	reaches := func(t types.Type) bool { return reachesKind(t, false) }
	interferes := false
	var lhsRoot func(e ast.Expr) (types.Object, string)
	lhsRoot = func(e ast.Expr) (types.Object, string) {
		switch x := ast.Unparen(e).(type) {
		case *ast.Ident:
			o := info.Uses[x]
			if o == nil {
				o = info.Defs[x]
			}
			return o, ""
		case *ast.SelectorExpr:
			return nil, x.Sel.Name
		case *ast.IndexExpr:
			return lhsRoot(x.X)
		case *ast.StarExpr:
			return lhsRoot(x.X)
		}
		return nil, "?"
	}
	inBody := func(pos token.Pos) bool { return pos >= rs.Body.Pos() && pos < rs.Body.End() }
	ast.Inspect(rs.Body, func(m ast.Node) bool {
		switch x := m.(type) {
		case *ast.FuncLit, *ast.GoStmt, *ast.DeferStmt:
			interferes = true
		case *ast.AssignStmt:
			for _, l := range x.Lhs {
				o, fld := lhsRoot(l)
				if fld == "?" || (fld != "" && regionReadsField[fld]) {
					interferes = true
				}
				if o != nil && !inBody(o.Pos()) && regionReadsObj[o] {
					interferes = true
				}
				if _, isIdx := ast.Unparen(l).(*ast.IndexExpr); isIdx {
					if reaches(info.TypeOf(ast.Unparen(l).(*ast.IndexExpr).X)) {
						interferes = true
					}
				}
			}
		case *ast.IncDecStmt:
			o, fld := lhsRoot(x.X)
			if fld == "?" || (fld != "" && regionReadsField[fld]) || (o != nil && !inBody(o.Pos()) && regionReadsObj[o]) {
				interferes = true
			}
		case *ast.CallExpr:
			if tv, has := info.Types[x.Fun]; has && tv.IsType() {
				return true
			}
			if id, isId := ast.Unparen(x.Fun).(*ast.Ident); isId {
				if _, isB := info.Uses[id].(*types.Builtin); isB {
					if id.Name == "delete" || id.Name == "clear" || id.Name == "copy" {
						if len(x.Args) > 0 && reaches(info.TypeOf(x.Args[0])) {
							interferes = true
						}
					}
					return true
				}
			}
			ops := append([]ast.Expr{}, x.Args...)
			if sel, isSel := ast.Unparen(x.Fun).(*ast.SelectorExpr); isSel {
				if s := info.Selections[sel]; s != nil {
					ops = append(ops, sel.X)
				}
			}
			for _, a := range ops {
				if reachesKind(info.TypeOf(a), true) {
					interferes = true
				}
			}
		}
		return true
	})
	if interferes {
		return fail("consumer touches what the producer reads")
	}
	// names: the consumer's free names must not be declared in the region
	var valName string
	if v, isV := rs.Value.(*ast.Ident); isV && v.Name != "_" {
		valName = v.Name
	}
	capture := false
	hasLabel := false
	ast.Inspect(rs.Body, func(m ast.Node) bool {
		if _, isLab := m.(*ast.LabeledStmt); isLab {
			hasLabel = true
		}
		id, ok := m.(*ast.Ident)
		if !ok {
			return true
		}
		o := info.Uses[id]
		if o == nil {
			return true
		}
		if se, isSel := p.parents[id].(*ast.SelectorExpr); isSel && se.Sel == id {
			return true
		}
		if v, isV := o.(*types.Var); isV && v.IsField() {
			return true
		}
		if o.Pos().IsValid() && o.Pos() >= rs.Pos() && o.Pos() < rs.End() {
			return true
		}
		for _, d := range regionDeclared[id.Name] {
			if d != o {
				capture = true // the same name declared in the region: the consumer would see the region's variable
			}
		}
		return true
	})
	if capture || (hasLabel && len(sites) > 1) {
		return fail("names")
	}
	// the copies of the body
	brk := fmt.Sprintf("_fuse%d_brk", n)
	brkUsed := false
	for j, s := range sites {
		cont := fmt.Sprintf("_fuse%d_c%d", n, j)
		contUsed := false
		var peds []posEdit
		var visit func(root ast.Node, inLoop, inBreakable bool)
		visit = func(root ast.Node, inLoop, inBreakable bool) {
			ast.Inspect(root, func(m ast.Node) bool {
				if m == root {
					return true
				}
				switch x := m.(type) {
				case *ast.FuncLit:
					return false
				case *ast.ForStmt, *ast.RangeStmt:
					visit(m, true, true)
					return false
				case *ast.SwitchStmt, *ast.TypeSwitchStmt, *ast.SelectStmt:
					visit(m, inLoop, true)
					return false
				case *ast.BranchStmt:
					if x.Label != nil {
						return true
					}
					switch x.Tok {
					case token.BREAK:
						if !inBreakable {
							peds = append(peds, posEdit{x.Pos(), x.End(), "goto " + brk})
							brkUsed = true
						}
					case token.CONTINUE:
						if !inLoop {
							peds = append(peds, posEdit{x.Pos(), x.End(), "goto " + cont})
							contUsed = true
						}
					}
				}
				return true
			})
		}
		visit(rs.Body, false, false)
		var sb strings.Builder
		sb.WriteString("{\n")
		et := in.text(s.e.Pos(), s.e.End())
		if valName != "" {
			// `res = append(res, pool)` consumed by `for _, pool := range res`: the producer's variable is the loop variable
			// when neither the body nor the rest of the producer's iteration assigns it
			same := false
			if id, isId := ast.Unparen(s.e).(*ast.Ident); isId && id.Name == valName {
				if vo, isV := info.Uses[id].(*types.Var); isV && !vo.IsField() && inRegion(vo.Pos()) {
					same = true
					lv := info.Defs[rs.Value.(*ast.Ident)]
					ast.Inspect(rs.Body, func(m ast.Node) bool {
						switch x := m.(type) {
						case *ast.AssignStmt:
							for _, l := range x.Lhs {
								if lid, ok := ast.Unparen(l).(*ast.Ident); ok && info.Uses[lid] == lv {
									same = false
								}
							}
						case *ast.IncDecStmt:
							if lid, ok := ast.Unparen(x.X).(*ast.Ident); ok && info.Uses[lid] == lv {
								same = false
							}
						case *ast.UnaryExpr:
							if lid, ok := ast.Unparen(x.X).(*ast.Ident); ok && x.Op == token.AND && info.Uses[lid] == lv {
								same = false
							}
						}
						return true
					})
				}
			}
			if !same {
				sb.WriteString(valName + " := " + et + "\n")
				sb.WriteString("_ = " + valName + "\n")
			}
		} else {
			sb.WriteString("_ = " + et + "\n")
		}
		sb.WriteString(in.renderEdits(rs.Body.Pos(), rs.Body.End(), peds))
		if contUsed {
			sb.WriteString("\n" + cont + ":")
		}
		sb.WriteString("\n}")
		eds = append(eds, textEdit{start: in.off(s.as.Pos()), end: in.off(s.as.End()), text: sb.String()})
	}
	tail := "{\n_ = " + rid.Name + "\n}"
	if brkUsed {
		tail += "\n" + brk + ":\n{\n}"
	}
	eds = append(eds, textEdit{start: in.off(rs.Pos()), end: in.off(rs.End()), text: tail})
	return eds, regionFrom, true
}
