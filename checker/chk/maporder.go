package chk

import (
	"fmt"
	"go/ast"
	"go/token"
	"go/types"
	"sort"
	"strings"
)

// Engine A: map-iteration-order taint.
//
// Question decided: can the order in which Go iterates a map influence the
// element order of a slice (or the value selected by a first-match) that leaves
// the analysed functions? Sources are `range` over a map-typed expression,
// over maps.Keys/maps.Values, (sets.Set).UnsortedList, and over slices already
// tainted. Tainting constructs inside such a loop are append / indexed store /
// string concatenation into a target that is not private to the iteration, and
// returns or outer assignments that depend on the loop variables (first match).
// Sanitisers are the sort functions applied to the tainted variable. A tainted
// slice that is returned makes the function "returns map-ordered" (summary,
// fixed point over the module-local call graph); a tainted slice stored into a
// struct field, a map element or passed to an unsummarised function escapes.

// OrderFinding is one escape of map order.
type OrderFinding struct {
	Fn     *Fn
	Target string // variable (or field path) carrying the order
	Kind   string // "return", "store", "call", "first-match"
	Pos    token.Pos
	Loop   token.Pos
	Detail string
}

func (f OrderFinding) Key() string { return f.Fn.Name() + ":" + f.Target + ":" + f.Kind }

// OrderAnalysis holds the result for a set of root functions.
type OrderAnalysis struct {
	Prog      *Prog
	Funcs     []*Fn        // module-local call-graph closure of the roots
	Loops     int          // map-range loops examined
	Sites     int          // tainting constructs examined
	Sanitised []string     // targets sorted before they escape (fn:target)
	Private   int          // constructs with iteration-private targets
	Returns   map[*Fn]bool // functions summarised "returns map-ordered"
	// TaintedFields are struct fields (of receivers / parameters) that hold a
	// slice in map order when some function returns; ranging over them elsewhere
	// is a map-ordered source (field-sensitive, object-insensitive).
	TaintedFields map[*types.Var]bool
	Findings      []OrderFinding  // escapes
	Unresolved    map[string]bool // interface / func-value calls not followed
	// SortSanitisers are the sort.Slice-style calls (with a caller-supplied
	// comparator) that neutralised a map-ordered value; their comparators must be
	// total orders on the elements, which the rules check separately.
	SortSanitisers []SanitiserUse
}

// SanitiserUse records a comparator-based sort used as a sanitiser.
type SanitiserUse struct {
	Fn   *Fn
	Call *ast.CallExpr
}

// Closure returns the module functions reachable from roots through statically
// resolved calls (function literals inside a function belong to it).
func (p *Prog) Closure(roots ...*Fn) ([]*Fn, map[string]bool) {
	seen := map[*Fn]bool{}
	unresolved := map[string]bool{}
	var order []*Fn
	var visit func(f *Fn)
	visit = func(f *Fn) {
		if f == nil || seen[f] {
			return
		}
		seen[f] = true
		order = append(order, f)
		ast.Inspect(f.Body, func(n ast.Node) bool {
			call, ok := n.(*ast.CallExpr)
			if !ok {
				return true
			}
			switch o := f.Callee(call).(type) {
			case *types.Func:
				if cf := p.FnOf(o); cf != nil {
					visit(cf)
				} else if o.Pkg() != nil && strings.HasPrefix(o.Pkg().Path(), Module) {
					if sig, ok := o.Type().(*types.Signature); ok && sig.Recv() != nil {
						if _, isIface := sig.Recv().Type().Underlying().(*types.Interface); isIface {
							unresolved[ShortName(o)] = true
						}
					}
				}
			case *types.Var:
				// package-level func variable defined by a literal
				if o.Pkg() != nil {
					if vf := p.varFns[o.Pkg().Path()+"."+o.Name()]; vf != nil {
						visit(vf)
					} else if strings.HasPrefix(o.Pkg().Path(), Module) {
						unresolved[ObjName(o)] = true
					}
				}
			}
			return true
		})
	}
	for _, r := range roots {
		visit(r)
	}
	sort.Slice(order, func(i, j int) bool { return order[i].Name() < order[j].Name() })
	return order, unresolved
}

func isMapType(t types.Type) bool {
	if t == nil {
		return false
	}
	_, ok := t.Underlying().(*types.Map)
	return ok
}

// mapOrderedCall reports whether the call yields values in map order.
func (f *Fn) mapOrderedCall(call *ast.CallExpr, summaries map[*Fn]bool) bool {
	o := f.Callee(call)
	fn, _ := o.(*types.Func)
	if fn == nil {
		return false
	}
	switch fn.FullName() {
	case "maps.Keys", "maps.Values", "golang.org/x/exp/maps.Keys", "golang.org/x/exp/maps.Values":
		return true
	}
	if fn.Name() == "UnsortedList" && fn.Pkg() != nil && strings.HasSuffix(fn.Pkg().Path(), "util/sets") {
		return true
	}
	if cf := f.Prog.FnOf(fn); cf != nil && summaries[cf] {
		return true
	}
	return false
}

// sanitises reports whether node n sorts the variable obj (or the expression
// path equal to target).
func (f *Fn) sanitises(n ast.Node, isTarget func(ast.Expr) bool) bool {
	ok, _ := f.sanitisesWith(n, isTarget)
	return ok
}

func (f *Fn) sanitisesWith(n ast.Node, isTarget func(ast.Expr) bool) (bool, *ast.CallExpr) {
	found := false
	var cmpCall *ast.CallExpr
	InspectNoLit(n, func(m ast.Node) bool {
		call, ok := m.(*ast.CallExpr)
		if !ok || len(call.Args) == 0 {
			return true
		}
		fn, _ := f.Callee(call).(*types.Func)
		if fn == nil {
			return true
		}
		switch fn.FullName() {
		case "sort.Strings", "sort.Ints", "sort.Float64s", "sort.Slice", "sort.SliceStable", "sort.Sort", "sort.Stable",
			"slices.Sort", "slices.SortFunc", "slices.SortStableFunc":
			arg := call.Args[0]
			// sort.Sort(sort.StringSlice(x))
			if c, ok := ast.Unparen(arg).(*ast.CallExpr); ok && len(c.Args) == 1 {
				arg = c.Args[0]
			}
			if isTarget(arg) {
				found = true
				switch fn.FullName() {
				case "sort.Slice", "sort.SliceStable", "slices.SortFunc", "slices.SortStableFunc":
					cmpCall = call
				}
			}
		}
		return true
	})
	return found, cmpCall
}

// AnalyseMapOrder runs engine A over the closure of the roots.
func (p *Prog) AnalyseMapOrder(roots ...*Fn) *OrderAnalysis {
	a := &OrderAnalysis{Prog: p, Returns: map[*Fn]bool{}, TaintedFields: map[*types.Var]bool{}}
	a.Funcs, a.Unresolved = p.Closure(roots...)
	// fixed point on the "returns map-ordered" summaries
	for iter := 0; iter < 6; iter++ {
		changed := false
		a.Findings, a.Sanitised, a.Loops, a.Sites, a.Private, a.SortSanitisers = nil, nil, 0, 0, 0, nil
		nTF := len(a.TaintedFields)
		for _, f := range a.Funcs {
			before := a.Returns[f]
			a.analyseFn(f)
			if a.Returns[f] != before {
				changed = true
			}
		}
		if len(a.TaintedFields) != nTF {
			changed = true
		}
		if !changed {
			break
		}
	}
	sort.Slice(a.Findings, func(i, j int) bool { return a.Findings[i].Key() < a.Findings[j].Key() })
	sort.Strings(a.Sanitised)
	return a
}

func (a *OrderAnalysis) isTaintedField(f *Fn, sel *ast.SelectorExpr) bool {
	if s := f.Info().Selections[sel]; s != nil {
		if v, ok := s.Obj().(*types.Var); ok && a.TaintedFields[v] {
			return true
		}
	}
	return false
}

type taintSeed struct {
	target types.Object
	elem   bool   // the taint is on the elements of a map/slice of slices rooted at target
	path   string // rendered target expression
	from   Site   // where the taint starts (loop statement or call)
	loop   token.Pos
}

func (a *OrderAnalysis) analyseFn(f *Fn) {
	g := f.Graph()
	info := f.Info()
	var seeds []taintSeed
	// (1) map-range loops
	var loops []*ast.RangeStmt
	InspectNoLit(f.Body, func(n ast.Node) bool {
		rs, ok := n.(*ast.RangeStmt)
		if !ok {
			return true
		}
		if isMapType(info.TypeOf(rs.X)) {
			loops = append(loops, rs)
		} else if sel, ok := ast.Unparen(rs.X).(*ast.SelectorExpr); ok && a.isTaintedField(f, sel) {
			loops = append(loops, rs)
		} else if call, ok := ast.Unparen(rs.X).(*ast.CallExpr); ok && f.mapOrderedCall(call, a.Returns) {
			loops = append(loops, rs)
		} else if id, ok := ast.Unparen(rs.X).(*ast.Ident); ok {
			// ranging over an iterator/slice variable defined from a map-ordered call
			if rhs, _ := g.DefOf(id, g.FactSite(id)); rhs != nil {
				if call, ok := ast.Unparen(rhs).(*ast.CallExpr); ok && f.mapOrderedCall(call, a.Returns) {
					loops = append(loops, rs)
				}
			}
		}
		return true
	})
	for _, rs := range loops {
		a.Loops++
		a.scanLoop(f, g, rs, rs, &seeds)
	}
	// (2) results of map-ordered calls assigned to variables
	for _, s := range g.Find(func(n ast.Node) bool {
		as, ok := n.(*ast.AssignStmt)
		if !ok || len(as.Rhs) != 1 {
			return false
		}
		call, ok := ast.Unparen(as.Rhs[0]).(*ast.CallExpr)
		return ok && f.mapOrderedCall(call, a.Returns)
	}) {
		as := s.Node.(*ast.AssignStmt)
		if id, ok := as.Lhs[0].(*ast.Ident); ok && id.Name != "_" {
			if _, isSlice := info.TypeOf(id).Underlying().(*types.Slice); isSlice {
				seeds = append(seeds, taintSeed{target: f.ObjOf(id), path: id.Name, from: s, loop: as.Pos()})
			}
		}
	}
	// every other use of a map-ordered call result
	InspectNoLit(f.Body, func(n ast.Node) bool {
		call, ok := n.(*ast.CallExpr)
		if !ok || !f.mapOrderedCall(call, a.Returns) {
			return true
		}
		var cur ast.Node = call
		par := f.Prog.Parent(cur)
		for {
			if pe, ok := par.(*ast.ParenExpr); ok {
				cur, par = pe, f.Prog.Parent(pe)
				continue
			}
			break
		}
		switch x := par.(type) {
		case *ast.RangeStmt:
			if x.X == cur {
				return true // handled as a loop source
			}
		case *ast.AssignStmt:
			for i, r := range x.Rhs {
				if r == cur && len(x.Lhs) == len(x.Rhs) {
					if id, ok := x.Lhs[i].(*ast.Ident); ok {
						if v, ok := f.ObjOf(id).(*types.Var); ok && !v.IsField() && (v.Pkg() == nil || v.Parent() != v.Pkg().Scope()) {
							return true // handled as a seed (slice) or as an iterator variable
						}
					}
				}
			}
		case *ast.ReturnStmt:
			a.Returns[f] = true
			return true
		case *ast.CallExpr:
			// sorted or consumed order-insensitively by the enclosing call
			if fn, ok := f.Callee(x).(*types.Func); ok {
				switch fn.FullName() {
				case "slices.Sorted", "slices.SortedFunc", "slices.SortedStableFunc":
					// the map's keys / values, sorted where they are collected: a sanitised map-range loop
					a.Loops++
					a.Sanitised = append(a.Sanitised, f.Name()+":"+types.ExprString(x.Fun)+"("+types.ExprString(call.Fun)+")")
					return true
				}
			}
			if a.orderInsensitiveCall(f, x) {
				return true
			}
		case *ast.ExprStmt:
			return true
		}
		a.Findings = append(a.Findings, OrderFinding{Fn: f, Target: types.ExprString(call.Fun) + "()", Kind: "store", Pos: call.Pos(), Loop: call.Pos(),
			Detail: "the result of " + types.ExprString(call.Fun) + ", which is in map iteration order, is used without being sorted"})
		return true
	})
	// forward propagation of each seed
	done := map[string]bool{}
	for len(seeds) > 0 {
		sd := seeds[0]
		seeds = seeds[1:]
		key := fmt.Sprintf("%s@%d", sd.path, sd.from.Pos())
		if done[key] || sd.target == nil {
			continue
		}
		done[key] = true
		a.propagate(f, g, sd, &seeds)
	}
}

// scanLoop looks for tainting constructs in the body of loop `rs` (the map-range
// loop `outer` or a loop nested in it).
func (a *OrderAnalysis) scanLoop(f *Fn, g *Graph, outer, rs *ast.RangeStmt, seeds *[]taintSeed) {
	info := f.Info()
	loopVars := map[types.Object]bool{}
	for _, e := range []ast.Expr{outer.Key, outer.Value} {
		if id, ok := e.(*ast.Ident); ok && id.Name != "_" {
			loopVars[f.ObjOf(id)] = true
		}
	}
	private := func(target ast.Expr) bool {
		root := f.RootObj(target)
		if root == nil {
			return false
		}
		if loopVars[root] {
			return true // rooted at the iteration's own key/value (per-element storage)
		}
		// m[k] = append(m[k], …) with k the loop key of a *map* range is per-key
		if ix, ok := ast.Unparen(target).(*ast.IndexExpr); ok {
			if kid, ok := ast.Unparen(ix.Index).(*ast.Ident); ok && loopVars[f.ObjOf(kid)] {
				if okid, ok := outer.Key.(*ast.Ident); ok && f.ObjOf(okid) == f.ObjOf(kid) {
					return true
				}
			}
		}
		// declared inside the loop body and only ever assigned fresh values there
		if root.Pos() >= outer.Body.Pos() && root.Pos() <= outer.Body.End() {
			fresh := true
			ast.Inspect(outer.Body, func(n ast.Node) bool {
				as, ok := n.(*ast.AssignStmt)
				if !ok {
					return true
				}
				for i, l := range as.Lhs {
					if id, ok := l.(*ast.Ident); ok && f.ObjOf(id) == root && len(as.Rhs) == len(as.Lhs) {
						switch r := ast.Unparen(as.Rhs[i]).(type) {
						case *ast.CompositeLit, *ast.BasicLit:
						case *ast.UnaryExpr:
							if _, ok := r.X.(*ast.CompositeLit); !ok {
								fresh = false
							}
						case *ast.CallExpr:
							// make/new/append-to-self/constructors returning fresh values
							if fid, ok := r.Fun.(*ast.Ident); ok && (fid.Name == "make" || fid.Name == "new") {
								break
							}
							if fid, ok := r.Fun.(*ast.Ident); ok && fid.Name == "append" && len(r.Args) > 0 && f.RootObj(r.Args[0]) == root {
								break
							}
							fresh = false
						case *ast.IndexExpr, *ast.SelectorExpr, *ast.Ident:
							// loaded from outer storage
							if _, isNil := info.Uses[identOf(r)].(*types.Nil); !isNil {
								fresh = false
							}
						}
					}
				}
				return true
			})
			return fresh
		}
		return false
	}
	InspectNoLit(outer.Body, func(n ast.Node) bool {
		switch s := n.(type) {
		case *ast.AssignStmt:
			for i, l := range s.Lhs {
				if len(s.Rhs) != len(s.Lhs) {
					continue
				}
				rhs := ast.Unparen(s.Rhs[i])
				isAppend := false
				if call, ok := rhs.(*ast.CallExpr); ok {
					if id, ok := call.Fun.(*ast.Ident); ok && id.Name == "append" {
						isAppend = true
					}
				}
				isConcat := s.Tok == token.ADD_ASSIGN && isString(info.TypeOf(l))
				if !isAppend && !isConcat {
					continue
				}
				a.Sites++
				if private(l) {
					a.Private++
					continue
				}
				site := g.FactSite(l)
				site.Node = s
				_, isIndex := ast.Unparen(l).(*ast.IndexExpr)
				*seeds = append(*seeds, taintSeed{target: f.RootObj(l), elem: isIndex, path: types.ExprString(l), from: loopEnd(g, outer, site), loop: outer.Pos()})
			}
		case *ast.ReturnStmt:
			a.Sites++
			if a.firstMatchReturn(f, s, loopVars) {
				a.Findings = append(a.Findings, OrderFinding{Fn: f, Target: "return", Kind: "first-match", Pos: s.Pos(), Loop: outer.Pos(),
					Detail: "a value depending on the loop variables is returned from inside a map range: which element is selected depends on map iteration order"})
			}
		}
		return true
	})
}

func identOf(e ast.Expr) *ast.Ident {
	id, _ := e.(*ast.Ident)
	return id
}

func isString(t types.Type) bool {
	b, ok := t.Underlying().(*types.Basic)
	return ok && b.Info()&types.IsString != 0
}

// loopEnd positions the start of forward propagation at the loop's done block.
func loopEnd(g *Graph, rs *ast.RangeStmt, fallback Site) Site {
	_, _, done := g.RangeBlocks(rs)
	if done != nil {
		return Site{G: g, B: done, I: -1, Node: rs, Top: rs}
	}
	return fallback
}

// firstMatchReturn: a return inside a map-range whose results depend on the
// loop variables, other than constants and `zero..., err` shapes.
func (a *OrderAnalysis) firstMatchReturn(f *Fn, rs *ast.ReturnStmt, loopVars map[types.Object]bool) bool {
	dep := false
	for i, e := range rs.Results {
		if f.ConstVal(e) != nil || f.IsNilLit(e) {
			continue
		}
		mentions := false
		ast.Inspect(e, func(n ast.Node) bool {
			if id, ok := n.(*ast.Ident); ok && loopVars[f.ObjOf(id)] {
				mentions = true
			}
			return true
		})
		if !mentions {
			continue
		}
		// error position: which iteration fails first changes the message, not acceptance
		if t := f.Info().TypeOf(e); t != nil && i == len(rs.Results)-1 && types.Implements(t, errorIface()) {
			continue
		}
		dep = true
	}
	return dep
}

var errIface *types.Interface

func errorIface() *types.Interface {
	if errIface == nil {
		errIface = types.Universe.Lookup("error").Type().Underlying().(*types.Interface)
	}
	return errIface
}

// propagate follows a tainted variable forward from the seed.
func (a *OrderAnalysis) propagate(f *Fn, g *Graph, sd taintSeed, seeds *[]taintSeed) {
	isTarget := func(e ast.Expr) bool {
		e = ast.Unparen(e)
		if sd.elem {
			// any expression rooted at the container (the container itself or one of its elements)
			switch e.(type) {
			case *ast.Ident, *ast.IndexExpr, *ast.SelectorExpr:
				return f.RootObj(e) == sd.target
			}
			return false
		}
		if types.ExprString(e) == sd.path {
			return f.RootObj(e) == sd.target
		}
		return false
	}
	mentionsTarget := func(n ast.Node) bool {
		found := false
		ast.Inspect(n, func(m ast.Node) bool {
			if e, ok := m.(ast.Expr); ok && isTarget(e) {
				found = true
			}
			return !found
		})
		return found
	}
	// for element taint: a loop `for _, v := range container { sort…(v) }` that sorts every element
	elemSanitiser := map[ast.Node]bool{}
	if sd.elem {
		InspectNoLit(f.Body, func(n ast.Node) bool {
			rs, ok := n.(*ast.RangeStmt)
			if !ok || f.RootObj(rs.X) != sd.target {
				return true
			}
			// the element of the iteration: the value variable, or container[key] for the key variable
			var vobj, kobj types.Object
			if vid, ok := rs.Value.(*ast.Ident); ok && vid.Name != "_" {
				vobj = f.ObjOf(vid)
			}
			if kid, ok := rs.Key.(*ast.Ident); ok && kid.Name != "_" {
				kobj = f.ObjOf(kid)
			}
			if vobj == nil && kobj == nil {
				return true
			}
			isElem := func(e ast.Expr) bool {
				if vobj != nil && f.Denotes(e, vobj) {
					return true
				}
				if ix, ok := ast.Unparen(f.Resolve(e)).(*ast.IndexExpr); ok && kobj != nil {
					return f.Denotes(ix.Index, kobj) && f.SameExpr(ix.X, rs.X)
				}
				return false
			}
			sorts := func(m ast.Node) bool {
				ok, c := f.sanitisesWith(m, isElem)
				if ok && c != nil {
					dup := false
					for _, u := range a.SortSanitisers {
						if u.Call == c {
							dup = true
						}
					}
					if !dup {
						a.SortSanitisers = append(a.SortSanitisers, SanitiserUse{f, c})
					}
				}
				return ok
			}
			// every iteration sorts: no path through the body skips the sort
			loop, body, _ := g.RangeBlocks(rs)
			if body == nil {
				return true
			}
			seen := map[*Block]bool{}
			var skip func(b *Block) bool
			skip = func(b *Block) bool {
				for _, nd := range b.Nodes {
					if sorts(nd) {
						return false
					}
				}
				for _, sc := range b.Succs {
					if sc == loop {
						return true
					}
					if !seen[sc] {
						seen[sc] = true
						if skip(sc) {
							return true
						}
					}
				}
				return false
			}
			if !skip(body) {
				elemSanitiser[rs.X] = true
			}
			return true
		})
	}
	sanitised := true
	escaped := false
	w := &Walk{G: g, From: sd.from,
		Stop: func(n ast.Node) bool {
			if elemSanitiser[n] {
				return true
			}
			if sd.elem {
				return false
			}
			ok, c := f.sanitisesWith(n, isTarget)
			if ok && c != nil {
				dup := false
				for _, u := range a.SortSanitisers {
					if u.Call == c {
						dup = true
					}
				}
				if !dup {
					a.SortSanitisers = append(a.SortSanitisers, SanitiserUse{f, c})
				}
			}
			return ok
		},
		Hit: func(n ast.Node) bool {
			mentionsRoot := false
			if strings.Contains(sd.path, ".") && !sd.elem {
				InspectNoLit(n, func(m ast.Node) bool {
					if id, ok := m.(*ast.Ident); ok && f.ObjOf(id) == sd.target {
						// a bare use of the root (not the start of a longer selector chain)
						if _, isSel := f.Prog.Parent(id).(*ast.SelectorExpr); !isSel {
							mentionsRoot = true
						}
					}
					return true
				})
			}
			if !mentionsTarget(n) && !mentionsRoot {
				return false
			}
			switch s := n.(type) {
			case *ast.ReturnStmt:
				for _, e := range s.Results {
					// the tainted slice is a field (path) of a value that is returned as a whole
					if !isTarget(e) && strings.Contains(sd.path, ".") && f.RootObj(e) == sd.target {
						if _, isID := ast.Unparen(e).(*ast.Ident); isID {
							a.Findings = append(a.Findings, OrderFinding{Fn: f, Target: sd.path, Kind: "store", Pos: s.Pos(), Loop: sd.loop,
								Detail: "field " + sd.path + " holds a slice in map iteration order when the value is returned"})
							escaped = true
							continue
						}
					}
					if isTarget(e) {
						a.Returns[f] = true
						sanitised = false
						return false
					}
					if mentionsTarget(e) && !a.orderInsensitiveUse(f, e, isTarget) {
						a.Findings = append(a.Findings, OrderFinding{Fn: f, Target: sd.path, Kind: "store", Pos: s.Pos(), Loop: sd.loop,
							Detail: "a slice in map iteration order is embedded in the returned value without being sorted"})
						escaped = true
					}
				}
			case *ast.AssignStmt:
				for i, r := range s.Rhs {
					if !mentionsTarget(r) {
						continue
					}
					if len(s.Lhs) != len(s.Rhs) {
						continue
					}
					l := s.Lhs[i]
					if isTarget(l) {
						continue // self-append etc.
					}
					if a.orderInsensitiveUse(f, r, isTarget) {
						continue
					}
					if id, ok := l.(*ast.Ident); ok {
						if v, ok := f.ObjOf(id).(*types.Var); ok && !v.IsField() && v.Parent() != v.Pkg().Scope() {
							// local alias / derived slice: follow it
							site := g.FactSite(l)
							site.Node = s
							*seeds = append(*seeds, taintSeed{target: f.ObjOf(id), path: id.Name, from: site, loop: sd.loop})
							continue
						}
					}
					a.Findings = append(a.Findings, OrderFinding{Fn: f, Target: sd.path, Kind: "store", Pos: s.Pos(), Loop: sd.loop,
						Detail: "a slice in map iteration order is stored into " + types.ExprString(l) + " without being sorted"})
					escaped = true
				}
			case *ast.RangeStmt:
			default:
				// calls with the target as argument
				InspectNoLit(n, func(m ast.Node) bool {
					call, ok := m.(*ast.CallExpr)
					if !ok {
						return true
					}
					for _, arg := range call.Args {
						if id, isID := ast.Unparen(arg).(*ast.Ident); isID && strings.Contains(sd.path, ".") && f.ObjOf(id) == sd.target && !a.orderInsensitiveCall(f, call) {
							a.Findings = append(a.Findings, OrderFinding{Fn: f, Target: sd.path, Kind: "call", Pos: call.Pos(), Loop: sd.loop,
								Detail: "field " + sd.path + " holds a slice in map iteration order when the value is passed to " + types.ExprString(call.Fun)})
							escaped = true
							continue
						}
						if isTarget(arg) && !a.orderInsensitiveCall(f, call) {
							a.Findings = append(a.Findings, OrderFinding{Fn: f, Target: sd.path, Kind: "call", Pos: call.Pos(), Loop: sd.loop,
								Detail: "a slice in map iteration order is passed to " + types.ExprString(call.Fun) + " without being sorted"})
							escaped = true
						}
					}
					return true
				})
			}
			return false
		}}
	w.Run()
	// the tainted slice is a field of non-local storage (receiver / parameter): if a normal
	// exit is reachable without sorting it, the field stays in map order for other functions
	if !sd.elem && strings.Contains(sd.path, ".") {
		if v, ok := sd.target.(*types.Var); ok && (f.Recv() == v || isParamVar(f, v)) {
			ex := (&Walk{G: g, From: sd.from, HitExit: true, Stop: func(n ast.Node) bool { return f.sanitises(n, isTarget) }}).Run()
			if ex.Found {
				// find the field object of the path's last selector
				InspectNoLit(f.Body, func(n ast.Node) bool {
					if se, ok := n.(*ast.SelectorExpr); ok && types.ExprString(se) == sd.path {
						if s := f.Info().Selections[se]; s != nil {
							if fv, ok := s.Obj().(*types.Var); ok {
								a.TaintedFields[fv] = true
							}
						}
					}
					return true
				})
				sanitised = false
			}
		}
	}
	// ranging over the tainted slice propagates the taint into the loop body
	InspectNoLit(f.Body, func(n ast.Node) bool {
		rs, ok := n.(*ast.RangeStmt)
		if ok && isTarget(rs.X) && rs.Pos() > sd.from.Pos() {
			// only if not sanitised before: approximated by must-pass from the seed
			ms := g.MustPass(sd.from, func(m ast.Node) bool { return m == ast.Node(rs.X) }, false, func(m ast.Node) bool { return f.sanitises(m, isTarget) })
			if ms.Found {
				a.Loops++
				a.scanLoop(f, g, rs, rs, seeds)
			}
		}
		return true
	})
	if sanitised && !escaped {
		a.Sanitised = append(a.Sanitised, f.Name()+":"+sd.path)
	}
}

// orderInsensitiveUse: the expression uses the target only through len(), as
// an argument of an order-insensitive call, or by ranging.
func (a *OrderAnalysis) orderInsensitiveUse(f *Fn, e ast.Expr, isTarget func(ast.Expr) bool) bool {
	ok := true
	ast.Inspect(e, func(n ast.Node) bool {
		x, isExpr := n.(ast.Expr)
		if !isExpr || !isTarget(x) {
			return true
		}
		par := f.Prog.Parent(n)
		call, isCall := par.(*ast.CallExpr)
		if !isCall || !a.orderInsensitiveCall(f, call) {
			ok = false
		}
		return true
	})
	return ok
}

// orderInsensitiveCall: callee whose result does not depend on the order of a
// slice argument (frozen table), or error/log construction.
func (a *OrderAnalysis) orderInsensitiveCall(f *Fn, call *ast.CallExpr) bool {
	if id, ok := call.Fun.(*ast.Ident); ok {
		switch id.Name {
		case "len", "cap":
			return true
		}
	}
	fn, _ := f.Callee(call).(*types.Func)
	if fn == nil {
		return false
	}
	full := fn.FullName()
	switch {
	case strings.HasSuffix(full, "util/sets.New"), strings.HasSuffix(full, ".Insert") && strings.Contains(full, "util/sets"),
		full == "slices.Contains", full == "fmt.Errorf", full == "fmt.Sprintf" && false,
		strings.HasPrefix(full, "(github.com/go-kit/log"), strings.HasPrefix(full, "github.com/go-kit/log"):
		return true
	}
	return false
}

func isParamVar(f *Fn, v *types.Var) bool {
	if f.Type == nil || f.Type.Params == nil {
		return false
	}
	for _, fl := range f.Type.Params.List {
		for _, n := range fl.Names {
			if f.Info().Defs[n] == types.Object(v) {
				return true
			}
		}
	}
	return false
}
