package chk

// Guards are propositional formulas over atomic facts. A leaf recognises an
// atomic branch fact ("expression E evaluated to v"); formulas combine leaves
// with and / or / not. Whether a branch edge establishes a guard, and whether a
// site is reached only with the guard established, is decided by enumerating
// truth assignments over the (few) atoms involved - no solver: the conditions
// of the function are decomposed along &&, ||, ! (and through boolean locals
// with one definition), each atom of a condition is tied to the leaves that
// recognise it, and the implication is checked for every assignment.
//
// This makes the path rules independent of how a check is spelt: nested ifs or
// one && condition, `if !ok { return }` or `if ok { ... }`, a switch or an
// if-chain, De Morgan, a named boolean, a boolean flag that is set and tested.

import (
	"fmt"
	"go/ast"
	"go/constant"
	"go/token"
	"go/types"
	"os"
	"sort"

	"golang.org/x/tools/go/cfg"
)

const (
	gLeaf = iota
	gAnd
	gOr
	gNot
	gTrue
)

// Guard is a formula over atomic facts.
type Guard struct {
	op   int
	leaf func(Fact) bool
	kids []Guard
	ev   func(ast.Node) bool // event leaf: true once a node satisfying ev was passed
}

// GEvent is the guard "a node satisfying pred was executed" (since the entry of
// the function, or since the start of the iteration in LoopIteration).
func GEvent(pred func(ast.Node) bool) Guard {
	return Guard{op: gLeaf, leaf: func(Fact) bool { return false }, ev: pred}
}

// GFunc makes a leaf from a fact recogniser.
func GFunc(f func(Fact) bool) Guard { return Guard{op: gLeaf, leaf: f} }

// GAnd is the conjunction of guards.
func GAnd(gs ...Guard) Guard { return Guard{op: gAnd, kids: gs} }

// GOr is the disjunction of guards.
func GOr(gs ...Guard) Guard { return Guard{op: gOr, kids: gs} }

// GAnyOf is the disjunction of guards.
func GAnyOf(gs ...Guard) Guard { return GOr(gs...) }

// GSame is one leaf for several spellings of the same atomic condition (each alternative a single-leaf guard): the
// spellings are one variable of the analysis, not independent ones as in GOr.
func GSame(gs ...Guard) Guard {
	return GFunc(func(ft Fact) bool {
		for _, g := range gs {
			if g.Accepts(ft) {
				return true
			}
		}
		return false
	})
}

// GNot negates a guard.
func GNot(g Guard) Guard { return Guard{op: gNot, kids: []Guard{g}} }

// GNever is the guard no fact establishes.
func GNever() Guard { return GFunc(func(Fact) bool { return false }) }

// Accepts reports whether the single atomic fact establishes the guard (the
// guard is true in every assignment in which the fact holds).
func (gd Guard) Accepts(ft Fact) bool {
	c := gd.compile()
	// tie every leaf to the fact
	n := len(c.leaves)
	if n > 16 {
		return false
	}
	known := make([]int, n) // +1 true, -1 false, 0 free
	for i, l := range c.leaves {
		if l(ft) {
			known[i] = 1
		} else if l(Fact{ft.E, !ft.Val}) {
			known[i] = -1
		}
	}
	vals := make([]bool, n)
	var rec func(i int) bool
	rec = func(i int) bool {
		if i == n {
			return c.eval(vals)
		}
		switch known[i] {
		case 1:
			vals[i] = true
			return rec(i + 1)
		case -1:
			vals[i] = false
			return rec(i + 1)
		}
		vals[i] = true
		if !rec(i + 1) {
			return false
		}
		vals[i] = false
		return rec(i + 1)
	}
	return rec(0)
}

type compiledGuard struct {
	leaves []func(Fact) bool
	events map[int]func(ast.Node) bool // leaf index -> event predicate
	eval   func(vals []bool) bool
}

func (gd Guard) compile() *compiledGuard {
	c := &compiledGuard{}
	var build func(g Guard) func([]bool) bool
	build = func(g Guard) func([]bool) bool {
		switch g.op {
		case gLeaf:
			i := len(c.leaves)
			if g.leaf == nil {
				return func([]bool) bool { return false }
			}
			c.leaves = append(c.leaves, g.leaf)
			if g.ev != nil {
				if c.events == nil {
					c.events = map[int]func(ast.Node) bool{}
				}
				c.events[i] = g.ev
			}
			return func(v []bool) bool { return v[i] }
		case gTrue:
			return func([]bool) bool { return true }
		case gNot:
			k := build(g.kids[0])
			return func(v []bool) bool { return !k(v) }
		case gAnd:
			var ks []func([]bool) bool
			for _, kid := range g.kids {
				ks = append(ks, build(kid))
			}
			return func(v []bool) bool {
				for _, k := range ks {
					if !k(v) {
						return false
					}
				}
				return true
			}
		case gOr:
			var ks []func([]bool) bool
			for _, kid := range g.kids {
				ks = append(ks, build(kid))
			}
			return func(v []bool) bool {
				for _, k := range ks {
					if k(v) {
						return true
					}
				}
				return false
			}
		}
		return func([]bool) bool { return false }
	}
	c.eval = build(gd)
	return c
}

// ---- conditions as formulas -------------------------------------------------

// cform is a condition decomposed along &&, ||, !.
type cform struct {
	op   int // gLeaf (atom), gAnd, gOr, gNot, gTrue (unknown-free constant)
	atom int // index into condAtoms; -1-k for flag variable k
	val  bool
	kids []*cform
	expr ast.Expr // the composite expression of an and/or/not node (leaves may recognise it as a whole)
}

type condAtoms struct {
	g     *Graph
	exprs []ast.Expr // canonical atomic expressions (no !, no !=)
	flags []types.Object
}

func (ca *condAtoms) flagIndex(o types.Object) int {
	for i, f := range ca.flags {
		if f == o {
			return i
		}
	}
	return -1
}

// nilFlag: the comparison is `v == nil` / `v != nil` for a tracked pointer-like
// local v (through its temporaries); it returns the flag index or -1.
func (ca *condAtoms) nilFlag(be *ast.BinaryExpr) int {
	if len(ca.flags) == 0 {
		return -1
	}
	f := ca.g.Fn
	var other ast.Expr
	switch {
	case f.IsNilLit(be.Y):
		other = be.X
	case f.IsNilLit(be.X):
		other = be.Y
	default:
		return -1
	}
	id, ok := ast.Unparen(f.Resolve(other)).(*ast.Ident)
	if !ok {
		return -1
	}
	o := f.ObjOf(id)
	if o == nil || !ca.g.nilFlags[o] {
		return -1
	}
	return ca.flagIndex(o)
}

// neverNil: the comparison is of nil with a local whose only definition is an address, a literal or an allocation
// (`s := &T{}; if s == nil`): its outcome is known.
func (ca *condAtoms) neverNil(be *ast.BinaryExpr) bool {
	f := ca.g.Fn
	var other ast.Expr
	switch {
	case f.IsNilLit(be.Y):
		other = be.X
	case f.IsNilLit(be.X):
		other = be.Y
	default:
		return false
	}
	if _, isId := ast.Unparen(other).(*ast.Ident); !isId {
		return false
	}
	r := f.Resolve(other)
	return r != other && f.KnownNonNil(r)
}

func (ca *condAtoms) atomIndex(e ast.Expr) int {
	for i, x := range ca.exprs {
		if ca.g.Fn.SameValue(x, e) {
			return i
		}
	}
	ca.exprs = append(ca.exprs, e)
	return len(ca.exprs) - 1
}

// form decomposes e; negated reports the polarity folded into the atom.
func (ca *condAtoms) form(e ast.Expr, depth int) *cform {
	f := ca.g.Fn
	e = ast.Unparen(e)
	switch x := e.(type) {
	case *ast.UnaryExpr:
		if x.Op == token.NOT {
			return &cform{op: gNot, kids: []*cform{ca.form(x.X, depth)}, expr: x}
		}
	case *ast.BinaryExpr:
		if len(ca.g.eqFlags) > 0 {
			if id, c, eq, ok := eqCmpParts(f, x); ok {
				if o := eqFlagVar(f, ca.g, id); o != nil && constant.Compare(ca.g.eqFlags[o], token.EQL, c) {
					if k := ca.flagIndex(o); k >= 0 {
						if eq {
							return &cform{op: gLeaf, atom: -1 - k}
						}
						return &cform{op: gNot, kids: []*cform{{op: gLeaf, atom: -1 - k}}}
					}
				}
			}
		}
		if len(ca.g.signFlags) > 0 {
			if id, nonNeg, ok := signCmpParts(f, x); ok {
				if o := f.ObjOf(id); o != nil && ca.g.signFlags[o] {
					if k := ca.flagIndex(o); k >= 0 {
						if nonNeg {
							return &cform{op: gLeaf, atom: -1 - k}
						}
						return &cform{op: gNot, kids: []*cform{{op: gLeaf, atom: -1 - k}}}
					}
				}
			}
		}
		// an (in)equality of two boolean operands is a formula over them
		if (x.Op == token.EQL || x.Op == token.NEQ) && depth < 4 {
			isBool := func(e ast.Expr) bool {
				tv, ok := f.Info().Types[e]
				if !ok || tv.Type == nil {
					return false
				}
				b, ok := tv.Type.Underlying().(*types.Basic)
				return ok && b.Info()&types.IsBoolean != 0
			}
			if isBool(x.X) && isBool(x.Y) {
				a1, b1 := ca.form(x.X, depth+1), ca.form(x.Y, depth+1)
				a2, b2 := ca.form(x.X, depth+1), ca.form(x.Y, depth+1)
				same := &cform{op: gOr, kids: []*cform{
					{op: gAnd, kids: []*cform{a1, b1}},
					{op: gAnd, kids: []*cform{{op: gNot, kids: []*cform{a2}}, {op: gNot, kids: []*cform{b2}}}},
				}}
				// the whole comparison stays recognisable by a leaf written for it
				if x.Op == token.EQL {
					same.expr = x
					return same
				}
				same.expr = &ast.BinaryExpr{X: x.X, Op: token.EQL, Y: x.Y, OpPos: x.OpPos}
				return &cform{op: gNot, kids: []*cform{same}}
			}
		}
		switch x.Op {
		case token.LAND:
			return &cform{op: gAnd, kids: []*cform{ca.form(x.X, depth), ca.form(x.Y, depth)}, expr: x}
		case token.LOR:
			return &cform{op: gOr, kids: []*cform{ca.form(x.X, depth), ca.form(x.Y, depth)}, expr: x}
		case token.NEQ:
			if ca.neverNil(x) {
				return &cform{op: gTrue, val: true}
			}
			if k := ca.nilFlag(x); k >= 0 {
				return &cform{op: gNot, kids: []*cform{{op: gLeaf, atom: -1 - k}}}
			}
			eq := &ast.BinaryExpr{X: x.X, Op: token.EQL, Y: x.Y, OpPos: x.OpPos}
			return &cform{op: gNot, kids: []*cform{{op: gLeaf, atom: ca.atomIndex(eq)}}}
		case token.EQL:
			if ca.neverNil(x) {
				return &cform{op: gTrue, val: false}
			}
			if k := ca.nilFlag(x); k >= 0 {
				return &cform{op: gLeaf, atom: -1 - k}
			}
		}
	case *ast.Ident:
		if c := f.ConstVal(x); c != nil && c.Kind() == constant.Bool {
			return &cform{op: gTrue, val: constant.BoolVal(c)}
		}
		if o := f.ObjOf(x); o != nil {
			if k := ca.flagIndex(o); k >= 0 {
				return &cform{op: gLeaf, atom: -1 - k}
			}
		}
		// the comma-ok of a lookup in a map that is certainly nil (a helper expanded with a nil map argument): false
		if rhs, idx := ca.g.DefOf(x, ca.g.FactSite(x)); rhs != nil && idx == 1 {
			if ix, isIx := ast.Unparen(rhs).(*ast.IndexExpr); isIx {
				if mid, isId := ast.Unparen(ix.X).(*ast.Ident); isId {
					if _, isMap := f.Info().TypeOf(mid).Underlying().(*types.Map); isMap {
						if mdef := f.LocalDef(mid); mdef != nil && f.IsNilLit(unconvExpr(f, mdef)) {
							return &cform{op: gTrue, val: false}
						}
					}
				}
			}
		}
		if depth < 4 {
			if rhs := f.LocalDef(x); rhs != nil {
				if tv, ok := f.Info().Types[rhs]; ok && tv.Type != nil {
					if b, ok := tv.Type.Underlying().(*types.Basic); ok && b.Info()&types.IsBoolean != 0 {
						return ca.form(rhs, depth+1)
					}
				}
			}
		}
	}
	if c := f.ConstVal(e); c != nil && c.Kind() == constant.Bool {
		return &cform{op: gTrue, val: constant.BoolVal(c)}
	}
	return &cform{op: gLeaf, atom: ca.atomIndex(e)}
}

func (cf *cform) eval(atoms []bool, flags []bool) bool {
	switch cf.op {
	case gLeaf:
		if cf.atom < 0 {
			return flags[-1-cf.atom]
		}
		return atoms[cf.atom]
	case gTrue:
		return cf.val
	case gNot:
		return !cf.kids[0].eval(atoms, flags)
	case gAnd:
		for _, k := range cf.kids {
			if !k.eval(atoms, flags) {
				return false
			}
		}
		return true
	case gOr:
		for _, k := range cf.kids {
			if k.eval(atoms, flags) {
				return true
			}
		}
		return false
	}
	return false
}

func (cf *cform) atomsUsed(set map[int]bool) {
	if cf.op == gLeaf && cf.atom >= 0 {
		set[cf.atom] = true
	}
	for _, k := range cf.kids {
		k.atomsUsed(set)
	}
}

func (cf *cform) usesFlag() bool {
	if cf.op == gLeaf && cf.atom < 0 {
		return true
	}
	for _, k := range cf.kids {
		if k.usesFlag() {
			return true
		}
	}
	return false
}

// composites lists the and/or nodes of the formula (a leaf written for a whole
// `a && b` condition recognises the composite expression).
func (cf *cform) composites(out *[]*cform) {
	if (cf.op == gAnd || cf.op == gOr) && cf.expr != nil {
		*out = append(*out, cf)
	}
	for _, k := range cf.kids {
		k.composites(out)
	}
}

// ---- the analysis of one guard over one function -----------------------------

// tie relates leaf i and condition atom j: allowed[a][l] says whether the atom
// having value a and the leaf having value l can hold together.
type tie struct {
	leaf, atom int
	allowed    [2][2]bool
}

type guardAnalysis struct {
	g        *Graph
	c        *compiledGuard
	ca       *condAtoms
	ties     map[int][]tie // by atom
	nLeaf    int
	nFlag    int
	nVar     int               // nLeaf + nFlag
	edge     map[Edge][]uint64 // allowed assignments per conditional edge (nil: all)
	words    int
	holds    []uint64 // assignments (over vars) in which the guard holds
	universe []uint64
	fties    []ftie
	aux      map[int]int // condition atom -> auxiliary variable bit (atoms that share a condition with a leaf)
	nAux     int
	kills    map[ast.Node][]uint // per node: the variable bits whose value the node's assignments make unknown
	killsAt  int                 // number of atoms when kills was filled
	comps    []compLeaf          // leaves that recognise a composite condition as a whole
}

type compLeaf struct {
	leaf int
	expr ast.Expr
}

func b2i(b bool) int {
	if b {
		return 1
	}
	return 0
}

// newGuardAnalysis prepares the per-edge constraint sets.
func (g *Graph) newGuardAnalysis(gd Guard, withFlags bool) *guardAnalysis {
	ga := &guardAnalysis{g: g, c: gd.compile(), ca: &condAtoms{g: g}, ties: map[int][]tie{}, edge: map[Edge][]uint64{}}
	ga.nLeaf = len(ga.c.leaves)
	if ga.nLeaf > 8 {
		ga.nLeaf = 8 // leaves beyond the eighth are never established (conservative)
	}
	if withFlags {
		all := g.boolFlags()
		// the flags that a leaf of the guard recognises come first (the number tracked is bounded)
		var tied, rest []types.Object
		for _, o := range all {
			id := g.flagIdent[o]
			var probe ast.Expr = id
			if g.nilFlags[o] {
				probe = g.flagNilCmp[o]
			}
			isTied := false
			if probe != nil && id != nil {
				for i := 0; i < ga.nLeaf; i++ {
					if ga.c.leaves[i](Fact{probe, true}) || ga.c.leaves[i](Fact{probe, false}) {
						isTied = true
					}
				}
			}
			if isTied {
				tied = append(tied, o)
			} else {
				rest = append(rest, o)
			}
		}
		ga.ca.flags = append(tied, rest...)
		if len(ga.ca.flags) > flagBudget-ga.nLeaf {
			ga.ca.flags = ga.ca.flags[:flagBudget-ga.nLeaf]
		}
	}
	ga.nFlag = len(ga.ca.flags)
	ga.aux = map[int]int{}
	// register the atoms of every condition first (relations between atoms of different conditions)
	if withFlags {
		for _, b := range g.Blocks {
			if len(b.Succs) == 2 {
				if c := g.edgeCond(b, 0); c != nil {
					cf := ga.ca.form(c.E, 0)
					var comps []*cform
					cf.composites(&comps)
					for _, nd := range comps {
						for i := 0; i < ga.nLeaf; i++ {
							if l := ga.c.leaves[i]; l(Fact{nd.expr, true}) || l(Fact{nd.expr, false}) {
								ga.comps = append(ga.comps, compLeaf{i, nd.expr})
							}
						}
					}
				}
			}
		}
	}
	if withFlags {
		// atoms that occur in a condition together with an atom a leaf recognises (or with a flag) are
		// tracked too: `case a && x: ...; case a:` tells !x in the second case only if a is remembered
		room := flagBudget + 1 - ga.nLeaf - ga.nFlag
		if room > 4 {
			room = 4
		}
		for _, b := range g.Blocks {
			if len(b.Succs) != 2 || room <= 0 {
				continue
			}
			c := g.edgeCond(b, 0)
			if c == nil {
				continue
			}
			cf := ga.ca.form(c.E, 0)
			used := map[int]bool{}
			cf.atomsUsed(used)
			usesFlag := cf.usesFlag()
			if len(used) < 2 && !(usesFlag && len(used) == 1) {
				continue
			}
			relevant := usesFlag
			for j := range used {
				if len(ga.tiesFor(j)) > 0 {
					relevant = true
				}
			}
			if !relevant {
				continue
			}
			var js []int
			for j := range used {
				js = append(js, j)
			}
			sort.Ints(js)
			for _, j := range js {
				if len(ga.tiesFor(j)) > 0 {
					continue
				}
				if _, ok := ga.aux[j]; !ok && room > 0 {
					ga.aux[j] = ga.nLeaf + ga.nFlag + ga.nAux
					ga.nAux++
					room--
				}
			}
		}
	}
	ga.nVar = ga.nLeaf + ga.nFlag + ga.nAux
	ga.words = (1<<uint(ga.nVar) + 63) / 64
	// the assignments in which the guard holds
	ga.holds = make([]uint64, ga.words)
	vals := make([]bool, len(ga.c.leaves))
	for a := 0; a < 1<<uint(ga.nVar); a++ {
		for i := 0; i < ga.nLeaf; i++ {
			vals[i] = a&(1<<uint(i)) != 0
		}
		if ga.c.eval(vals) {
			ga.holds[a/64] |= 1 << uint(a%64)
		}
	}
	return ga
}

// edgeAllowed returns (computing it once) the assignments compatible with
// taking the edge; nil when the edge is unconditional.
func (ga *guardAnalysis) edgeAllowed(e Edge) []uint64 {
	if al, ok := ga.edge[e]; ok {
		return al
	}
	var al []uint64
	if c := ga.g.edgeCond(e.B, e.K); c != nil {
		al = ga.allowedBy(ga.ca.form(c.E, 0), c.Val)
	}
	ga.edge[e] = al
	return al
}

// tiesFor computes (once) the relation between condition atom j and every leaf.
func (ga *guardAnalysis) tiesFor(j int) []tie {
	if t, ok := ga.ties[j]; ok {
		return t
	}
	e := ga.ca.exprs[j]
	var out []tie
	for i := 0; i < ga.nLeaf; i++ {
		l := ga.c.leaves[i]
		switch {
		case l(Fact{e, true}):
			out = append(out, tie{i, j, [2][2]bool{{true, false}, {false, true}}}) // atom false <-> leaf false
		case l(Fact{e, false}):
			out = append(out, tie{i, j, [2][2]bool{{false, true}, {true, false}}})
		default:
			if t, ok := ga.numericTie(i, j, e); ok {
				out = append(out, t)
			} else if t, ok := ga.exclusiveTie(i, j, e); ok {
				out = append(out, t)
			} else if t, ok := ga.orderTie(i, j, e); ok {
				out = append(out, t)
			}
		}
	}
	// the comparison of a tracked pointer-like variable with nil, spelt on the variable itself while its value is a
	// call result the leaves speak about (`if err = f(); err != nil`): the atom and the variable's flag agree
	if be, ok := ast.Unparen(e).(*ast.BinaryExpr); ok && be.Op == token.EQL {
		f := ga.g.Fn
		var other ast.Expr
		switch {
		case f.IsNilLit(be.Y):
			other = be.X
		case f.IsNilLit(be.X):
			other = be.Y
		}
		if id, ok := other.(*ast.Ident); ok {
			if o := f.ObjOf(id); o != nil && ga.g.nilFlags[o] {
				if k := ga.ca.flagIndex(o); k >= 0 {
					out = append(out, tie{ga.nLeaf + k, j, [2][2]bool{{true, false}, {false, true}}})
				}
			}
		}
	}
	ga.ties[j] = out
	return out
}

// exclusiveTie: the atom `X == c1` and a leaf that recognises `X == c2` for a
// different constant c2 (seen in another condition of the function) cannot both
// be true: the arms of `switch x { case A: case B: }` exclude one another.
func (ga *guardAnalysis) exclusiveTie(i, j int, e ast.Expr) (tie, bool) {
	f := ga.g.Fn
	x1, c1, ok := eqConst(f, e)
	if !ok {
		return tie{}, false
	}
	l := ga.c.leaves[i]
	// the comparisons of the same value with other constants anywhere in the function (the other arms of a switch)
	others := append([]ast.Expr{}, ga.ca.exprs...)
	for _, b := range ga.g.Blocks {
		if len(b.Succs) == 2 {
			if c := ga.g.edgeCond(b, 0); c != nil {
				ast.Inspect(c.E, func(n ast.Node) bool {
					if be, ok := n.(*ast.BinaryExpr); ok && be.Op == token.EQL {
						others = append(others, be)
					}
					return true
				})
			}
		}
	}
	for k, other := range others {
		if k == j && k < len(ga.ca.exprs) {
			continue
		}
		x2, c2, ok := eqConst(f, other)
		if !ok || constant.Compare(c1, token.EQL, c2) || !f.SameValue(x1, x2) {
			continue
		}
		switch {
		case l(Fact{other, true}): // leaf == (X == c2): not both true
			return tie{i, j, [2][2]bool{{true, true}, {true, false}}}, true
		case l(Fact{other, false}): // leaf == (X != c2): atom true forces leaf true
			return tie{i, j, [2][2]bool{{true, true}, {false, true}}}, true
		}
	}
	return tie{}, false
}

// eqConst views e as `X == constant`.
func eqConst(f *Fn, e ast.Expr) (ast.Expr, constant.Value, bool) {
	be, ok := ast.Unparen(e).(*ast.BinaryExpr)
	if !ok || be.Op != token.EQL {
		return nil, nil, false
	}
	if c := f.ConstVal(be.Y); c != nil && f.ConstVal(be.X) == nil {
		return be.X, c, true
	}
	if c := f.ConstVal(be.X); c != nil && f.ConstVal(be.Y) == nil {
		return be.Y, c, true
	}
	return nil, nil, false
}

// numericTie relates an integer comparison `X op c` of the code to a leaf that
// recognises another comparison of the same X with a constant (len(x) == 0 versus
// len(x) > 0): the leaf is probed with comparisons of X against nearby constants.
func (ga *guardAnalysis) numericTie(i, j int, e ast.Expr) (tie, bool) {
	f := ga.g.Fn
	be, ok := ast.Unparen(e).(*ast.BinaryExpr)
	if !ok {
		return tie{}, false
	}
	ops := []token.Token{token.EQL, token.LSS, token.GTR, token.LEQ, token.GEQ}
	isCmp := false
	for _, o := range ops {
		if be.Op == o {
			isCmp = true
		}
	}
	if !isCmp {
		return tie{}, false
	}
	x, cexpr, op := be.X, be.Y, be.Op
	cv := f.ConstVal(cexpr)
	if cv == nil {
		if cv = f.ConstVal(be.X); cv == nil {
			return tie{}, false
		}
		x, cexpr = be.Y, be.X
		if m, ok := mirrorOp[op]; ok {
			op = m
		}
	}
	c, exact := constantInt(cv)
	if !exact {
		return tie{}, false
	}
	nonNeg := false
	if call, ok := ast.Unparen(x).(*ast.CallExpr); ok {
		if id, ok := call.Fun.(*ast.Ident); ok && (id.Name == "len" || id.Name == "cap") {
			nonNeg = true
		}
	}
	if tv, ok := f.Info().Types[x]; ok && tv.Type != nil {
		if b, ok := tv.Type.Underlying().(*types.Basic); ok && b.Info()&types.IsUnsigned != 0 {
			nonNeg = true
		}
	}
	holds := func(op token.Token, k, d int64) bool {
		switch op {
		case token.EQL:
			return d == k
		case token.LSS:
			return d < k
		case token.GTR:
			return d > k
		case token.LEQ:
			return d <= k
		case token.GEQ:
			return d >= k
		}
		return false
	}
	l := ga.c.leaves[i]
	for _, k := range []int64{0, 1, c - 1, c, c + 1, 2} {
		for _, lop := range ops {
			probe := &ast.BinaryExpr{X: x, Op: lop, Y: cexprFor(f, cexpr, k, c), OpPos: be.OpPos}
			if probe.Y == nil {
				continue
			}
			for _, pv := range []bool{true, false} {
				if !l(Fact{probe, pv}) {
					continue
				}
				// leaf == (x lop k) == pv ; atom == (x op c)
				var t tie
				t.leaf, t.atom = i, j
				for d := int64(-3); d <= c+4 || d <= 4; d++ {
					if nonNeg && d < 0 {
						continue
					}
					a := holds(op, c, d)
					lv := holds(lop, k, d) == pv
					t.allowed[b2i(a)][b2i(lv)] = true
				}
				return t, true
			}
		}
	}
	return tie{}, false
}

// orderTie relates a comparison `X op Y` of two non-constant integers to a leaf that recognises another comparison of
// the same two operands (`ol == il` versus `ol < il`): the leaf is probed with every comparison of X and Y, and the
// tie lists the combinations possible for X-Y in {-1, 0, 1}.
func (ga *guardAnalysis) orderTie(i, j int, e ast.Expr) (tie, bool) {
	f := ga.g.Fn
	be, ok := ast.Unparen(e).(*ast.BinaryExpr)
	if !ok {
		return tie{}, false
	}
	ops := []token.Token{token.EQL, token.NEQ, token.LSS, token.GTR, token.LEQ, token.GEQ}
	isCmp := false
	for _, o := range ops {
		isCmp = isCmp || be.Op == o
	}
	if !isCmp || f.ConstVal(be.X) != nil || f.ConstVal(be.Y) != nil {
		return tie{}, false
	}
	if tv, ok := f.Info().Types[be.X]; !ok || tv.Type == nil {
		return tie{}, false
	} else if b, ok := tv.Type.Underlying().(*types.Basic); !ok || b.Info()&types.IsInteger == 0 {
		return tie{}, false
	}
	holds := func(op token.Token, d int) bool {
		switch op {
		case token.EQL:
			return d == 0
		case token.NEQ:
			return d != 0
		case token.LSS:
			return d < 0
		case token.GTR:
			return d > 0
		case token.LEQ:
			return d <= 0
		case token.GEQ:
			return d >= 0
		}
		return false
	}
	l := ga.c.leaves[i]
	for _, lop := range ops {
		probe := &ast.BinaryExpr{X: be.X, Op: lop, Y: be.Y, OpPos: be.OpPos}
		for _, pv := range []bool{true, false} {
			if !l(Fact{probe, pv}) {
				continue
			}
			var t tie
			t.leaf, t.atom = i, j
			for d := -1; d <= 1; d++ {
				t.allowed[b2i(holds(be.Op, d))][b2i(holds(lop, d) == pv)] = true
			}
			return t, true
		}
	}
	return tie{}, false
}

// cexprFor returns an expression for the integer k: the original constant
// expression when k == c, else nil unless a literal can be reused (type
// information exists only for original nodes, so only k == c is probed with
// full information; other constants are probed with an untyped literal).
func cexprFor(f *Fn, orig ast.Expr, k, c int64) ast.Expr {
	if k == c {
		return orig
	}
	return &ast.BasicLit{Kind: token.INT, Value: itoa(k), ValuePos: orig.Pos()}
}

func itoa(k int64) string {
	if k == 0 {
		return "0"
	}
	neg := k < 0
	if neg {
		k = -k
	}
	var b []byte
	for k > 0 {
		b = append([]byte{byte('0' + k%10)}, b...)
		k /= 10
	}
	if neg {
		b = append([]byte{'-'}, b...)
	}
	return string(b)
}

// allowedBy returns the set of assignments (over leaves and flags) that are
// compatible with the condition having value v.
func (ga *guardAnalysis) allowedBy(cf *cform, v bool) []uint64 {
	used := map[int]bool{}
	cf.atomsUsed(used)
	var atoms []int
	for j := range used {
		atoms = append(atoms, j)
	}
	if len(atoms) > 12 {
		return nil // too large: no information
	}
	var ties []tie
	for _, j := range atoms {
		ties = append(ties, ga.tiesFor(j)...)
	}
	// leaves that recognise a composite sub-condition as a whole
	type ctie struct {
		leaf int
		node *cform
		pos  bool
	}
	var cties []ctie
	var comps []*cform
	cf.composites(&comps)
	for _, nd := range comps {
		for i := 0; i < ga.nLeaf; i++ {
			l := ga.c.leaves[i]
			if l(Fact{nd.expr, true}) {
				cties = append(cties, ctie{i, nd, true})
			} else if l(Fact{nd.expr, false}) {
				cties = append(cties, ctie{i, nd, false})
			}
		}
	}
	out := make([]uint64, ga.words)
	avals := make([]bool, len(ga.ca.exprs))
	fvals := make([]bool, ga.nFlag)
	// atoms tracked as auxiliary variables take their value from the assignment; the others are quantified
	var free []int
	for _, j := range atoms {
		if _, isAux := ga.aux[j]; !isAux {
			free = append(free, j)
		}
	}
	for a := 0; a < 1<<uint(ga.nVar); a++ {
		for k := 0; k < ga.nFlag; k++ {
			fvals[k] = a&(1<<uint(ga.nLeaf+k)) != 0
		}
		for _, j := range atoms {
			if bit, isAux := ga.aux[j]; isAux {
				avals[j] = a&(1<<uint(bit)) != 0
			}
		}
		ok := false
		for m := 0; m < 1<<uint(len(free)) && !ok; m++ {
			for idx, j := range free {
				avals[j] = m&(1<<uint(idx)) != 0
			}
			if cf.eval(avals, fvals) != v {
				continue
			}
			consistent := true
			for _, t := range ties {
				lv := a&(1<<uint(t.leaf)) != 0
				if !t.allowed[b2i(avals[t.atom])][b2i(lv)] {
					consistent = false
					break
				}
			}
			for _, t := range cties {
				lv := a&(1<<uint(t.leaf)) != 0
				if (t.node.eval(avals, fvals) == t.pos) != lv {
					consistent = false
					break
				}
			}
			if consistent {
				ok = true
			}
		}
		if ok {
			out[a/64] |= 1 << uint(a%64)
		}
	}
	return out
}

// boolFlags lists the boolean locals of the function that are assigned more than
// once or assigned a constant (so LocalDef cannot see through them) and are read
// in some condition: their value is tracked along paths.
func (g *Graph) boolFlags() []types.Object {
	if g.flags != nil {
		return *g.flags
	}
	f := g.Fn
	var out []types.Object
	g.flags = &[]types.Object{} // re-entrancy guard (LocalDef may ask for a dominance while flags are collected)
	seen := map[types.Object]bool{}
	depth := 0
	var consider func(id *ast.Ident)
	consider = func(id *ast.Ident) {
		o := f.ObjOf(id)
		v, ok := o.(*types.Var)
		if !ok || seen[o] || v.IsField() || v.Pkg() == nil || v.Parent() == v.Pkg().Scope() {
			return
		}
		b, ok := v.Type().Underlying().(*types.Basic)
		if !ok || b.Info()&types.IsBoolean == 0 {
			return
		}
		if d := f.LocalDef(id); d != nil {
			// a temporary: the flags are in its definition
			if depth < 4 {
				depth++
				ast.Inspect(d, func(n ast.Node) bool {
					if x, ok := n.(*ast.Ident); ok {
						consider(x)
					}
					return true
				})
				depth--
			}
			return
		}
		// parameters are not flags
		if f.Type.Params != nil {
			for _, fld := range f.Type.Params.List {
				for _, nm := range fld.Names {
					if f.Info().Defs[nm] == o {
						return
					}
				}
			}
		}
		if f.assignedInLit(o) {
			return
		}
		seen[o] = true
		out = append(out, o)

		if g.flagIdent == nil {
			g.flagIdent = map[types.Object]*ast.Ident{}
		}
		g.flagIdent[o] = id
	}
	for _, b := range g.Blocks {
		for k := range b.Succs {
			c := g.edgeCond(b, k)
			if c == nil {
				continue
			}
			ast.Inspect(c.E, func(n ast.Node) bool {
				if id, ok := n.(*ast.Ident); ok {
					consider(id)
				}
				return true
			})
		}
	}
	// a flag that is computed from other booleans (`retry = retry || failed`) makes those flags too
	for round := 0; round < 3; round++ {
		n0 := len(out)
		ast.Inspect(f.Body, func(n ast.Node) bool {
			as, ok := n.(*ast.AssignStmt)
			if !ok || len(as.Lhs) != len(as.Rhs) {
				return true
			}
			for i, l := range as.Lhs {
				id, ok := l.(*ast.Ident)
				if !ok || !seen[f.ObjOf(id)] {
					continue
				}
				ast.Inspect(as.Rhs[i], func(m ast.Node) bool {
					if x, ok := m.(*ast.Ident); ok {
						consider(x)
					}
					return true
				})
			}
			return true
		})
		if len(out) == n0 {
			break
		}
	}
	// flags that are assigned a boolean constant somewhere come first
	constAssigned := map[types.Object]bool{}
	ast.Inspect(f.Body, func(n ast.Node) bool {
		if as, ok := n.(*ast.AssignStmt); ok && len(as.Lhs) == len(as.Rhs) {
			for i, l := range as.Lhs {
				if id, ok := l.(*ast.Ident); ok {
					if c := f.ConstVal(as.Rhs[i]); c != nil && c.Kind() == constant.Bool {
						constAssigned[f.ObjOf(id)] = true
					}
				}
			}
		}
		return true
	})
	ast.Inspect(f.Body, func(n ast.Node) bool {
		if vs, ok := n.(*ast.ValueSpec); ok && len(vs.Values) == 0 {
			for _, nm := range vs.Names {
				constAssigned[f.Info().Defs[nm]] = true
			}
		}
		return true
	})
	var flags []types.Object
	for _, o := range out {
		if constAssigned[o] {
			flags = append(flags, o)
		}
	}
	// then the ones that are only ever assigned expressions, more than once (`c := a; if !c { c = b }`): their value is
	// the formula assigned last
	for _, o := range out {
		if !constAssigned[o] && len(f.assignmentsTo(o)) > 1 {
			flags = append(flags, o)
		}
	}
	out = flags
	// pointer-like locals that are assigned nil on some path and compared with nil
	nilAssigned := map[types.Object]bool{}
	ast.Inspect(f.Body, func(n ast.Node) bool {
		switch st := n.(type) {
		case *ast.AssignStmt:
			if len(st.Lhs) == len(st.Rhs) {
				for i, l := range st.Lhs {
					if id, ok := l.(*ast.Ident); ok && f.IsNilLit(st.Rhs[i]) {
						nilAssigned[f.ObjOf(id)] = true
					}
				}
			}
		case *ast.ValueSpec:
			for i, nm := range st.Names {
				if len(st.Values) == 0 || (i < len(st.Values) && f.IsNilLit(st.Values[i])) {
					nilAssigned[f.Info().Defs[nm]] = true
				}
			}
		}
		return true
	})
	g.nilFlags = map[types.Object]bool{}
	for _, b := range g.Blocks {
		for k := range b.Succs {
			c := g.edgeCond(b, k)
			if c == nil {
				continue
			}
			ast.Inspect(c.E, func(n ast.Node) bool {
				be, ok := n.(*ast.BinaryExpr)
				if !ok || (be.Op != token.EQL && be.Op != token.NEQ) {
					return true
				}
				var other ast.Expr
				switch {
				case f.IsNilLit(be.Y):
					other = be.X
				case f.IsNilLit(be.X):
					other = be.Y
				default:
					return true
				}
				id, ok := ast.Unparen(f.Resolve(other)).(*ast.Ident)
				if !ok {
					return true
				}
				o := f.ObjOf(id)
				v, isVar := o.(*types.Var)
				if !isVar || v.IsField() || v.Pkg() == nil || v.Parent() == v.Pkg().Scope() || !nilAssigned[o] || g.nilFlags[o] || f.assignedInLit(o) {
					return true
				}
				switch v.Type().Underlying().(type) {
				case *types.Pointer, *types.Interface, *types.Slice, *types.Map, *types.Signature, *types.Chan:
				default:
					return true
				}
				g.nilFlags[o] = true
				out = append(out, o)
				if g.flagIdent == nil {
					g.flagIdent = map[types.Object]*ast.Ident{}
				}
				g.flagIdent[o] = id
				if g.flagNilCmp == nil {
					g.flagNilCmp = map[types.Object]ast.Expr{}
				}
				g.flagNilCmp[o] = &ast.BinaryExpr{X: be.X, Op: token.EQL, Y: be.Y, OpPos: be.OpPos}
				return true
			})
		}
	}
	// found-index variables: integer locals whose every assignment is -1 or certainly non-negative (a range key, a
	// non-negative constant, len / cap) and that are compared with 0 or -1: `idx >= 0` is tracked like a flag
	g.signFlags = map[types.Object]bool{}
	signCand := map[types.Object]*ast.Ident{}
	for _, b := range g.Blocks {
		for k := range b.Succs {
			c := g.edgeCond(b, k)
			if c == nil {
				continue
			}
			ast.Inspect(c.E, func(n ast.Node) bool {
				be, ok := n.(*ast.BinaryExpr)
				if !ok {
					return true
				}
				if id, _, ok := signCmpParts(f, be); ok {
					if o := f.ObjOf(id); o != nil {
						signCand[o] = id
					}
				}
				return true
			})
		}
	}
	// a found-index variable may be a copy of another (`i := _inlNr0` after an expanded search): the variables it is
	// assigned from become candidates too, and a copy is accepted when its source is
	for changed := true; changed; {
		changed = false
		ast.Inspect(f.Body, func(nd ast.Node) bool {
			st, ok := nd.(*ast.AssignStmt)
			if !ok || len(st.Lhs) != len(st.Rhs) {
				return true
			}
			for i, l := range st.Lhs {
				lid, isId := l.(*ast.Ident)
				if !isId || signCand[f.ObjOf(lid)] == nil {
					continue
				}
				if rid, isR := ast.Unparen(st.Rhs[i]).(*ast.Ident); isR {
					if ro, isVar := f.ObjOf(rid).(*types.Var); isVar && signCand[ro] == nil && f.ConstVal(rid) == nil {
						if _, known := signOf(f, rid); !known {
							signCand[ro] = rid
							changed = true
						}
					}
				}
			}
			return true
		})
	}
	var signObjs []types.Object
	for o := range signCand {
		signObjs = append(signObjs, o)
	}
	signCopyOf := map[types.Object][]types.Object{} // accepted only if every source is
	sort.Slice(signObjs, func(i, j int) bool { return signObjs[i].Pos() < signObjs[j].Pos() })
	for _, o := range signObjs {
		id := signCand[o]
		v, isVar := o.(*types.Var)
		if !isVar || v.IsField() || v.Pkg() == nil || v.Parent() == v.Pkg().Scope() || f.assignedInLit(o) || g.nilFlags[o] {
			continue
		}
		isParam := false
		if f.Type.Params != nil {
			for _, fld := range f.Type.Params.List {
				for _, nm := range fld.Names {
					if f.Info().Defs[nm] == o {
						isParam = true
					}
				}
			}
		}
		if isParam {
			continue
		}
		okAll, n := true, 0
		ast.Inspect(f.Body, func(nd ast.Node) bool {
			switch st := nd.(type) {
			case *ast.AssignStmt:
				for i, l := range st.Lhs {
					if lid, isId := l.(*ast.Ident); isId && f.ObjOf(lid) == o {
						n++
						if len(st.Lhs) != len(st.Rhs) || (st.Tok != token.ASSIGN && st.Tok != token.DEFINE) {
							okAll = false
							continue
						}
						if _, known := signOf(f, st.Rhs[i]); !known {
							if rid, isR := ast.Unparen(st.Rhs[i]).(*ast.Ident); isR && signCand[f.ObjOf(rid)] != nil && f.ObjOf(rid) != o {
								signCopyOf[o] = append(signCopyOf[o], f.ObjOf(rid))
							} else {
								okAll = false
							}
						}
					}
				}
			case *ast.IncDecStmt:
				if lid, isId := st.X.(*ast.Ident); isId && f.ObjOf(lid) == o {
					okAll = false
				}
			case *ast.RangeStmt:
				for _, kv := range []ast.Expr{st.Key, st.Value} {
					if lid, isId := kv.(*ast.Ident); isId && f.ObjOf(lid) == o {
						okAll = false
					}
				}
			case *ast.UnaryExpr:
				if st.Op == token.AND && f.ObjOf(ast.Unparen(st.X)) == o {
					okAll = false
				}
			}
			return true
		})
		if okAll && n > 0 {
			g.signFlags[o] = true
			out = append(out, o)
			if g.flagIdent == nil {
				g.flagIdent = map[types.Object]*ast.Ident{}
			}
			g.flagIdent[o] = id
		}
	}
	// a copy is a found-index variable only if its sources are
	for changed := true; changed; {
		changed = false
		for o, srcs := range signCopyOf {
			if !g.signFlags[o] {
				continue
			}
			for _, src := range srcs {
				if !g.signFlags[src] {
					delete(g.signFlags, o)
					for i, x := range out {
						if x == o {
							out = append(out[:i], out[i+1:]...)
							break
						}
					}
					changed = true
					break
				}
			}
		}
	}
	// locals of a basic type that conditions compare with one constant only (an enumeration result tested against its
	// "nothing wrong" value): "equals that constant" is tracked; an assignment of a constant decides it, an assignment of
	// another such variable copies it, anything else leaves it unknown
	g.eqFlags = map[types.Object]constant.Value{}
	eqCand := map[types.Object]constant.Value{}
	eqIdent := map[types.Object]*ast.Ident{}
	eqBad := map[types.Object]bool{}
	for _, b := range g.Blocks {
		for k := range b.Succs {
			c := g.edgeCond(b, k)
			if c == nil {
				continue
			}
			ast.Inspect(c.E, func(n ast.Node) bool {
				be, ok := n.(*ast.BinaryExpr)
				if !ok {
					return true
				}
				if id, cv, _, ok := eqCmpParts(f, be); ok {
					cexpr := be.Y
					if f.ConstVal(be.Y) == nil {
						cexpr = be.X
					}
					for _, o := range []types.Object{f.ObjOf(id), f.ObjOf(ast.Unparen(f.Resolve(id)))} {
						if o != nil {
							if g.eqConst == nil {
								g.eqConst = map[types.Object]ast.Expr{}
							}
							if g.eqConst[o] == nil {
								g.eqConst[o] = cexpr
							}
						}
						if o == nil {
							continue
						}
						if old, has := eqCand[o]; has && !constant.Compare(old, token.EQL, cv) {
							eqBad[o] = true
						}
						eqCand[o] = cv
						if eqIdent[o] == nil {
							eqIdent[o] = id
						}
					}
				}
				return true
			})
		}
	}
	var eqObjs []types.Object
	for o := range eqCand {
		eqObjs = append(eqObjs, o)
	}
	sort.Slice(eqObjs, func(i, j int) bool { return eqObjs[i].Pos() < eqObjs[j].Pos() })
	for _, o := range eqObjs {
		v, isVar := o.(*types.Var)
		if !isVar || eqBad[o] || v.IsField() || v.Pkg() == nil || v.Parent() == v.Pkg().Scope() || f.assignedInLit(o) || g.nilFlags[o] || g.signFlags[o] {
			continue
		}
		if b, isB := v.Type().Underlying().(*types.Basic); !isB || b.Info()&types.IsBoolean != 0 {
			continue
		}
		already := false
		for _, x := range out {
			if x == o {
				already = true
			}
		}
		if already {
			continue
		}
		isParam := false
		if f.Type.Params != nil {
			for _, fld := range f.Type.Params.List {
				for _, nm := range fld.Names {
					if f.Info().Defs[nm] == o {
						isParam = true
					}
				}
			}
		}
		if isParam {
			continue
		}
		// at least one assignment of a constant (otherwise nothing is ever known), no address taken, not a loop variable
		nConst, okAll := 0, true
		ast.Inspect(f.Body, func(nd ast.Node) bool {
			switch st := nd.(type) {
			case *ast.AssignStmt:
				for i, l := range st.Lhs {
					if lid, isId := l.(*ast.Ident); isId && f.ObjOf(lid) == o && len(st.Lhs) == len(st.Rhs) {
						if f.ConstVal(st.Rhs[i]) != nil {
							nConst++
						}
					}
				}
			case *ast.IncDecStmt:
				if lid, isId := st.X.(*ast.Ident); isId && f.ObjOf(lid) == o {
					okAll = false
				}
			case *ast.RangeStmt:
				for _, kv := range []ast.Expr{st.Key, st.Value} {
					if lid, isId := kv.(*ast.Ident); isId && f.ObjOf(lid) == o {
						okAll = false
					}
				}
			case *ast.UnaryExpr:
				if st.Op == token.AND && f.ObjOf(ast.Unparen(st.X)) == o {
					okAll = false
				}
			}
			return true
		})
		if !okAll || nConst == 0 {
			continue
		}
		g.eqFlags[o] = eqCand[o]
		out = append(out, o)
		if g.flagIdent == nil {
			g.flagIdent = map[types.Object]*ast.Ident{}
		}
		g.flagIdent[o] = eqIdent[o]
	}
	if os.Getenv("MLB_DEBUG_FLAGS") != "" {
		fmt.Fprintln(os.Stderr, "flags of", f.Name(), out)
	}
	g.flags = &out
	return out
}

// eqCmpParts views be as `v == C` / `v != C` (either order) for a local identifier v and a constant C.
func eqCmpParts(f *Fn, be *ast.BinaryExpr) (id *ast.Ident, c constant.Value, eq bool, ok bool) {
	if be.Op != token.EQL && be.Op != token.NEQ {
		return nil, nil, false, false
	}
	x, y := ast.Unparen(be.X), ast.Unparen(be.Y)
	if f.ConstVal(x) != nil && f.ConstVal(y) == nil {
		x, y = y, x
	}
	id, isId := x.(*ast.Ident)
	cv := f.ConstVal(y)
	if !isId || cv == nil || f.ConstVal(x) != nil {
		return nil, nil, false, false
	}
	switch cv.Kind() {
	case constant.Int, constant.String:
	default:
		return nil, nil, false, false
	}
	if v, isVar := f.ObjOf(id).(*types.Var); !isVar || v.IsField() {
		return nil, nil, false, false
	}
	return id, cv, be.Op == token.EQL, true
}

// eqFlagVar: the tracked variable the identifier stands for (itself, or the variable it is a plain copy of).
func eqFlagVar(f *Fn, g *Graph, id *ast.Ident) types.Object {
	if o := f.ObjOf(id); o != nil {
		if _, ok := g.eqFlags[o]; ok {
			return o
		}
	}
	if rid, isId := ast.Unparen(f.Resolve(id)).(*ast.Ident); isId && rid != id {
		if o := f.ObjOf(rid); o != nil {
			if _, ok := g.eqFlags[o]; ok {
				return o
			}
		}
	}
	return nil
}

// signCmpParts views be as a comparison of a local integer variable with 0 or -1 that, for a value that is -1 or
// non-negative, says "non-negative" (nonNeg = true) or "is -1" (false).
func signCmpParts(f *Fn, be *ast.BinaryExpr) (id *ast.Ident, nonNeg bool, ok bool) {
	x, y, op := be.X, be.Y, be.Op
	if f.ConstVal(x) != nil && f.ConstVal(y) == nil {
		x, y = y, x
		if m, has := mirrorOp[op]; has {
			op = m
		}
	}
	id, isId := ast.Unparen(x).(*ast.Ident)
	cv := f.ConstVal(y)
	if !isId || cv == nil {
		return nil, false, false
	}
	// a string local that only ever holds constants, compared with "": the flag is "is empty" (true for the zero value)
	if cv.Kind() == constant.String {
		if tv, has := f.Info().Types[id]; !has || tv.Type == nil {
			return nil, false, false
		} else if b, isB := tv.Type.Underlying().(*types.Basic); !isB || b.Info()&types.IsString == 0 {
			return nil, false, false
		}
		if constant.StringVal(cv) != "" {
			return nil, false, false
		}
		switch op {
		case token.EQL:
			return id, true, true
		case token.NEQ:
			return id, false, true
		}
		return nil, false, false
	}
	c, exact := constantInt(cv)
	if !exact {
		return nil, false, false
	}
	if tv, has := f.Info().Types[id]; !has || tv.Type == nil {
		return nil, false, false
	} else if b, isB := tv.Type.Underlying().(*types.Basic); !isB || b.Info()&types.IsInteger == 0 || b.Info()&types.IsUnsigned != 0 {
		return nil, false, false
	}
	switch {
	case op == token.GEQ && c == 0, op == token.GTR && c == -1, op == token.NEQ && c == -1:
		return id, true, true
	case op == token.LSS && c == 0, op == token.LEQ && c == -1, op == token.EQL && c == -1:
		return id, false, true
	}
	return nil, false, false
}

// signOf classifies an assigned value: -1 (false), certainly non-negative (true), or unknown.
func signOf(f *Fn, e ast.Expr) (nonNeg bool, known bool) {
	e = ast.Unparen(e)
	if cv := f.ConstVal(e); cv != nil {
		if cv.Kind() == constant.String {
			return constant.StringVal(cv) == "", true
		}
		if c, exact := constantInt(cv); exact {
			if c == -1 {
				return false, true
			}
			if c >= 0 {
				return true, true
			}
		}
		return false, false
	}
	switch x := e.(type) {
	case *ast.Ident:
		// the key variable of a range statement over a slice / array / string / integer
		if o := f.ObjOf(x); o != nil {
			if rs, isRange := f.Prog.Parent(declIdent(f, o)).(*ast.RangeStmt); isRange && rs.Key != nil && f.Info().Defs[rangeIdent(rs.Key)] == o {
				if tv, has := f.Info().Types[rs.X]; has && tv.Type != nil {
					switch tv.Type.Underlying().(type) {
					case *types.Slice, *types.Array, *types.Basic, *types.Pointer:
						return true, true
					}
				}
			}
		}
	case *ast.CallExpr:
		if id, isId := x.Fun.(*ast.Ident); isId && (id.Name == "len" || id.Name == "cap") {
			if _, isB := f.Info().Uses[id].(*types.Builtin); isB {
				return true, true
			}
		}
	}
	return false, false
}

func rangeIdent(e ast.Expr) *ast.Ident {
	id, _ := e.(*ast.Ident)
	return id
}

// declIdent finds the identifier that declares the object inside the function.
func declIdent(f *Fn, o types.Object) ast.Node {
	var out ast.Node
	ast.Inspect(f.Body, func(n ast.Node) bool {
		if id, ok := n.(*ast.Ident); ok && f.Info().Defs[id] == o {
			out = id
			return false
		}
		return out == nil
	})
	if out == nil {
		return nil
	}
	return out
}

type ftie struct {
	leaf, flag int
	pos        bool
}

// stateSet operations
func (ga *guardAnalysis) full() []uint64 {
	if ga.universe != nil {
		cp := make([]uint64, ga.words)
		copy(cp, ga.universe)
		return cp
	}
	// a leaf that recognises a flag variable itself is tied to the flag's value
	var fties []ftie
	for k, o := range ga.ca.flags {
		id := ga.g.flagIdent[o]
		if id == nil {
			continue
		}
		var probe ast.Expr = id
		if ga.g.nilFlags[o] {
			probe = ga.g.flagNilCmp[o] // a comparison with nil taken from the code (its nodes carry type information)
		}
		for i := 0; i < ga.nLeaf; i++ {
			l := ga.c.leaves[i]
			if l(Fact{probe, true}) {
				fties = append(fties, ftie{i, k, true})
			} else if l(Fact{probe, false}) {
				fties = append(fties, ftie{i, k, false})
			}
		}
	}
	s := make([]uint64, ga.words)
	n := 1 << uint(ga.nVar)
	for a := 0; a < n; a++ {
		ok := true
		for i := range ga.c.events {
			if i < ga.nLeaf && a&(1<<uint(i)) != 0 {
				ok = false // no event has happened at the start
			}
		}
		for _, t := range fties {
			lv := a&(1<<uint(t.leaf)) != 0
			fv := a&(1<<uint(ga.nLeaf+t.flag)) != 0
			if (fv == t.pos) != lv {
				ok = false
			}
		}
		if ok {
			s[a/64] |= 1 << uint(a%64)
		}
	}
	ga.universe = s
	ga.fties = fties
	cp := make([]uint64, ga.words)
	copy(cp, s)
	return cp
}

func bsUnion(dst, src []uint64) bool {
	changed := false
	for i := range dst {
		if n := dst[i] | src[i]; n != dst[i] {
			dst[i] = n
			changed = true
		}
	}
	return changed
}

func bsIntersect(a, b []uint64) []uint64 {
	out := make([]uint64, len(a))
	for i := range a {
		out[i] = a[i] & b[i]
	}
	return out
}

func bsSubset(a, b []uint64) bool {
	for i := range a {
		if a[i]&^b[i] != 0 {
			return false
		}
	}
	return true
}

func bsEmpty(a []uint64) bool {
	for _, w := range a {
		if w != 0 {
			return false
		}
	}
	return true
}

// transferNode applies the effect of a node on the flag variables.
func (ga *guardAnalysis) transferNode(n ast.Node, s []uint64) []uint64 {
	for _, bit := range ga.killBits(n) {
		out := make([]uint64, ga.words)
		for a := 0; a < 1<<uint(ga.nVar); a++ {
			if s[a/64]&(1<<uint(a%64)) != 0 {
				out[a/64] |= 1 << uint(a%64)
				na := a ^ (1 << bit)
				out[na/64] |= 1 << uint(na%64)
			}
		}
		s = out
	}
	for i, pred := range ga.c.events {
		if i >= ga.nLeaf || !pred(n) {
			continue
		}
		out := make([]uint64, ga.words)
		for a := 0; a < 1<<uint(ga.nVar); a++ {
			if s[a/64]&(1<<uint(a%64)) != 0 {
				na := a | 1<<uint(i)
				out[na/64] |= 1 << uint(na%64)
			}
		}
		s = out
	}
	if ga.nFlag == 0 {
		return s
	}
	f := ga.g.Fn
	assign := func(lhs ast.Expr, rhs ast.Expr, known bool) {
		id, ok := ast.Unparen(lhs).(*ast.Ident)
		if !ok {
			return
		}
		k := ga.ca.flagIndex(f.ObjOf(id))
		if k < 0 {
			return
		}
		bit := uint(ga.nLeaf + k)
		out := make([]uint64, ga.words)
		var cf *cform
		if known && rhs != nil {
			switch {
			case ga.g.nilFlags[ga.ca.flags[k]]:
				cf = ga.nilForm(rhs)
			case ga.g.signFlags[ga.ca.flags[k]]:
				if nn, ok := signOf(f, rhs); ok {
					cf = &cform{op: gTrue, val: nn}
				} else if rid, isId := ast.Unparen(rhs).(*ast.Ident); isId {
					// a copy of another found-index variable
					if o2 := f.ObjOf(rid); o2 != nil && ga.g.signFlags[o2] {
						if k2 := ga.ca.flagIndex(o2); k2 >= 0 {
							cf = &cform{op: gLeaf, atom: -1 - k2}
						}
					}
				}
			case ga.g.eqFlags[ga.ca.flags[k]] != nil:
				want := ga.g.eqFlags[ga.ca.flags[k]]
				if cv := f.ConstVal(rhs); cv != nil {
					if cv.Kind() == want.Kind() {
						cf = &cform{op: gTrue, val: constant.Compare(cv, token.EQL, want)}
					}
				} else if rid, isId := ast.Unparen(rhs).(*ast.Ident); isId {
					// a copy of another tracked variable compared with the same constant
					if o2 := f.ObjOf(rid); o2 != nil {
						if c2, has := ga.g.eqFlags[o2]; has && constant.Compare(c2, token.EQL, want) {
							if k2 := ga.ca.flagIndex(o2); k2 >= 0 {
								cf = &cform{op: gLeaf, atom: -1 - k2}
							}
						}
					}
				}
				if cf == nil && rhs != nil && callFree(rhs) {
					// any other value: the flag is whatever `rhs == C` is (a condition atom like any other, so a leaf written
					// about that comparison is tied to the flag)
					if ce := ga.g.eqConst[ga.ca.flags[k]]; ce != nil {
						cf = ga.ca.form(&ast.BinaryExpr{X: rhs, Op: token.EQL, Y: ce, OpPos: rhs.Pos()}, 0)
					}
				}
			default:
				cf = ga.ca.form(rhs, 0)
			}
		}
		for a := 0; a < 1<<uint(ga.nVar); a++ {
			if s[a/64]&(1<<uint(a%64)) == 0 {
				continue
			}
			setv := func(v bool) {
				na := a &^ (1 << bit)
				if v {
					na |= 1 << bit
				}
				// leaves tied to the flag follow its new value
				for _, t := range ga.fties {
					if t.flag == k {
						na &^= 1 << uint(t.leaf)
						if v == t.pos {
							na |= 1 << uint(t.leaf)
						}
					}
				}
				out[na/64] |= 1 << uint(na%64)
			}
			if cf == nil {
				setv(true)
				setv(false)
				continue
			}
			// possible values of the right-hand side under assignment a
			for _, v := range []bool{true, false} {
				al := ga.allowedBy(cf, v)
				if al == nil || al[a/64]&(1<<uint(a%64)) != 0 {
					setv(v)
				}
			}
		}
		s = out
	}
	switch st := n.(type) {
	case *ast.AssignStmt:
		if len(st.Lhs) == len(st.Rhs) && (st.Tok == token.ASSIGN || st.Tok == token.DEFINE) {
			for i := range st.Lhs {
				assign(st.Lhs[i], st.Rhs[i], true)
			}
		} else {
			for i := range st.Lhs {
				assign(st.Lhs[i], nil, false)
			}
		}
	case *ast.ValueSpec:
		for i, nm := range st.Names {
			switch {
			case len(st.Values) == 0:
				k := ga.ca.flagIndex(f.Info().Defs[nm])
				if k >= 0 {
					// zero value: false
					// zero value: false for a boolean, nil (flag true) for a pointer-like variable
					zero := ga.g.nilFlags[ga.ca.flags[k]] || ga.g.signFlags[ga.ca.flags[k]]
					if want := ga.g.eqFlags[ga.ca.flags[k]]; want != nil {
						switch want.Kind() {
						case constant.Int:
							zero = constant.Sign(want) == 0
						case constant.String:
							zero = constant.StringVal(want) == ""
						}
					}
					bit := uint(ga.nLeaf + k)
					out := make([]uint64, ga.words)
					for a := 0; a < 1<<uint(ga.nVar); a++ {
						if s[a/64]&(1<<uint(a%64)) != 0 {
							na := a &^ (1 << bit)
							if zero {
								na |= 1 << bit
							}
							for _, t := range ga.fties {
								if t.flag == k {
									na &^= 1 << uint(t.leaf)
									if zero == t.pos {
										na |= 1 << uint(t.leaf)
									}
								}
							}
							out[na/64] |= 1 << uint(na%64)
						}
					}
					s = out
				}
			case len(st.Values) == len(st.Names):
				assign(nm, st.Values[i], true)
			default:
				assign(nm, nil, false)
			}
		}
	case *ast.RangeStmt:
		if st.Key != nil {
			assign(st.Key, nil, false)
		}
		if st.Value != nil {
			assign(st.Value, nil, false)
		}
	}
	return s
}

// killBits: the node (re)defines variables; a condition atom that mentions such a variable - an occurrence whose value
// comes from this very definition, or from no single definition - no longer says anything about the new value, so the
// leaves tied to it and its auxiliary bit become unknown. (Atoms are values: an occurrence reached only by another
// definition of the variable keeps its meaning; the case that matters is a definition executed again by a loop.)
// Leaves tied to a tracked flag follow the flag instead.
func (ga *guardAnalysis) killBits(n ast.Node) []uint {
	if ga.kills == nil || ga.killsAt != len(ga.ca.exprs) {
		ga.kills = map[ast.Node][]uint{}
		ga.killsAt = len(ga.ca.exprs)
	}
	if b, ok := ga.kills[n]; ok {
		return b
	}
	g := ga.g
	f := g.Fn
	var targets []ast.Expr
	var rhs []ast.Expr
	switch st := n.(type) {
	case *ast.AssignStmt:
		targets = st.Lhs
		rhs = st.Rhs
	case *ast.IncDecStmt:
		targets = []ast.Expr{st.X}
	case *ast.ValueSpec:
		for _, nm := range st.Names {
			targets = append(targets, nm)
		}
		rhs = st.Values
	case *ast.Ident:
		if rs, isRange := f.Prog.Parent(st).(*ast.RangeStmt); isRange && (rs.Key == ast.Expr(st) || rs.Value == ast.Expr(st)) {
			targets = []ast.Expr{st}
		}
	}
	if len(targets) == 0 {
		ga.kills[n] = nil
		return nil
	}
	isRhs := func(e ast.Expr) bool {
		for _, r := range rhs {
			if r == e {
				return true
			}
		}
		return false
	}
	// does the expression mention a value this node defines?
	mentions := func(e ast.Expr) bool {
		hit := false
		for _, t := range targets {
			t = ast.Unparen(t)
			switch tx := t.(type) {
			case *ast.Ident:
				o := f.ObjOf(tx)
				if o == nil || tx.Name == "_" {
					continue
				}
				ast.Inspect(e, func(m ast.Node) bool {
					id, isId := m.(*ast.Ident)
					if !isId || hit || f.ObjOf(id) != o || id == tx {
						return !hit
					}
					if id.Pos() == token.NoPos {
						hit = true
						return false
					}
					site := g.FactSite(id)
					if site.B == nil {
						hit = true
						return false
					}
					defs, entry := g.ReachingDefsAvoiding(id, site, nil)
					if entry && len(defs) == 0 {
						return true // a parameter / never assigned before: not this node's value
					}
					for _, d := range defs {
						if d == n {
							hit = true
						}
						if vs, isVS := n.(*ast.ValueSpec); isVS {
							if ds, isDS := d.(*ast.DeclStmt); isDS {
								if gd, isGD := ds.Decl.(*ast.GenDecl); isGD {
									for _, sp := range gd.Specs {
										if sp == ast.Spec(vs) {
											hit = true
										}
									}
								}
							}
						}
					}
					_ = isRhs
					return !hit
				})
			case *ast.SelectorExpr:
				// a store into a field changes state, it does not create a new value: the facts recorded about the
				// field's earlier content stay what they are (the rules read them as "at the time of the test") unless
				// the store and the test lie in the same loop, where the next iteration tests the new content
				if lp := f.LoopOf(n); lp == nil || !Encloses(lp, e) {
					continue
				}
				fo := f.Info().Uses[tx.Sel]
				root := f.RootObj(tx)
				ast.Inspect(e, func(m ast.Node) bool {
					if sel, isSel := m.(*ast.SelectorExpr); isSel && !hit && fo != nil && f.Info().Uses[sel.Sel] == fo && f.RootObj(sel) == root {
						hit = true
					}
					return !hit
				})
			default:
				root := f.RootObj(t)
				if root == nil {
					continue
				}
				if _, isVar := root.(*types.Var); !isVar {
					continue
				}
				if lp := f.LoopOf(n); lp == nil || !Encloses(lp, e) {
					continue
				}
				ast.Inspect(e, func(m ast.Node) bool {
					if id, isId := m.(*ast.Ident); isId && !hit && f.ObjOf(id) == root {
						// only element / pointee reads of that variable
						switch f.Prog.Parent(id).(type) {
						case *ast.IndexExpr, *ast.StarExpr:
							hit = true
						}
					}
					return !hit
				})
			}
		}
		return hit
	}
	flagLeaf := map[int]bool{}
	for _, t := range ga.fties {
		flagLeaf[t.leaf] = true
	}
	set := map[uint]bool{}
	for j, e := range ga.ca.exprs {
		if !mentions(e) {
			continue
		}
		for _, t := range ga.tiesFor(j) {
			if !flagLeaf[t.leaf] {
				set[uint(t.leaf)] = true
			}
		}
		if bit, isAux := ga.aux[j]; isAux {
			set[uint(bit)] = true
		}
	}
	for _, c := range ga.comps {
		if !flagLeaf[c.leaf] && mentions(c.expr) {
			set[uint(c.leaf)] = true
		}
	}
	var bits []uint
	for b := range set {
		bits = append(bits, b)
	}
	sort.Slice(bits, func(i, j int) bool { return bits[i] < bits[j] })
	ga.kills[n] = bits
	return bits
}

// nilForm describes whether the assigned value is nil: the literal nil (true), an
// address / literal / allocation (false), another tracked variable (its flag),
// anything else unknown.
func (ga *guardAnalysis) nilForm(rhs ast.Expr) *cform {
	f := ga.g.Fn
	rhs = ast.Unparen(rhs)
	if f.IsNilLit(rhs) {
		return &cform{op: gTrue, val: true}
	}
	switch x := rhs.(type) {
	case *ast.UnaryExpr:
		if x.Op == token.AND {
			return &cform{op: gTrue, val: false}
		}
	case *ast.CompositeLit, *ast.FuncLit:
		return &cform{op: gTrue, val: false}
	case *ast.CallExpr:
		if f.KnownNonNil(x) {
			return &cform{op: gTrue, val: false}
		}
	}
	if id, ok := ast.Unparen(f.Resolve(rhs)).(*ast.Ident); ok {
		if o := f.ObjOf(id); o != nil && ga.g.nilFlags[o] {
			if k := ga.ca.flagIndex(o); k >= 0 {
				return &cform{op: gLeaf, atom: -1 - k}
			}
		}
	}
	// a variable whose comparison with nil dominates this use (`if err != nil { r = err }`)
	if id, ok := rhs.(*ast.Ident); ok {
		if isNil, known := ga.g.nilAtUse(id); known {
			return &cform{op: gTrue, val: isNil}
		}
	}
	return nil
}

// nilAtUse decides by a separate query whether the variable is certainly nil / certainly not nil where it is used.
func (g *Graph) nilAtUse(id *ast.Ident) (isNil, known bool) {
	type res struct{ isNil, known bool }
	if g.nilUse == nil {
		g.nilUse = map[*ast.Ident]*[2]bool{}
	}
	if r, ok := g.nilUse[id]; ok {
		if r == nil {
			return false, false // being computed
		}
		return r[0], r[1]
	}
	g.nilUse[id] = nil
	out := &[2]bool{}
	f := g.Fn
	if tv, ok := f.Info().Types[id]; ok && tv.Type != nil {
		switch tv.Type.Underlying().(type) {
		case *types.Pointer, *types.Interface, *types.Slice, *types.Map, *types.Signature, *types.Chan:
			if st := g.FactSite(id); st.B != nil {
				same := func(e ast.Expr) bool { return f.SameValue(e, id) }
				if g.Dominated(st, g.GExprNil(false, same)) {
					out = &[2]bool{false, true}
				} else if g.Dominated(st, g.GExprNil(true, same)) {
					out = &[2]bool{true, true}
				} else if _, isPtr := tv.Type.Underlying().(*types.Pointer); isPtr && g.Dominated(st, GFunc(func(ft Fact) bool {
					// handed, in a test that decided the way here, to a function of this module that reads through it
					// before anything else: the test had an outcome, so the pointer is not nil
					found := false
					ast.Inspect(ft.E, func(n ast.Node) bool {
						c, isCall := n.(*ast.CallExpr)
						if !isCall || found {
							return !found
						}
						fo, _ := f.Callee(c).(*types.Func)
						if fo == nil {
							return true
						}
						for i, a := range c.Args {
							if f.SameValue(a, id) && DerefsParamFirst(f.Prog, fo, i) {
								found = true
							}
						}
						return true
					})
					return found
				})) {
					out = &[2]bool{false, true}
				}
			}
		}
	}
	g.nilUse[id] = out
	return out[0], out[1]
}

// solve computes, for every block, the assignments possible at its entry.
func (ga *guardAnalysis) solve() map[*cfg.Block][]uint64 {
	g := ga.g
	in := map[*cfg.Block][]uint64{}
	if g.Entry == nil {
		return in
	}
	in[g.Entry] = ga.full()
	work := []*cfg.Block{g.Entry}
	for len(work) > 0 {
		b := work[len(work)-1]
		work = work[:len(work)-1]
		s := in[b]
		for _, n := range b.Nodes {
			s = ga.transferNode(n, s)
		}
		for k, nb := range b.Succs {
			t := s
			if al := ga.edgeAllowed(Edge{b, k}); al != nil {
				t = bsIntersect(s, al)
			}
			if bsEmpty(t) {
				continue
			}
			cur, ok := in[nb]
			if !ok {
				cp := make([]uint64, len(t))
				copy(cp, t)
				in[nb] = cp
				work = append(work, nb)
			} else if bsUnion(cur, t) {
				work = append(work, nb)
			}
		}
	}
	return in
}

// stateAt returns the assignments possible just before node index i of block b.
func (ga *guardAnalysis) stateAt(in map[*cfg.Block][]uint64, b *cfg.Block, i int) []uint64 {
	s, ok := in[b]
	if !ok {
		return make([]uint64, ga.words) // unreachable
	}
	for k := 0; k < i && k < len(b.Nodes); k++ {
		s = ga.transferNode(b.Nodes[k], s)
	}
	return s
}

// EdgeImplies reports whether taking the edge establishes the guard: the guard
// holds in every assignment compatible with the edge's condition. A disjunction
// is established when one of its members is (checked first, member by member, so
// that long lists of alternative reasons stay cheap).
func (g *Graph) EdgeImplies(b *cfg.Block, k int, guard Guard) bool {
	c := g.edgeCond(b, k)
	if c == nil {
		return false
	}
	if guard.op == gOr {
		for _, kid := range guard.kids {
			if g.EdgeImplies(b, k, kid) {
				return true
			}
		}
		if guard.nLeaves() > 8 {
			return false
		}
	}
	if guard.op == gAnd && guard.nLeaves() > 8 {
		for _, kid := range guard.kids {
			if !g.EdgeImplies(b, k, kid) {
				return false
			}
		}
		return true
	}
	ga := g.newGuardAnalysis(guard, false)
	al := ga.edgeAllowed(Edge{b, k})
	if al == nil {
		return false
	}
	// ignore flag values for a single edge: project on the leaves
	return bsSubset(al, ga.holds) && !ga.vacuous(al)
}

func (gd Guard) nLeaves() int {
	if gd.op == gLeaf {
		return 1
	}
	n := 0
	for _, k := range gd.kids {
		n += k.nLeaves()
	}
	return n
}

// vacuous: the constraint does not restrict the leaves at all (the condition is
// unrelated to the guard); an unrelated edge never "implies" a guard.
func (ga *guardAnalysis) vacuous(al []uint64) bool {
	return bsSubset(ga.full(), al)
}

// Dominated reports whether the site is reached only with the guard established:
// on every path from the entry, the conjunction of the branch conditions taken
// (and of the boolean flags set) entails the guard. A conjunction is decided
// member by member; for formulas with many leaves the path analysis is replaced
// by edge deletion (every path crosses an edge that establishes the guard).
func (g *Graph) Dominated(s Site, guard Guard) bool {
	if guard.op == gAnd {
		for _, kid := range guard.kids {
			if !g.Dominated(s, kid) {
				return false
			}
		}
		return true
	}
	if guard.nLeaves() <= 8 {
		ga := g.newGuardAnalysis(guard, true)
		in := ga.solve()
		i := s.I
		if i < 0 {
			i = 0
		}
		st := ga.stateAt(in, s.B, i)
		if os.Getenv("MLB_DEBUG_DOM") != "" {
			var ax []string
			for j, bit := range ga.aux {
				ax = append(ax, fmt.Sprintf("%d:%s", bit, types.ExprString(ga.ca.exprs[j])))
			}
			var sts []int
			for a := 0; a < 1<<uint(ga.nVar); a++ {
				if st[a/64]&(1<<uint(a%64)) != 0 {
					sts = append(sts, a)
				}
			}
			fmt.Fprintln(os.Stderr, "Dominated", g.Fn.Name(), g.Fn.Prog.Rel(s.Pos()), "nLeaf", ga.nLeaf, "flags", ga.ca.flags, "aux", ax, "state", sts, "subset", bsSubset(st, ga.holds))
		}
		if bsSubset(st, ga.holds) {
			return true
		}
	}
	seen := g.reachable(func(b *cfg.Block, k int) bool { return g.EdgeImplies(b, k, guard) })
	return !seen[s.B]
}

// NoGuard is the absent guard.
var NoGuard = Guard{op: -1}

// IsNone reports whether the guard is absent.
func (gd Guard) IsNone() bool { return gd.op == -1 }

// ---- loops -------------------------------------------------------------------

// IterationEnd is one way an iteration of a loop body can end.
type IterationEnd struct {
	From   *cfg.Block // last block of the iteration
	Break  bool       // leaves the loop (break / goto out) instead of continuing
	Return bool       // leaves the function (a return inside the body); only reported by LoopIterationWithReturns
	OK     bool       // the guard is established on every path that ends here
	to     *cfg.Block
	st     []uint64
	ga     *guardAnalysis
}

// LeavingEdge is the CFG edge through which the iteration ends this way.
func (e IterationEnd) LeavingEdge() (Edge, bool) {
	if e.From == nil || e.to == nil {
		return Edge{}, false
	}
	for k, s := range e.From.Succs {
		if s == e.to {
			return Edge{e.From, k}, true
		}
	}
	return Edge{}, false
}

// Reaches reports whether the site can be reached after the iteration ended this way: the assignments possible at
// the end are propagated forward (outside the loop body the ordinary transfer applies); false means that every path
// from this end leaves the function, or fails a condition, before the site.
func (e IterationEnd) Reaches(site Site) bool { return e.ReachesWithin(site, nil) }

// ReachesWithin is Reaches for a site in the same iteration of an enclosing loop: the head block of that loop (a new
// iteration, with new elements) ends the search.
func (e IterationEnd) ReachesWithin(site Site, outerHead *cfg.Block) bool {
	if e.ga == nil || e.to == nil || site.B == nil {
		return true
	}
	if outerHead != nil && e.to == outerHead {
		return false
	}
	ga := e.ga
	in := map[*cfg.Block][]uint64{}
	cp := make([]uint64, len(e.st))
	copy(cp, e.st)
	in[e.to] = cp
	work := []*cfg.Block{e.to}
	for len(work) > 0 {
		b := work[len(work)-1]
		work = work[:len(work)-1]
		s := in[b]
		for _, n := range b.Nodes {
			s = ga.transferNode(n, s)
		}
		for k, nb := range b.Succs {
			t := s
			if al := ga.edgeAllowed(Edge{b, k}); al != nil {
				t = bsIntersect(s, al)
			}
			if bsEmpty(t) || (outerHead != nil && nb == outerHead) {
				continue
			}
			cur, ok := in[nb]
			if !ok {
				c2 := make([]uint64, len(t))
				copy(c2, t)
				in[nb] = c2
				work = append(work, nb)
			} else if bsUnion(cur, t) {
				work = append(work, nb)
			}
		}
	}
	_, ok := in[site.B]
	return ok && !bsEmpty(ga.stateAt(in, site.B, site.I))
}

// EstablishedBefore continues the analysis from this end of the iteration (with what is known there) and reports whether
// the guard holds on every feasible path by the time the block `limit` is entered or the function is left: an early exit
// of a search loop whose result is acted upon right behind the loop.
func (e IterationEnd) EstablishedBefore(limit *cfg.Block) bool {
	if e.ga == nil || e.to == nil {
		return false
	}
	ga := e.ga
	if e.to == limit {
		return bsSubset(e.st, ga.holds)
	}
	in := map[*cfg.Block][]uint64{}
	cp := make([]uint64, len(e.st))
	copy(cp, e.st)
	in[e.to] = cp
	work := []*cfg.Block{e.to}
	ok := true
	for len(work) > 0 && ok {
		b := work[len(work)-1]
		work = work[:len(work)-1]
		s := in[b]
		for _, n := range b.Nodes {
			s = ga.transferNode(n, s)
		}
		if len(b.Succs) == 0 {
			if k := ga.g.exitKind(b); (k == ExitReturn || k == ExitFall) && !bsSubset(s, ga.holds) {
				ok = false
			}
			continue
		}
		for k, nb := range b.Succs {
			t := s
			if al := ga.edgeAllowed(Edge{b, k}); al != nil {
				t = bsIntersect(s, al)
			}
			if bsEmpty(t) {
				continue
			}
			if nb == limit {
				if !bsSubset(t, ga.holds) {
					ok = false
				}
				continue
			}
			cur, has := in[nb]
			if !has {
				c2 := make([]uint64, len(t))
				copy(c2, t)
				in[nb] = c2
				work = append(work, nb)
			} else if bsUnion(cur, t) {
				work = append(work, nb)
			}
		}
	}
	return ok
}

// LoopIteration analyses one iteration of the range loop in isolation: nothing
// is known at the body entry; for every way the iteration can end (continue to
// the next element, or leave the loop early) it reports whether the guard is
// established on all paths ending there. Returning from the function inside the
// body is not an end of the iteration in this sense (the loop result is not used).
func (g *Graph) LoopIteration(rs *ast.RangeStmt, guard Guard) []IterationEnd {
	return g.loopIteration(rs, guard, false)
}

// LoopIterationWithReturns is LoopIteration that also reports the returns inside the body as ends (Break and Return
// set): what is known on the paths of this one iteration that leave the function there.
func (g *Graph) LoopIterationWithReturns(rs *ast.RangeStmt, guard Guard) []IterationEnd {
	return g.loopIteration(rs, guard, true)
}

func (g *Graph) loopIteration(rs *ast.RangeStmt, guard Guard, withReturns bool) []IterationEnd {
	loop, body, done := g.RangeBlocks(rs)
	if loop == nil || body == nil {
		return nil
	}
	ga := g.newGuardAnalysis(guard, true)
	ga.full()
	// forward analysis restricted to the body region (stop at loop head and done)
	in := map[*cfg.Block][]uint64{body: ga.full()}
	work := []*cfg.Block{body}
	type endKey struct {
		b  *cfg.Block
		br bool
		to *cfg.Block
	}
	ends := map[endKey][]uint64{}
	retEnds := map[*cfg.Block][]uint64{}
	for len(work) > 0 {
		b := work[len(work)-1]
		work = work[:len(work)-1]
		s := in[b]
		for _, n := range b.Nodes {
			s = ga.transferNode(n, s)
		}
		if withReturns && len(b.Succs) == 0 && len(b.Nodes) > 0 && !bsEmpty(s) {
			if _, isRet := b.Nodes[len(b.Nodes)-1].(*ast.ReturnStmt); isRet {
				cp := make([]uint64, len(s))
				copy(cp, s)
				retEnds[b] = cp
			}
		}
		for k, nb := range b.Succs {
			t := s
			if al := ga.edgeAllowed(Edge{b, k}); al != nil {
				t = bsIntersect(s, al)
			}
			if bsEmpty(t) {
				continue
			}
			if nb == loop || (done != nil && nb == done) {
				key := endKey{b, nb != loop, nb}
				if cur, ok := ends[key]; ok {
					bsUnion(cur, t)
				} else {
					cp := make([]uint64, len(t))
					copy(cp, t)
					ends[key] = cp
				}
				continue
			}
			// leaving the loop region to a statement outside the loop (labelled break / goto)
			if blockOutside(nb, rs) {
				key := endKey{b, true, nb}
				if cur, ok := ends[key]; ok {
					bsUnion(cur, t)
				} else {
					cp := make([]uint64, len(t))
					copy(cp, t)
					ends[key] = cp
				}
				continue
			}
			cur, ok := in[nb]
			if !ok {
				cp := make([]uint64, len(t))
				copy(cp, t)
				in[nb] = cp
				work = append(work, nb)
			} else if bsUnion(cur, t) {
				work = append(work, nb)
			}
		}
	}
	var out []IterationEnd
	for b, st := range retEnds {
		out = append(out, IterationEnd{From: b, Break: true, Return: true, OK: bsSubset(st, ga.holds), st: st, ga: ga})
	}
	for k, st := range ends {
		out = append(out, IterationEnd{From: k.b, Break: k.br, OK: bsSubset(st, ga.holds), to: k.to, st: st, ga: ga})
		if os.Getenv("MLB_DEBUG_GUARD") != "" {
			fmt.Fprintln(os.Stderr, "LoopIteration", g.Fn.Name(), g.Fn.Prog.Rel(rs.Pos()), "end block", k.b.Index, "break", k.br, "flags", ga.ca.flags, "nil", g.nilFlags, "fties", ga.fties, "nLeaf", ga.nLeaf, "state", st, "holds", ga.holds)
		}
	}
	return out
}

// LoopEntryState reports whether the guard is established whenever the loop is
// entered from outside (not through its own back edge).
func (g *Graph) LoopEntryDominated(rs *ast.RangeStmt, guard Guard) bool {
	loop, _, _ := g.RangeBlocks(rs)
	if loop == nil {
		return false
	}
	ga := g.newGuardAnalysis(guard, true)
	in := ga.solve()
	ok := false
	region := g.loopRegion(rs)
	if os.Getenv("MLB_DEBUG_GUARD") != "" {
		fmt.Fprintln(os.Stderr, "LoopEntryDominated", g.Fn.Name(), g.Fn.Prog.Rel(rs.Pos()), "flags", ga.ca.flags, "nil", g.nilFlags, "fties", ga.fties, "nLeaf", ga.nLeaf, "universe", ga.universe, "holds", ga.holds)
	}
	for _, b := range g.Blocks {
		for k, nb := range b.Succs {
			if nb != loop || region[b] {
				continue
			}
			s, reach := in[b]
			if !reach {
				continue
			}
			for _, n := range b.Nodes {
				s = ga.transferNode(n, s)
			}
			if al := ga.edgeAllowed(Edge{b, k}); al != nil {
				s = bsIntersect(s, al)
			}
			if os.Getenv("MLB_DEBUG_GUARD") != "" {
				fmt.Fprintln(os.Stderr, "  entry pred block", b.Index, b.Kind, "nodes", len(b.Nodes), "in", in[b], "out", s)
				for _, n := range b.Nodes {
					fmt.Fprintf(os.Stderr, "    %T %s\n", n, g.Fn.Prog.Rel(n.Pos()))
				}
			}
			if !bsSubset(s, ga.holds) {
				return false
			}
			ok = true
		}
	}
	return ok
}

// loopRegion is the set of blocks of the loop body: reachable from the body entry
// without going through the loop head or the block after the loop.
func (g *Graph) loopRegion(rs *ast.RangeStmt) map[*cfg.Block]bool {
	loop, body, done := g.RangeBlocks(rs)
	region := map[*cfg.Block]bool{}
	if body == nil {
		return region
	}
	region[body] = true
	work := []*cfg.Block{body}
	for len(work) > 0 {
		b := work[len(work)-1]
		work = work[:len(work)-1]
		for _, nb := range b.Succs {
			if nb == loop || nb == done || region[nb] || blockOutside(nb, rs) {
				continue
			}
			region[nb] = true
			work = append(work, nb)
		}
	}
	return region
}

// DominatedAssuming is Dominated with one more fact: the boolean expression e
// (evaluated at the site) has value v. `return a && b` is a return of true under
// a && b and a return of false under !(a && b).
func (g *Graph) DominatedAssuming(s Site, e ast.Expr, v bool, guard Guard) bool {
	if guard.op == gAnd {
		for _, kid := range guard.kids {
			if !g.DominatedAssuming(s, e, v, kid) {
				return false
			}
		}
		return true
	}
	ga := g.newGuardAnalysis(guard, true)
	in := ga.solve()
	i := s.I
	if i < 0 {
		i = 0
	}
	st := ga.stateAt(in, s.B, i)
	if al := ga.allowedBy(ga.ca.form(e, 0), v); al != nil {
		st = bsIntersect(st, al)
	}
	return bsSubset(st, ga.holds)
}

// BoolResultIs decides that a boolean function returns true exactly when the
// guard holds: every return of a constant is reached only with the guard (or its
// negation) established, and a returned expression agrees with the guard on the
// paths that reach it. It returns "" or a description of the first disagreement.
func (g *Graph) BoolResultIs(guard Guard) string {
	f := g.Fn
	n := 0
	for _, rt := range g.Returns() {
		rs := rt.Node.(*ast.ReturnStmt)
		if len(rs.Results) != 1 {
			return "a return that is not a single boolean at " + f.Prog.Rel(rs.Pos())
		}
		n++
		e := rs.Results[0]
		switch {
		case f.IsConstBool(e, true):
			if !g.Dominated(rt, guard) {
				return "true is returned at " + f.Prog.Rel(rs.Pos()) + " without the condition being established"
			}
		case f.IsConstBool(e, false):
			if !g.Dominated(rt, GNot(guard)) {
				return "false is returned at " + f.Prog.Rel(rs.Pos()) + " although the condition can hold"
			}
		default:
			if !g.DominatedAssuming(rt, e, true, guard) {
				return "the expression returned at " + f.Prog.Rel(rs.Pos()) + " can be true without the condition"
			}
			if !g.DominatedAssuming(rt, e, false, GNot(guard)) {
				return "the expression returned at " + f.Prog.Rel(rs.Pos()) + " can be false although the condition holds"
			}
		}
	}
	if n == 0 {
		return "no return statement"
	}
	return ""
}

// KnownNonNil reports whether the expression certainly is not nil: an address, a
// composite or function literal, new / make, fmt.Errorf / errors.New.
func (f *Fn) KnownNonNil(e ast.Expr) bool {
	switch x := ast.Unparen(e).(type) {
	case *ast.UnaryExpr:
		return x.Op == token.AND
	case *ast.CompositeLit, *ast.FuncLit:
		return true
	case *ast.CallExpr:
		if id, ok := x.Fun.(*ast.Ident); ok && (id.Name == "new" || id.Name == "make") {
			if _, isB := f.Info().Uses[id].(*types.Builtin); isB {
				return true
			}
		}
		if fn, ok := f.Callee(x).(*types.Func); ok && fn.Pkg() != nil {
			switch fn.Pkg().Path() + "." + fn.Name() {
			case "fmt.Errorf", "errors.New", "github.com/pkg/errors.New", "github.com/pkg/errors.Errorf", "github.com/pkg/errors.Wrap", "github.com/pkg/errors.Wrapf":
				return true
			case "time.After", "time.NewTimer", "time.NewTicker":
				return true
			case "errors.Join":
				// nil only when every argument is
				for _, a := range x.Args {
					if f.KnownNonNil(a) {
						return true
					}
				}
			}
		}
	}
	return false
}

// blockOutside reports whether the block lies outside the loop statement.
func blockOutside(b *cfg.Block, rs *ast.RangeStmt) bool {
	if len(b.Nodes) > 0 {
		return !Encloses(rs, b.Nodes[0])
	}
	if b.Stmt != nil {
		return !Encloses(rs, b.Stmt)
	}
	return false
}

// establishingEdges: conditional edges before which the guard is not known and
// after which it holds on every path (path-sensitive, with flags).
func (g *Graph) establishingEdges(guard Guard) []Edge {
	if guard.nLeaves() > 8 || guard.op == gAnd && false {
		return nil
	}
	ga := g.newGuardAnalysis(guard, true)
	in := ga.solve()
	var out []Edge
	for _, b := range g.Blocks {
		s, ok := in[b]
		if !ok || len(b.Succs) < 2 {
			continue
		}
		for _, n := range b.Nodes {
			s = ga.transferNode(n, s)
		}
		if bsEmpty(s) || bsSubset(s, ga.holds) {
			continue
		}
		for k := range b.Succs {
			al := ga.edgeAllowed(Edge{b, k})
			if al == nil {
				continue
			}
			t := bsIntersect(s, al)
			if !bsEmpty(t) && bsSubset(t, ga.holds) {
				out = append(out, Edge{b, k})
			}
		}
	}
	return out
}

// RegionEnds analyses one syntactic region (the body of a select or switch case,
// of an if, ...) in isolation: nothing is known at its first block (no event has
// happened, flags are unknown). For every edge that leaves the region it reports
// whether the guard is established on all paths ending there. Returns from the
// function inside the region are reported too (From is the returning block,
// Break is true).
func (g *Graph) RegionEnds(start *cfg.Block, region ast.Node, guard Guard) []IterationEnd {
	if start == nil || region == nil {
		return nil
	}
	ga := g.newGuardAnalysis(guard, true)
	outside := func(b *cfg.Block) bool {
		if len(b.Nodes) > 0 {
			return !Encloses(region, b.Nodes[0])
		}
		if b.Stmt != nil {
			return !Encloses(region, b.Stmt)
		}
		return false
	}
	in := map[*cfg.Block][]uint64{start: ga.full()}
	work := []*cfg.Block{start}
	type endKey struct {
		b  *cfg.Block
		br bool
	}
	ends := map[endKey][]uint64{}
	addEnd := func(k endKey, t []uint64) {
		if cur, ok := ends[k]; ok {
			bsUnion(cur, t)
		} else {
			cp := make([]uint64, len(t))
			copy(cp, t)
			ends[k] = cp
		}
	}
	for len(work) > 0 {
		b := work[len(work)-1]
		work = work[:len(work)-1]
		s := in[b]
		for _, n := range b.Nodes {
			s = ga.transferNode(n, s)
		}
		if len(b.Succs) == 0 {
			if k := g.exitKind(b); k == ExitReturn || k == ExitFall {
				addEnd(endKey{b, true}, s)
			}
			continue
		}
		for k, nb := range b.Succs {
			t := s
			if al := ga.edgeAllowed(Edge{b, k}); al != nil {
				t = bsIntersect(s, al)
			}
			if bsEmpty(t) {
				continue
			}
			if nb == start || outside(nb) {
				addEnd(endKey{b, false}, t)
				continue
			}
			cur, ok := in[nb]
			if !ok {
				cp := make([]uint64, len(t))
				copy(cp, t)
				in[nb] = cp
				work = append(work, nb)
			} else if bsUnion(cur, t) {
				work = append(work, nb)
			}
		}
	}
	var out []IterationEnd
	for k, st := range ends {
		out = append(out, IterationEnd{From: k.b, Break: k.br, OK: bsSubset(st, ga.holds)})
		if os.Getenv("MLB_DEBUG_GUARD") != "" && !bsSubset(st, ga.holds) {
			var bad []int
			for a := 0; a < 1<<uint(ga.nVar); a++ {
				if st[a/64]&(1<<uint(a%64)) != 0 && ga.holds[a/64]&(1<<uint(a%64)) == 0 {
					bad = append(bad, a)
				}
			}
			var ax []string
			for j, bit := range ga.aux {
				ax = append(ax, fmt.Sprintf("%d:%s", bit, types.ExprString(ga.ca.exprs[j])))
			}
			fmt.Fprintln(os.Stderr, "RegionEnds", g.Fn.Name(), "end block", k.b.Index, "nLeaf", ga.nLeaf, "flags", ga.ca.flags, "aux", ax, "bad assignments", bad)
		}
	}
	return out
}

// FeasibleEscape reports whether some feasible path that starts by taking the edge reaches the end of the function, a
// node satisfying limitNode, or a block satisfying limitBlock, without first passing a node satisfying via. Feasibility
// is judged with the tracked flags and the conditions on the way (the path-sensitive counterpart of BranchAlways for
// code in which the branch continues behind a join: `ok = false; goto done ... done: if !ok { return }`).
func (g *Graph) FeasibleEscape(e Edge, via func(ast.Node) bool, limitNode func(ast.Node) bool, limitBlock func(*cfg.Block) bool) bool {
	return g.feasibleEscape(e, via, limitNode, limitBlock, true)
}

// FeasiblyReaches reports whether some feasible path that starts by taking the edge gets to a node satisfying target.
func (g *Graph) FeasiblyReaches(e Edge, target func(ast.Node) bool) bool {
	return g.feasibleEscape(e, func(ast.Node) bool { return false }, target, nil, false)
}

func (g *Graph) feasibleEscape(e Edge, via func(ast.Node) bool, limitNode func(ast.Node) bool, limitBlock func(*cfg.Block) bool, exits bool) bool {
	ga := g.newGuardAnalysis(GNever(), true)
	start := ga.full()
	if al := ga.edgeAllowed(e); al != nil {
		start = bsIntersect(start, al)
	}
	if bsEmpty(start) {
		return false
	}
	t := e.B.Succs[e.K]
	if limitBlock != nil && limitBlock(t) {
		return true
	}
	in := map[*cfg.Block][]uint64{t: start}
	work := []*cfg.Block{t}
	for len(work) > 0 {
		b := work[len(work)-1]
		work = work[:len(work)-1]
		st := in[b]
		stopped := false
		for _, n := range b.Nodes {
			if via(n) {
				stopped = true
				break
			}
			if limitNode != nil && limitNode(n) {
				return true
			}
			st = ga.transferNode(n, st)
		}
		if stopped {
			continue
		}
		if len(b.Succs) == 0 {
			if k := g.exitKind(b); exits && (k == ExitReturn || k == ExitFall) {
				return true
			}
			continue
		}
		for k, nb := range b.Succs {
			nt := st
			if al := ga.edgeAllowed(Edge{b, k}); al != nil {
				nt = bsIntersect(st, al)
			}
			if bsEmpty(nt) {
				continue
			}
			if limitBlock != nil && limitBlock(nb) {
				return true
			}
			cur, ok := in[nb]
			if !ok {
				cp := make([]uint64, len(nt))
				copy(cp, nt)
				in[nb] = cp
				work = append(work, nb)
			} else if bsUnion(cur, nt) {
				work = append(work, nb)
			}
		}
	}
	return false
}

// IsLoopHead reports whether the block is the head of a for / range loop (entered again for every iteration).
func IsLoopHead(b *cfg.Block) bool {
	return b.Kind == cfg.KindRangeLoop || b.Kind == cfg.KindForLoop || b.Kind == cfg.KindForPost
}

// BlockOutside reports whether the block lies outside the syntactic region.
func BlockOutside(b *cfg.Block, region ast.Node) bool {
	if len(b.Nodes) > 0 {
		return !Encloses(region, b.Nodes[0])
	}
	if b.Stmt != nil {
		return !Encloses(region, b.Stmt)
	}
	return false
}

// flagBudget bounds the number of guard leaves plus tracked flags of one analysis (the state space is 2^n).
const flagBudget = 12

// assignmentsTo lists the assignment statements (and := definitions) whose left side names the variable.
func (f *Fn) assignmentsTo(o types.Object) []*ast.AssignStmt {
	var out []*ast.AssignStmt
	ast.Inspect(f.Body, func(n ast.Node) bool {
		if as, ok := n.(*ast.AssignStmt); ok {
			for _, l := range as.Lhs {
				if id, isId := l.(*ast.Ident); isId && f.ObjOf(id) == o {
					out = append(out, as)
				}
			}
		}
		return true
	})
	return out
}

// unconvExpr strips parentheses and type conversions.
func unconvExpr(f *Fn, e ast.Expr) ast.Expr {
	for {
		e = ast.Unparen(e)
		c, ok := e.(*ast.CallExpr)
		if !ok || len(c.Args) != 1 {
			return e
		}
		if tv, has := f.Info().Types[c.Fun]; !has || !tv.IsType() {
			return e
		}
		e = c.Args[0]
	}
}

// DerefsParamFirst: the module function reads through its i-th (pointer) parameter in the straight-line statements its
// body starts with - a call of it returns only for a non-nil argument.
func DerefsParamFirst(p *Prog, fo *types.Func, i int) bool {
	cf := p.FnOf(fo)
	if cf == nil || cf.Body == nil {
		return false
	}
	sig := fo.Type().(*types.Signature)
	if i >= sig.Params().Len() || sig.Variadic() {
		return false
	}
	pv := sig.Params().At(i)
	if _, isPtr := pv.Type().Underlying().(*types.Pointer); !isPtr {
		return false
	}
	for _, st := range cf.Body.List {
		switch st.(type) {
		case *ast.AssignStmt, *ast.ExprStmt, *ast.DeclStmt:
		default:
			return false
		}
		found := false
		InspectNoLit(st, func(n ast.Node) bool {
			switch v := n.(type) {
			case *ast.SelectorExpr:
				if id, isId := ast.Unparen(v.X).(*ast.Ident); isId && cf.ObjOf(id) == types.Object(pv) {
					if sel := cf.Info().Selections[v]; sel != nil && sel.Kind() == types.FieldVal {
						found = true
					}
				}
			case *ast.StarExpr:
				if id, isId := ast.Unparen(v.X).(*ast.Ident); isId && cf.ObjOf(id) == types.Object(pv) {
					found = true
				}
			}
			return !found
		})
		if found {
			return true
		}
	}
	return false
}
