package chk

import (
	"go/ast"
	"go/constant"
	"go/types"
)

// Engine F (layout part): packed big-endian sizes and offsets of the fixed-size
// structs that encoding/binary writes, and constant folding of struct literals
// into byte templates.

// PackedSize returns the encoding/binary size of t (-1 when not fixed-size).
func PackedSize(t types.Type) int {
	switch u := t.Underlying().(type) {
	case *types.Basic:
		switch u.Kind() {
		case types.Bool, types.Int8, types.Uint8:
			return 1
		case types.Int16, types.Uint16:
			return 2
		case types.Int32, types.Uint32, types.Float32:
			return 4
		case types.Int64, types.Uint64, types.Float64:
			return 8
		}
		return -1
	case *types.Array:
		e := PackedSize(u.Elem())
		if e < 0 {
			return -1
		}
		return e * int(u.Len())
	case *types.Struct:
		n := 0
		for i := 0; i < u.NumFields(); i++ {
			s := PackedSize(u.Field(i).Type())
			if s < 0 {
				return -1
			}
			n += s
		}
		return n
	}
	return -1
}

// FieldLayout is the offset and size of one struct field in packed layout.
type FieldLayout struct {
	Name   string
	Offset int
	Size   int
	Type   types.Type
}

// PackedLayout returns the packed layout of a struct type. Fields that are themselves structs are flattened into
// their leaf fields (named "Outer.Inner"): encoding/binary writes them in place.
func PackedLayout(t types.Type) []FieldLayout {
	st, ok := t.Underlying().(*types.Struct)
	if !ok {
		return nil
	}
	var out []FieldLayout
	off := 0
	var walk func(st *types.Struct, prefix string) bool
	walk = func(st *types.Struct, prefix string) bool {
		for i := 0; i < st.NumFields(); i++ {
			f := st.Field(i)
			if inner, isStruct := f.Type().Underlying().(*types.Struct); isStruct {
				if !walk(inner, prefix+f.Name()+".") {
					return false
				}
				continue
			}
			// an array of structs: element after element, each flattened ("Name[i].Inner")
			if arr, isArr := f.Type().Underlying().(*types.Array); isArr {
				if inner, isStruct := arr.Elem().Underlying().(*types.Struct); isStruct {
					for k := int64(0); k < arr.Len(); k++ {
						if !walk(inner, prefix+f.Name()+"["+itoa64(k)+"].") {
							return false
						}
					}
					continue
				}
			}
			s := PackedSize(f.Type())
			if s < 0 {
				return false
			}
			out = append(out, FieldLayout{prefix + f.Name(), off, s, f.Type()})
			off += s
		}
		return true
	}
	if !walk(st, "") {
		return nil
	}
	return out
}

// ByteTemplate folds a struct composite literal into bytes: constant fields
// become their big-endian bytes, other fields holes (-1). Fields not mentioned
// in the literal are zero; a field that is a nested struct literal is folded in place.
func (f *Fn) ByteTemplate(lit *ast.CompositeLit) ([]int, []FieldLayout) {
	t := f.Info().TypeOf(lit)
	if t == nil {
		return nil, nil
	}
	lay := PackedLayout(t)
	if lay == nil {
		return nil, nil
	}
	total := 0
	for _, l := range lay {
		total += l.Size
	}
	buf := make([]int, total)
	vals := map[string]ast.Expr{}
	unknown := map[string]bool{} // prefixes whose value is not a literal: holes
	var collect func(cl *ast.CompositeLit, prefix string)
	collect = func(cl *ast.CompositeLit, prefix string) {
		for _, e := range cl.Elts {
			kv, ok := e.(*ast.KeyValueExpr)
			if !ok {
				continue
			}
			id, ok := kv.Key.(*ast.Ident)
			if !ok {
				continue
			}
			if tv, has := f.Info().Types[kv.Value]; has && tv.Type != nil {
				if arr, isArr := tv.Type.Underlying().(*types.Array); isArr {
					if _, isStruct := arr.Elem().Underlying().(*types.Struct); isStruct {
						inner, isLit := ast.Unparen(kv.Value).(*ast.CompositeLit)
						if !isLit {
							unknown[prefix+id.Name+"["] = true
							continue
						}
						next := int64(0)
						for _, el := range inner.Elts {
							idx := next
							val := el
							if ekv, isKV := el.(*ast.KeyValueExpr); isKV {
								val = ekv.Value
								c := f.ConstVal(ekv.Key)
								if c == nil || c.Kind() != constant.Int {
									unknown[prefix+id.Name+"["] = true
									continue
								}
								idx, _ = constant.Int64Val(c)
							}
							next = idx + 1
							if ecl, isCL := ast.Unparen(val).(*ast.CompositeLit); isCL {
								collect(ecl, prefix+id.Name+"["+itoa64(idx)+"].")
							} else {
								unknown[prefix+id.Name+"["+itoa64(idx)+"]."] = true
							}
						}
						continue
					}
				}
				if _, isStruct := tv.Type.Underlying().(*types.Struct); isStruct {
					if inner, isLit := ast.Unparen(kv.Value).(*ast.CompositeLit); isLit {
						collect(inner, prefix+id.Name+".")
					} else {
						unknown[prefix+id.Name+"."] = true
					}
					continue
				}
			}
			vals[prefix+id.Name] = kv.Value
		}
	}
	collect(lit, "")
	for _, l := range lay {
		hole := false
		for pre := range unknown {
			if len(l.Name) > len(pre) && l.Name[:len(pre)] == pre {
				hole = true
			}
		}
		v, ok := vals[l.Name]
		if !ok && !hole {
			continue // zero
		}
		var c constant.Value
		if ok {
			c = f.ConstVal(v)
		}
		if c == nil || c.Kind() != constant.Int {
			for i := 0; i < l.Size; i++ {
				buf[l.Offset+i] = -1
			}
			continue
		}
		u, exact := constant.Uint64Val(c)
		if !exact {
			for i := 0; i < l.Size; i++ {
				buf[l.Offset+i] = -1
			}
			continue
		}
		for i := l.Size - 1; i >= 0; i-- {
			buf[l.Offset+i] = int(u & 0xff)
			u >>= 8
		}
	}
	return buf, lay
}

func itoa64(v int64) string {
	if v == 0 {
		return "0"
	}
	neg := v < 0
	if neg {
		v = -v
	}
	var b []byte
	for v > 0 {
		b = append([]byte{byte('0' + v%10)}, b...)
		v /= 10
	}
	if neg {
		b = append([]byte{'-'}, b...)
	}
	return string(b)
}
