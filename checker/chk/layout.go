package chk

import (
	"go/ast"
	"go/constant"
	"go/types"
)

// Engine F (layout part): packed big-endian sizes and offsets of the fixed-size
// structs that encoding/binary writes, and constant folding of struct literals
// into byte templates.

// PackedSize returns the encoding/binary size of t (-1 when not fixed-size).
func PackedSize(t types.Type) int {
	switch u := t.Underlying().(type) {
	case *types.Basic:
		switch u.Kind() {
		case types.Bool, types.Int8, types.Uint8:
			return 1
		case types.Int16, types.Uint16:
			return 2
		case types.Int32, types.Uint32, types.Float32:
			return 4
		case types.Int64, types.Uint64, types.Float64:
			return 8
		}
		return -1
	case *types.Array:
		e := PackedSize(u.Elem())
		if e < 0 {
			return -1
		}
		return e * int(u.Len())
	case *types.Struct:
		n := 0
		for i := 0; i < u.NumFields(); i++ {
			s := PackedSize(u.Field(i).Type())
			if s < 0 {
				return -1
			}
			n += s
		}
		return n
	}
	return -1
}

// FieldLayout is the offset and size of one struct field in packed layout.
type FieldLayout struct {
	Name   string
	Offset int
	Size   int
	Type   types.Type
}

// PackedLayout returns the packed layout of a struct type.
func PackedLayout(t types.Type) []FieldLayout {
	st, ok := t.Underlying().(*types.Struct)
	if !ok {
		return nil
	}
	var out []FieldLayout
	off := 0
	for i := 0; i < st.NumFields(); i++ {
		f := st.Field(i)
		s := PackedSize(f.Type())
		if s < 0 {
			return nil
		}
		out = append(out, FieldLayout{f.Name(), off, s, f.Type()})
		off += s
	}
	return out
}

// ByteTemplate folds a struct composite literal into bytes: constant fields
// become their big-endian bytes, other fields holes (-1). Fields not mentioned
// in the literal are zero.
func (f *Fn) ByteTemplate(lit *ast.CompositeLit) ([]int, []FieldLayout) {
	t := f.Info().TypeOf(lit)
	if t == nil {
		return nil, nil
	}
	lay := PackedLayout(t)
	if lay == nil {
		return nil, nil
	}
	total := 0
	for _, l := range lay {
		total += l.Size
	}
	buf := make([]int, total)
	vals := map[string]ast.Expr{}
	for _, e := range lit.Elts {
		if kv, ok := e.(*ast.KeyValueExpr); ok {
			if id, ok := kv.Key.(*ast.Ident); ok {
				vals[id.Name] = kv.Value
			}
		}
	}
	for _, l := range lay {
		v, ok := vals[l.Name]
		if !ok {
			continue // zero
		}
		c := f.ConstVal(v)
		if c == nil || c.Kind() != constant.Int {
			for i := 0; i < l.Size; i++ {
				buf[l.Offset+i] = -1
			}
			continue
		}
		u, exact := constant.Uint64Val(c)
		if !exact {
			for i := 0; i < l.Size; i++ {
				buf[l.Offset+i] = -1
			}
			continue
		}
		for i := l.Size - 1; i >= 0; i-- {
			buf[l.Offset+i] = int(u & 0xff)
			u >>= 8
		}
	}
	return buf, lay
}
