package chk

// Range-over-func loops (pre-round of the normalisation). A loop `for k, v := range F(args) { BODY }` over an iterator
// of this module
//
//	func F(params) iter.Seq[T] { return func(yield func(T) bool) { ITER } }
//
// whose every use of yield is the statement `if !yield(E) { return }` is rewritten into ITER with BODY in the place of
// each such statement: `break` becomes a jump behind ITER, `continue` a jump to the end of the copy of BODY, a plain
// `return` of the iterator a jump behind ITER. This is the semantics of the loop (Go spec, "For statements with range
// clause", function iterators), so the rules see the loops they know whether the traversal is spelt out or packaged as
// an iterator. The result is type-checked like every other rewrite; when that fails the loop is analysed as written.

import (
	"fmt"
	"go/ast"
	"go/token"
	"go/types"
	"os"
	"sort"
	"strings"

	"golang.org/x/tools/go/types/typeutil"
)

func planRangeFunc(p *Prog) roundPlan {
	in := &inliner{p: p, files: map[string]*fileEdits{}, elig: map[*Fn]bool{}}
	plan := roundPlan{files: in.files}
	ctr := 0
	for _, pkg := range p.Pkgs {
		info := pkg.TypesInfo
		for _, file := range pkg.Syntax {
			fname := p.Fset.Position(file.Pos()).Filename
			if strings.HasSuffix(fname, "_test.go") {
				continue
			}
			var taken [][2]token.Pos
			ast.Inspect(file, func(n ast.Node) bool {
				rs, ok := n.(*ast.RangeStmt)
				if !ok {
					return true
				}
				for _, r := range taken {
					if rs.Pos() < r[1] && r[0] < rs.End() {
						return true
					}
				}
				call, ok := ast.Unparen(rs.X).(*ast.CallExpr)
				if !ok {
					return true
				}
				fo := typeutil.StaticCallee(info, call)
				if fo == nil {
					return true
				}
				cf := p.FnOf(fo)
				if cf == nil || cf.Pkg != pkg || cf.Decl == nil || cf.Decl.Body == nil {
					return true
				}
				if rs.Pos() >= cf.Decl.Pos() && rs.End() <= cf.Decl.End() {
					return true
				}
				ctr++
				txt, ok := in.rangeFuncText(pkg.Types, info, rs, call, cf, ctr)
				if !ok {
					return true
				}
				fe := in.file(rs.Pos())
				fe.edits = append(fe.edits, textEdit{start: in.off(rs.Pos()), end: in.off(rs.End()), text: txt})
				taken = append(taken, [2]token.Pos{rs.Pos(), rs.End()}, [2]token.Pos{cf.Decl.Pos(), cf.Decl.End()})
				plan.expanded = append(plan.expanded, "range over "+cf.Name()+"(..) as the iterator's own loops")
				return false
			})
		}
	}
	planDeferResult(p, in, &plan)
	planDeferGuarded(p, in, &plan)
	planCondFuncValue(p, in, &plan)
	planSelectDistribute(p, in, &plan)
	planLocalSelectDistribute(p, in, &plan)
	planFlagAccumulate(p, in, &plan)
	planDeferExplicit(p, in, &plan)
	planSortInterface(p, in, &plan)
	return plan
}

func (in *inliner) renderEdits(from, to token.Pos, eds []posEdit) string {
	sort.Slice(eds, func(i, j int) bool { return eds[i].a < eds[j].a })
	var sb strings.Builder
	pos := from
	for _, e := range eds {
		if e.a < pos || e.b > to {
			continue
		}
		sb.WriteString(in.text(pos, e.a))
		sb.WriteString(e.text)
		pos = e.b
	}
	sb.WriteString(in.text(pos, to))
	return sb.String()
}

func (in *inliner) rangeFuncText(tpkg *types.Package, info *types.Info, rs *ast.RangeStmt, call *ast.CallExpr, cf *Fn, n int) (string, bool) {
	p := in.p
	if _, isLab := p.parents[rs].(*ast.LabeledStmt); isLab {
		return rofFail(1)
	}
	d := cf.Decl
	if d.Type.TypeParams != nil || len(d.Body.List) != 1 || call.Ellipsis.IsValid() {
		return rofFail(2)
	}
	ret, ok := d.Body.List[0].(*ast.ReturnStmt)
	if !ok || len(ret.Results) != 1 {
		return rofFail(3)
	}
	lit, ok := ast.Unparen(ret.Results[0]).(*ast.FuncLit)
	if !ok || lit.Type.Results != nil && len(lit.Type.Results.List) > 0 || len(lit.Type.Params.List) != 1 || len(lit.Type.Params.List[0].Names) != 1 {
		return rofFail(4)
	}
	yieldObj := info.Defs[lit.Type.Params.List[0].Names[0]]
	ysig, ok := info.TypeOf(lit.Type.Params.List[0].Type).Underlying().(*types.Signature)
	if yieldObj == nil || !ok || ysig.Results().Len() != 1 || ysig.Params().Len() < 1 || ysig.Params().Len() > 2 || ysig.Variadic() {
		return rofFail(5)
	}
	// the yield sites
	type ysite struct {
		ifs  *ast.IfStmt
		args []ast.Expr
	}
	var sites []ysite
	siteOf := map[*ast.Ident]bool{}
	bad := false
	var otherReturns []*ast.ReturnStmt
	var walk func(n ast.Node)
	walk = func(root ast.Node) {
		ast.Inspect(root, func(m ast.Node) bool {
			switch x := m.(type) {
			case *ast.FuncLit:
				if m != ast.Node(lit) {
					ast.Inspect(x, func(k ast.Node) bool {
						if id, isId := k.(*ast.Ident); isId && info.Uses[id] == yieldObj {
							bad = true
						}
						return true
					})
					return false
				}
			case *ast.DeferStmt, *ast.GoStmt, *ast.LabeledStmt:
				bad = true
			case *ast.IfStmt:
				if x.Init == nil && x.Else == nil && len(x.Body.List) == 1 {
					if r, isRet := x.Body.List[0].(*ast.ReturnStmt); isRet && len(r.Results) == 0 {
						if u, isNot := ast.Unparen(x.Cond).(*ast.UnaryExpr); isNot && u.Op == token.NOT {
							if c, isCall := ast.Unparen(u.X).(*ast.CallExpr); isCall {
								if id, isId := ast.Unparen(c.Fun).(*ast.Ident); isId && info.Uses[id] == yieldObj {
									sites = append(sites, ysite{x, c.Args})
									siteOf[id] = true
									for _, a := range c.Args {
										walk(a)
									}
									return false
								}
							}
						}
					}
				}
			case *ast.ReturnStmt:
				if len(x.Results) != 0 {
					bad = true
				}
				otherReturns = append(otherReturns, x)
			case *ast.Ident:
				if info.Uses[x] == yieldObj && !siteOf[x] {
					bad = true
				}
			}
			return true
		})
	}
	walk(lit.Body)
	if bad || len(sites) == 0 {
		return rofFail(6)
	}
	nargs := ysig.Params().Len()
	for _, s := range sites {
		if len(s.args) != nargs {
			return rofFail(7)
		}
		for i, a := range s.args {
			tv, has := info.Types[a]
			if !has || tv.Type == nil || !types.Identical(tv.Type, ysig.Params().At(i).Type()) {
				return rofFail(8)
			}
		}
	}
	// the loop variables
	vars := []ast.Expr{rs.Key, rs.Value}
	if nargs == 1 && rs.Value != nil {
		return rofFail(9)
	}
	// names declared by the iterator (its own locals and parameters)
	declared := map[string]bool{}
	ast.Inspect(lit.Body, func(m ast.Node) bool {
		if id, ok := m.(*ast.Ident); ok && info.Defs[id] != nil {
			declared[id.Name] = true
		}
		return true
	})
	// parameters: substituted (a plain variable passed for a parameter that is only read) or bound
	type bind struct {
		name, arg string
	}
	var binds []bind
	subst := map[types.Object]string{}
	var params []*ast.Ident
	var args []ast.Expr
	if d.Recv != nil && len(d.Recv.List) == 1 {
		sel, isSel := ast.Unparen(call.Fun).(*ast.SelectorExpr)
		if !isSel {
			return rofFail(10)
		}
		if len(d.Recv.List[0].Names) == 1 {
			params = append(params, d.Recv.List[0].Names[0])
			args = append(args, sel.X)
			// pointer/value adjustment of the receiver is not reproduced
			rt := info.TypeOf(sel.X)
			if rv, isVar := info.Defs[d.Recv.List[0].Names[0]].(*types.Var); !isVar || rt == nil || !types.Identical(rt, rv.Type()) {
				return rofFail(11)
			}
		}
	}
	k := 0
	for _, fld := range d.Type.Params.List {
		if len(fld.Names) == 0 {
			return rofFail(12)
		}
		if _, isEll := fld.Type.(*ast.Ellipsis); isEll {
			return rofFail(13)
		}
		for _, nm := range fld.Names {
			if k >= len(call.Args) {
				return rofFail(14)
			}
			params = append(params, nm)
			args = append(args, call.Args[k])
			k++
		}
	}
	if k != len(call.Args) {
		return rofFail(15)
	}
	assignedIn := func(root ast.Node, o types.Object, uses map[*ast.Ident]types.Object) bool {
		found := false
		ast.Inspect(root, func(m ast.Node) bool {
			switch x := m.(type) {
			case *ast.AssignStmt:
				for _, l := range x.Lhs {
					if id, ok := ast.Unparen(l).(*ast.Ident); ok && (uses[id] == o || info.Defs[id] == o && x.Tok != token.DEFINE) {
						found = true
					}
				}
			case *ast.IncDecStmt:
				if id, ok := ast.Unparen(x.X).(*ast.Ident); ok && uses[id] == o {
					found = true
				}
			case *ast.UnaryExpr:
				if id, ok := ast.Unparen(x.X).(*ast.Ident); ok && x.Op == token.AND && uses[id] == o {
					found = true
				}
			case *ast.RangeStmt:
				for _, l := range []ast.Expr{x.Key, x.Value} {
					if id, ok := l.(*ast.Ident); ok && x.Tok == token.ASSIGN && uses[id] == o {
						found = true
					}
				}
			}
			return true
		})
		return found
	}
	var boundNames []string
	for i, nm := range params {
		argText := in.text(args[i].Pos(), args[i].End())
		if nm.Name == "_" {
			binds = append(binds, bind{"_", argText})
			continue
		}
		po := info.Defs[nm]
		if po == nil {
			return rofFail(16)
		}
		if id, isId := ast.Unparen(args[i]).(*ast.Ident); isId && !declared[id.Name] {
			if ao, isVar := info.Uses[id].(*types.Var); isVar && !assignedIn(lit.Body, po, info.Uses) && !assignedIn(rs.Body, ao, info.Uses) {
				subst[po] = id.Name
				continue
			}
		}
		// a bound parameter: its argument is evaluated where the earlier parameters are already declared
		for _, bn := range boundNames {
			if mentionsName(argText, bn) {
				return rofFail(17)
			}
		}
		pv, isVar := po.(*types.Var)
		at := info.TypeOf(args[i])
		if !isVar || at == nil || !types.Identical(at, pv.Type()) {
			return rofFail(18)
		}
		binds = append(binds, bind{nm.Name, argText})
		boundNames = append(boundNames, nm.Name)
		declared[nm.Name] = true
	}
	// capture: the loop body's free names must not be declared by the iterator
	inRange := func(pos token.Pos, n ast.Node) bool { return pos >= n.Pos() && pos < n.End() }
	capture := false
	checkFree := func(root ast.Node) {
		ast.Inspect(root, func(m ast.Node) bool {
			id, ok := m.(*ast.Ident)
			if !ok {
				return true
			}
			o := info.Uses[id]
			if o == nil {
				return true
			}
			if se, isSel := p.parents[id].(*ast.SelectorExpr); isSel && se.Sel == id {
				return true
			}
			if v, isVar := o.(*types.Var); isVar && v.IsField() {
				return true
			}
			if o.Pos().IsValid() && (inRange(o.Pos(), rs.Body) || rs.Tok == token.DEFINE && inRange(o.Pos(), rs) && o.Pos() < rs.X.Pos()) {
				return true // the body's own names and the loop variables
			}
			if declared[id.Name] {
				capture = true
			}
			return true
		})
	}
	checkFree(rs.Body)
	if rs.Tok == token.ASSIGN {
		for _, v := range vars {
			if v != nil {
				checkFree(v)
			}
		}
	}
	// ... and the iterator's free names must mean the same thing at the loop
	scope := tpkg.Scope().Innermost(rs.Pos())
	ast.Inspect(lit.Body, func(m ast.Node) bool {
		id, ok := m.(*ast.Ident)
		if !ok {
			return true
		}
		o := info.Uses[id]
		if o == nil || o == yieldObj {
			return true
		}
		if se, isSel := p.parents[id].(*ast.SelectorExpr); isSel && se.Sel == id {
			return true // selected, not looked up in the scope
		}
		if v, isVar := o.(*types.Var); isVar && v.IsField() {
			return true
		}
		if _, isSub := subst[o]; isSub {
			return true
		}
		if o.Pos().IsValid() && inRange(o.Pos(), d) {
			return true
		}
		if scope == nil {
			capture = true
			return true
		}
		if _, at := scope.LookupParent(id.Name, rs.Pos()); at != o {
			capture = true
		}
		return true
	})
	if capture {
		return rofFail(19)
	}
	brk := fmt.Sprintf("_rof%d_brk", n)
	brkUsed := false
	// the loop body, once per yield site
	labels := false
	ast.Inspect(rs.Body, func(m ast.Node) bool {
		if _, ok := m.(*ast.LabeledStmt); ok {
			labels = true
		}
		return true
	})
	if labels && len(sites) > 1 {
		return rofFail(20)
	}
	bodyText := func(j int) (string, bool) {
		cont := fmt.Sprintf("_rof%d_c%d", n, j)
		contUsed := false
		// a yield that ends the body of the iterator's loop: continuing the range loop is continuing that loop
		plainContinue := false
		if blk, isBlk := p.parents[sites[j].ifs].(*ast.BlockStmt); isBlk && len(blk.List) > 0 && blk.List[len(blk.List)-1] == ast.Stmt(sites[j].ifs) {
			switch lp := p.parents[blk].(type) {
			case *ast.ForStmt:
				plainContinue = lp.Body == blk
			case *ast.RangeStmt:
				plainContinue = lp.Body == blk
			}
		}
		var eds []posEdit
		var visit func(n ast.Node, inLoop, inBreakable bool)
		visit = func(root ast.Node, inLoop, inBreakable bool) {
			ast.Inspect(root, func(m ast.Node) bool {
				if m == root {
					return true
				}
				switch x := m.(type) {
				case *ast.FuncLit:
					return false
				case *ast.ForStmt, *ast.RangeStmt:
					visit(m, true, true)
					return false
				case *ast.SwitchStmt, *ast.TypeSwitchStmt, *ast.SelectStmt:
					visit(m, inLoop, true)
					return false
				case *ast.BranchStmt:
					if x.Label != nil {
						return true
					}
					switch x.Tok {
					case token.BREAK:
						if !inBreakable {
							eds = append(eds, posEdit{x.Pos(), x.End(), "goto " + brk})
							brkUsed = true
						}
					case token.CONTINUE:
						if !inLoop && !plainContinue {
							eds = append(eds, posEdit{x.Pos(), x.End(), "goto " + cont})
							contUsed = true
						}
					}
				}
				return true
			})
		}
		visit(rs.Body, false, false)
		t := in.renderEdits(rs.Body.Pos(), rs.Body.End(), eds)
		if contUsed {
			t += "\n" + cont + ":"
		}
		return t, true
	}
	var eds []posEdit
	for j, s := range sites {
		bt, _ := bodyText(j)
		var sb strings.Builder
		sb.WriteString("{\n")
		var names, vals []string
		for i, a := range s.args {
			at := in.renderEdits(a.Pos(), a.End(), in.substEdits(info, a, subst))
			var v ast.Expr
			if i < len(vars) {
				v = vars[i]
			}
			if v == nil {
				names = append(names, "_")
			} else {
				names = append(names, in.text(v.Pos(), v.End()))
			}
			vals = append(vals, at)
		}
		allBlank := true
		for _, nm := range names {
			if nm != "_" {
				allBlank = false
			}
		}
		op := " := "
		if rs.Tok == token.ASSIGN || allBlank {
			op = " = "
		}
		// `for ep := range it` over `yield(ep)`: the iterator's variable is the loop variable when the body only reads it
		same := op == " := " && len(names) == len(s.args)
		for i, a := range s.args {
			id, isId := ast.Unparen(a).(*ast.Ident)
			if !same || !isId || names[i] == "_" || id.Name != names[i] {
				same = false
				break
			}
			vo, isVar := info.Uses[id].(*types.Var)
			lv, isLv := vars[i].(*ast.Ident)
			if !isVar || !isLv || info.Defs[lv] == nil || assignedIn(rs.Body, info.Defs[lv], info.Uses) || !inRange(vo.Pos(), lit.Body) {
				same = false
			}
		}
		if !same {
			sb.WriteString(strings.Join(names, ", ") + op + strings.Join(vals, ", ") + "\n")
		}
		if op == " := " && !same {
			for _, nm := range names {
				if nm != "_" {
					sb.WriteString("_ = " + nm + "\n")
				}
			}
		}
		sb.WriteString(bt)
		sb.WriteString("\n}")
		eds = append(eds, posEdit{s.ifs.Pos(), s.ifs.End(), sb.String()})
	}
	for _, r := range otherReturns {
		eds = append(eds, posEdit{r.Pos(), r.End(), "goto " + brk})
		brkUsed = true
	}
	// parameter uses outside the yield arguments
	inSite := func(pos token.Pos) bool {
		for _, s := range sites {
			if pos >= s.ifs.Pos() && pos < s.ifs.End() {
				return true
			}
		}
		return false
	}
	for _, e := range in.substEdits(info, lit.Body, subst) {
		if !inSite(e.a) {
			eds = append(eds, e)
		}
	}
	var out strings.Builder
	out.WriteString("{\n")
	for _, b := range binds {
		if b.name == "_" {
			out.WriteString("_ = " + b.arg + "\n")
			continue
		}
		out.WriteString(b.name + " := " + b.arg + "\n_ = " + b.name + "\n")
	}
	out.WriteString(in.renderEdits(lit.Body.Pos(), lit.Body.End(), eds))
	if brkUsed {
		out.WriteString("\n" + brk + ":")
	}
	out.WriteString("\n}")
	return out.String(), true
}

// substEdits replaces the uses of substituted parameters inside root.
func (in *inliner) substEdits(info *types.Info, root ast.Node, subst map[types.Object]string) []posEdit {
	var eds []posEdit
	ast.Inspect(root, func(m ast.Node) bool {
		if id, ok := m.(*ast.Ident); ok {
			if t, has := subst[info.Uses[id]]; has && info.Uses[id] != nil {
				eds = append(eds, posEdit{id.Pos(), id.End(), t})
			}
		}
		return true
	})
	return eds
}

func rofFail(n int) (string, bool) {
	if os.Getenv("MLB_DEBUG_NORM") != "" {
		fmt.Fprintln(os.Stderr, "rangefunc: not expanded, reason", n)
	}
	return "", false
}
