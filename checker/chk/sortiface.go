package chk

// sort.Sort over a purpose-built sort.Interface (pre-round of the normalisation):
//
//	sort.Sort(T{list: S, k: X})   with   func (s T) Len() int { return len(s.list) }
//	                                     func (s T) Swap(i, j int) { s.list[i], s.list[j] = s.list[j], s.list[i] }
//	                                     func (s T) Less(i, j int) bool { BODY }
//
// is sort.Slice(S, func(i, j int) bool { BODY[s.list := S, s.k := X] }): the comparator rules then read the one form.

import (
	"go/ast"
	"go/token"
	"go/types"
	"strings"

	"golang.org/x/tools/go/types/typeutil"
)

func planSortInterface(p *Prog, in *inliner, plan *roundPlan) {
	for _, pkg := range p.Pkgs {
		info := pkg.TypesInfo
		for _, file := range pkg.Syntax {
			if strings.HasSuffix(p.Fset.Position(file.Pos()).Filename, "_test.go") {
				continue
			}
			ast.Inspect(file, func(n ast.Node) bool {
				call, ok := n.(*ast.CallExpr)
				if !ok || len(call.Args) != 1 {
					return true
				}
				fo := typeutil.StaticCallee(info, call)
				if fo == nil || fo.Pkg() == nil || fo.Pkg().Path() != "sort" || (fo.Name() != "Sort" && fo.Name() != "Stable") {
					return true
				}
				arg := ast.Unparen(call.Args[0])
				if u, isU := arg.(*ast.UnaryExpr); isU && u.Op == token.AND {
					arg = ast.Unparen(u.X)
				}
				lit, isLit := arg.(*ast.CompositeLit)
				if !isLit {
					return true
				}
				named, _ := info.TypeOf(lit).(*types.Named)
				if named == nil || named.Obj().Pkg() != pkg.Types {
					return true
				}
				if _, isStruct := named.Underlying().(*types.Struct); !isStruct {
					return true
				}
				vals := map[string]string{}
				prelude := ""
				_, isStmt := p.parents[call].(*ast.ExprStmt)
				for _, e := range lit.Elts {
					kv, isKV := e.(*ast.KeyValueExpr)
					if !isKV {
						return true
					}
					k, isId := kv.Key.(*ast.Ident)
					if !isId {
						return true
					}
					if !isPlainOperand(kv.Value) {
						// a computed field value is evaluated once, where the literal is built: a local of its own
						if !isStmt {
							return true
						}
						tmp := "_srt_" + k.Name
						prelude += tmp + " := " + in.text(kv.Value.Pos(), kv.Value.End()) + "\n"
						vals[k.Name] = tmp
						continue
					}
					vals[k.Name] = in.text(kv.Value.Pos(), kv.Value.End())
				}
				method := func(name string) *Fn {
					for i := 0; i < named.NumMethods(); i++ {
						if m := named.Method(i); m.Name() == name {
							return p.FnOf(m)
						}
					}
					return nil
				}
				ln, sw, ls := method("Len"), method("Swap"), method("Less")
				if ln == nil || sw == nil || ls == nil || ln.Decl == nil || sw.Decl == nil || ls.Decl == nil {
					return true
				}
				recvName := func(f *Fn) string {
					if f.Decl.Recv == nil || len(f.Decl.Recv.List) != 1 || len(f.Decl.Recv.List[0].Names) != 1 {
						return ""
					}
					return f.Decl.Recv.List[0].Names[0].Name
				}
				// Len: return len(r.F)
				var field string
				if len(ln.Body.List) == 1 {
					if rt, isRet := ln.Body.List[0].(*ast.ReturnStmt); isRet && len(rt.Results) == 1 {
						if c, isCall := ast.Unparen(rt.Results[0]).(*ast.CallExpr); isCall && len(c.Args) == 1 {
							if id, isId := c.Fun.(*ast.Ident); isId && id.Name == "len" {
								if sel, isSel := ast.Unparen(c.Args[0]).(*ast.SelectorExpr); isSel {
									if x, isX := sel.X.(*ast.Ident); isX && x.Name == recvName(ln) {
										field = sel.Sel.Name
									}
								}
							}
						}
					}
				}
				if field == "" || vals[field] == "" {
					return true
				}
				// Swap: r.F[i], r.F[j] = r.F[j], r.F[i]
				okSwap := false
				if len(sw.Body.List) == 1 && len(sw.Decl.Type.Params.List) >= 1 {
					var ps []string
					for _, fld := range sw.Decl.Type.Params.List {
						for _, nm := range fld.Names {
							ps = append(ps, nm.Name)
						}
					}
					if as, isAs := sw.Body.List[0].(*ast.AssignStmt); isAs && len(ps) == 2 && len(as.Lhs) == 2 && len(as.Rhs) == 2 && as.Tok == token.ASSIGN {
						r := recvName(sw)
						a, b := r+"."+field+"["+ps[0]+"]", r+"."+field+"["+ps[1]+"]"
						txt := func(e ast.Expr) string { return strings.ReplaceAll(in.text(e.Pos(), e.End()), " ", "") }
						okSwap = txt(as.Lhs[0]) == a && txt(as.Lhs[1]) == b && txt(as.Rhs[0]) == b && txt(as.Rhs[1]) == a
					}
				}
				if !okSwap {
					return true
				}
				// Less: parameters (i, j), receiver fields substituted
				var lp []string
				for _, fld := range ls.Decl.Type.Params.List {
					for _, nm := range fld.Names {
						lp = append(lp, nm.Name)
					}
				}
				r := recvName(ls)
				if len(lp) != 2 || r == "" {
					return true
				}
				linfo := ls.Info()
				robj := linfo.Defs[ls.Decl.Recv.List[0].Names[0]]
				var eds []posEdit
				okBody := true
				ast.Inspect(ls.Body, func(m ast.Node) bool {
					switch y := m.(type) {
					case *ast.SelectorExpr:
						if x, isX := y.X.(*ast.Ident); isX && linfo.Uses[x] == robj {
							v, has := vals[y.Sel.Name]
							if !has {
								okBody = false
								return false
							}
							eds = append(eds, posEdit{y.Pos(), y.End(), v})
							return false
						}
					case *ast.Ident:
						if linfo.Uses[y] == robj {
							okBody = false // the receiver used as a whole
						}
					}
					return true
				})
				if !okBody {
					return true
				}
				// the substituted names must not be hidden inside Less, and Less's free names must mean the same here
				for _, v := range vals {
					for _, nm := range append(lp, declaredNames(linfo, ls.Body)...) {
						if mentionsName(v, nm) {
							return true
						}
					}
				}
				fn := "sort.Slice"
				if fo.Name() == "Stable" {
					fn = "sort.SliceStable"
				}
				body := in.renderEdits(ls.Body.Pos(), ls.Body.End(), eds)
				txt := fn + "(" + vals[field] + ", func(" + lp[0] + ", " + lp[1] + " int) bool " + body + ")"
				// keep the package qualifier the call site uses
				if sel, isSel := ast.Unparen(call.Fun).(*ast.SelectorExpr); isSel {
					if x, isX := sel.X.(*ast.Ident); isX && x.Name != "sort" {
						txt = strings.Replace(txt, "sort.", x.Name+".", 1)
					}
				}
				if prelude != "" {
					txt = "{\n" + prelude + txt + "\n}"
				}
				fe := in.file(call.Pos())
				fe.edits = append(fe.edits, textEdit{start: in.off(call.Pos()), end: in.off(call.End()), text: txt})
				plan.expanded = append(plan.expanded, "sort.Sort over "+named.Obj().Name()+" as sort.Slice with its Less")
				return false
			})
		}
	}
}

func declaredNames(info *types.Info, root ast.Node) []string {
	var out []string
	ast.Inspect(root, func(m ast.Node) bool {
		if id, ok := m.(*ast.Ident); ok && info.Defs[id] != nil {
			out = append(out, id.Name)
		}
		return true
	})
	return out
}
