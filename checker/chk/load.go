// Package chk is the framework of mlbcheck: loading /repo's current working
// tree through go/packages, resolving anchors through type information, and the
// analysis engines (CFG path rules, ownership, sibling agreement, locks, map
// order, numeric typestates, templates) used by the per-property rule files.
//
// Nothing in this package executes code of the analysed repository.
package chk

import (
	"encoding/json"
	"fmt"
	"go/ast"
	"go/parser"
	"go/token"
	"go/types"
	"os"
	"os/exec"
	"path/filepath"
	"sort"
	"strings"

	"golang.org/x/tools/go/packages"
)

// Module is the import-path prefix of the analysed module.
const Module = "go.universe.tf/metallb"

// MinPackages is the frozen floor on the number of module packages that must
// load and type-check (confirmed on the pinned tree: 33). A run that sees fewer
// is UNDECIDED: a static tool sees only what was parsed.
const MinPackages = 33

// Prog is the loaded, type-checked program.
type Prog struct {
	Dir      string
	GOARCH   string
	Fset     *token.FileSet
	Pkgs     []*packages.Package          // packages of the module (roots)
	ByPath   map[string]*packages.Package // by full import path
	AllTypes map[string]*types.Package    // every types.Package reachable (roots + deps)

	fns     map[*types.Func]*Fn
	varFns  map[string]*Fn
	fnList  []*Fn
	parents map[ast.Node]ast.Node
	fileOf  map[*ast.File]*packages.Package
	NFiles  int
	overlay map[string][]byte

	lineMaps map[string][]int // rewritten file -> (new line -> original line)
	Norm     *NormInfo        // what the normalisation pre-pass did (nil: not normalised)
	Written  *Prog            // the program as written, before normalisation (nil: this one)
}

// ReadFile reads a file of the analysed tree (path relative to the repository
// root), honouring the in-memory overlay of the mutant self-test.
func (p *Prog) ReadFile(rel string) ([]byte, error) {
	abs := filepath.Join(p.Dir, rel)
	if b, ok := p.overlay[abs]; ok {
		return b, nil
	}
	return os.ReadFile(abs)
}

// Glob lists files of the analysed tree matching the pattern (relative paths).
func (p *Prog) Glob(pattern string) []string {
	m, _ := filepath.Glob(filepath.Join(p.Dir, pattern))
	var out []string
	for _, f := range m {
		r, _ := filepath.Rel(p.Dir, f)
		out = append(out, r)
	}
	sort.Strings(out)
	return out
}

// LoadOpts selects the build configuration and an optional overlay (used only
// by the mutant self-test: mutated sources are passed in memory, /repo is never
// written).
type LoadOpts struct {
	Dir     string
	GOARCH  string
	Overlay map[string][]byte
	Tests   bool
}

// RepoDir returns the repository root that is analysed.
func RepoDir() string {
	if d := os.Getenv("MLB_REPO"); d != "" {
		return d
	}
	return "/repo"
}

func loadEnv(goarch string) []string {
	drop := map[string]bool{"GOFLAGS": true, "GOPROXY": true, "GOWORK": true, "GOTOOLCHAIN": true,
		"GOSUMDB": true, "GOARCH": true, "GOOS": true, "CGO_ENABLED": true}
	var env []string
	for _, kv := range os.Environ() {
		k := kv
		if i := strings.IndexByte(kv, '='); i >= 0 {
			k = kv[:i]
		}
		if !drop[k] {
			env = append(env, kv)
		}
	}
	// The repository says `go 1.23.6`; the cached go1.23.6 toolchain is selected
	// offline only with GOTOOLCHAIN=auto and the default GOSUMDB.
	env = append(env, "GOFLAGS=-mod=mod", "GOPROXY=off", "GOWORK=off", "GOTOOLCHAIN=auto",
		"GOSUMDB=sum.golang.org", "GOOS=linux", "CGO_ENABLED=0")
	if goarch != "" {
		env = append(env, "GOARCH="+goarch)
	} else {
		env = append(env, "GOARCH=amd64")
	}
	return env
}

// Load loads every package of the module at opts.Dir (non-test files).
func Load(opts LoadOpts) (*Prog, error) {
	if opts.Dir == "" {
		opts.Dir = RepoDir()
	}
	fset := token.NewFileSet()
	cfg := &packages.Config{
		Mode:    packages.LoadSyntax | packages.NeedModule,
		Dir:     opts.Dir,
		Fset:    fset,
		Env:     loadEnv(opts.GOARCH),
		Tests:   opts.Tests,
		Overlay: opts.Overlay,
	}
	pkgs, err := packages.Load(cfg, "./...")
	if err != nil {
		return nil, fmt.Errorf("go/packages: %w", err)
	}
	return buildProg(opts, fset, pkgs)
}

func buildProg(opts LoadOpts, fset *token.FileSet, pkgs []*packages.Package) (*Prog, error) {
	p := &Prog{Dir: opts.Dir, GOARCH: opts.GOARCH, Fset: fset, overlay: opts.Overlay,
		ByPath: map[string]*packages.Package{}, AllTypes: map[string]*types.Package{},
		fns: map[*types.Func]*Fn{}, varFns: map[string]*Fn{}, parents: map[ast.Node]ast.Node{}, fileOf: map[*ast.File]*packages.Package{}}
	var errs []string
	for _, pkg := range pkgs {
		if !strings.HasPrefix(pkg.PkgPath, Module) {
			continue
		}
		for _, e := range pkg.Errors {
			errs = append(errs, e.Error())
		}
		if pkg.Types == nil || pkg.TypesInfo == nil {
			errs = append(errs, pkg.PkgPath+": no type information")
			continue
		}
		if opts.Tests && pkg.ID != pkg.PkgPath {
			continue
		}
		p.Pkgs = append(p.Pkgs, pkg)
		p.ByPath[pkg.PkgPath] = pkg
	}
	if len(errs) > 0 {
		sort.Strings(errs)
		if len(errs) > 8 {
			errs = errs[:8]
		}
		return nil, fmt.Errorf("type errors in the analysed tree:\n  %s", strings.Join(errs, "\n  "))
	}
	if len(p.Pkgs) < MinPackages {
		return nil, fmt.Errorf("only %d module packages loaded (floor %d)", len(p.Pkgs), MinPackages)
	}
	sort.Slice(p.Pkgs, func(i, j int) bool { return p.Pkgs[i].PkgPath < p.Pkgs[j].PkgPath })
	var visit func(tp *types.Package)
	visit = func(tp *types.Package) {
		if tp == nil || p.AllTypes[tp.Path()] != nil {
			return
		}
		p.AllTypes[tp.Path()] = tp
		for _, imp := range tp.Imports() {
			visit(imp)
		}
	}
	for _, pkg := range p.Pkgs {
		visit(pkg.Types)
		for _, f := range pkg.Syntax {
			name := fset.Position(f.Pos()).Filename
			if strings.HasSuffix(name, "_test.go") {
				continue
			}
			p.NFiles++
			p.fileOf[f] = pkg
			p.indexFile(pkg, f)
		}
	}
	sort.Slice(p.fnList, func(i, j int) bool { return p.fnList[i].Name() < p.fnList[j].Name() })
	return p, nil
}

// recheck parses and type-checks the module's packages again, in process, with
// the given file contents replacing the sources (absolute path -> text).
// Packages outside the module keep the type information of the first load; no
// go command runs.
func (p *Prog) recheck(opts LoadOpts, changed map[string][]byte) (*Prog, error) {
	fset := token.NewFileSet()
	inModule := map[string]*packages.Package{}
	for _, pk := range p.Pkgs {
		inModule[pk.PkgPath] = pk
	}
	done := map[string]*packages.Package{}
	var firstErr error
	var check func(old *packages.Package) *packages.Package
	imp := importerFunc(func(path string) (*types.Package, error) {
		if old, ok := inModule[path]; ok {
			np := check(old)
			if np == nil || np.Types == nil {
				return nil, fmt.Errorf("cannot re-check %s", path)
			}
			return np.Types, nil
		}
		if tp := p.AllTypes[path]; tp != nil {
			return tp, nil
		}
		if path == "unsafe" {
			return types.Unsafe, nil
		}
		return nil, fmt.Errorf("package %s was not loaded", path)
	})
	check = func(old *packages.Package) *packages.Package {
		if np, ok := done[old.PkgPath]; ok {
			return np
		}
		np := &packages.Package{ID: old.ID, Name: old.Name, PkgPath: old.PkgPath, Module: old.Module, TypesSizes: old.TypesSizes,
			GoFiles: old.GoFiles, CompiledGoFiles: old.CompiledGoFiles}
		done[old.PkgPath] = np
		var files []*ast.File
		for _, of := range old.Syntax {
			name := p.Fset.Position(of.Pos()).Filename
			var src any
			if b, ok := changed[name]; ok {
				src = b
			} else if b, ok := p.overlay[name]; ok {
				src = b
			}
			f, err := parser.ParseFile(fset, name, src, parser.ParseComments|parser.SkipObjectResolution)
			if err != nil {
				np.Errors = append(np.Errors, packages.Error{Msg: err.Error()})
				if firstErr == nil {
					firstErr = err
				}
				continue
			}
			files = append(files, f)
		}
		info := &types.Info{
			Types:      map[ast.Expr]types.TypeAndValue{},
			Defs:       map[*ast.Ident]types.Object{},
			Uses:       map[*ast.Ident]types.Object{},
			Implicits:  map[ast.Node]types.Object{},
			Instances:  map[*ast.Ident]types.Instance{},
			Scopes:     map[ast.Node]*types.Scope{},
			Selections: map[*ast.SelectorExpr]*types.Selection{},
		}
		conf := types.Config{Importer: imp, Sizes: old.TypesSizes,
			Error: func(err error) { np.Errors = append(np.Errors, packages.Error{Msg: err.Error()}) }}
		if old.Module != nil && old.Module.GoVersion != "" {
			conf.GoVersion = "go" + old.Module.GoVersion
		}
		tp, _ := conf.Check(old.PkgPath, fset, files, info)
		np.Types, np.TypesInfo, np.Syntax, np.Fset = tp, info, files, fset
		return np
	}
	var pkgs []*packages.Package
	for _, pk := range p.Pkgs {
		pkgs = append(pkgs, check(pk))
	}
	o2 := opts
	o2.Dir = p.Dir
	o2.GOARCH = p.GOARCH
	ov := map[string][]byte{}
	for k, v := range p.overlay {
		ov[k] = v
	}
	for k, v := range changed {
		ov[k] = v
	}
	o2.Overlay = ov
	np, err := buildProg(o2, fset, pkgs)
	if err != nil {
		return nil, err
	}
	// packages outside the module stay reachable for LookupObj
	for k, v := range p.AllTypes {
		if np.AllTypes[k] == nil {
			np.AllTypes[k] = v
		}
	}
	return np, nil
}

type importerFunc func(path string) (*types.Package, error)

func (f importerFunc) Import(path string) (*types.Package, error) { return f(path) }

func (p *Prog) indexFile(pkg *packages.Package, f *ast.File) {
	var stack []ast.Node
	ast.Inspect(f, func(n ast.Node) bool {
		if n == nil {
			stack = stack[:len(stack)-1]
			return true
		}
		if len(stack) > 0 {
			p.parents[n] = stack[len(stack)-1]
		}
		stack = append(stack, n)
		return true
	})
	for _, d := range f.Decls {
		// package-level `var name = func(...) {...}` is analysed like a function
		if gd, ok := d.(*ast.GenDecl); ok {
			for _, sp := range gd.Specs {
				vs, ok := sp.(*ast.ValueSpec)
				if !ok || len(vs.Names) != len(vs.Values) {
					continue
				}
				for i, v := range vs.Values {
					if lit, ok := v.(*ast.FuncLit); ok {
						fn := &Fn{Prog: p, Pkg: pkg, Lit: lit, Body: lit.Body, Type: lit.Type,
							name: strings.TrimPrefix(pkg.PkgPath, Module+"/") + "." + vs.Names[i].Name}
						p.varFns[pkg.PkgPath+"."+vs.Names[i].Name] = fn
						p.fnList = append(p.fnList, fn)
					}
				}
			}
			continue
		}
		fd, ok := d.(*ast.FuncDecl)
		if !ok || fd.Body == nil {
			continue
		}
		obj, _ := pkg.TypesInfo.Defs[fd.Name].(*types.Func)
		if obj == nil {
			continue
		}
		fn := &Fn{Prog: p, Pkg: pkg, Decl: fd, Obj: obj, Body: fd.Body, Type: fd.Type}
		p.fns[obj] = fn
		p.fnList = append(p.fnList, fn)
	}
}

// Parent returns the syntactic parent of n.
func (p *Prog) Parent(n ast.Node) ast.Node { return p.parents[n] }

// Rel returns the path of pos relative to the repository root as file:line.
func (p *Prog) Rel(pos token.Pos) string {
	if !pos.IsValid() {
		return "?"
	}
	ps := p.Fset.Position(pos)
	r, err := filepath.Rel(p.Dir, ps.Filename)
	if err != nil {
		r = ps.Filename
	}
	line := ps.Line
	if m := p.lineMaps[ps.Filename]; m != nil && line < len(m) && m[line] > 0 {
		line = m[line] // position in an expanded helper: report the line of the original source
	}
	return fmt.Sprintf("%s:%d", r, line)
}

// Fn is a source function or method of the module, or a function literal
// (Decl == nil, Lit != nil) analysed on its own.
type Fn struct {
	Prog *Prog
	Pkg  *packages.Package
	Decl *ast.FuncDecl
	Lit  *ast.FuncLit
	Obj  *types.Func
	Body *ast.BlockStmt
	Type *ast.FuncType
	name string
	g    *Graph

	defCache      map[*ast.Ident]ast.Expr
	structEscapes map[*types.Var]bool
	subst         map[types.Object]ast.Expr // substitution in force during expand (memoValue)
	litAssigns    map[types.Object]bool
	matchDepth    int
	nAssign       map[types.Object]int
	searching     int // >0 while a node-by-node search runs (see matchRoot)
}

// Name is the type-qualified name, e.g. "internal/allocator.(*Allocator).Assign".
func (f *Fn) Name() string {
	if f.name != "" {
		return f.name
	}
	if f.Obj == nil {
		return "funclit"
	}
	f.name = ShortName(f.Obj)
	return f.name
}

func (f *Fn) Info() *types.Info { return f.Pkg.TypesInfo }
func (f *Fn) Pos() token.Pos {
	if f.Decl != nil {
		return f.Decl.Pos()
	}
	return f.Lit.Pos()
}

// ShortName renders a function object with the module prefix stripped.
func ShortName(o *types.Func) string {
	s := o.FullName()
	s = strings.ReplaceAll(s, Module+"/", "")
	return s
}

// Funcs returns all source functions of the module, sorted by name.
func (p *Prog) Funcs() []*Fn { return p.fnList }

// FuncsIn returns all source functions of one package (path relative to the module).
func (p *Prog) FuncsIn(pkg string) []*Fn {
	var out []*Fn
	full := Module + "/" + pkg
	for _, f := range p.fnList {
		if f.Pkg.PkgPath == full {
			out = append(out, f)
		}
	}
	return out
}

// FnOf returns the source function for a function object, or nil.
func (p *Prog) FnOf(o *types.Func) *Fn {
	if o == nil {
		return nil
	}
	if f := p.fns[o]; f != nil {
		return f
	}
	return p.fns[o.Origin()]
}

// LookupFunc resolves "pkg", "Recv" (may be "" or start with *), "name" in the
// module; pkg is relative to the module root (e.g. "internal/allocator").
func (p *Prog) LookupFunc(pkg, recv, name string) *Fn {
	f := p.lookupFunc(pkg, recv, name)
	if f != nil {
		Anchors.addName(f.Name())
	}
	Anchors.addIdent(name)
	noteMethodAnchor(pkg, strings.TrimPrefix(recv, "*"), name)
	return f
}

func (p *Prog) lookupQuiet(pkg, recv, name string) *Fn { return p.lookupFunc(pkg, recv, name) }

func (p *Prog) lookupFunc(pkg, recv, name string) *Fn {
	pk := p.ByPath[Module+"/"+pkg]
	if pkg == "" {
		pk = p.ByPath[Module]
	}
	if pk == nil {
		return nil
	}
	recv = strings.TrimPrefix(recv, "*")
	if recv == "" {
		if vf := p.varFns[pk.PkgPath+"."+name]; vf != nil {
			return vf
		}
		o, _ := pk.Types.Scope().Lookup(name).(*types.Func)
		if o != nil {
			return p.FnOf(o)
		}
		// a plain function that was turned into a method (one of its parameters became the receiver): the only method
		// of that name in the package stands for it - its remaining parameters keep their order
		var found *Fn
		n := 0
		for _, f := range p.fnList {
			if f.Pkg == pk && f.Decl != nil && f.Decl.Recv != nil && f.Decl.Name.Name == name && !strings.HasSuffix(p.Fset.Position(f.Decl.Pos()).Filename, "_test.go") {
				found = f
				n++
			}
		}
		if n == 1 {
			return found
		}
		return nil
	}
	tn, _ := pk.Types.Scope().Lookup(recv).(*types.TypeName)
	if tn == nil {
		return nil
	}
	named, _ := tn.Type().(*types.Named)
	if named == nil {
		return nil
	}
	for i := 0; i < named.NumMethods(); i++ {
		if m := named.Method(i); m.Name() == name {
			return p.FnOf(m)
		}
	}
	return nil
}

// LookupObj resolves a package-level object of any loaded or imported package
// (full import path), or a method "Type.Method".
func (p *Prog) LookupObj(pkgPath, name string) types.Object {
	tp := p.AllTypes[pkgPath]
	if tp == nil {
		tp = p.AllTypes[Module+"/"+pkgPath]
	}
	if tp == nil {
		return nil
	}
	if i := strings.IndexByte(name, '.'); i >= 0 {
		tn, _ := tp.Scope().Lookup(name[:i]).(*types.TypeName)
		if tn == nil {
			return nil
		}
		o, _, _ := types.LookupFieldOrMethod(tn.Type(), true, tp, name[i+1:])
		return o
	}
	return tp.Scope().Lookup(name)
}

// LookupField resolves field "name" of struct type "typ" in module package pkg.
func (p *Prog) LookupField(pkg, typ, name string) *types.Var {
	o := p.LookupObj(pkg, typ+"."+name)
	v, _ := o.(*types.Var)
	if v != nil && v.IsField() {
		return v
	}
	return nil
}

// LookupType resolves a named type of a module package.
func (p *Prog) LookupType(pkg, typ string) *types.Named {
	tn, _ := p.LookupObj(pkg, typ).(*types.TypeName)
	if tn == nil {
		return nil
	}
	n, _ := tn.Type().(*types.Named)
	return n
}

// MutantSpec is one textual source edit applied through an overlay.
type MutantSpec struct {
	File string `json:"file"`
	Old  string `json:"old"`
	New  string `json:"new"`
}

// OverlayFromFile reads a JSON {"file": "content"} overlay (absolute paths).
func OverlayFromFile(path string) (map[string][]byte, error) {
	b, err := os.ReadFile(path)
	if err != nil {
		return nil, err
	}
	var m map[string]string
	if err := json.Unmarshal(b, &m); err != nil {
		return nil, err
	}
	out := map[string][]byte{}
	for k, v := range m {
		out[k] = []byte(v)
	}
	return out, nil
}

// OverlayFromPatch applies a unified diff (paths relative to the repository root, -p1) to scratch copies of the files
// it touches and returns the patched contents as an overlay; the repository itself is not written.
func OverlayFromPatch(patchPath string) (map[string][]byte, error) {
	patchPath, _ = filepath.Abs(patchPath)
	pb, err := os.ReadFile(patchPath)
	if err != nil {
		return nil, err
	}
	files := map[string]bool{}
	for _, ln := range strings.Split(string(pb), "\n") {
		for _, pre := range []string{"--- a/", "+++ b/"} {
			if strings.HasPrefix(ln, pre) {
				name := strings.TrimSpace(strings.SplitN(strings.TrimPrefix(ln, pre), "\t", 2)[0])
				files[name] = true
			}
		}
	}
	if len(files) == 0 {
		return nil, fmt.Errorf("%s: no file headers", patchPath)
	}
	dir, err := os.MkdirTemp("", "mlbpatch")
	if err != nil {
		return nil, err
	}
	defer os.RemoveAll(dir)
	for name := range files {
		src, err := os.ReadFile(filepath.Join(RepoDir(), name))
		if err != nil {
			continue // a file the patch creates
		}
		dst := filepath.Join(dir, name)
		os.MkdirAll(filepath.Dir(dst), 0o755)
		if err := os.WriteFile(dst, src, 0o644); err != nil {
			return nil, err
		}
	}
	cmd := exec.Command("patch", "-p1", "-s", "-f", "--no-backup-if-mismatch", "-d", dir, "-i", patchPath)
	if out, err := cmd.CombinedOutput(); err != nil {
		return nil, fmt.Errorf("patch does not apply: %s", strings.TrimSpace(string(out)))
	}
	ov := map[string][]byte{}
	for name := range files {
		b, err := os.ReadFile(filepath.Join(dir, name))
		if err != nil {
			return nil, fmt.Errorf("patch removes %s: not representable as an overlay", name)
		}
		ov[filepath.Join(RepoDir(), name)] = b
	}
	return ov, nil
}
