package chk

// Branch-on-data back to branch-on-code (pre-round of the normalisation). A simple statement S that calls a helper of
// its package of the shape
//
//	func h(params) T { if COND { return E1 }; return E2 }
//
// (COND, E1, E2 over the parameters / the receiver and package-level names only; the arguments of the call plain
// operands) is the conditional `if COND { S[E1] } else { S[E2] }`: "pick the map for the address's family, then
// increment it" is "increment the IPv6 map for an IPv6 address, else the IPv4 map". S must contain no other call of a
// module function. The result is type-checked like every other rewrite.

import (
	"go/ast"
	"go/token"
	"go/types"
	"strings"

	"golang.org/x/tools/go/types/typeutil"
)

func planSelectDistribute(p *Prog, in *inliner, plan *roundPlan) {
	for _, pkg := range p.Pkgs {
		info := pkg.TypesInfo
		for _, file := range pkg.Syntax {
			if strings.HasSuffix(p.Fset.Position(file.Pos()).Filename, "_test.go") {
				continue
			}
			ast.Inspect(file, func(n ast.Node) bool {
				var list []ast.Stmt
				switch b := n.(type) {
				case *ast.BlockStmt:
					list = b.List
				case *ast.CaseClause:
					list = b.Body
				}
				for _, st := range list {
					switch st.(type) {
					case *ast.ExprStmt, *ast.AssignStmt, *ast.IncDecStmt:
					default:
						continue
					}
					if as, isAs := st.(*ast.AssignStmt); isAs && as.Tok == token.DEFINE {
						continue // the declared names would be scoped to the branches
					}
					if txt, ok := in.distributeStmt(pkg.Types, info, st); ok {
						fe := in.file(st.Pos())
						fe.edits = append(fe.edits, textEdit{start: in.off(st.Pos()), end: in.off(st.End()), text: txt})
						plan.expanded = append(plan.expanded, "statement distributed over a two-valued selector helper")
					}
				}
				return true
			})
		}
	}
}

func (in *inliner) distributeStmt(tpkg *types.Package, info *types.Info, st ast.Stmt) (string, bool) {
	p := in.p
	var target *ast.CallExpr
	var h *Fn
	nModule := 0
	bad := false
	ast.Inspect(st, func(m ast.Node) bool {
		switch y := m.(type) {
		case *ast.FuncLit:
			bad = true
			return false
		case *ast.CallExpr:
			fo := typeutil.StaticCallee(info, y)
			if fo == nil {
				return true
			}
			cf := p.FnOf(fo)
			if cf == nil {
				return true
			}
			nModule++
			target, h = y, cf
		}
		return true
	})
	if bad || nModule != 1 || h == nil || h.Decl == nil || h.Body == nil || h.Decl.Type.TypeParams != nil || h.Pkg.Types != tpkg {
		return "", false
	}
	if h.Decl.Type.Results == nil || h.Decl.Type.Results.NumFields() != 1 || target.Ellipsis.IsValid() {
		return "", false
	}
	// the helper's shape
	var cond, e1, e2 ast.Expr
	switch len(h.Body.List) {
	case 2:
		ifs, isIf := h.Body.List[0].(*ast.IfStmt)
		r2, isRet := h.Body.List[1].(*ast.ReturnStmt)
		if !isIf || !isRet || ifs.Init != nil || ifs.Else != nil || len(ifs.Body.List) != 1 || len(r2.Results) != 1 {
			return "", false
		}
		r1, isRet1 := ifs.Body.List[0].(*ast.ReturnStmt)
		if !isRet1 || len(r1.Results) != 1 {
			return "", false
		}
		cond, e1, e2 = ifs.Cond, r1.Results[0], r2.Results[0]
	case 1:
		ifs, isIf := h.Body.List[0].(*ast.IfStmt)
		if !isIf || ifs.Init != nil || ifs.Else == nil || len(ifs.Body.List) != 1 {
			return "", false
		}
		eb, isBlk := ifs.Else.(*ast.BlockStmt)
		if !isBlk || len(eb.List) != 1 {
			return "", false
		}
		r1, ok1 := ifs.Body.List[0].(*ast.ReturnStmt)
		r2, ok2 := eb.List[0].(*ast.ReturnStmt)
		if !ok1 || !ok2 || len(r1.Results) != 1 || len(r2.Results) != 1 {
			return "", false
		}
		cond, e1, e2 = ifs.Cond, r1.Results[0], r2.Results[0]
	default:
		return "", false
	}
	// a constant-valued selector is the business of twoValuedCompare; here the values are places / containers
	hinfo := h.Info()
	if tv, has := hinfo.Types[e1]; has && tv.Value != nil {
		return "", false
	}
	// parameters -> argument texts
	subst := map[types.Object]string{}
	if h.Decl.Recv != nil && len(h.Decl.Recv.List) == 1 {
		sel, isSel := ast.Unparen(target.Fun).(*ast.SelectorExpr)
		if !isSel || !isPlainOperand(sel.X) {
			return "", false
		}
		if len(h.Decl.Recv.List[0].Names) == 1 {
			subst[hinfo.Defs[h.Decl.Recv.List[0].Names[0]]] = in.text(sel.X.Pos(), sel.X.End())
		}
	}
	k := 0
	for _, fld := range h.Decl.Type.Params.List {
		if len(fld.Names) == 0 {
			return "", false
		}
		if _, isEll := fld.Type.(*ast.Ellipsis); isEll {
			return "", false
		}
		for _, nm := range fld.Names {
			if k >= len(target.Args) || !isPlainOperand(target.Args[k]) {
				return "", false
			}
			subst[hinfo.Defs[nm]] = in.text(target.Args[k].Pos(), target.Args[k].End())
			k++
		}
	}
	if k != len(target.Args) {
		return "", false
	}
	// COND, E1, E2: parameters (substituted), fields / methods of them, package-level and universe names that mean the
	// same at the statement
	scope := tpkg.Scope().Innermost(st.Pos())
	render := func(e ast.Expr) (string, bool) {
		ok := true
		var eds []posEdit
		ast.Inspect(e, func(m ast.Node) bool {
			switch y := m.(type) {
			case *ast.FuncLit:
				ok = false
			case *ast.Ident:
				o := hinfo.Uses[y]
				if o == nil {
					return true
				}
				if se, isSel := p.parents[y].(*ast.SelectorExpr); isSel && se.Sel == y {
					return true
				}
				if t, has := subst[o]; has {
					eds = append(eds, posEdit{y.Pos(), y.End(), t})
					return true
				}
				if o.Pos().IsValid() && o.Pos() >= h.Decl.Pos() && o.Pos() < h.Decl.End() {
					ok = false // a local of the helper
					return true
				}
				if scope == nil {
					ok = false
					return true
				}
				if _, at := scope.LookupParent(y.Name, st.Pos()); at != o {
					ok = false
				}
			}
			return true
		})
		if !ok {
			return "", false
		}
		return in.renderEdits(e.Pos(), e.End(), eds), true
	}
	ct, ok0 := render(cond)
	t1, ok1 := render(e1)
	t2, ok2 := render(e2)
	if !ok0 || !ok1 || !ok2 {
		return "", false
	}
	with := func(val string) string {
		return in.renderEdits(st.Pos(), st.End(), []posEdit{{target.Pos(), target.End(), "(" + val + ")"}})
	}
	return "if " + ct + " {\n" + with(t1) + "\n} else {\n" + with(t2) + "\n}", true
}

// planLocalSelectDistribute: the same choice held in a local instead of a helper,
//
//	x := A
//	if COND { x = B }
//	S1(x); S2(x)
//
// (A, B plain operands; x assigned nowhere else, its address never taken, used only by simple statements of the same
// statement list behind the `if`; nothing in those statements assigns a variable COND reads) is
// `if COND { S1(B) } else { S1(A) }; if COND { S2(B) } else { S2(A) }` without the local: "pick the usage map of the
// address's family, then increment it" written with a variable.
func planLocalSelectDistribute(p *Prog, in *inliner, plan *roundPlan) {
	for _, pkg := range p.Pkgs {
		info := pkg.TypesInfo
		for _, file := range pkg.Syntax {
			if strings.HasSuffix(p.Fset.Position(file.Pos()).Filename, "_test.go") {
				continue
			}
			// uses of every object in this file (to know that the local is used nowhere else)
			uses := map[types.Object]int{}
			addrOf := map[types.Object]bool{}
			ast.Inspect(file, func(n ast.Node) bool {
				switch y := n.(type) {
				case *ast.Ident:
					if o := info.Uses[y]; o != nil {
						uses[o]++
					}
				case *ast.UnaryExpr:
					if y.Op == token.AND {
						if id, ok := ast.Unparen(y.X).(*ast.Ident); ok {
							if o := info.Uses[id]; o != nil {
								addrOf[o] = true
							}
						}
					}
				}
				return true
			})
			ast.Inspect(file, func(n ast.Node) bool {
				var list []ast.Stmt
				switch b := n.(type) {
				case *ast.BlockStmt:
					list = b.List
				case *ast.CaseClause:
					list = b.Body
				}
				for i := 0; i+2 < len(list); i++ {
					def, isDef := list[i].(*ast.AssignStmt)
					ifs, isIf := list[i+1].(*ast.IfStmt)
					if !isDef || !isIf || def.Tok != token.DEFINE || len(def.Lhs) != 1 || len(def.Rhs) != 1 || !isPlainOperand(def.Rhs[0]) {
						continue
					}
					xid, isId := def.Lhs[0].(*ast.Ident)
					if !isId || ifs.Init != nil || ifs.Else != nil || len(ifs.Body.List) != 1 || !callFreeExceptMethods(ifs.Cond) {
						continue
					}
					obj := info.Defs[xid]
					set, isSet := ifs.Body.List[0].(*ast.AssignStmt)
					if obj == nil || addrOf[obj] || !isSet || set.Tok != token.ASSIGN || len(set.Lhs) != 1 || len(set.Rhs) != 1 || !isPlainOperand(set.Rhs[0]) {
						continue
					}
					if lid, ok := set.Lhs[0].(*ast.Ident); !ok || info.Uses[lid] != obj {
						continue
					}
					if tv1, tv2 := info.TypeOf(def.Rhs[0]), info.TypeOf(set.Rhs[0]); tv1 == nil || tv2 == nil || !types.Identical(tv1, tv2) {
						continue
					}
					// what COND reads
					condObjs := map[types.Object]bool{}
					ast.Inspect(ifs.Cond, func(m ast.Node) bool {
						if id, ok := m.(*ast.Ident); ok {
							if o := info.Uses[id]; o != nil {
								condObjs[o] = true
							}
						}
						return true
					})
					if condObjs[obj] {
						continue
					}
					// the users: simple statements of this list behind the if
					type user struct {
						st  ast.Stmt
						ids []*ast.Ident
					}
					var users []user
					okAll, nUses := true, 0
					for _, st := range list[i+2:] {
						var ids []*ast.Ident
						assigns := false
						ast.Inspect(st, func(m ast.Node) bool {
							switch y := m.(type) {
							case *ast.Ident:
								if info.Uses[y] == obj {
									ids = append(ids, y)
								}
							case *ast.AssignStmt:
								for _, l := range y.Lhs {
									if id, ok := ast.Unparen(l).(*ast.Ident); ok {
										o := info.Uses[id]
										if o == nil {
											o = info.Defs[id]
										}
										if o != nil && (condObjs[o] || o == obj) {
											assigns = true
										}
									}
								}
							case *ast.IncDecStmt:
								if id, ok := ast.Unparen(y.X).(*ast.Ident); ok && (condObjs[info.Uses[id]] || info.Uses[id] == obj) {
									assigns = true
								}
							}
							return true
						})
						if assigns {
							okAll = false
						}
						if len(ids) == 0 {
							continue
						}
						switch s := st.(type) {
						case *ast.ExprStmt, *ast.IncDecStmt:
						case *ast.AssignStmt:
							if s.Tok == token.DEFINE {
								okAll = false
							}
						default:
							okAll = false
						}
						nUses += len(ids)
						users = append(users, user{st, ids})
					}
					// every use is one of those (plus the assignment inside the if)
					if !okAll || len(users) == 0 || uses[obj] != nUses+1 {
						continue
					}
					// COND is evaluated again before every user: nothing it reads may be what the users store into (the two
					// alternatives included)
					stored := map[types.Object]bool{}
					note := func(e ast.Node) {
						ast.Inspect(e, func(m ast.Node) bool {
							if id, ok := m.(*ast.Ident); ok {
								if o := info.Uses[id]; o != nil && o != obj {
									if _, isVar := o.(*types.Var); isVar {
										stored[o] = true
									}
								}
							}
							return true
						})
					}
					// the place stored into is the base of the target's selector / index chain (its keys are only read)
					root := func(e ast.Expr) ast.Node {
						for {
							switch x := ast.Unparen(e).(type) {
							case *ast.IndexExpr:
								e = x.X
							case *ast.SelectorExpr:
								e = x.X
							case *ast.StarExpr:
								e = x.X
							default:
								return e
							}
						}
					}
					note(root(def.Rhs[0]))
					note(root(set.Rhs[0]))
					for _, u := range users {
						switch st := u.st.(type) {
						case *ast.AssignStmt:
							for _, l := range st.Lhs {
								note(root(l))
							}
						case *ast.IncDecStmt:
							note(root(st.X))
						case *ast.ExprStmt:
							note(st.X) // a call: anything it is handed may be written through
						}
					}
					clash := false
					for o := range condObjs {
						if stored[o] {
							clash = true
						}
					}
					if clash {
						continue
					}
					a := in.text(def.Rhs[0].Pos(), def.Rhs[0].End())
					b := in.text(set.Rhs[0].Pos(), set.Rhs[0].End())
					cond := in.text(ifs.Cond.Pos(), ifs.Cond.End())
					fe := in.file(def.Pos())
					fe.edits = append(fe.edits, textEdit{start: in.off(def.Pos()), end: in.off(ifs.End()), text: ""})
					for _, u := range users {
						with := func(val string) string {
							var eds []posEdit
							for _, id := range u.ids {
								eds = append(eds, posEdit{id.Pos(), id.End(), "(" + val + ")"})
							}
							return in.renderEdits(u.st.Pos(), u.st.End(), eds)
						}
						txt := "if " + cond + " {\n" + with(b) + "\n} else {\n" + with(a) + "\n}"
						fe.edits = append(fe.edits, textEdit{start: in.off(u.st.Pos()), end: in.off(u.st.End()), text: txt})
					}
					plan.expanded = append(plan.expanded, "statements distributed over a two-valued local selector")
					i++
				}
				return true
			})
		}
	}
}

// callFreeExceptMethods: no function literal, no channel receive, and no call other than method calls and calls of
// functions on plain operands (a test such as `ip.To4() == nil`): evaluating it again has no effect.
func callFreeExceptMethods(e ast.Expr) bool {
	ok := true
	ast.Inspect(e, func(n ast.Node) bool {
		switch y := n.(type) {
		case *ast.FuncLit:
			ok = false
		case *ast.UnaryExpr:
			if y.Op == token.ARROW {
				ok = false
			}
		case *ast.CallExpr:
			for _, a := range y.Args {
				if !isPlainOperand(a) {
					if _, isLit := ast.Unparen(a).(*ast.BasicLit); !isLit {
						ok = false
					}
				}
			}
		}
		return ok
	})
	return ok
}

// planFlagAccumulate: a boolean local accumulated by expression, `x = x || C` (or `x = C || x`), is the conditional
// store `if C { x = true }`; `x = x && C` is `if !(C) { x = false }` - C free of calls, function literals and channel
// receives, so that evaluating it when the flag is already set changes nothing. "One handler asking for a retry is
// enough" written as a running disjunction is the flag set in a branch, which is the form the path rules read.
func planFlagAccumulate(p *Prog, in *inliner, plan *roundPlan) {
	for _, pkg := range p.Pkgs {
		info := pkg.TypesInfo
		for _, file := range pkg.Syntax {
			if strings.HasSuffix(p.Fset.Position(file.Pos()).Filename, "_test.go") {
				continue
			}
			ast.Inspect(file, func(n ast.Node) bool {
				var list []ast.Stmt
				switch b := n.(type) {
				case *ast.BlockStmt:
					list = b.List
				case *ast.CaseClause:
					list = b.Body
				}
				for _, st := range list {
					as, isAs := st.(*ast.AssignStmt)
					if !isAs || as.Tok != token.ASSIGN || len(as.Lhs) != 1 || len(as.Rhs) != 1 {
						continue
					}
					xid, isId := as.Lhs[0].(*ast.Ident)
					if !isId {
						continue
					}
					obj, _ := info.Uses[xid].(*types.Var)
					if obj == nil || obj.IsField() || obj.Parent() == nil || obj.Pkg() == nil || obj.Parent() == obj.Pkg().Scope() {
						continue
					}
					if bt, ok := obj.Type().Underlying().(*types.Basic); !ok || bt.Kind() != types.Bool {
						continue
					}
					be, isBin := ast.Unparen(as.Rhs[0]).(*ast.BinaryExpr)
					if !isBin || (be.Op != token.LOR && be.Op != token.LAND) {
						continue
					}
					// flatten the chain of the same operator; exactly one operand is the flag itself
					var ops []ast.Expr
					var flat func(e ast.Expr)
					flat = func(e ast.Expr) {
						if b2, ok := ast.Unparen(e).(*ast.BinaryExpr); ok && b2.Op == be.Op {
							flat(b2.X)
							flat(b2.Y)
							return
						}
						ops = append(ops, e)
					}
					flat(be)
					self, mentions := -1, 0
					for i, o := range ops {
						if id, ok := ast.Unparen(o).(*ast.Ident); ok && info.Uses[id] == types.Object(obj) {
							self = i
						}
						ast.Inspect(o, func(m ast.Node) bool {
							if id, ok := m.(*ast.Ident); ok && info.Uses[id] == types.Object(obj) {
								mentions++
							}
							return true
						})
					}
					if self < 0 || mentions != 1 || len(ops) < 2 {
						continue
					}
					var rest []string
					okC := true
					for i, o := range ops {
						if i == self {
							continue
						}
						if !callFree(o) {
							okC = false // the operand is evaluated whatever the flag is: it must have no effect
						}
						rest = append(rest, "("+in.text(o.Pos(), o.End())+")")
					}
					if !okC {
						continue
					}
					name := xid.Name
					var txt string
					if be.Op == token.LOR {
						txt = "if " + strings.Join(rest, " || ") + " {\n" + name + " = true\n}"
					} else {
						txt = "if !(" + strings.Join(rest, " && ") + ") {\n" + name + " = false\n}"
					}
					fe := in.file(st.Pos())
					fe.edits = append(fe.edits, textEdit{start: in.off(st.Pos()), end: in.off(st.End()), text: txt})
					plan.expanded = append(plan.expanded, "boolean flag accumulated by expression written as a conditional store")
				}
				return true
			})
		}
	}
}
