package chk

// Branch-on-data back to branch-on-code (pre-round of the normalisation). A simple statement S that calls a helper of
// its package of the shape
//
//	func h(params) T { if COND { return E1 }; return E2 }
//
// (COND, E1, E2 over the parameters / the receiver and package-level names only; the arguments of the call plain
// operands) is the conditional `if COND { S[E1] } else { S[E2] }`: "pick the map for the address's family, then
// increment it" is "increment the IPv6 map for an IPv6 address, else the IPv4 map". S must contain no other call of a
// module function. The result is type-checked like every other rewrite.

import (
	"go/ast"
	"go/token"
	"go/types"
	"strings"

	"golang.org/x/tools/go/types/typeutil"
)

func planSelectDistribute(p *Prog, in *inliner, plan *roundPlan) {
	for _, pkg := range p.Pkgs {
		info := pkg.TypesInfo
		for _, file := range pkg.Syntax {
			if strings.HasSuffix(p.Fset.Position(file.Pos()).Filename, "_test.go") {
				continue
			}
			ast.Inspect(file, func(n ast.Node) bool {
				var list []ast.Stmt
				switch b := n.(type) {
				case *ast.BlockStmt:
					list = b.List
				case *ast.CaseClause:
					list = b.Body
				}
				for _, st := range list {
					switch st.(type) {
					case *ast.ExprStmt, *ast.AssignStmt, *ast.IncDecStmt:
					default:
						continue
					}
					if as, isAs := st.(*ast.AssignStmt); isAs && as.Tok == token.DEFINE {
						continue // the declared names would be scoped to the branches
					}
					if txt, ok := in.distributeStmt(pkg.Types, info, st); ok {
						fe := in.file(st.Pos())
						fe.edits = append(fe.edits, textEdit{start: in.off(st.Pos()), end: in.off(st.End()), text: txt})
						plan.expanded = append(plan.expanded, "statement distributed over a two-valued selector helper")
					}
				}
				return true
			})
		}
	}
}

func (in *inliner) distributeStmt(tpkg *types.Package, info *types.Info, st ast.Stmt) (string, bool) {
	p := in.p
	var target *ast.CallExpr
	var h *Fn
	nModule := 0
	bad := false
	ast.Inspect(st, func(m ast.Node) bool {
		switch y := m.(type) {
		case *ast.FuncLit:
			bad = true
			return false
		case *ast.CallExpr:
			fo := typeutil.StaticCallee(info, y)
			if fo == nil {
				return true
			}
			cf := p.FnOf(fo)
			if cf == nil {
				return true
			}
			nModule++
			target, h = y, cf
		}
		return true
	})
	if bad || nModule != 1 || h == nil || h.Decl == nil || h.Body == nil || h.Decl.Type.TypeParams != nil || h.Pkg.Types != tpkg {
		return "", false
	}
	if h.Decl.Type.Results == nil || h.Decl.Type.Results.NumFields() != 1 || target.Ellipsis.IsValid() {
		return "", false
	}
	// the helper's shape
	var cond, e1, e2 ast.Expr
	switch len(h.Body.List) {
	case 2:
		ifs, isIf := h.Body.List[0].(*ast.IfStmt)
		r2, isRet := h.Body.List[1].(*ast.ReturnStmt)
		if !isIf || !isRet || ifs.Init != nil || ifs.Else != nil || len(ifs.Body.List) != 1 || len(r2.Results) != 1 {
			return "", false
		}
		r1, isRet1 := ifs.Body.List[0].(*ast.ReturnStmt)
		if !isRet1 || len(r1.Results) != 1 {
			return "", false
		}
		cond, e1, e2 = ifs.Cond, r1.Results[0], r2.Results[0]
	case 1:
		ifs, isIf := h.Body.List[0].(*ast.IfStmt)
		if !isIf || ifs.Init != nil || ifs.Else == nil || len(ifs.Body.List) != 1 {
			return "", false
		}
		eb, isBlk := ifs.Else.(*ast.BlockStmt)
		if !isBlk || len(eb.List) != 1 {
			return "", false
		}
		r1, ok1 := ifs.Body.List[0].(*ast.ReturnStmt)
		r2, ok2 := eb.List[0].(*ast.ReturnStmt)
		if !ok1 || !ok2 || len(r1.Results) != 1 || len(r2.Results) != 1 {
			return "", false
		}
		cond, e1, e2 = ifs.Cond, r1.Results[0], r2.Results[0]
	default:
		return "", false
	}
	// a constant-valued selector is the business of twoValuedCompare; here the values are places / containers
	hinfo := h.Info()
	if tv, has := hinfo.Types[e1]; has && tv.Value != nil {
		return "", false
	}
	// parameters -> argument texts
	subst := map[types.Object]string{}
	if h.Decl.Recv != nil && len(h.Decl.Recv.List) == 1 {
		sel, isSel := ast.Unparen(target.Fun).(*ast.SelectorExpr)
		if !isSel || !isPlainOperand(sel.X) {
			return "", false
		}
		if len(h.Decl.Recv.List[0].Names) == 1 {
			subst[hinfo.Defs[h.Decl.Recv.List[0].Names[0]]] = in.text(sel.X.Pos(), sel.X.End())
		}
	}
	k := 0
	for _, fld := range h.Decl.Type.Params.List {
		if len(fld.Names) == 0 {
			return "", false
		}
		if _, isEll := fld.Type.(*ast.Ellipsis); isEll {
			return "", false
		}
		for _, nm := range fld.Names {
			if k >= len(target.Args) || !isPlainOperand(target.Args[k]) {
				return "", false
			}
			subst[hinfo.Defs[nm]] = in.text(target.Args[k].Pos(), target.Args[k].End())
			k++
		}
	}
	if k != len(target.Args) {
		return "", false
	}
	// COND, E1, E2: parameters (substituted), fields / methods of them, package-level and universe names that mean the
	// same at the statement
	scope := tpkg.Scope().Innermost(st.Pos())
	render := func(e ast.Expr) (string, bool) {
		ok := true
		var eds []posEdit
		ast.Inspect(e, func(m ast.Node) bool {
			switch y := m.(type) {
			case *ast.FuncLit:
				ok = false
			case *ast.Ident:
				o := hinfo.Uses[y]
				if o == nil {
					return true
				}
				if se, isSel := p.parents[y].(*ast.SelectorExpr); isSel && se.Sel == y {
					return true
				}
				if t, has := subst[o]; has {
					eds = append(eds, posEdit{y.Pos(), y.End(), t})
					return true
				}
				if o.Pos().IsValid() && o.Pos() >= h.Decl.Pos() && o.Pos() < h.Decl.End() {
					ok = false // a local of the helper
					return true
				}
				if scope == nil {
					ok = false
					return true
				}
				if _, at := scope.LookupParent(y.Name, st.Pos()); at != o {
					ok = false
				}
			}
			return true
		})
		if !ok {
			return "", false
		}
		return in.renderEdits(e.Pos(), e.End(), eds), true
	}
	ct, ok0 := render(cond)
	t1, ok1 := render(e1)
	t2, ok2 := render(e2)
	if !ok0 || !ok1 || !ok2 {
		return "", false
	}
	with := func(val string) string {
		return in.renderEdits(st.Pos(), st.End(), []posEdit{{target.Pos(), target.End(), "(" + val + ")"}})
	}
	return "if " + ct + " {\n" + with(t1) + "\n} else {\n" + with(t2) + "\n}", true
}
