package chk

import (
	"go/ast"
	"go/constant"
	"go/token"
	"go/types"
	"strings"

	"golang.org/x/tools/go/types/typeutil"
)

// Callee resolves the called function/method object through type information.
func (f *Fn) Callee(call *ast.CallExpr) types.Object {
	return typeutil.Callee(f.Info(), call)
}

// ObjName renders an object as a module-relative qualified name:
// functions as in types.Func.FullName ("(*internal/allocator.Allocator).Assign",
// "sort.Slice"), fields as "pkg.Type.field" when known, others as pkg.name.
func ObjName(o types.Object) string {
	switch o := o.(type) {
	case nil:
		return ""
	case *types.Func:
		return ShortName(o)
	case *types.Builtin:
		return o.Name()
	}
	if o.Pkg() != nil {
		return strings.TrimPrefix(o.Pkg().Path(), Module+"/") + "." + o.Name()
	}
	return o.Name()
}

// IsCallTo returns the call expression if n (parentheses stripped) is a call
// whose resolved callee has one of the given names. A name may be the full
// short name or end with the method name after a dot for interface methods:
// matching is exact on ObjName.
func (f *Fn) IsCallTo(n ast.Node, names ...string) *ast.CallExpr {
	for _, nm := range names {
		Anchors.addName(nm)
	}
	e, ok := n.(ast.Expr)
	if !ok {
		return nil
	}
	call, ok := ast.Unparen(e).(*ast.CallExpr)
	if !ok {
		return nil
	}
	o := f.Callee(call)
	if o == nil {
		// calls through func-typed fields or variables: match by the object
		switch fun := ast.Unparen(call.Fun).(type) {
		case *ast.SelectorExpr:
			o = f.Info().Uses[fun.Sel]
		case *ast.Ident:
			o = f.Info().Uses[fun]
		}
	}
	if o == nil {
		return nil
	}
	name := ObjName(o)
	if fn, ok := o.(*types.Func); ok && fn.Origin() != fn {
		name = ObjName(fn.Origin())
	}
	for _, want := range names {
		if name == want {
			return call
		}
	}
	return nil
}

// CallsIn lists the calls to the named functions inside root (function
// literals excluded).
func (f *Fn) CallsIn(root ast.Node, names ...string) []*ast.CallExpr {
	var out []*ast.CallExpr
	if root == nil {
		return nil
	}
	InspectNoLit(root, func(n ast.Node) bool {
		if c := f.IsCallTo(n, names...); c != nil {
			out = append(out, c)
		}
		return true
	})
	return out
}

// AllCallsIn lists calls inside root including those inside function literals.
func (f *Fn) AllCallsIn(root ast.Node, names ...string) []*ast.CallExpr {
	var out []*ast.CallExpr
	if root == nil {
		return nil
	}
	ast.Inspect(root, func(n ast.Node) bool {
		if n == nil {
			return true
		}
		if c := f.IsCallTo(n, names...); c != nil {
			out = append(out, c)
		}
		return true
	})
	return out
}

// ObjOf resolves an identifier or selector to its object.
func (f *Fn) ObjOf(e ast.Expr) types.Object {
	switch e := ast.Unparen(e).(type) {
	case *ast.Ident:
		if o := f.Info().Uses[e]; o != nil {
			return o
		}
		return f.Info().Defs[e]
	case *ast.SelectorExpr:
		if sel := f.Info().Selections[e]; sel != nil {
			return sel.Obj()
		}
		return f.Info().Uses[e.Sel]
	}
	return nil
}

// IsField reports whether e is a selector expression resolving to field fld.
func (f *Fn) IsField(e ast.Expr, fld *types.Var) bool {
	if fld == nil {
		return false
	}
	s, ok := ast.Unparen(e).(*ast.SelectorExpr)
	if !ok {
		return false
	}
	sel := f.Info().Selections[s]
	return sel != nil && sel.Obj() == types.Object(fld)
}

// RootObj returns the object of the leftmost identifier of x.a.b[i].c(...)...
func (f *Fn) RootObj(e ast.Expr) types.Object {
	for {
		switch x := ast.Unparen(e).(type) {
		case *ast.Ident:
			return f.ObjOf(x)
		case *ast.SelectorExpr:
			// package-qualified identifier
			if id, ok := x.X.(*ast.Ident); ok {
				if _, isPkg := f.Info().Uses[id].(*types.PkgName); isPkg {
					return f.Info().Uses[x.Sel]
				}
			}
			e = x.X
		case *ast.IndexExpr:
			e = x.X
		case *ast.SliceExpr:
			e = x.X
		case *ast.StarExpr:
			e = x.X
		case *ast.UnaryExpr:
			e = x.X
		case *ast.CallExpr:
			e = x.Fun
		case *ast.TypeAssertExpr:
			e = x.X
		default:
			return nil
		}
	}
}

// Mentions reports whether root mentions object o (function literals included).
func (f *Fn) Mentions(root ast.Node, o types.Object) bool {
	if root == nil || o == nil {
		return false
	}
	found := false
	ast.Inspect(root, func(n ast.Node) bool {
		if id, ok := n.(*ast.Ident); ok && (f.Info().Uses[id] == o || f.Info().Defs[id] == o) {
			found = true
		}
		return !found
	})
	return found
}

// MentionsField reports whether root contains a selector resolving to fld.
func (f *Fn) MentionsField(root ast.Node, fld *types.Var) bool {
	if root == nil || fld == nil {
		return false
	}
	found := false
	ast.Inspect(root, func(n ast.Node) bool {
		if s, ok := n.(*ast.SelectorExpr); ok && f.IsField(s, fld) {
			found = true
		}
		return !found
	})
	return found
}

// SameExpr compares two expressions structurally with identifiers resolved to
// objects (so renaming a local consistently keeps them equal and a shadowing
// variable makes them differ).
func (f *Fn) SameExpr(a, b ast.Expr) bool {
	a, b = ast.Unparen(a), ast.Unparen(b)
	if a == nil || b == nil {
		return a == b
	}
	if f.sameExpr(a, b) {
		return true
	}
	// see through temporaries: k := ip.String() makes k and ip.String() the same value
	if f.matchDepth > 8 {
		return false
	}
	ra, rb := f.Resolve(a), f.Resolve(b)
	if ra != a || rb != b {
		f.matchDepth++
		ok := f.sameExpr(ra, rb)
		f.matchDepth--
		return ok
	}
	return false
}

func (f *Fn) sameExpr(a, b ast.Expr) bool {
	a, b = ast.Unparen(a), ast.Unparen(b)
	if a == nil || b == nil {
		return a == b
	}
	switch x := a.(type) {
	case *ast.Ident:
		y, ok := b.(*ast.Ident)
		if !ok {
			return false
		}
		ox, oy := f.ObjOf(x), f.ObjOf(y)
		if ox == nil || oy == nil {
			return x.Name == y.Name
		}
		return ox == oy
	case *ast.BasicLit:
		y, ok := b.(*ast.BasicLit)
		return ok && x.Kind == y.Kind && x.Value == y.Value
	case *ast.SelectorExpr:
		y, ok := b.(*ast.SelectorExpr)
		return ok && f.ObjOf(x) == f.ObjOf(y) && x.Sel.Name == y.Sel.Name && f.SameExpr(x.X, y.X)
	case *ast.IndexExpr:
		y, ok := b.(*ast.IndexExpr)
		return ok && f.SameExpr(x.X, y.X) && f.SameExpr(x.Index, y.Index)
	case *ast.StarExpr:
		y, ok := b.(*ast.StarExpr)
		return ok && f.SameExpr(x.X, y.X)
	case *ast.UnaryExpr:
		y, ok := b.(*ast.UnaryExpr)
		return ok && x.Op == y.Op && f.SameExpr(x.X, y.X)
	case *ast.BinaryExpr:
		y, ok := b.(*ast.BinaryExpr)
		return ok && x.Op == y.Op && f.SameExpr(x.X, y.X) && f.SameExpr(x.Y, y.Y)
	case *ast.CallExpr:
		y, ok := b.(*ast.CallExpr)
		if !ok || len(x.Args) != len(y.Args) || !f.SameExpr(x.Fun, y.Fun) {
			return false
		}
		for i := range x.Args {
			if !f.SameExpr(x.Args[i], y.Args[i]) {
				return false
			}
		}
		return true
	case *ast.SliceExpr:
		y, ok := b.(*ast.SliceExpr)
		return ok && f.SameExpr(x.X, y.X) && f.SameExpr(x.Low, y.Low) && f.SameExpr(x.High, y.High)
	case *ast.TypeAssertExpr:
		y, ok := b.(*ast.TypeAssertExpr)
		return ok && f.SameExpr(x.X, y.X)
	}
	return f.sameTypeExpr(a, b)
}

// SameValue is SameExpr for expressions evaluated at different program points:
// two occurrences of a local variable denote the same value only if the same
// single definition reaches both (or the variable is never reassigned).
func (f *Fn) SameValue(a, b ast.Expr) bool {
	if !f.SameExpr(a, b) {
		return false
	}
	ok := true
	var ia, ib []*ast.Ident
	collect := func(root ast.Expr, out *[]*ast.Ident) {
		ast.Inspect(root, func(n ast.Node) bool {
			if id, isId := n.(*ast.Ident); isId {
				if v, isVar := f.ObjOf(id).(*types.Var); isVar && !v.IsField() && v.Pkg() != nil && v.Parent() != v.Pkg().Scope() {
					*out = append(*out, id)
				}
			}
			return true
		})
	}
	collect(a, &ia)
	collect(b, &ib)
	if len(ia) != len(ib) {
		return true // matched through definitions: structural equality decided it
	}
	for i := range ia {
		if f.ObjOf(ia[i]) != f.ObjOf(ib[i]) || ia[i] == ib[i] {
			continue
		}
		da, db := f.LocalDef(ia[i]), f.LocalDef(ib[i])
		if da != db {
			ok = false
		}
		if da == nil && db == nil && f.reassigned(f.ObjOf(ia[i])) {
			ok = false
		}
	}
	return ok
}

// reassigned: the variable has more than one assignment in the function (a
// parameter or a variable defined once is never reassigned).
func (f *Fn) reassigned(o types.Object) bool {
	if f.nAssign == nil {
		f.nAssign = map[types.Object]int{}
		ast.Inspect(f.Body, func(n ast.Node) bool {
			switch s := n.(type) {
			case *ast.AssignStmt:
				for _, l := range s.Lhs {
					if id, ok := l.(*ast.Ident); ok {
						if o := f.ObjOf(id); o != nil {
							f.nAssign[o]++
						}
					}
				}
			case *ast.IncDecStmt:
				if id, ok := s.X.(*ast.Ident); ok {
					if o := f.ObjOf(id); o != nil {
						f.nAssign[o] += 2
					}
				}
			case *ast.RangeStmt:
				// loop variables have one value per iteration: two reads in the body see the same value, and the
				// merge at the loop head forgets what was known about the previous element
				if s.Tok == token.ASSIGN {
					for _, e := range []ast.Expr{s.Key, s.Value} {
						if id, ok := e.(*ast.Ident); ok {
							if o := f.ObjOf(id); o != nil {
								f.nAssign[o] += 2
							}
						}
					}
				}
			case *ast.ValueSpec:
				for _, id := range s.Names {
					if o := f.Info().Defs[id]; o != nil {
						f.nAssign[o]++
					}
				}
			}
			return true
		})
	}
	_, isParam := o.(*types.Var)
	n := f.nAssign[o]
	if isParam && n == 0 {
		return false
	}
	return n > 1
}

// sameTypeExpr: both are type expressions denoting identical types.
func (f *Fn) sameTypeExpr(a, b ast.Expr) bool {
	ta, oka := f.Info().Types[a]
	tb, okb := f.Info().Types[b]
	return oka && okb && ta.IsType() && tb.IsType() && types.Identical(ta.Type, tb.Type)
}

// SameModulo compares a and b where occurrences of object oa in a correspond to
// ob in b (used for comparator keys: key(x[i]) vs key(x[j])).
func (f *Fn) SameModulo(a, b ast.Expr, oa, ob types.Object) bool {
	a, b = ast.Unparen(a), ast.Unparen(b)
	if a == nil || b == nil {
		return a == b
	}
	switch x := a.(type) {
	case *ast.Ident:
		y, ok := b.(*ast.Ident)
		if !ok {
			return false
		}
		ox, oy := f.ObjOf(x), f.ObjOf(y)
		if ox == oa && oa != nil {
			return oy == ob
		}
		if oy == ob && ob != nil {
			return false
		}
		if ox == nil || oy == nil {
			return x.Name == y.Name
		}
		return ox == oy
	case *ast.BasicLit:
		y, ok := b.(*ast.BasicLit)
		return ok && x.Kind == y.Kind && x.Value == y.Value
	case *ast.SelectorExpr:
		y, ok := b.(*ast.SelectorExpr)
		return ok && x.Sel.Name == y.Sel.Name && f.SameModulo(x.X, y.X, oa, ob)
	case *ast.IndexExpr:
		y, ok := b.(*ast.IndexExpr)
		return ok && f.SameModulo(x.X, y.X, oa, ob) && f.SameModulo(x.Index, y.Index, oa, ob)
	case *ast.StarExpr:
		y, ok := b.(*ast.StarExpr)
		return ok && f.SameModulo(x.X, y.X, oa, ob)
	case *ast.UnaryExpr:
		y, ok := b.(*ast.UnaryExpr)
		return ok && x.Op == y.Op && f.SameModulo(x.X, y.X, oa, ob)
	case *ast.BinaryExpr:
		y, ok := b.(*ast.BinaryExpr)
		return ok && x.Op == y.Op && f.SameModulo(x.X, y.X, oa, ob) && f.SameModulo(x.Y, y.Y, oa, ob)
	case *ast.CallExpr:
		y, ok := b.(*ast.CallExpr)
		if !ok || len(x.Args) != len(y.Args) || !f.SameModulo(x.Fun, y.Fun, oa, ob) {
			return false
		}
		for i := range x.Args {
			if !f.SameModulo(x.Args[i], y.Args[i], oa, ob) {
				return false
			}
		}
		return true
	case *ast.SliceExpr:
		y, ok := b.(*ast.SliceExpr)
		return ok && f.SameModulo(x.X, y.X, oa, ob) && f.SameModulo(x.Low, y.Low, oa, ob) && f.SameModulo(x.High, y.High, oa, ob)
	}
	return f.sameTypeExpr(a, b)
}

// EqParts views a fact as an equality: for `x == y` (Val) or `x != y` (!Val)
// it returns x, y and whether the fact states equality.
func EqParts(ft Fact) (x, y ast.Expr, equal bool, ok bool) {
	be, isBin := ast.Unparen(ft.E).(*ast.BinaryExpr)
	if !isBin {
		return nil, nil, false, false
	}
	switch be.Op {
	case token.EQL:
		return be.X, be.Y, ft.Val, true
	case token.NEQ:
		return be.X, be.Y, !ft.Val, true
	}
	return nil, nil, false, false
}

// IsNilLit reports whether e is the predeclared nil.
func (f *Fn) IsNilLit(e ast.Expr) bool {
	id, ok := ast.Unparen(e).(*ast.Ident)
	if !ok {
		return false
	}
	_, isNil := f.Info().Uses[id].(*types.Nil)
	return isNil
}

// ConstVal returns the constant value of e, if any.
func (f *Fn) ConstVal(e ast.Expr) constant.Value {
	if tv, ok := f.Info().Types[e]; ok {
		return tv.Value
	}
	return nil
}

// IsConstInt reports whether e is the integer constant v.
func (f *Fn) IsConstInt(e ast.Expr, v int64) bool {
	c := f.ConstVal(e)
	if c == nil || c.Kind() != constant.Int {
		return false
	}
	i, ok := constant.Int64Val(c)
	return ok && i == v
}

// IsConstString reports whether e is the string constant v.
func (f *Fn) IsConstString(e ast.Expr, v string) bool {
	c := f.ConstVal(e)
	return c != nil && c.Kind() == constant.String && constant.StringVal(c) == v
}

// IsConstBool reports whether e is the boolean constant v.
func (f *Fn) IsConstBool(e ast.Expr, v bool) bool {
	c := f.ConstVal(e)
	return c != nil && c.Kind() == constant.Bool && constant.BoolVal(c) == v
}

// DefOf finds the expression last assigned to the local variable used at
// `use`: the nearest assignment that precedes the use in the same CFG block
// (straight-line code, including an if-statement's init), or else the unique
// assignment in the whole function. idx is the position in a tuple assignment.
func (g *Graph) DefOf(id *ast.Ident, at Site) (rhs ast.Expr, idx int) {
	rhs, idx, _ = g.defOf(id, at)
	return
}

// ReachingDefsAvoiding lists the assignments to the variable that reach the use along backward paths that take none
// of the cut edges (b -> b.Succs[k]); entry reports that the function entry is reached without any assignment.
func (g *Graph) ReachingDefsAvoiding(id *ast.Ident, at Site, cut func(b *Block, k int) bool) (defs []ast.Node, entry bool) {
	f := g.Fn
	obj := f.ObjOf(id)
	if obj == nil || at.B == nil {
		return nil, true
	}
	preds := g.Preds()
	seen := map[*Block]bool{}
	have := map[ast.Node]bool{}
	var back func(b *Block, from int)
	back = func(b *Block, from int) {
		for i := from; i >= 0; i-- {
			if i >= len(b.Nodes) {
				continue
			}
			nd := b.Nodes[i]
			if nd.End() > id.Pos() && b == at.B && i == at.I {
				continue
			}
			if _, _, _, ok := f.assignTo(nd, obj); ok {
				if !have[nd] {
					have[nd] = true
					defs = append(defs, nd)
				}
				return
			}
		}
		if len(preds[b]) == 0 {
			entry = true
			return
		}
		for _, p := range preds[b] {
			skip := true
			for k, s := range p.Succs {
				if s == b && (cut == nil || !cut(p, k)) {
					skip = false
				}
			}
			if skip || seen[p] {
				continue
			}
			seen[p] = true
			back(p, len(p.Nodes)-1)
		}
	}
	back(at.B, at.I)
	return defs, entry
}

// ReachingDefsUnder is ReachingDefsAvoiding restricted to the executions that never take a cut edge: a block that can
// only be entered through a cut edge contributes nothing (with the cut edges being those that contradict an assumption,
// the result is the set of assignments that can have produced the value when the assumption holds).
func (g *Graph) ReachingDefsUnder(id *ast.Ident, at Site, cut func(b *Block, k int) bool) (defs []ast.Node, entry bool) {
	live := g.reachable(cut)
	if !live[at.B] {
		return nil, false
	}
	return g.ReachingDefsAvoiding(id, at, func(b *Block, k int) bool { return !live[b] || cut(b, k) })
}

type defKey struct {
	id *ast.Ident
	b  *Block
	i  int
}

type defVal struct {
	rhs   ast.Expr
	idx   int
	tuple bool
}

func (g *Graph) defOf(id *ast.Ident, at Site) (rhs ast.Expr, idx int, tuple bool) {
	if g.inDefFilter {
		return g.defOf1(id, at)
	}
	if g.defCache == nil {
		g.defCache = map[defKey]defVal{}
	}
	k := defKey{id, at.B, at.I}
	if v, ok := g.defCache[k]; ok {
		return v.rhs, v.idx, v.tuple
	}
	rhs, idx, tuple = g.defOf1(id, at)
	g.defCache[k] = defVal{rhs, idx, tuple}
	return
}

func (g *Graph) defOf1(id *ast.Ident, at Site) (rhs ast.Expr, idx int, tuple bool) {
	f := g.Fn
	obj := f.ObjOf(id)
	if obj == nil {
		return nil, 0, false
	}
	if at.B != nil {
		// reaching definitions by backward search: on every backward path the nearest
		// assignment; decided only if all paths agree on one assignment.
		type res struct {
			rhs   ast.Expr
			idx   int
			tuple bool
			n     ast.Node
		}
		var defs []res
		undefined := false
		preds := g.Preds()
		seen := map[*Block]bool{}
		var back func(b *Block, from int)
		back = func(b *Block, from int) {
			for i := from; i >= 0; i-- {
				if i >= len(b.Nodes) {
					continue
				}
				nd := b.Nodes[i]
				if nd.End() > id.Pos() && b == at.B && i == at.I {
					// the node containing the use: only an if/switch init placed before it counts
					if r, k, tp, ok := f.assignTo(nd, obj); ok && nd.End() <= id.Pos() {
						defs = append(defs, res{r, k, tp, nd})
						return
					}
					continue
				}
				if r, k, tp, ok := f.assignTo(nd, obj); ok {
					defs = append(defs, res{r, k, tp, nd})
					return
				}
			}
			if len(preds[b]) == 0 {
				undefined = true
				return
			}
			for _, p := range preds[b] {
				if seen[p] {
					continue
				}
				seen[p] = true
				back(p, len(p.Nodes)-1)
			}
		}
		back(at.B, at.I)
		if !undefined && len(defs) > 0 {
			same := true
			for _, d := range defs[1:] {
				if d.n != defs[0].n {
					same = false
				}
			}
			if same {
				return defs[0].rhs, defs[0].idx, defs[0].tuple
			}
			// several definitions reach the use. When the use is reached only with the variable
			// known to be non-nil, the definitions that store nil (or the zero value) are not
			// the ones seen: `var p *T; if c { p = x }; if p != nil { use(p) }` sees x.
			if !g.inDefFilter {
				g.inDefFilter = true
				var nonNil []res
				distinct := map[ast.Node]bool{}
				for _, d := range defs {
					if distinct[d.n] {
						continue
					}
					distinct[d.n] = true
					if d.rhs == nil && !d.tuple {
						if _, isSpec := d.n.(*ast.ValueSpec); isSpec {
							continue // zero value
						}
						nonNil = append(nonNil, d)
						continue
					}
					if d.rhs != nil && f.IsNilLit(d.rhs) {
						continue
					}
					nonNil = append(nonNil, d)
				}
				var out *res
				if len(nonNil) == 1 && len(distinct) > 1 && nonNil[0].rhs != nil {
					isV := func(e ast.Expr) bool { return f.ObjOf(e) == obj }
					if g.Dominated(at, g.GExprNil(false, isV)) {
						out = &nonNil[0]
					}
				}
				// A definition that no feasible path to the use passes is not the one seen either:
				// `r, err = nil, e` (e != nil) ... `if err != nil { return }; use(r)`.
				if out == nil && len(distinct) > 1 && len(distinct) <= 8 {
					var feasible []res
					done := map[ast.Node]bool{}
					for _, d := range defs {
						if done[d.n] {
							continue
						}
						done[d.n] = true
						dn := d.n
						if !g.Dominated(at, GNot(GEvent(func(n ast.Node) bool { return n == dn }))) {
							feasible = append(feasible, d)
						}
					}
					if len(feasible) == 1 && feasible[0].rhs != nil {
						out = &feasible[0]
					}
				}
				g.inDefFilter = false
				if out != nil {
					return out.rhs, out.idx, out.tuple
				}
			}
			return nil, 0, false
		}
		if undefined && len(defs) > 0 {
			// some path from the entry reaches the use without passing a definition (a variable captured from the
			// enclosing function, or one assigned only further down / in a later iteration): the assignments found are
			// not what the use sees on that path
			return nil, 0, false
		}
		if undefined {
			if v, isVar := obj.(*types.Var); isVar && !v.IsField() && f.Body != nil && (v.Pos() < f.Body.Pos() || v.Pos() > f.Body.End()) && v.Pkg() != nil && v.Parent() != v.Pkg().Scope() {
				// captured from the enclosing function: its value at the use is not decided by what this body assigns
				return nil, 0, false
			}
		}
	}
	var found ast.Expr
	var fidx, n int
	var ftuple bool
	ast.Inspect(f.Body, func(nd ast.Node) bool {
		if nd == nil {
			return true
		}
		if r, k, tp, ok := f.assignTo(nd, obj); ok {
			n++
			found, fidx, ftuple = r, k, tp
		}
		return true
	})
	if n == 1 {
		return found, fidx, ftuple
	}
	return nil, 0, false
}

// assignTo reports whether node n is an assignment/definition whose left side
// includes obj, and returns the corresponding right-hand side (nil when the new
// value is not a plain expression: `x += e`, `x++`, `var x T`); tuple says that
// the right-hand side is one multi-valued expression and idx selects the result.
func (f *Fn) assignTo(n ast.Node, obj types.Object) (ast.Expr, int, bool, bool) {
	switch s := n.(type) {
	case *ast.AssignStmt:
		for i, l := range s.Lhs {
			id, ok := l.(*ast.Ident)
			if !ok || f.ObjOf(id) != obj {
				continue
			}
			if s.Tok != token.ASSIGN && s.Tok != token.DEFINE {
				return nil, 0, false, true
			}
			if len(s.Rhs) == len(s.Lhs) {
				return s.Rhs[i], 0, false, true
			}
			if len(s.Rhs) == 1 {
				return s.Rhs[0], i, true, true
			}
		}
	case *ast.IncDecStmt:
		if id, ok := s.X.(*ast.Ident); ok && f.ObjOf(id) == obj {
			return nil, 0, false, true
		}
	case *ast.ValueSpec:
		for i, id := range s.Names {
			if f.Info().Defs[id] != obj {
				continue
			}
			if len(s.Values) == len(s.Names) {
				return s.Values[i], 0, false, true
			}
			if len(s.Values) == 1 {
				return s.Values[0], i, true, true
			}
			return nil, 0, false, true
		}
	case *ast.RangeStmt:
		for _, e := range []ast.Expr{s.Key, s.Value} {
			if id, ok := e.(*ast.Ident); ok && f.ObjOf(id) == obj {
				return nil, 0, false, true
			}
		}
	}
	return nil, 0, false, false
}

// LocalDef returns the expression that defines the local variable used at id
// when that definition is unambiguous: the unique reaching definition at the use
// (or the unique assignment in the function) and a one-to-one assignment
// (`x := E`, `x = E`, `var x = E`), not a tuple. Parameters, range variables and
// variables with several reaching definitions have no LocalDef. The matcher uses
// it to see through temporaries: `k := ip.String(); m[k]` matches `m[IP.String()]`.
func (f *Fn) LocalDef(id *ast.Ident) ast.Expr {
	if f.defCache == nil {
		f.defCache = map[*ast.Ident]ast.Expr{}
	}
	if r, ok := f.defCache[id]; ok {
		return r
	}
	f.defCache[id] = nil
	v, ok := f.ObjOf(id).(*types.Var)
	if !ok || v.IsField() || v.Pkg() == nil || v.Parent() == v.Pkg().Scope() {
		return nil
	}
	if f.Body == nil || id.Pos() < f.Body.Pos() || id.End() > f.Body.End() {
		return nil
	}
	if f.assignedInLit(v) {
		return nil
	}
	g := f.Graph()
	site := g.FactSite(id)
	rhs, idx, tuple := g.defOf(id, site)
	if rhs == nil {
		// `m := X[k]; if m == nil { m = make(...); X[k] = m }`: afterwards m is X[k] again
		if al := f.lazyInitAlias(id, v); al != nil {
			f.defCache[id] = al
			return al
		}
		if al := f.lazyMemoAlias(id, v); al != nil {
			f.defCache[id] = al
			return al
		}
	}
	if rhs == nil || idx != 0 {
		return nil
	}
	if tuple {
		// `v, ok := m[k]`, `v, ok := x.(T)`: v is the value of the expression; calls are not
		switch ast.Unparen(rhs).(type) {
		case *ast.IndexExpr, *ast.TypeAssertExpr:
		default:
			return nil
		}
	}
	// a definition that mentions the variable itself (x = x + 1) is not a definition to see through
	if f.Mentions(rhs, v) {
		return nil
	}
	f.defCache[id] = rhs
	return rhs
}

// lazyInitAlias recognises the lazily created sub-map (or slice, pointer): the local has exactly two definitions, the
// lookup `m := E` (E an index expression or a field) and a fresh value `m = make(..) / T{} / &T{}` inside `if m == nil {
// ... }`, and that same block stores the fresh value back with `E = m`. After the block m denotes E. The use must lie
// after the block. It returns E or nil.
func (f *Fn) lazyInitAlias(id *ast.Ident, v *types.Var) ast.Expr {
	var lookup, fresh *ast.AssignStmt
	n := 0
	ast.Inspect(f.Body, func(nd ast.Node) bool {
		if _, isLit := nd.(*ast.FuncLit); isLit {
			return false
		}
		as, ok := nd.(*ast.AssignStmt)
		if !ok || len(as.Lhs) != len(as.Rhs) {
			if ok {
				for _, l := range as.Lhs {
					if lid, isId := l.(*ast.Ident); isId && f.ObjOf(lid) == types.Object(v) {
						n += 10 // a tuple definition: not the idiom
					}
				}
			}
			return true
		}
		for i, l := range as.Lhs {
			lid, isId := l.(*ast.Ident)
			if !isId || f.ObjOf(lid) != types.Object(v) {
				continue
			}
			n++
			switch r := ast.Unparen(as.Rhs[i]).(type) {
			case *ast.IndexExpr, *ast.SelectorExpr:
				if as.Tok == token.DEFINE && len(as.Lhs) == 1 {
					lookup = as
				}
				_ = r
			default:
				if f.KnownNonNil(as.Rhs[i]) && as.Tok == token.ASSIGN && len(as.Lhs) == 1 {
					fresh = as
				}
			}
		}
		return true
	})
	if n != 2 || lookup == nil || fresh == nil || lookup.End() > fresh.Pos() {
		return nil
	}
	ifs, ok := f.Prog.Parent(f.Prog.Parent(fresh)).(*ast.IfStmt)
	if !ok || ifs.Else != nil || ifs.Init != nil {
		return nil
	}
	// the condition is `m == nil`
	be, ok := ast.Unparen(ifs.Cond).(*ast.BinaryExpr)
	if !ok || be.Op != token.EQL {
		return nil
	}
	var tested ast.Expr
	switch {
	case f.IsNilLit(be.Y):
		tested = be.X
	case f.IsNilLit(be.X):
		tested = be.Y
	}
	if tid, isId := ast.Unparen(tested).(*ast.Ident); !isId || f.ObjOf(tid) != types.Object(v) {
		return nil
	}
	// the block stores the fresh value back into the looked-up place
	elem := lookup.Rhs[0]
	stored := false
	for _, st := range ifs.Body.List {
		as, isAs := st.(*ast.AssignStmt)
		if !isAs || as.Tok != token.ASSIGN || len(as.Lhs) != 1 || len(as.Rhs) != 1 {
			continue
		}
		if rid, isId := ast.Unparen(as.Rhs[0]).(*ast.Ident); isId && f.ObjOf(rid) == types.Object(v) && as.Pos() > fresh.Pos() && f.SameExpr(as.Lhs[0], elem) {
			stored = true
		}
	}
	if !stored || id.Pos() < ifs.End() {
		return nil
	}
	// the if statement follows the lookup directly in the same statement list (nothing in between changes E)
	return elem
}

// Expand returns e with every local variable that has an unambiguous definition
// replaced by that definition (recursively, bounded) and no-op conversions
// removed: the value expression in terms of parameters, loop variables and
// fields. New nodes are created only on the path to a replacement.
func (f *Fn) Expand(e ast.Expr) ast.Expr { return f.expand(e, 0) }

func (f *Fn) expand(e ast.Expr, depth int) ast.Expr {
	if e == nil || depth > 8 {
		return e
	}
	switch x := e.(type) {
	case *ast.ParenExpr:
		return f.expand(x.X, depth)
	case *ast.Ident:
		if f.subst != nil {
			if o := f.ObjOf(x); o != nil {
				if w, ok := f.subst[o]; ok {
					return w
				}
			}
		}
		if d := f.LocalDef(x); d != nil {
			return f.expand(d, depth+1)
		}
		return x
	case *ast.CallExpr:
		if len(x.Args) == 1 {
			if tv, ok := f.Info().Types[x.Fun]; ok && tv.IsType() {
				if at, ok := f.Info().Types[x.Args[0]]; ok && at.Type != nil && types.Identical(at.Type, tv.Type) {
					return f.expand(x.Args[0], depth)
				}
			}
		}
		n := *x
		n.Args = make([]ast.Expr, len(x.Args))
		for i, a := range x.Args {
			n.Args[i] = f.expand(a, depth)
		}
		if sel, ok := x.Fun.(*ast.SelectorExpr); ok {
			if _, isPkg := f.Info().Uses[rootIdent(sel.X)].(*types.PkgName); !isPkg {
				ns := *sel
				ns.X = f.expand(sel.X, depth)
				n.Fun = &ns
			}
		}
		return &n
	case *ast.BinaryExpr:
		n := *x
		n.X, n.Y = f.expand(x.X, depth), f.expand(x.Y, depth)
		return &n
	case *ast.UnaryExpr:
		n := *x
		n.X = f.expand(x.X, depth)
		return &n
	case *ast.StarExpr:
		n := *x
		n.X = f.expand(x.X, depth)
		return &n
	case *ast.IndexExpr:
		if v := f.memoValue(x, depth); v != nil {
			return v
		}
		n := *x
		n.X, n.Index = f.expand(x.X, depth), f.expand(x.Index, depth)
		return &n
	case *ast.SliceExpr:
		n := *x
		n.X = f.expand(x.X, depth)
		if x.Low != nil {
			n.Low = f.expand(x.Low, depth)
		}
		if x.High != nil {
			n.High = f.expand(x.High, depth)
		}
		return &n
	case *ast.SelectorExpr:
		if _, isPkg := f.Info().Uses[rootIdent(x.X)].(*types.PkgName); isPkg {
			return x
		}
		n := *x
		n.X = f.expand(x.X, depth)
		return &n
	}
	return e
}

// memoValue sees through a table filled once per element: for a local map M whose only writes in the enclosing
// function declaration are its creation (make / empty literal) and one `M[k] = E` executed for every element k of a
// range loop, M[x] is E with x in place of k. It returns nil for anything else.
func (f *Fn) memoValue(ix *ast.IndexExpr, depth int) ast.Expr {
	if depth > 6 {
		return nil
	}
	id, ok := ast.Unparen(ix.X).(*ast.Ident)
	if !ok {
		return nil
	}
	m, ok := f.ObjOf(id).(*types.Var)
	if !ok || m.IsField() || m.Pkg() == nil || m.Parent() == m.Pkg().Scope() {
		return nil
	}
	if _, isMap := m.Type().Underlying().(*types.Map); !isMap {
		return nil
	}
	// the enclosing declaration
	var decl *ast.FuncDecl
	for n := f.Prog.Parent(ix); n != nil; n = f.Prog.Parent(n) {
		if fd, ok := n.(*ast.FuncDecl); ok {
			decl = fd
			break
		}
	}
	if decl == nil || decl.Body == nil {
		return nil
	}
	var store *ast.AssignStmt
	bad := false
	ast.Inspect(decl.Body, func(n ast.Node) bool {
		switch s := n.(type) {
		case *ast.AssignStmt:
			for i, l := range s.Lhs {
				l = ast.Unparen(l)
				if lid, isId := l.(*ast.Ident); isId && f.ObjOf(lid) == types.Object(m) {
					// creation: make(...) or an empty literal
					if len(s.Lhs) != len(s.Rhs) {
						bad = true
						continue
					}
					r := ast.Unparen(s.Rhs[i])
					if cl, isLit := r.(*ast.CompositeLit); isLit && len(cl.Elts) == 0 {
						continue
					}
					if c, isCall := r.(*ast.CallExpr); isCall {
						if fid, isId := c.Fun.(*ast.Ident); isId && fid.Name == "make" {
							continue
						}
					}
					bad = true
				}
				if lx, isIx := l.(*ast.IndexExpr); isIx && f.ObjOf(ast.Unparen(lx.X)) == types.Object(m) {
					if store != nil || len(s.Lhs) != 1 || len(s.Rhs) != 1 || s.Tok != token.ASSIGN {
						bad = true
					}
					store = s
				}
			}
		case *ast.IncDecStmt:
			if lx, isIx := ast.Unparen(s.X).(*ast.IndexExpr); isIx && f.ObjOf(ast.Unparen(lx.X)) == types.Object(m) {
				bad = true
			}
		case *ast.UnaryExpr:
			if s.Op == token.AND && f.ObjOf(ast.Unparen(s.X)) == types.Object(m) {
				bad = true
			}
		case *ast.CallExpr:
			// the map handed to another function (delete, clear, a helper) may be changed there
			for _, a := range s.Args {
				if f.ObjOf(ast.Unparen(a)) == types.Object(m) {
					if fid, isId := s.Fun.(*ast.Ident); isId && (fid.Name == "len") {
						continue
					}
					bad = true
				}
			}
		}
		return true
	})
	if bad || store == nil {
		return nil
	}
	rs, ok := f.Prog.Parent(f.Prog.Parent(store)).(*ast.RangeStmt)
	if !ok || rs.Body == nil || len(rs.Body.List) == 0 {
		return nil
	}
	// the store is a statement of the loop body itself (executed for every element) and keyed by the loop variable
	direct := false
	for _, st := range rs.Body.List {
		if st == ast.Stmt(store) {
			direct = true
		}
		switch st.(type) {
		case *ast.AssignStmt, *ast.ExprStmt, *ast.DeclStmt:
		default:
			return nil // branches before the store could skip it
		}
	}
	if !direct {
		return nil
	}
	key := ast.Unparen(store.Lhs[0].(*ast.IndexExpr).Index)
	kid, ok := key.(*ast.Ident)
	if !ok {
		return nil
	}
	kobj := f.ObjOf(kid)
	isLoopVar := false
	for _, lv := range []ast.Expr{rs.Key, rs.Value} {
		if lid, ok := lv.(*ast.Ident); ok && lid.Name != "_" && f.Info().Defs[lid] == kobj {
			isLoopVar = true
		}
	}
	if !isLoopVar || kobj == nil {
		return nil
	}
	old := f.subst
	f.subst = map[types.Object]ast.Expr{kobj: f.expand(ix.Index, depth+1)}
	for k, v := range old {
		if _, dup := f.subst[k]; !dup {
			f.subst[k] = v
		}
	}
	out := f.expand(store.Rhs[0], depth+1)
	f.subst = old
	return out
}

// MemoValue is memoValue for the rules.
func (f *Fn) MemoValue(ix *ast.IndexExpr) ast.Expr { return f.memoValue(ix, 0) }

func rootIdent(e ast.Expr) *ast.Ident {
	id, _ := ast.Unparen(e).(*ast.Ident)
	return id
}

// assignedInLit reports whether a function literal inside f assigns to v (the
// reaching-definition search does not follow calls of closures).
func (f *Fn) assignedInLit(v types.Object) bool {
	if f.litAssigns == nil {
		f.litAssigns = map[types.Object]bool{}
		var inLit func(n ast.Node, lit bool)
		inLit = func(root ast.Node, lit bool) {
			ast.Inspect(root, func(n ast.Node) bool {
				if n == nil {
					return true
				}
				if fl, ok := n.(*ast.FuncLit); ok && n != root {
					inLit(fl.Body, true)
					return false
				}
				if !lit {
					return true
				}
				mark := func(e ast.Expr) {
					if id, ok := e.(*ast.Ident); ok {
						if o := f.ObjOf(id); o != nil {
							f.litAssigns[o] = true
						}
					}
				}
				switch s := n.(type) {
				case *ast.AssignStmt:
					if s.Tok != token.DEFINE {
						for _, l := range s.Lhs {
							mark(l)
						}
					}
				case *ast.IncDecStmt:
					mark(s.X)
				case *ast.UnaryExpr:
					if s.Op == token.AND {
						mark(s.X)
					}
				}
				return true
			})
		}
		inLit(f.Body, false)
	}
	return f.litAssigns[v]
}

// Resolve follows an identifier through LocalDef (repeatedly) and strips
// parentheses and type conversions; other expressions are returned unchanged.
func (f *Fn) Resolve(e ast.Expr) ast.Expr {
	for i := 0; i < 6 && e != nil; i++ {
		e = ast.Unparen(e)
		switch x := e.(type) {
		case *ast.Ident:
			d := f.LocalDef(x)
			if d == nil {
				return e
			}
			e = d
			continue
		case *ast.SelectorExpr:
			if v := f.FieldOfLocalLit(x); v != nil {
				e = v
				continue
			}
		case *ast.CallExpr:
			if len(x.Args) == 1 {
				if tv, ok := f.Info().Types[x.Fun]; ok && tv.IsType() {
					if at, ok := f.Info().Types[x.Args[0]]; ok && at.Type != nil && types.Identical(at.Type, tv.Type) {
						e = x.Args[0]
						continue
					}
				}
			}
		}
		return e
	}
	return e
}

// FieldOfLocalLit sees through a parameter struct: for `in := T{a: x, b: y}` (a struct value held in a local that is
// never written field by field, never has its address taken and has no pointer-receiver method called on it) the
// selector in.a denotes x. It returns nil when the selector is anything else.
func (f *Fn) FieldOfLocalLit(sel *ast.SelectorExpr) ast.Expr {
	id, ok := ast.Unparen(sel.X).(*ast.Ident)
	if !ok {
		return nil
	}
	v, ok := f.ObjOf(id).(*types.Var)
	if !ok || v.IsField() {
		return nil
	}
	if _, isStruct := v.Type().Underlying().(*types.Struct); !isStruct {
		return nil
	}
	fld, ok := f.Info().Uses[sel.Sel].(*types.Var)
	if !ok || !fld.IsField() {
		return nil
	}
	def := f.LocalDef(id)
	if def == nil {
		return nil
	}
	lit, ok := ast.Unparen(def).(*ast.CompositeLit)
	if !ok {
		return nil
	}
	if f.structEscapes == nil {
		f.structEscapes = map[*types.Var]bool{}
	}
	esc, known := f.structEscapes[v]
	if !known {
		InspectNoLit(f.Body, func(n ast.Node) bool {
			switch x := n.(type) {
			case *ast.UnaryExpr:
				if x.Op == token.AND && f.ObjOf(ast.Unparen(x.X)) == types.Object(v) {
					esc = true
				}
			case *ast.AssignStmt:
				for _, l := range x.Lhs {
					if s, ok := ast.Unparen(l).(*ast.SelectorExpr); ok && f.ObjOf(ast.Unparen(s.X)) == types.Object(v) {
						esc = true
					}
				}
			case *ast.IncDecStmt:
				if s, ok := ast.Unparen(x.X).(*ast.SelectorExpr); ok && f.ObjOf(ast.Unparen(s.X)) == types.Object(v) {
					esc = true
				}
			case *ast.SelectorExpr:
				if f.ObjOf(ast.Unparen(x.X)) == types.Object(v) {
					if selc := f.Info().Selections[x]; selc != nil && selc.Kind() == types.MethodVal {
						if sig, ok := selc.Obj().Type().(*types.Signature); ok && sig.Recv() != nil {
							if _, ptr := sig.Recv().Type().(*types.Pointer); ptr {
								esc = true
							}
						}
					}
				}
			}
			return true
		})
		if f.assignedInLit(v) {
			esc = true
		}
		f.structEscapes[v] = esc
	}
	if esc {
		return nil
	}
	for _, el := range lit.Elts {
		kv, ok := el.(*ast.KeyValueExpr)
		if !ok {
			return nil // positional literal: not seen through
		}
		if k, ok := kv.Key.(*ast.Ident); ok && f.Info().Uses[k] == types.Object(fld) {
			return kv.Value
		}
	}
	return nil
}

// FactSite locates the block/index at which a fact's expression is evaluated.
func (g *Graph) FactSite(e ast.Expr) Site {
	for _, b := range g.Blocks {
		for i, n := range b.Nodes {
			if Encloses(n, e) {
				return Site{g, b, i, n, e}
			}
		}
	}
	return Site{G: g}
}

// ---- guard constructors -----------------------------------------------------

// resolveCall follows a local variable to the call that defined it: for the
// idiom `v, err := f(...); if err != nil`, resolveCall(err) yields the call.
func (g *Graph) resolveCall(e ast.Expr) *ast.CallExpr {
	e = ast.Unparen(e)
	if c, ok := e.(*ast.CallExpr); ok {
		return c
	}
	if id, ok := e.(*ast.Ident); ok {
		rhs, _ := g.DefOf(id, g.FactSite(id))
		if rhs != nil {
			if c, ok := ast.Unparen(rhs).(*ast.CallExpr); ok {
				return c
			}
		}
	}
	return nil
}

// okFlagCall: a function of this module that reports success by a trailing bool instead of an error (`v, ok := f()`):
// the fact `ok` (with the value succeeded) stands for the nil error of that call. The flag is the only bool among the
// results and the last of them, so the variable cannot be another result.
func (g *Graph) okFlagCall(ft Fact, succeeded bool) *ast.CallExpr {
	id, isId := ast.Unparen(ft.E).(*ast.Ident)
	if !isId || ft.Val != succeeded {
		return nil
	}
	if b, isB := g.Fn.Info().TypeOf(id).(*types.Basic); !isB || b.Kind() != types.Bool {
		return nil
	}
	rhs, _ := g.DefOf(id, g.FactSite(id))
	if rhs == nil {
		return nil
	}
	c, isCall := ast.Unparen(rhs).(*ast.CallExpr)
	if !isCall {
		return nil
	}
	fo, _ := g.Fn.Callee(c).(*types.Func)
	if fo == nil || fo.Pkg() == nil || !strings.HasPrefix(fo.Pkg().Path(), Module) {
		return nil
	}
	res := fo.Type().(*types.Signature).Results()
	if res.Len() < 2 {
		return nil
	}
	for i := 0; i < res.Len(); i++ {
		b, isB := res.At(i).Type().(*types.Basic)
		if (isB && b.Kind() == types.Bool) != (i == res.Len()-1) {
			return nil
		}
	}
	return c
}

// GCallTrue: the fact states that a call to one of `names` returned true
// (directly, or through a boolean local assigned from it). argOK may inspect the
// call's arguments.
func (g *Graph) GCallBool(val bool, argOK func(*ast.CallExpr) bool, names ...string) Guard {
	return GFunc(func(ft Fact) bool {
		if ft.Val != val {
			return false
		}
		c := g.resolveCall(ft.E)
		if c == nil || g.Fn.IsCallTo(c, names...) == nil {
			return false
		}
		return argOK == nil || argOK(c)
	})
}

// GCallErrNil: the fact states that the error result of a call to `names` is
// nil (`f() == nil`, or `err == nil` where err was assigned from the call).
func (g *Graph) GCallNil(isNil bool, argOK func(*ast.CallExpr) bool, names ...string) Guard {
	return GFunc(func(ft Fact) bool {
		if c := g.okFlagCall(ft, isNil); c != nil {
			return g.Fn.IsCallTo(c, names...) != nil && (argOK == nil || argOK(c))
		}
		x, y, eq, ok := EqParts(ft)
		if !ok {
			return false
		}
		var other ast.Expr
		switch {
		case g.Fn.IsNilLit(y):
			other = x
		case g.Fn.IsNilLit(x):
			other = y
		default:
			return false
		}
		if eq != isNil {
			return false
		}
		c := g.resolveCall(other)
		if c == nil || g.Fn.IsCallTo(c, names...) == nil {
			return false
		}
		return argOK == nil || argOK(c)
	})
}

// GExprNil: the fact states that expression matching pred is (not) nil.
func (g *Graph) GExprNil(isNil bool, pred func(ast.Expr) bool) Guard {
	return GFunc(func(ft Fact) bool {
		x, y, eq, ok := EqParts(ft)
		if !ok || eq != isNil {
			return false
		}
		if g.Fn.IsNilLit(y) {
			return pred(x)
		}
		if g.Fn.IsNilLit(x) {
			return pred(y)
		}
		return false
	})
}

// GBool: the fact states that an expression matching pred has value val.
func GBool(val bool, pred func(ast.Expr) bool) Guard {
	return GFunc(func(ft Fact) bool { return ft.Val == val && pred(ast.Unparen(ft.E)) })
}

// GCompare: the fact is a comparison `l op r` (or mirrored) holding with value
// val, where op is one of ops as written when l is on the left.
func GCompare(val bool, op token.Token, l, r func(ast.Expr) bool) Guard {
	mirror := map[token.Token]token.Token{token.LSS: token.GTR, token.GTR: token.LSS, token.LEQ: token.GEQ,
		token.GEQ: token.LEQ, token.EQL: token.EQL, token.NEQ: token.NEQ}
	neg := map[token.Token]token.Token{token.LSS: token.GEQ, token.GTR: token.LEQ, token.LEQ: token.GTR,
		token.GEQ: token.LSS, token.EQL: token.NEQ, token.NEQ: token.EQL}
	return GFunc(func(ft Fact) bool {
		be, ok := ast.Unparen(ft.E).(*ast.BinaryExpr)
		if !ok {
			return false
		}
		eff := be.Op
		if !ft.Val {
			eff, ok = neg[be.Op]
			if !ok {
				return false
			}
		}
		want := op
		if !val {
			want = neg[op]
		}
		if eff == want && l(be.X) && r(be.Y) {
			return true
		}
		if m, ok := mirror[eff]; ok && m == want && l(be.Y) && r(be.X) {
			return true
		}
		return false
	})
}

// IsLenOf builds a predicate: e is len(x) with x satisfying pred.
func (f *Fn) IsLenOf(pred func(ast.Expr) bool) func(ast.Expr) bool {
	return func(e ast.Expr) bool {
		c, ok := ast.Unparen(e).(*ast.CallExpr)
		if !ok || len(c.Args) != 1 {
			return false
		}
		id, ok := c.Fun.(*ast.Ident)
		if !ok {
			return false
		}
		if b, ok := f.Info().Uses[id].(*types.Builtin); !ok || b.Name() != "len" {
			return false
		}
		return pred(c.Args[0])
	}
}

// IsObj builds a predicate: e is an identifier/selector resolving to o.
func (f *Fn) IsObj(o types.Object) func(ast.Expr) bool {
	return func(e ast.Expr) bool { return f.Denotes(e, o) }
}

// Denotes reports whether e is the object o, directly or through temporaries
// (`t := o; ... t`), see LocalDef.
func (f *Fn) Denotes(e ast.Expr, o types.Object) bool {
	if o == nil || e == nil {
		return false
	}
	// step by step through the temporaries: t := o resolves to o, which may itself have a definition
	for i := 0; i < 6 && e != nil; i++ {
		e = ast.Unparen(e)
		if f.ObjOf(e) == o {
			return true
		}
		if c, isCall := e.(*ast.CallExpr); isCall && len(c.Args) == 1 {
			if tv, ok := f.Info().Types[c.Fun]; ok && tv.IsType() {
				e = c.Args[0] // a conversion
				continue
			}
		}
		if sel, isSel := e.(*ast.SelectorExpr); isSel {
			if v := f.FieldOfLocalLit(sel); v != nil {
				e = v
				continue
			}
		}
		id, ok := e.(*ast.Ident)
		if !ok {
			return false
		}
		e = f.LocalDef(id)
	}
	return false
}

// IsInt builds a predicate: e is the integer constant v.
func (f *Fn) IsInt(v int64) func(ast.Expr) bool {
	return func(e ast.Expr) bool { return f.IsConstInt(e, v) }
}

// IsStr builds a predicate: e is the string constant v.
func (f *Fn) IsStr(v string) func(ast.Expr) bool {
	return func(e ast.Expr) bool { return f.IsConstString(e, v) }
}

// Any accepts every expression.
func Any(ast.Expr) bool { return true }

// Param returns the object of the i-th parameter (flattened) of the function.
func (f *Fn) Param(i int) *types.Var {
	k := 0
	for _, fld := range f.Type.Params.List {
		if len(fld.Names) == 0 {
			if k == i {
				return nil
			}
			k++
			continue
		}
		for _, nm := range fld.Names {
			if k == i {
				v, _ := f.Info().Defs[nm].(*types.Var)
				return v
			}
			k++
		}
	}
	return nil
}

// ParamNamed returns the parameter with the given name.
func (f *Fn) ParamNamed(name string) *types.Var {
	for _, fld := range f.Type.Params.List {
		for _, nm := range fld.Names {
			if nm.Name == name {
				v, _ := f.Info().Defs[nm].(*types.Var)
				return v
			}
		}
	}
	return nil
}

// Recv returns the receiver variable of a method.
func (f *Fn) Recv() *types.Var {
	if f.Decl == nil || f.Decl.Recv == nil || len(f.Decl.Recv.List) == 0 || len(f.Decl.Recv.List[0].Names) == 0 {
		return nil
	}
	v, _ := f.Info().Defs[f.Decl.Recv.List[0].Names[0]].(*types.Var)
	return v
}

// Src renders an expression compactly for messages.
func (f *Fn) Src(e ast.Node) string {
	if e == nil {
		return ""
	}
	if x, ok := e.(ast.Expr); ok {
		return types.ExprString(x)
	}
	return f.Prog.Rel(e.Pos())
}

func constantInt(c constant.Value) (int64, bool) {
	if c.Kind() != constant.Int {
		return 0, false
	}
	return constant.Int64Val(c)
}

// ValuesUnder lists the expressions the local variable named by id can hold at the site in the executions that take
// none of the cut edges: its reaching definitions there, each followed through plain copies of other locals (at the
// place of the definition, under the same assumption). ok is false when a value is not an expression (a parameter or
// a variable not assigned on some path, `x++`, a range variable, a result of a multi-valued call).
func (g *Graph) ValuesUnder(id *ast.Ident, at Site, cut func(b *Block, k int) bool) (vals []ast.Expr, ok bool) {
	return g.valuesUnder(id, at, cut, 0)
}

func (g *Graph) valuesUnder(id *ast.Ident, at Site, cut func(b *Block, k int) bool, depth int) ([]ast.Expr, bool) {
	f := g.Fn
	obj, isVar := f.ObjOf(id).(*types.Var)
	if !isVar || obj.IsField() || obj.Pkg() == nil || obj.Parent() == obj.Pkg().Scope() || depth > 4 {
		return []ast.Expr{id}, true
	}
	if f.Body == nil || obj.Pos() < f.Body.Pos() || obj.Pos() > f.Body.End() {
		return []ast.Expr{id}, true // a parameter: itself
	}
	defs, entry := g.ReachingDefsUnder(id, at, cut)
	if entry || len(defs) == 0 {
		return nil, false
	}
	var out []ast.Expr
	for _, d := range defs {
		rhs, _, tuple, has := f.assignTo(d, obj)
		if !has || rhs == nil || tuple {
			return nil, false
		}
		if rid, isId := ast.Unparen(rhs).(*ast.Ident); isId {
			sites := g.Find(func(n ast.Node) bool { return n == d })
			if len(sites) == 1 {
				if vs, ok := g.valuesUnder(rid, sites[0], cut, depth+1); ok {
					out = append(out, vs...)
					continue
				}
			}
			return nil, false
		}
		out = append(out, rhs)
	}
	return out, true
}

// ReachingValue is one definition that can have produced the value of a local at a use.
type ReachingValue struct {
	Def Site     // the defining statement
	Rhs ast.Expr // the assigned expression (nil for x++, range variables, results of a multi-valued call)
}

// ReachingValues lists the definitions of the local that reach the site (no assumption); ok is false when the function
// entry reaches the site without a definition.
func (g *Graph) ReachingValues(id *ast.Ident, at Site) (out []ReachingValue, ok bool) {
	f := g.Fn
	obj := f.ObjOf(id)
	defs, entry := g.ReachingDefsAvoiding(id, at, nil)
	if entry || obj == nil {
		return nil, false
	}
	for _, d := range defs {
		rhs, _, tuple, has := f.assignTo(d, obj)
		if !has || tuple {
			rhs = nil
		}
		sites := g.Find(func(n ast.Node) bool { return n == d })
		if len(sites) != 1 {
			return nil, false
		}
		out = append(out, ReachingValue{Def: sites[0], Rhs: rhs})
	}
	return out, true
}

// lazyMemoAlias recognises the memoised computation
//
//	v, ok := M[K]
//	if !ok { v = E; M[K] = v }
//
// where M is a local map of the function with no other store and E mentions, besides K's variables, only variables
// that are never assigned again: afterwards v is E (computed now or on an earlier occasion for the same key). The use
// must lie after the if statement. It returns E or nil.
func (f *Fn) lazyMemoAlias(id *ast.Ident, v *types.Var) ast.Expr {
	var lookup, fresh *ast.AssignStmt
	n := 0
	ast.Inspect(f.Body, func(nd ast.Node) bool {
		as, ok := nd.(*ast.AssignStmt)
		if !ok {
			return true
		}
		for i, l := range as.Lhs {
			lid, isId := l.(*ast.Ident)
			if !isId || f.ObjOf(lid) != types.Object(v) {
				continue
			}
			n++
			switch {
			case as.Tok == token.DEFINE && len(as.Lhs) == 2 && len(as.Rhs) == 1 && i == 0:
				if _, isIx := ast.Unparen(as.Rhs[0]).(*ast.IndexExpr); isIx {
					lookup = as
				}
			case as.Tok == token.ASSIGN && len(as.Lhs) == 1 && len(as.Rhs) == 1:
				fresh = as
			}
		}
		return true
	})
	if n != 2 || lookup == nil || fresh == nil || lookup.End() > fresh.Pos() {
		return nil
	}
	ix := ast.Unparen(lookup.Rhs[0]).(*ast.IndexExpr)
	mid, isId := ast.Unparen(ix.X).(*ast.Ident)
	if !isId {
		return nil
	}
	mobj, isVar := f.ObjOf(mid).(*types.Var)
	if !isVar || mobj.IsField() || mobj.Pkg() == nil || mobj.Parent() == mobj.Pkg().Scope() {
		return nil
	}
	if _, isMap := mobj.Type().Underlying().(*types.Map); !isMap {
		return nil
	}
	okID, isOk := lookup.Lhs[1].(*ast.Ident)
	if !isOk {
		return nil
	}
	okObj := f.ObjOf(okID)
	ifs, ok := f.Prog.Parent(f.Prog.Parent(fresh)).(*ast.IfStmt)
	if !ok || ifs.Else != nil || ifs.Init != nil {
		return nil
	}
	ue, isNot := ast.Unparen(ifs.Cond).(*ast.UnaryExpr)
	if !isNot || ue.Op != token.NOT {
		return nil
	}
	if cid, isCid := ast.Unparen(ue.X).(*ast.Ident); !isCid || f.ObjOf(cid) != okObj || okObj == nil {
		return nil
	}
	// the only store into M (in the whole enclosing declaration, literals included) is M[K] = v in this block
	stores, good := 0, false
	var root ast.Node = f.Body
	if f.Decl != nil {
		root = f.Decl
	}
	for m := f.Prog.Parent(f.Body); m != nil; m = f.Prog.Parent(m) {
		if fd, isFd := m.(*ast.FuncDecl); isFd {
			root = fd
		}
	}
	ast.Inspect(root, func(nd ast.Node) bool {
		switch y := nd.(type) {
		case *ast.AssignStmt:
			for i, l := range y.Lhs {
				lx, isIx := ast.Unparen(l).(*ast.IndexExpr)
				if isIx {
					if xi, isXi := ast.Unparen(lx.X).(*ast.Ident); isXi && f.Info().Uses[xi] == types.Object(mobj) {
						stores++
						if y.Tok == token.ASSIGN && len(y.Lhs) == 1 && len(y.Rhs) == 1 && i == 0 && y.Pos() > fresh.Pos() && y.End() <= ifs.End() && f.SameExpr(lx.Index, ix.Index) {
							if rid, isRid := ast.Unparen(y.Rhs[0]).(*ast.Ident); isRid && f.ObjOf(rid) == types.Object(v) {
								good = true
							}
						}
					}
				}
				if li, isLi := ast.Unparen(l).(*ast.Ident); isLi && y.Tok == token.ASSIGN && f.Info().Uses[li] == types.Object(mobj) {
					stores += 10 // the map itself replaced
				}
			}
		case *ast.CallExpr:
			if fid, isF := y.Fun.(*ast.Ident); isF && (fid.Name == "delete" || fid.Name == "clear") && len(y.Args) > 0 {
				if xi, isXi := ast.Unparen(y.Args[0]).(*ast.Ident); isXi && f.Info().Uses[xi] == types.Object(mobj) {
					stores += 10
				}
			}
		}
		return true
	})
	if stores != 1 || !good || id.Pos() < ifs.End() {
		return nil
	}
	// E depends, besides the key, only on variables that keep their value
	e := fresh.Rhs[0]
	stable := true
	ast.Inspect(e, func(nd ast.Node) bool {
		x, isX := nd.(*ast.Ident)
		if !isX {
			return true
		}
		o, isV := f.Info().Uses[x].(*types.Var)
		if !isV || o.IsField() || o.Pkg() == nil || o.Parent() == o.Pkg().Scope() {
			return true
		}
		inKey := false
		ast.Inspect(ix.Index, func(k ast.Node) bool {
			if ki, isKi := k.(*ast.Ident); isKi && f.Info().Uses[ki] == types.Object(o) {
				inKey = true
			}
			return true
		})
		if inKey {
			return true
		}
		nAs := 0
		ast.Inspect(root, func(k ast.Node) bool {
			switch y := k.(type) {
			case *ast.AssignStmt:
				for _, l := range y.Lhs {
					if li, isLi := ast.Unparen(l).(*ast.Ident); isLi && (f.Info().Uses[li] == types.Object(o) || f.Info().Defs[li] == types.Object(o)) {
						nAs++
					}
				}
			case *ast.IncDecStmt:
				if li, isLi := ast.Unparen(y.X).(*ast.Ident); isLi && f.Info().Uses[li] == types.Object(o) {
					nAs += 2
				}
			case *ast.UnaryExpr:
				if li, isLi := ast.Unparen(y.X).(*ast.Ident); isLi && y.Op == token.AND && f.Info().Uses[li] == types.Object(o) {
					nAs += 2
				}
			}
			return true
		})
		if nAs > 1 {
			stable = false
		}
		return true
	})
	if !stable {
		return nil
	}
	return e
}
