package chk

import (
	"strings"
	"text/template/parse"
)

// InlineRecordCalls splices, into every parsed template, the body of each called template that is not one of `keep`
// and that is called with a record built in place:
//
//	{{template "x" dict "k1" V1 "k2" V2}}      with   {{define "x"}} .. {{.k1.F}} .. {{.k2}} .. {{end}}
//
// becomes the body of x with `.k1` / `$.k1` standing for V1 and `.k2` for V2 (text/template: the called template is
// executed with the record as its dot and as its `$`; `.k` of a map is the entry k). An entry that is a string constant
// and is printed as it is ({{.k}}) becomes literal text; `{{printf "a %d b" V}}` with only %d / %s / %v verbs becomes
// `a {{V}} b`. The rewrite is refused (the call is left as written) when the body uses the bare dot, declares
// variables, or rebinds the dot (range / with) while an entry depends on the caller's dot. Templates in `keep` are the
// ones the structure rules know by name. Call it after the templates were type-checked as written.
func (ts *TemplateSet) InlineRecordCalls(keep map[string]bool) (inlined []string) {
	for round := 0; round < 3; round++ {
		changed := false
		for name, t := range ts.Trees {
			if t == nil || t.Root == nil {
				continue
			}
			if ts.inlineIn(name, t.Root, keep, &inlined) {
				changed = true
			}
		}
		if !changed {
			break
		}
	}
	return inlined
}

func (ts *TemplateSet) inlineIn(from string, l *parse.ListNode, keep map[string]bool, inlined *[]string) bool {
	if l == nil {
		return false
	}
	changed := false
	var out []parse.Node
	for _, n := range l.Nodes {
		switch x := n.(type) {
		case *parse.TemplateNode:
			if body, ok := ts.recordCallBody(from, x, keep); ok {
				out = append(out, body...)
				*inlined = append(*inlined, from+" <- "+x.Name)
				changed = true
				continue
			}
		case *parse.IfNode:
			changed = ts.inlineIn(from, x.List, keep, inlined) || changed
			changed = ts.inlineIn(from, x.ElseList, keep, inlined) || changed
		case *parse.RangeNode:
			changed = ts.inlineIn(from, x.List, keep, inlined) || changed
			changed = ts.inlineIn(from, x.ElseList, keep, inlined) || changed
		case *parse.WithNode:
			changed = ts.inlineIn(from, x.List, keep, inlined) || changed
			changed = ts.inlineIn(from, x.ElseList, keep, inlined) || changed
		}
		out = append(out, n)
	}
	l.Nodes = out
	return changed
}

func (ts *TemplateSet) recordCallBody(from string, call *parse.TemplateNode, keep map[string]bool) ([]parse.Node, bool) {
	if keep[call.Name] || call.Name == from || call.Pipe == nil || len(call.Pipe.Decl) != 0 || len(call.Pipe.Cmds) != 1 {
		return nil, false
	}
	callee := ts.Trees[call.Name]
	if callee == nil || callee.Root == nil {
		return nil, false
	}
	cmd := call.Pipe.Cmds[0]
	if len(cmd.Args) < 1 || len(cmd.Args)%2 != 1 {
		return nil, false
	}
	if id, ok := cmd.Args[0].(*parse.IdentifierNode); !ok || id.Ident != ts.DictFunc {
		return nil, false
	}
	vals := map[string]parse.Node{}
	dotFree := true
	for i := 1; i+1 < len(cmd.Args); i += 2 {
		k, ok := cmd.Args[i].(*parse.StringNode)
		if !ok {
			return nil, false
		}
		if _, dup := vals[k.Text]; dup {
			return nil, false
		}
		vals[k.Text] = cmd.Args[i+1]
		if !tplDotFree(cmd.Args[i+1]) {
			dotFree = false
		}
	}
	body := callee.Root.CopyList()
	ok := true
	var subst func(n parse.Node, rebound bool) parse.Node
	withRest := func(v parse.Node, rest []string) parse.Node {
		switch y := v.(type) {
		case *parse.VariableNode:
			c := y.Copy().(*parse.VariableNode)
			c.Ident = append(append([]string{}, y.Ident...), rest...)
			return c
		case *parse.FieldNode:
			c := y.Copy().(*parse.FieldNode)
			c.Ident = append(append([]string{}, y.Ident...), rest...)
			return c
		case *parse.DotNode:
			if len(rest) == 0 {
				return y.Copy()
			}
			return &parse.FieldNode{NodeType: parse.NodeField, Pos: y.Pos, Ident: append([]string{}, rest...)}
		case *parse.PipeNode:
			if len(rest) == 0 {
				return y.Copy()
			}
			return &parse.ChainNode{NodeType: parse.NodeChain, Pos: y.Pos, Node: y.Copy(), Field: append([]string{}, rest...)}
		case *parse.ChainNode:
			c := y.Copy().(*parse.ChainNode)
			c.Field = append(append([]string{}, y.Field...), rest...)
			return c
		case *parse.StringNode, *parse.NumberNode, *parse.BoolNode, *parse.NilNode:
			if len(rest) == 0 {
				return y.Copy()
			}
		}
		ok = false
		return v
	}
	fixPipe := func(p *parse.PipeNode, rebound bool) {
		if p == nil {
			return
		}
		if len(p.Decl) != 0 {
			ok = false
		}
		for _, c := range p.Cmds {
			for i, a := range c.Args {
				c.Args[i] = subst(a, rebound)
			}
		}
	}
	subst = func(n parse.Node, rebound bool) parse.Node {
		switch y := n.(type) {
		case *parse.FieldNode:
			if rebound {
				return n // a field of the range element / with value
			}
			v, has := vals[y.Ident[0]]
			if !has {
				ok = false
				return n
			}
			return withRest(v, y.Ident[1:])
		case *parse.VariableNode:
			if len(y.Ident) >= 2 && y.Ident[0] == "$" {
				v, has := vals[y.Ident[1]]
				if !has {
					ok = false
					return n
				}
				return withRest(v, y.Ident[2:])
			}
			if len(y.Ident) == 1 && y.Ident[0] == "$" {
				ok = false
			}
		case *parse.DotNode:
			if !rebound {
				ok = false // the record itself
			}
		case *parse.PipeNode:
			fixPipe(y, rebound)
		case *parse.ChainNode:
			y.Node = subst(y.Node, rebound)
		case *parse.CommandNode:
			for i, a := range y.Args {
				y.Args[i] = subst(a, rebound)
			}
		}
		return n
	}
	var walk func(l *parse.ListNode, rebound bool)
	walk = func(l *parse.ListNode, rebound bool) {
		if l == nil {
			return
		}
		var out []parse.Node
		for _, n := range l.Nodes {
			switch y := n.(type) {
			case *parse.ActionNode:
				fixPipe(y.Pipe, rebound)
				out = append(out, tplSimplifyAction(y)...)
				continue
			case *parse.TemplateNode:
				fixPipe(y.Pipe, rebound)
			case *parse.IfNode:
				fixPipe(y.Pipe, rebound)
				walk(y.List, rebound)
				walk(y.ElseList, rebound)
			case *parse.RangeNode:
				if !dotFree {
					ok = false
				}
				if y.Pipe != nil && len(y.Pipe.Decl) != 0 {
					ok = false
				}
				saved := y.Pipe.Decl
				y.Pipe.Decl = nil
				fixPipe(y.Pipe, rebound)
				y.Pipe.Decl = saved
				walk(y.List, true)
				walk(y.ElseList, rebound)
			case *parse.WithNode:
				if !dotFree {
					ok = false
				}
				fixPipe(y.Pipe, rebound)
				walk(y.List, true)
				walk(y.ElseList, rebound)
			}
			out = append(out, n)
		}
		l.Nodes = out
	}
	walk(body, false)
	if !ok {
		return nil, false
	}
	return body.Nodes, true
}

// tplDotFree: the argument does not read the dot (variables, constants and calls on them only).
func tplDotFree(n parse.Node) bool {
	switch y := n.(type) {
	case *parse.DotNode, *parse.FieldNode:
		return false
	case *parse.PipeNode:
		for _, c := range y.Cmds {
			for _, a := range c.Args {
				if !tplDotFree(a) {
					return false
				}
			}
		}
	case *parse.ChainNode:
		return tplDotFree(y.Node)
	case *parse.CommandNode:
		for _, a := range y.Args {
			if !tplDotFree(a) {
				return false
			}
		}
	}
	return true
}

// tplSimplifyAction: an action that prints a string constant is that text; one that prints a parenthesised pipeline is
// the pipeline; `printf "fmt" args..` with plain %d / %s / %v verbs is the text of the format with the arguments printed
// in place.
func tplSimplifyAction(a *parse.ActionNode) []parse.Node {
	if a.Pipe == nil || len(a.Pipe.Decl) != 0 || len(a.Pipe.Cmds) != 1 {
		return []parse.Node{a}
	}
	cmd := a.Pipe.Cmds[0]
	if len(cmd.Args) == 1 {
		switch y := cmd.Args[0].(type) {
		case *parse.StringNode:
			return []parse.Node{&parse.TextNode{NodeType: parse.NodeText, Pos: a.Pos, Text: []byte(y.Text)}}
		case *parse.PipeNode:
			if len(y.Decl) == 0 {
				c := *a
				c.Pipe = y
				return tplSimplifyAction(&c)
			}
		}
		return []parse.Node{a}
	}
	if id, ok := cmd.Args[0].(*parse.IdentifierNode); ok && id.Ident == "printf" && len(cmd.Args) >= 2 {
		f, isStr := cmd.Args[1].(*parse.StringNode)
		if !isStr {
			return []parse.Node{a}
		}
		var out []parse.Node
		rest := f.Text
		argi := 2
		for {
			i := strings.IndexByte(rest, '%')
			if i < 0 {
				break
			}
			if i+1 >= len(rest) {
				return []parse.Node{a}
			}
			switch rest[i+1] {
			case '%':
				// a literal percent sign: keep the action as written (rare)
				return []parse.Node{a}
			case 'd', 's', 'v':
				if argi >= len(cmd.Args) {
					return []parse.Node{a}
				}
				if i > 0 {
					out = append(out, &parse.TextNode{NodeType: parse.NodeText, Pos: a.Pos, Text: []byte(rest[:i])})
				}
				pipe := &parse.PipeNode{NodeType: parse.NodePipe, Pos: a.Pos, Line: a.Line, Cmds: []*parse.CommandNode{{NodeType: parse.NodeCommand, Pos: a.Pos, Args: []parse.Node{cmd.Args[argi]}}}}
				if pn, isPipe := cmd.Args[argi].(*parse.PipeNode); isPipe && len(pn.Decl) == 0 {
					pipe = pn
				}
				out = append(out, &parse.ActionNode{NodeType: parse.NodeAction, Pos: a.Pos, Line: a.Line, Pipe: pipe})
				argi++
				rest = rest[i+2:]
			default:
				return []parse.Node{a}
			}
		}
		if argi != len(cmd.Args) {
			return []parse.Node{a}
		}
		if rest != "" {
			out = append(out, &parse.TextNode{NodeType: parse.NodeText, Pos: a.Pos, Text: []byte(rest)})
		}
		return out
	}
	return []parse.Node{a}
}
