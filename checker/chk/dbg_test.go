package chk

import (
	"fmt"
	"go/ast"
	"os"
	"testing"
)

func TestDbg(t *testing.T) {
	if os.Getenv("DBG_FUNC") == "" {
		t.Skip()
	}
	Anchors.AddIdents("poolsFor", "cidrsOverlap", "addressPoolFromCR")
	p, err := LoadNormalised(LoadOpts{}, nil)
	if err != nil {
		t.Fatal(err)
	}
	f := p.LookupFunc(os.Getenv("DBG_PKG"), os.Getenv("DBG_RECV"), os.Getenv("DBG_FUNC"))
	g := f.Graph()
	fl := g.boolFlags()
	fmt.Println("flags", fl, "nil", g.nilFlags)
	for _, rs := range f.RangeLoops(func(e ast.Expr) bool { id, ok := e.(*ast.Ident); return ok && id.Name == "allCIDRs" }) {
		for o := range g.nilFlags {
			isF := f.IsObj(o)
			fmt.Println(p.Rel(rs.Pos()), o.Name(), p.Rel(o.Pos()), "entryNil", g.LoopEntryDominated(rs, g.GExprNil(true, isF)))
			ga := g.newGuardAnalysis(g.GExprNil(true, isF), true)
			ga.full()
			fmt.Println("  flags tracked", ga.ca.flags, "fties", ga.fties, "nLeaf", ga.nLeaf)
		}
	}
}

func TestDbg2(t *testing.T) {
	if os.Getenv("DBG_FUNC") == "" {
		t.Skip()
	}
	Anchors.AddIdents("poolsFor", "cidrsOverlap", "addressPoolFromCR")
	p, err := LoadNormalised(LoadOpts{}, nil)
	if err != nil {
		t.Fatal(err)
	}
	f := p.LookupFunc(os.Getenv("DBG_PKG"), os.Getenv("DBG_RECV"), os.Getenv("DBG_FUNC"))
	g := f.Graph()
	for _, b := range g.Blocks {
		for k := range b.Succs {
			c := g.edgeCond(b, k)
			if c == nil || k != 0 {
				continue
			}
			fmt.Println("cond", p.Rel(c.E.Pos()), f.Src(c.E))
		}
	}
}
