package chk

// Canonicalisation (round 0 of the normalisation pre-pass). Two rewrites that undo common, behaviour-preserving
// re-spellings before the helpers are expanded:
//
//  1. calls of the generic search functions of the standard library (slices.Contains, ContainsFunc, Index, IndexFunc,
//     slices.Collect / slices.Sorted of maps.Keys / maps.Values, ranging over maps.Keys / maps.Values) are replaced by
//     calls of synthesised, monomorphic package-local helpers with the obvious loop bodies; the ordinary expansion rounds
//     then inline those helpers, so that a rule sees the same loop whether the code spells it out or calls the library;
//  2. an anchored method that was turned into a plain function of the same name taking the receiver as its first
//     parameter (or dropping an unused receiver) is turned back into the method, call sites included.
//
// Both are source-to-source edits checked by re-type-checking the result; when that fails the original text is analysed.

import (
	"fmt"
	"go/ast"
	"go/constant"
	"go/token"
	"go/types"
	"sort"
	"strings"
)

// MethodAnchors lists the anchored methods of the pinned tree as "pkgsuffix.Recv.name" (filled by the rules package from
// its LookupFunc calls during the dry run).
var MethodAnchors = struct {
	m map[string]bool
}{m: map[string]bool{}}

func noteMethodAnchor(pkg, recv, name string) {
	if recv == "" {
		return
	}
	Anchors.mu.Lock()
	MethodAnchors.m[pkg+"."+recv+"."+name] = true
	Anchors.mu.Unlock()
}

func methodAnchorsSnapshot() []string {
	Anchors.mu.Lock()
	defer Anchors.mu.Unlock()
	var out []string
	for k := range MethodAnchors.m {
		out = append(out, k)
	}
	sort.Strings(out)
	return out
}

type canonPlan struct {
	roundPlan
	notes []string
}

// planCanon plans the canonicalisation; stdlib and methods select the two rewrites (so that one can be retried alone
// when the combination does not type-check).
func planCanon(p *Prog, stdlib, methods bool) canonPlan {
	in := &inliner{p: p, files: map[string]*fileEdits{}, elig: map[*Fn]bool{}}
	plan := canonPlan{roundPlan: roundPlan{files: in.files}}
	ctr := 0
	for _, pkg := range p.Pkgs {
		if !stdlib {
			break
		}
		info := pkg.TypesInfo
		for _, file := range pkg.Syntax {
			fname := p.Fset.Position(file.Pos()).Filename
			if strings.HasSuffix(fname, "_test.go") {
				continue
			}
			var decls []string
			keep := map[string]bool{}
			keepPkg := map[string]string{}        // import name -> a member that stays referenced (keeps the import used)
			extraImports := map[string]string{}   // confirmed: used by an emitted helper
			pendingImports := map[string]string{} // seen while rendering the types of the helper being considered
			qualOK := true
			qual := func(at token.Pos) types.Qualifier {
				scope := pkg.Types.Scope().Innermost(at)
				return func(q *types.Package) string {
					if q == pkg.Types {
						return ""
					}
					for _, imp := range file.Imports {
						if strings.Trim(imp.Path.Value, "\"") != q.Path() {
							continue
						}
						name := q.Name()
						if imp.Name != nil {
							name = imp.Name.Name
						}
						if name == "." || name == "_" {
							qualOK = false
						}
						if scope != nil {
							if _, o := scope.LookupParent(name, at); o != nil {
								if pn, isPkg := o.(*types.PkgName); !isPkg || pn.Imported() != q {
									qualOK = false
								}
							}
						}
						return name
					}
					// a package the file does not import yet: imported for the synthesised helper when its name is free
					if _, o := pkg.Types.Scope().LookupParent(q.Name(), token.NoPos); o == nil && pkg.Types.Scope().Lookup(q.Name()) == nil {
						clash := false
						for _, imp := range file.Imports {
							n := ""
							if imp.Name != nil {
								n = imp.Name.Name
							} else if ip := pkg.Types.Imports(); ip != nil {
								for _, pp := range ip {
									if pp.Path() == strings.Trim(imp.Path.Value, "\"") {
										n = pp.Name()
									}
								}
							}
							if n == q.Name() {
								clash = true
							}
						}
						if scope != nil {
							if _, o := scope.LookupParent(q.Name(), at); o != nil {
								clash = true
							}
						}
						if !clash {
							pendingImports[q.Path()] = q.Name()
							return q.Name()
						}
					}
					qualOK = false
					return q.Name()
				}
			}
			typeText := func(t types.Type, at token.Pos) (string, bool) {
				qualOK = true
				if mentionsTypeParam(t) {
					return "", false
				}
				s := types.TypeString(t, qual(at))
				return s, qualOK
			}
			stdName := func(e ast.Expr) string {
				var id *ast.Ident
				switch f := ast.Unparen(e).(type) {
				case *ast.SelectorExpr:
					id = f.Sel
				case *ast.IndexExpr:
					if s, ok := f.X.(*ast.SelectorExpr); ok {
						id = s.Sel
					}
				}
				if id == nil {
					return ""
				}
				fo, ok := info.Uses[id].(*types.Func)
				if !ok || fo.Pkg() == nil {
					return ""
				}
				return fo.Pkg().Path() + "." + fo.Name()
			}
			pkgIdent := func(e ast.Expr) string {
				if s, ok := ast.Unparen(e).(*ast.SelectorExpr); ok {
					if id, ok := s.X.(*ast.Ident); ok {
						return id.Name
					}
				}
				return ""
			}
			addedSort := false
			var taken [][2]token.Pos
			free := func(a, b token.Pos) bool {
				for _, r := range taken {
					if a < r[1] && r[0] < b {
						return false
					}
				}
				return true
			}
			// v := slices.MinFunc(S, cmp) where S is a local slice that is not used afterwards (and the statement is not in
			// a loop or a literal) is the first element of S sorted by cmp:  sort.Slice(S, less); v := S[0]
			minAssign := map[*ast.CallExpr]*ast.AssignStmt{}
			for _, d := range file.Decls {
				fd, isFd := d.(*ast.FuncDecl)
				if !isFd || fd.Body == nil {
					continue
				}
				var walk func(n ast.Node, nested bool)
				walk = func(n ast.Node, nested bool) {
					ast.Inspect(n, func(m ast.Node) bool {
						switch y := m.(type) {
						case *ast.ForStmt, *ast.RangeStmt, *ast.FuncLit:
							if m != n {
								walk(m, true)
								return false
							}
						case *ast.AssignStmt:
							if nested || len(y.Lhs) != 1 || len(y.Rhs) != 1 || (y.Tok != token.DEFINE && y.Tok != token.ASSIGN) {
								return true
							}
							if _, isId := y.Lhs[0].(*ast.Ident); !isId {
								return true
							}
							call, isCall := ast.Unparen(y.Rhs[0]).(*ast.CallExpr)
							if !isCall || len(call.Args) != 2 || stdName(call.Fun) != "slices.MinFunc" {
								return true
							}
							sid, isId := ast.Unparen(call.Args[0]).(*ast.Ident)
							if !isId {
								return true
							}
							so, _ := info.Uses[sid].(*types.Var)
							if so == nil || so.Pos() < fd.Body.Pos() || so.Pos() > fd.Body.End() {
								return true
							}
							usedAfter := false
							ast.Inspect(fd.Body, func(k ast.Node) bool {
								if id, isI := k.(*ast.Ident); isI && id.Pos() > y.End() && info.Uses[id] == so {
									usedAfter = true
								}
								return !usedAfter
							})
							if !usedAfter {
								minAssign[call] = y
							}
						}
						return true
					})
				}
				walk(fd.Body, false)
			}
			ast.Inspect(file, func(n ast.Node) bool {
				switch x := n.(type) {
				case *ast.RangeStmt:
					// a loop over a short literal list is the body repeated for each element:
					// for _, v := range []T{a, b} { body }  ->  { var v T = a; body } { var v T = b; body }
					if lit, isLit := ast.Unparen(x.X).(*ast.CompositeLit); isLit && x.Tok == token.DEFINE && len(lit.Elts) >= 1 && len(lit.Elts) <= 8 && free(x.Pos(), x.End()) {
						okU := true
						for _, el := range lit.Elts {
							if _, isKV := el.(*ast.KeyValueExpr); isKV {
								okU = false
							}
						}
						var elemT types.Type
						if tv, has := info.Types[lit]; has && tv.Type != nil {
							switch t := tv.Type.Underlying().(type) {
							case *types.Slice:
								elemT = t.Elem()
							case *types.Array:
								elemT = t.Elem()
							}
						}
						if elemT == nil {
							okU = false
						}
						// no branch statement that could refer to this loop, no label, no defer, no nested literal edits pending
						ast.Inspect(x.Body, func(m ast.Node) bool {
							switch m.(type) {
							case *ast.FuncLit:
								return false
							case *ast.BranchStmt, *ast.LabeledStmt, *ast.DeferStmt:
								okU = false
							}
							return okU
						})
						if _, isLabeled := p.parents[x].(*ast.LabeledStmt); isLabeled {
							okU = false
						}
						switch p.parents[x].(type) {
						case *ast.BlockStmt, *ast.CaseClause, *ast.CommClause:
						default:
							okU = false
						}
						var tt string
						if okU {
							var okT bool
							tt, okT = typeText(elemT, x.Pos())
							okU = okT
						}
						if okU {
							for k := range pendingImports {
								delete(pendingImports, k) // element types that need a new import: not unrolled
								okU = false
							}
						}
						if okU {
							body := in.text(x.Body.Lbrace+1, x.Body.Rbrace)
							var sb strings.Builder
							for i, el := range lit.Elts {
								sb.WriteString("{\n")
								if kid, isId := x.Key.(*ast.Ident); isId && kid.Name != "_" {
									sb.WriteString(fmt.Sprintf("%s := %d\n_ = %s\n", kid.Name, i, kid.Name))
								}
								if vid, isId := x.Value.(*ast.Ident); isId && vid.Name != "_" {
									sb.WriteString("var " + vid.Name + " " + tt + " = " + in.text(el.Pos(), el.End()) + "\n_ = " + vid.Name + "\n")
								} else if x.Value == nil || true {
									if x.Value == nil || x.Value.(*ast.Ident).Name == "_" {
										sb.WriteString("_ = " + in.text(el.Pos(), el.End()) + "\n")
									}
								}
								sb.WriteString(body)
								sb.WriteString("\n}\n")
							}
							fe := in.file(x.Pos())
							fe.edits = append(fe.edits, textEdit{start: in.off(x.Pos()), end: in.off(x.End()), text: sb.String()})
							taken = append(taken, [2]token.Pos{x.Pos(), x.End()})
							plan.expanded = append(plan.expanded, "loop over a literal list unrolled")
							return false
						}
					}
					// for k := range maps.Keys(m)  ->  for k := range m ; for v := range maps.Values(m) -> for _, v := range m
					call, ok := ast.Unparen(x.X).(*ast.CallExpr)
					if !ok || len(call.Args) != 1 || x.Value != nil || x.Key == nil {
						return true
					}
					switch stdName(call.Fun) {
					case "maps.Keys":
						if free(call.Pos(), call.End()) {
							fe := in.file(call.Pos())
							fe.edits = append(fe.edits, textEdit{start: in.off(call.Pos()), end: in.off(call.End()), text: in.text(call.Args[0].Pos(), call.Args[0].End())})
							taken = append(taken, [2]token.Pos{call.Pos(), call.End()})
							keep[pkgIdent(call.Fun)] = true
							plan.expanded = append(plan.expanded, "range maps.Keys")
						}
					case "maps.Values":
						if free(x.Key.Pos(), call.End()) {
							fe := in.file(call.Pos())
							fe.edits = append(fe.edits, textEdit{start: in.off(x.Key.Pos()), end: in.off(x.Key.Pos()), text: "_, "})
							fe.edits = append(fe.edits, textEdit{start: in.off(call.Pos()), end: in.off(call.End()), text: in.text(call.Args[0].Pos(), call.Args[0].End())})
							taken = append(taken, [2]token.Pos{x.Key.Pos(), call.End()})
							keep[pkgIdent(call.Fun)] = true
							plan.expanded = append(plan.expanded, "range maps.Values")
						}
					}
					return true
				case *ast.IfStmt:
					// if v := cmp.Or(A, B); v != zero { BODY }  ->  if v := A; v != zero { BODY } else if v := B; v != zero { BODY }
					if x.Else != nil || x.Init == nil || !free(x.Pos(), x.End()) {
						return true
					}
					if as, isAs := x.Init.(*ast.AssignStmt); isAs && as.Tok == token.DEFINE && len(as.Lhs) == 1 && len(as.Rhs) == 1 {
						call, isCall := ast.Unparen(as.Rhs[0]).(*ast.CallExpr)
						vid, isId := as.Lhs[0].(*ast.Ident)
						if !isCall || !isId || len(call.Args) != 2 || call.Ellipsis.IsValid() || stdName(call.Fun) != "cmp.Or" || !isPlainOperand(call.Args[0]) || !callFree(call.Args[1]) {
							return true
						}
						zero := zeroText(info.TypeOf(call))
						be, isBe := ast.Unparen(x.Cond).(*ast.BinaryExpr)
						if zero == "" || !isBe || be.Op != token.NEQ || in.text(be.X.Pos(), be.X.End()) != vid.Name || in.text(be.Y.Pos(), be.Y.End()) != zero {
							return true
						}
						labelled := false
						ast.Inspect(x.Body, func(m ast.Node) bool {
							if _, isL := m.(*ast.LabeledStmt); isL {
								labelled = true
							}
							return !labelled
						})
						if labelled {
							return true
						}
						if _, isBlk := p.parents[x].(*ast.BlockStmt); !isBlk {
							return true
						}
						a0, a1 := in.text(call.Args[0].Pos(), call.Args[0].End()), in.text(call.Args[1].Pos(), call.Args[1].End())
						body := in.text(x.Body.Pos(), x.Body.End())
						cond := vid.Name + " != " + zero
						fe := in.file(x.Pos())
						fe.edits = append(fe.edits, textEdit{start: in.off(x.Pos()), end: in.off(x.End()),
							text: "if " + vid.Name + " := " + a0 + "; " + cond + " " + body + " else if " + vid.Name + " := " + a1 + "; " + cond + " " + body})
						taken = append(taken, [2]token.Pos{x.Pos(), x.End()})
						keep[pkgIdent(call.Fun)] = true
						plan.expanded = append(plan.expanded, "if v := cmp.Or(..) as two tests")
						return false
					}
					return true
				case *ast.ReturnStmt:
					// return ptr.Deref(P, D)  ->  if P != nil { return *P }; return D
					if len(x.Results) != 1 || !free(x.Pos(), x.End()) {
						return true
					}
					if call, isCall := ast.Unparen(x.Results[0]).(*ast.CallExpr); isCall && len(call.Args) == 2 && stdName(call.Fun) == "k8s.io/utils/ptr.Deref" &&
						isPlainOperand(call.Args[0]) && callFree(call.Args[1]) {
						if _, isBlk := p.parents[x].(*ast.BlockStmt); isBlk {
							pt, dt := in.text(call.Args[0].Pos(), call.Args[0].End()), in.text(call.Args[1].Pos(), call.Args[1].End())
							fe := in.file(x.Pos())
							fe.edits = append(fe.edits, textEdit{start: in.off(x.Pos()), end: in.off(x.End()), text: "if " + pt + " != nil {\nreturn *" + pt + "\n}\nreturn " + dt})
							taken = append(taken, [2]token.Pos{x.Pos(), x.End()})
							keep[pkgIdent(call.Fun)] = true
							plan.expanded = append(plan.expanded, "return ptr.Deref as a conditional")
							return false
						}
					}
					return true
				case *ast.AssignStmt:
					// x = x (left by an expansion that works on the variable itself): nothing
					if x.Tok == token.ASSIGN && len(x.Lhs) == 1 && len(x.Rhs) == 1 && free(x.Pos(), x.End()) {
						if l, isL := x.Lhs[0].(*ast.Ident); isL && l.Name != "_" {
							if r, isR := ast.Unparen(x.Rhs[0]).(*ast.Ident); isR && info.Uses[l] != nil && info.Uses[l] == info.Uses[r] {
								fe := in.file(x.Pos())
								fe.edits = append(fe.edits, textEdit{start: in.off(x.Pos()), end: in.off(x.End()), text: ""})
								taken = append(taken, [2]token.Pos{x.Pos(), x.End()})
								plan.expanded = append(plan.expanded, "self-assignment dropped")
								return false
							}
						}
					}
					// x := ptr.Deref(P, D)  ->  x := D; if P != nil { x = *P }
					if (x.Tok == token.ASSIGN || x.Tok == token.DEFINE) && len(x.Lhs) == 1 && len(x.Rhs) == 1 && free(x.Pos(), x.End()) {
						if call, isCall := ast.Unparen(x.Rhs[0]).(*ast.CallExpr); isCall && len(call.Args) == 2 && stdName(call.Fun) == "k8s.io/utils/ptr.Deref" &&
							isPlainOperand(call.Args[0]) && callFree(call.Args[1]) {
							if tv, has := info.Types[call.Args[1]]; has && (tv.Value == nil || tv.Value.Kind() != constant.Bool) {
								if lid, isId := x.Lhs[0].(*ast.Ident); isId && lid.Name != "_" {
									if _, isBlk := p.parents[x].(*ast.BlockStmt); isBlk {
										pt, dt := in.text(call.Args[0].Pos(), call.Args[0].End()), in.text(call.Args[1].Pos(), call.Args[1].End())
										// an untyped constant default needs the variable's type
										rhs := dt
										if tt, okT := typeText(info.TypeOf(x.Lhs[0]), x.Pos()); okT && x.Tok == token.DEFINE {
											rhs = "(" + tt + ")(" + dt + ")"
										}
										fe := in.file(x.Pos())
										fe.edits = append(fe.edits, textEdit{start: in.off(x.Pos()), end: in.off(x.End()),
											text: lid.Name + " " + x.Tok.String() + " " + rhs + "\nif " + pt + " != nil {\n" + lid.Name + " = *" + pt + "\n}"})
										taken = append(taken, [2]token.Pos{x.Pos(), x.End()})
										keep[pkgIdent(call.Fun)] = true
										plan.expanded = append(plan.expanded, "x := ptr.Deref as a conditional assignment")
										return false
									}
								}
							}
						}
					}
					// X = cmp.Or(X, Y)  ->  if X == zero { X = Y };   v := cmp.Or(A, B)  ->  v := A; if v == zero { v = B }
					// (Y / B call-free: cmp.Or evaluates both, the conditional form only when needed)
					if (x.Tok == token.ASSIGN || x.Tok == token.DEFINE) && len(x.Lhs) == 1 && len(x.Rhs) == 1 && free(x.Pos(), x.End()) {
						if call, isCall := ast.Unparen(x.Rhs[0]).(*ast.CallExpr); isCall && len(call.Args) == 2 && !call.Ellipsis.IsValid() && stdName(call.Fun) == "cmp.Or" &&
							isPlainOperand(call.Args[0]) && callFree(call.Args[1]) {
							zero := zeroText(info.TypeOf(call))
							lid, isId := x.Lhs[0].(*ast.Ident)
							if _, isBlk := p.parents[x].(*ast.BlockStmt); isBlk && zero != "" && isId && lid.Name != "_" {
								a0, a1 := in.text(call.Args[0].Pos(), call.Args[0].End()), in.text(call.Args[1].Pos(), call.Args[1].End())
								txt := ""
								if x.Tok == token.ASSIGN && a0 == lid.Name {
									txt = "if " + lid.Name + " == " + zero + " {\n" + lid.Name + " = " + a1 + "\n}"
								} else if a1 != lid.Name {
									txt = lid.Name + " " + x.Tok.String() + " " + a0 + "\nif " + lid.Name + " == " + zero + " {\n" + lid.Name + " = " + a1 + "\n}"
								}
								if txt != "" {
									fe := in.file(x.Pos())
									fe.edits = append(fe.edits, textEdit{start: in.off(x.Pos()), end: in.off(x.End()), text: txt})
									taken = append(taken, [2]token.Pos{x.Pos(), x.End()})
									keep[pkgIdent(call.Fun)] = true
									plan.expanded = append(plan.expanded, "cmp.Or as a conditional assignment")
									return false
								}
							}
						}
					}
					// X = min(X, Y) is `if X > Y { X = Y }` (max likewise) for plain operands X, Y
					if x.Tok != token.ASSIGN || len(x.Lhs) != 1 || len(x.Rhs) != 1 || !free(x.Pos(), x.End()) {
						return true
					}
					call, isCall := ast.Unparen(x.Rhs[0]).(*ast.CallExpr)
					if !isCall || len(call.Args) != 2 {
						return true
					}
					bid, isId := call.Fun.(*ast.Ident)
					if !isId || (bid.Name != "min" && bid.Name != "max") {
						return true
					}
					if _, isB := info.Uses[bid].(*types.Builtin); !isB {
						return true
					}
					if _, isSt := p.parents[x].(*ast.BlockStmt); !isSt {
						return true
					}
					lt := in.text(x.Lhs[0].Pos(), x.Lhs[0].End())
					if !isPlainOperand(x.Lhs[0]) || !isPlainOperand(call.Args[0]) || !isPlainOperand(call.Args[1]) {
						return true
					}
					a0, a1 := in.text(call.Args[0].Pos(), call.Args[0].End()), in.text(call.Args[1].Pos(), call.Args[1].End())
					other := ""
					switch lt {
					case a0:
						other = a1
					case a1:
						other = a0
					default:
						return true
					}
					if bt, isB := info.TypeOf(x.Lhs[0]).Underlying().(*types.Basic); !isB || bt.Info()&(types.IsInteger|types.IsString) == 0 {
						return true
					}
					if tv, has := info.Types[call.Args[0]]; !has || tv.Value != nil {
						return true
					} else if tv2, has2 := info.Types[call.Args[1]]; !has2 || tv2.Value != nil || !types.Identical(tv.Type, tv2.Type) {
						return true
					}
					op := ">"
					if bid.Name == "max" {
						op = "<"
					}
					{
						fe := in.file(x.Pos())
						fe.edits = append(fe.edits, textEdit{start: in.off(x.Pos()), end: in.off(x.End()), text: "if " + lt + " " + op + " " + other + " {\n" + lt + " = " + other + "\n}"})
						taken = append(taken, [2]token.Pos{x.Pos(), x.End()})
						plan.expanded = append(plan.expanded, "x = "+bid.Name+"(x, y) as a conditional assignment")
					}
					return false
				case *ast.BinaryExpr:
					// F(X) == C for a function of this module that is `if COND(p) { return C1 }; return C2` (constants):
					// the comparison is COND(X), its negation, or a constant - read off the function's body as it is now
					if x.Op == token.EQL || x.Op == token.NEQ {
						// T{a: A1, b: B1} == T{a: A2, b: B2} (two keyed literals of one struct type, as left by the expansion of a
						// "summary" constructor) is the comparison field by field
						if l1, ok1 := ast.Unparen(x.X).(*ast.CompositeLit); ok1 {
							if l2, ok2 := ast.Unparen(x.Y).(*ast.CompositeLit); ok2 && free(x.Pos(), x.End()) {
								t1, t2 := info.TypeOf(l1), info.TypeOf(l2)
								if t1 != nil && t2 != nil && types.Identical(t1, t2) {
									if _, isStruct := t1.Underlying().(*types.Struct); isStruct && len(l1.Elts) == len(l2.Elts) && len(l1.Elts) > 0 {
										f1, f2 := map[string]ast.Expr{}, map[string]ast.Expr{}
										var order []string
										okKV := true
										for i := range l1.Elts {
											k1, isKV1 := l1.Elts[i].(*ast.KeyValueExpr)
											k2, isKV2 := l2.Elts[i].(*ast.KeyValueExpr)
											if !isKV1 || !isKV2 {
												okKV = false
												break
											}
											n1, isId1 := k1.Key.(*ast.Ident)
											n2, isId2 := k2.Key.(*ast.Ident)
											if !isId1 || !isId2 {
												okKV = false
												break
											}
											f1[n1.Name], f2[n2.Name] = k1.Value, k2.Value
											order = append(order, n1.Name)
										}
										for _, k := range order {
											if f2[k] == nil {
												okKV = false
											}
										}
										// every field of the type is spelt out (an omitted field is zero on both sides: fine too, but
										// keep to the complete form)
										if okKV && len(order) == t1.Underlying().(*types.Struct).NumFields() {
											op, join := " == ", " && "
											if x.Op == token.NEQ {
												op, join = " != ", " || "
											}
											var parts []string
											for _, k := range order {
												parts = append(parts, "("+in.text(f1[k].Pos(), f1[k].End())+")"+op+"("+in.text(f2[k].Pos(), f2[k].End())+")")
											}
											fe := in.file(x.Pos())
											fe.edits = append(fe.edits, textEdit{start: in.off(x.Pos()), end: in.off(x.End()), text: "(" + strings.Join(parts, join) + ")"})
											taken = append(taken, [2]token.Pos{x.Pos(), x.End()})
											plan.expanded = append(plan.expanded, "comparison of two struct literals field by field")
											return false
										}
									}
								}
							}
						}
						if txt, ok := twoValuedCompare(p, in, info, x); ok && free(x.Pos(), x.End()) {
							fe := in.file(x.Pos())
							fe.edits = append(fe.edits, textEdit{start: in.off(x.Pos()), end: in.off(x.End()), text: txt})
							taken = append(taken, [2]token.Pos{x.Pos(), x.End()})
							for _, side := range []ast.Expr{x.X, x.Y} {
								ast.Inspect(side, func(m ast.Node) bool {
									if se, isSel := m.(*ast.SelectorExpr); isSel {
										if id, isId := se.X.(*ast.Ident); isId {
											if _, isPkg := info.Uses[id].(*types.PkgName); isPkg {
												keepPkg[id.Name] = se.Sel.Name
											}
										}
									}
									return true
								})
							}
							plan.expanded = append(plan.expanded, "two-valued function compared with a constant")
							return false
						}
					}
					// cmp.Compare(A, B) OP 0 is A OP B for integers and strings (strings.Compare likewise)
					call, isCall := ast.Unparen(x.X).(*ast.CallExpr)
					if !isCall || len(call.Args) != 2 || !free(x.Pos(), x.End()) {
						return true
					}
					switch x.Op {
					case token.LSS, token.GTR, token.LEQ, token.GEQ, token.EQL, token.NEQ:
					default:
						return true
					}
					if n := stdName(call.Fun); n != "cmp.Compare" && n != "strings.Compare" {
						return true
					}
					if tv, has := info.Types[x.Y]; !has || tv.Value == nil || tv.Value.ExactString() != "0" {
						return true
					}
					bt, isB := info.TypeOf(call.Args[0]).Underlying().(*types.Basic)
					if !isB || bt.Info()&(types.IsInteger|types.IsString) == 0 || !types.Identical(info.TypeOf(call.Args[0]), info.TypeOf(call.Args[1])) {
						return true
					}
					{
						fe := in.file(x.Pos())
						fe.edits = append(fe.edits, textEdit{start: in.off(x.Pos()), end: in.off(call.Args[0].Pos()), text: "(("})
						fe.edits = append(fe.edits, textEdit{start: in.off(call.Args[0].End()), end: in.off(call.Args[1].Pos()), text: ") " + x.Op.String() + " ("})
						fe.edits = append(fe.edits, textEdit{start: in.off(call.Args[1].End()), end: in.off(x.End()), text: "))"})
						taken = append(taken, [2]token.Pos{x.Pos(), call.Args[0].Pos()}, [2]token.Pos{call.Args[0].End(), call.Args[1].Pos()}, [2]token.Pos{call.Args[1].End(), x.End()})
						keep[pkgIdent(call.Fun)] = true
						plan.expanded = append(plan.expanded, "three-way comparison against zero")
					}
					return true
				case *ast.CallExpr:
					for k := range pendingImports {
						delete(pendingImports, k)
					}
					name := stdName(x.Fun)
					sig, _ := info.TypeOf(x.Fun).(*types.Signature)
					if sig == nil || x.Ellipsis.IsValid() {
						return true
					}
					var body string
					var params []string
					var result string
					funRange := [2]token.Pos{x.Fun.Pos(), x.Fun.End()}
					var argText string // replacement of the whole argument list (collect / sorted)
					switch name {
					case "slices.Contains", "slices.ContainsFunc", "slices.Index", "slices.IndexFunc":
						if len(x.Args) != 2 || sig.Params().Len() != 2 {
							return true
						}
						t0, ok0 := typeText(sig.Params().At(0).Type(), x.Pos())
						t1, ok1 := typeText(sig.Params().At(1).Type(), x.Pos())
						if !ok0 || !ok1 {
							return true
						}
						params = []string{"s " + t0, "v " + t1}
						test := "x == v"
						if strings.HasSuffix(name, "Func") {
							test = "v(x)"
						}
						if strings.Contains(name, "Contains") {
							result = "bool"
							body = "\tfor _, x := range s {\n\t\tif " + test + " {\n\t\t\treturn true\n\t\t}\n\t}\n\treturn false\n"
						} else {
							result = "int"
							body = "\tfor i, x := range s {\n\t\tif " + test + " {\n\t\t\treturn i\n\t\t}\n\t}\n\treturn -1\n"
						}
					case "slices.DeleteFunc":
						// slices.DeleteFunc(E, del) of a freshly computed E (a call result: nothing else sees the clobbered
						// backing array) is the filter loop that keeps the elements for which del is false
						if len(x.Args) != 2 || sig.Params().Len() != 2 {
							return true
						}
						if _, fresh := ast.Unparen(x.Args[0]).(*ast.CallExpr); !fresh {
							return true
						}
						t0, ok0 := typeText(sig.Params().At(0).Type(), x.Pos())
						t1, ok1 := typeText(sig.Params().At(1).Type(), x.Pos())
						if !ok0 || !ok1 {
							return true
						}
						params = []string{"s " + t0, "del " + t1}
						result = t0
						body = "\tvar r " + t0 + "\n\tfor _, x := range s {\n\t\tif del(x) {\n\t\t\tcontinue\n\t\t}\n\t\tr = append(r, x)\n\t}\n\treturn r\n"
					case "k8s.io/utils/ptr.Deref", "k8s.io/utils/pointer.BoolDeref":
						// Deref(P, true) is P == nil || *P ; Deref(P, false) is P != nil && *P (P a plain operand)
						if len(x.Args) != 2 || !isPlainOperand(x.Args[0]) || !free(x.Pos(), x.End()) {
							return true
						}
						tv, has := info.Types[x.Args[1]]
						if !has || tv.Value == nil || tv.Value.Kind() != constant.Bool {
							return true
						}
						pt := in.text(x.Args[0].Pos(), x.Args[0].End())
						txt := "(" + pt + " != nil && *" + pt + ")"
						if constant.BoolVal(tv.Value) {
							txt = "(" + pt + " == nil || *" + pt + ")"
						}
						fe := in.file(x.Pos())
						fe.edits = append(fe.edits, textEdit{start: in.off(x.Pos()), end: in.off(x.End()), text: txt})
						taken = append(taken, [2]token.Pos{x.Pos(), x.End()})
						keep[pkgIdent(x.Fun)] = true
						plan.expanded = append(plan.expanded, "ptr.Deref with a constant default")
						return true
					case "k8s.io/utils/ptr.Equal":
						// Equal(P, &X) (or Equal(&X, P)) is P != nil && *P == X  (P a plain operand, &X is never nil)
						if len(x.Args) != 2 || !free(x.Pos(), x.End()) {
							return true
						}
						pi, ai := -1, -1
						for i, a := range x.Args {
							if u, isU := ast.Unparen(a).(*ast.UnaryExpr); isU && u.Op == token.AND && isPlainOperand(u.X) {
								ai = i
							} else if isPlainOperand(a) {
								pi = i
							}
						}
						if pi < 0 || ai < 0 {
							return true
						}
						pt := in.text(x.Args[pi].Pos(), x.Args[pi].End())
						ux := ast.Unparen(x.Args[ai]).(*ast.UnaryExpr).X
						txt := "(" + pt + " != nil && *" + pt + " == " + in.text(ux.Pos(), ux.End()) + ")"
						fe := in.file(x.Pos())
						fe.edits = append(fe.edits, textEdit{start: in.off(x.Pos()), end: in.off(x.End()), text: txt})
						taken = append(taken, [2]token.Pos{x.Pos(), x.End()})
						keep[pkgIdent(x.Fun)] = true
						plan.expanded = append(plan.expanded, "ptr.Equal with the address of a variable")
						return true
					case "slices.Sort":
						// slices.Sort(x) for a []string / []int / []float64 is sort.Strings(x) / sort.Ints / sort.Float64s
						if len(x.Args) != 1 || !free(x.Pos(), x.End()) {
							return true
						}
						fnName := ""
						if tv, has := info.Types[x.Args[0]]; has && tv.Type != nil {
							if sl, isSl := tv.Type.Underlying().(*types.Slice); isSl && types.Identical(tv.Type, types.NewSlice(sl.Elem())) {
								if bt, isB := sl.Elem().(*types.Basic); isB {
									switch bt.Kind() {
									case types.String:
										fnName = "Strings"
									case types.Int:
										fnName = "Ints"
									case types.Float64:
										fnName = "Float64s"
									}
								}
							}
						}
						if fnName == "" {
							return true
						}
						sortName2, need2 := "", false
						for _, imp := range file.Imports {
							if strings.Trim(imp.Path.Value, "\"") == "sort" {
								sortName2 = "sort"
								if imp.Name != nil {
									sortName2 = imp.Name.Name
								}
							}
						}
						if sortName2 == "" {
							sortName2, need2 = "sort", true
						}
						if sc := pkg.Types.Scope().Innermost(x.Pos()); sc != nil {
							if _, o := sc.LookupParent(sortName2, x.Pos()); o != nil {
								if _, isPkg := o.(*types.PkgName); !isPkg {
									return true
								}
							} else if !need2 {
								return true
							}
						}
						fe := in.file(x.Pos())
						fe.edits = append(fe.edits, textEdit{start: in.off(x.Fun.Pos()), end: in.off(x.Fun.End()), text: sortName2 + "." + fnName})
						if need2 && !addedSort {
							addedSort = true
							fe.edits = append(fe.edits, textEdit{start: in.off(file.Name.End()), end: in.off(file.Name.End()), text: "\n\nimport \"sort\"\n"})
						}
						taken = append(taken, [2]token.Pos{x.Fun.Pos(), x.Fun.End()})
						keep[pkgIdent(x.Fun)] = true
						plan.expanded = append(plan.expanded, "stdlib "+name)
						return true
					case "slices.SortFunc", "slices.SortStableFunc", "slices.MinFunc":
						// slices.SortFunc(S, func(a, b T) int { ... return E })  ->
						// sort.Slice(S, func(i, j int) bool { a, b := S[i], S[j]; ... return (E) < 0 })
						if len(x.Args) != 2 || !isPlainOperand(x.Args[0]) || !free(x.Pos(), x.End()) {
							return true
						}
						minStmt := minAssign[x]
						if name == "slices.MinFunc" && (minStmt == nil || !free(minStmt.Pos(), minStmt.End())) {
							return true
						}
						lit, ok := ast.Unparen(x.Args[1]).(*ast.FuncLit)
						if !ok {
							// a named comparator: slices.SortFunc(S, f) -> sort.Slice(S, func(i, j int) bool { return f(S[i], S[j]) < 0 })
							fsig, _ := info.TypeOf(x.Args[1]).(*types.Signature)
							if name == "slices.MinFunc" || fsig == nil || fsig.Params().Len() != 2 || !isPlainOperand(x.Args[1]) {
								return true
							}
							sortNameN, needN := "", false
							for _, imp := range file.Imports {
								if strings.Trim(imp.Path.Value, "\"") == "sort" {
									sortNameN = "sort"
									if imp.Name != nil {
										sortNameN = imp.Name.Name
									}
								}
							}
							if sortNameN == "" {
								sortNameN, needN = "sort", true
							}
							if sc := pkg.Types.Scope().Innermost(x.Pos()); sc != nil {
								if _, o := sc.LookupParent(sortNameN, x.Pos()); o != nil {
									if _, isPkg := o.(*types.PkgName); !isPkg {
										return true
									}
								} else if !needN {
									return true
								}
							}
							ctr++
							iN, jN := fmt.Sprintf("mlbI%d", ctr), fmt.Sprintf("mlbJ%d", ctr)
							sl := in.text(x.Args[0].Pos(), x.Args[0].End())
							ft := in.text(x.Args[1].Pos(), x.Args[1].End())
							fnN := "Slice"
							if name == "slices.SortStableFunc" {
								fnN = "SliceStable"
							}
							fe := in.file(x.Pos())
							fe.edits = append(fe.edits, textEdit{start: in.off(x.Fun.Pos()), end: in.off(x.Fun.End()), text: sortNameN + "." + fnN})
							fe.edits = append(fe.edits, textEdit{start: in.off(x.Args[1].Pos()), end: in.off(x.Args[1].End()),
								text: "func(" + iN + ", " + jN + " int) bool { return " + ft + "(" + sl + "[" + iN + "], " + sl + "[" + jN + "]) < 0 }"})
							if needN && !addedSort {
								addedSort = true
								fe.edits = append(fe.edits, textEdit{start: in.off(file.Name.End()), end: in.off(file.Name.End()), text: "\n\nimport \"sort\"\n"})
							}
							taken = append(taken, [2]token.Pos{x.Fun.Pos(), x.Fun.End()}, [2]token.Pos{x.Args[1].Pos(), x.Args[1].End()})
							keep[pkgIdent(x.Fun)] = true
							plan.expanded = append(plan.expanded, "stdlib "+name+" with a named comparator")
							return true
						}
						var pn []string
						for _, fld := range lit.Type.Params.List {
							for _, nm := range fld.Names {
								pn = append(pn, nm.Name)
							}
						}
						if len(pn) != 2 || pn[0] == "_" && pn[1] == "_" {
							return true
						}
						sortName := ""
						for _, imp := range file.Imports {
							if strings.Trim(imp.Path.Value, "\"") == "sort" {
								sortName = "sort"
								if imp.Name != nil {
									sortName = imp.Name.Name
								}
							}
						}
						needImport := sortName == ""
						if needImport {
							sortName = "sort"
						}
						if sc := pkg.Types.Scope().Innermost(x.Pos()); sc != nil {
							if _, o := sc.LookupParent(sortName, x.Pos()); o != nil {
								if _, isPkg := o.(*types.PkgName); !isPkg {
									return true
								}
							} else if !needImport {
								return true
							}
						}
						ctr++
						iN, jN := fmt.Sprintf("mlbI%d", ctr), fmt.Sprintf("mlbJ%d", ctr)
						sl := in.text(x.Args[0].Pos(), x.Args[0].End())
						fe := in.file(x.Pos())
						fn := "Slice"
						if name == "slices.SortStableFunc" {
							fn = "SliceStable"
						}
						if minStmt != nil {
							fe.edits = append(fe.edits, textEdit{start: in.off(minStmt.Pos()), end: in.off(x.Fun.End()), text: sortName + "." + fn})
							fe.edits = append(fe.edits, textEdit{start: in.off(minStmt.End()), end: in.off(minStmt.End()),
								text: "\n" + in.text(minStmt.Lhs[0].Pos(), minStmt.Lhs[0].End()) + " " + minStmt.Tok.String() + " " + sl + "[0]"})
						} else {
							fe.edits = append(fe.edits, textEdit{start: in.off(x.Fun.Pos()), end: in.off(x.Fun.End()), text: sortName + "." + fn})
						}
						// the element parameters are replaced by S[i] / S[j] where they are only read (so that the
						// comparator reads like a sort.Slice comparator); otherwise they are bound first
						var pobjs [2]types.Object
						k := 0
						for _, fld := range lit.Type.Params.List {
							for _, nm := range fld.Names {
								if k < 2 {
									pobjs[k] = info.Defs[nm]
								}
								k++
							}
						}
						substOK := pobjs[0] != nil && pobjs[1] != nil
						var uses [][2]interface{}
						ast.Inspect(lit.Body, func(m ast.Node) bool {
							switch y := m.(type) {
							case *ast.AssignStmt:
								for _, l := range y.Lhs {
									if id, isId := ast.Unparen(l).(*ast.Ident); isId && (info.Uses[id] == pobjs[0] || info.Uses[id] == pobjs[1]) {
										substOK = false
									}
								}
							case *ast.UnaryExpr:
								if id, isId := ast.Unparen(y.X).(*ast.Ident); isId && y.Op == token.AND && (info.Uses[id] == pobjs[0] || info.Uses[id] == pobjs[1]) {
									substOK = false
								}
							case *ast.FuncLit:
								substOK = false
							case *ast.Ident:
								if o := info.Uses[y]; o != nil && (o == pobjs[0] || o == pobjs[1]) {
									idx := iN
									if o == pobjs[1] {
										idx = jN
									}
									uses = append(uses, [2]interface{}{y, idx})
								}
							}
							return true
						})
						if substOK {
							fe.edits = append(fe.edits, textEdit{start: in.off(lit.Type.Pos()), end: in.off(lit.Body.Lbrace) + 1,
								text: "func(" + iN + ", " + jN + " int) bool {\n"})
						} else {
							fe.edits = append(fe.edits, textEdit{start: in.off(lit.Type.Pos()), end: in.off(lit.Body.Lbrace) + 1,
								text: "func(" + iN + ", " + jN + " int) bool {\n" + pn[0] + ", " + pn[1] + " := " + sl + "[" + iN + "], " + sl + "[" + jN + "]\n_, _ = " + pn[0] + ", " + pn[1] + "\n"})
						}
						// text of an expression with the element parameters substituted
						sub := func(e ast.Expr) string {
							if !substOK {
								return in.text(e.Pos(), e.End())
							}
							var sb strings.Builder
							pos := e.Pos()
							for _, u := range uses {
								id := u[0].(*ast.Ident)
								if id.Pos() < e.Pos() || id.End() > e.End() {
									continue
								}
								sb.WriteString(in.text(pos, id.Pos()))
								sb.WriteString(sl + "[" + u[1].(string) + "]")
								pos = id.End()
							}
							sb.WriteString(in.text(pos, e.End()))
							return sb.String()
						}
						var covered [][2]token.Pos
						okRet := true
						InspectNoLit(lit.Body, func(m ast.Node) bool {
							if rs, isRet := m.(*ast.ReturnStmt); isRet {
								if len(rs.Results) != 1 {
									okRet = false
									return true
								}
								e := rs.Results[0]
								// cmp.Compare(x, y) < 0 is x < y (ordered operands; strings.Compare likewise)
								if ce, isCall := ast.Unparen(e).(*ast.CallExpr); isCall && len(ce.Args) == 2 {
									if n := stdName(ce.Fun); n == "cmp.Compare" || n == "strings.Compare" {
										keep[pkgIdent(ce.Fun)] = true
										fe.edits = append(fe.edits, textEdit{start: in.off(e.Pos()), end: in.off(e.End()),
											text: "(" + sub(ce.Args[0]) + ") < (" + sub(ce.Args[1]) + ")"})
										covered = append(covered, [2]token.Pos{e.Pos(), e.End()})
										return true
									}
								}
								fe.edits = append(fe.edits, textEdit{start: in.off(e.Pos()), end: in.off(e.Pos()), text: "("})
								fe.edits = append(fe.edits, textEdit{start: in.off(e.End()), end: in.off(e.End()), text: ") < 0"})
							}
							return true
						})
						if !okRet {
							return true // named results / bare returns: left alone (the edits above make the file fail to check, falling back)
						}
						if substOK {
							for _, u := range uses {
								id := u[0].(*ast.Ident)
								in2 := false
								for _, c := range covered {
									if id.Pos() >= c[0] && id.End() <= c[1] {
										in2 = true
									}
								}
								if !in2 {
									fe.edits = append(fe.edits, textEdit{start: in.off(id.Pos()), end: in.off(id.End()), text: sl + "[" + u[1].(string) + "]"})
								}
							}
						}
						if needImport && !addedSort {
							addedSort = true
							fe.edits = append(fe.edits, textEdit{start: in.off(file.Name.End()), end: in.off(file.Name.End()), text: "\n\nimport \"sort\"\n"})
						}
						taken = append(taken, [2]token.Pos{x.Fun.Pos(), x.Fun.End()}, [2]token.Pos{lit.Type.Pos(), lit.Body.Lbrace + 1})
						if minStmt != nil {
							taken = append(taken, [2]token.Pos{minStmt.Pos(), x.Fun.End()}, [2]token.Pos{minStmt.End() - 1, minStmt.End() + 1})
						}
						keep[pkgIdent(x.Fun)] = true
						plan.expanded = append(plan.expanded, "stdlib "+name)
						return true
					case "slices.SortedFunc":
						// slices.SortedFunc(maps.Keys(m), cmp): the keys collected, then slices.SortFunc(r, cmp)
						if len(x.Args) != 2 || !isPlainOperand(x.Args[1]) {
							return true
						}
						inner, ok := ast.Unparen(x.Args[0]).(*ast.CallExpr)
						if !ok || len(inner.Args) != 1 {
							return true
						}
						in2 := stdName(inner.Fun)
						if in2 != "maps.Keys" && in2 != "maps.Values" {
							return true
						}
						rt, okr := typeText(info.TypeOf(x), x.Pos())
						if !okr || !free(x.Pos(), x.End()) {
							return true
						}
						{
							// written in place (the comparator stays the caller's expression): a function literal called at once
							loop := "for k := range " + in.text(inner.Args[0].Pos(), inner.Args[0].End()) + " {\n\t\tr = append(r, k)\n\t}\n"
							if in2 == "maps.Values" {
								loop = "for _, k := range " + in.text(inner.Args[0].Pos(), inner.Args[0].End()) + " {\n\t\tr = append(r, k)\n\t}\n"
							}
							txt := "func() " + rt + " {\n\tvar r " + rt + "\n\t" + loop + "\tslices.SortFunc(r, " + in.text(x.Args[1].Pos(), x.Args[1].End()) + ")\n\treturn r\n}()"
							from, to := x.Pos(), x.End()
							// the whole right-hand side of a plain assignment: statements in place, the list built in the target
							if as, isAs := p.parents[x].(*ast.AssignStmt); isAs && len(as.Lhs) == 1 && len(as.Rhs) == 1 && as.Rhs[0] == ast.Expr(x) && as.Tok == token.ASSIGN && isPlainOperand(as.Lhs[0]) && free(as.Pos(), as.End()) {
								lhs := in.text(as.Lhs[0].Pos(), as.Lhs[0].End())
								loop2 := strings.ReplaceAll(loop, "r = append(r, k)", lhs+" = append("+lhs+", k)")
								txt = "{\n" + lhs + " = nil\n" + loop2 + "slices.SortFunc(" + lhs + ", " + in.text(x.Args[1].Pos(), x.Args[1].End()) + ")\n}"
								from, to = as.Pos(), as.End()
							}
							fe := in.file(x.Pos())
							fe.edits = append(fe.edits, textEdit{start: in.off(from), end: in.off(to), text: txt})
							taken = append(taken, [2]token.Pos{from, to})
							keep[pkgIdent(x.Fun)] = true
							keep[pkgIdent(inner.Fun)] = true
							plan.expanded = append(plan.expanded, "stdlib slices.SortedFunc")
						}
						return true
					case "slices.Collect", "slices.Sorted":
						if len(x.Args) != 1 {
							return true
						}
						inner, ok := ast.Unparen(x.Args[0]).(*ast.CallExpr)
						if !ok || len(inner.Args) != 1 {
							return true
						}
						in2 := stdName(inner.Fun)
						if in2 != "maps.Keys" && in2 != "maps.Values" {
							return true
						}
						mt, okm := typeText(info.TypeOf(inner.Args[0]), x.Pos())
						rt, okr := typeText(info.TypeOf(x), x.Pos())
						if !okm || !okr {
							return true
						}
						params = []string{"m " + mt}
						result = rt
						loop := "\tfor k := range m {\n\t\tr = append(r, k)\n\t}\n"
						if in2 == "maps.Values" {
							loop = "\tfor _, k := range m {\n\t\tr = append(r, k)\n\t}\n"
						}
						body = "\tvar r " + rt + "\n" + loop
						if name == "slices.Sorted" {
							body += "\tslices.Sort(r)\n"
						}
						body += "\treturn r\n"
						argText = in.text(inner.Args[0].Pos(), inner.Args[0].End())
						keep[pkgIdent(inner.Fun)] = true
					default:
						return true
					}
					if !free(x.Pos(), x.End()) {
						return true
					}
					for k, v := range pendingImports {
						extraImports[k] = v
					}
					ctr++
					hname := fmt.Sprintf("mlbStd%d%s", ctr, name[strings.IndexByte(name, '.')+1:])
					decls = append(decls, "func "+hname+"("+strings.Join(params, ", ")+") "+result+" {\n"+body+"}\n")
					fe := in.file(x.Pos())
					if argText != "" {
						fe.edits = append(fe.edits, textEdit{start: in.off(x.Pos()), end: in.off(x.End()), text: hname + "(" + argText + ")"})
						taken = append(taken, [2]token.Pos{x.Pos(), x.End()})
					} else {
						fe.edits = append(fe.edits, textEdit{start: in.off(funRange[0]), end: in.off(funRange[1]), text: hname})
						taken = append(taken, funRange)
					}
					keep[pkgIdent(x.Fun)] = true
					plan.expanded = append(plan.expanded, "stdlib "+name)
				}
				return true
			})
			// a local struct that is only ever used field by field (x.f) is that many separate locals
			{
				type cand struct {
					obj   *types.Var
					decl  ast.Node // *ast.AssignStmt or *ast.DeclStmt
					lit   *ast.CompositeLit
					st    *types.Struct
					uses  []*ast.SelectorExpr
					bad   bool
					nameN string
				}
				cands := map[*types.Var]*cand{}
				var order []*cand
				ast.Inspect(file, func(n ast.Node) bool {
					switch x := n.(type) {
					case *ast.AssignStmt:
						if x.Tok != token.DEFINE || len(x.Lhs) != 1 || len(x.Rhs) != 1 {
							return true
						}
						id, isId := x.Lhs[0].(*ast.Ident)
						rhs0 := ast.Unparen(x.Rhs[0])
						// (a pointer to a fresh literal that is only ever used field by field is no different)
						if u, isU := rhs0.(*ast.UnaryExpr); isU && u.Op == token.AND {
							rhs0 = ast.Unparen(u.X)
						}
						lit, isLit := rhs0.(*ast.CompositeLit)
						if !isId || !isLit || id.Name == "_" {
							return true
						}
						v, _ := info.Defs[id].(*types.Var)
						if v == nil {
							return true
						}
						vt := v.Type()
						if pt, isPtr := vt.Underlying().(*types.Pointer); isPtr {
							vt = pt.Elem()
						}
						st, isSt := vt.Underlying().(*types.Struct)
						if !isSt || st.NumFields() == 0 || st.NumFields() > 12 {
							return true
						}
						if _, isBlk := p.parents[x].(*ast.BlockStmt); !isBlk {
							return true
						}
						c := &cand{obj: v, decl: x, lit: lit, st: st, nameN: id.Name}
						cands[v] = c
						order = append(order, c)
					case *ast.DeclStmt:
						gd, isGd := x.Decl.(*ast.GenDecl)
						if !isGd || gd.Tok != token.VAR || len(gd.Specs) != 1 {
							return true
						}
						vs := gd.Specs[0].(*ast.ValueSpec)
						if len(vs.Names) != 1 || len(vs.Values) != 0 || vs.Names[0].Name == "_" {
							return true
						}
						v, _ := info.Defs[vs.Names[0]].(*types.Var)
						if v == nil {
							return true
						}
						st, isSt := v.Type().Underlying().(*types.Struct)
						if !isSt || st.NumFields() == 0 || st.NumFields() > 12 {
							return true
						}
						if _, isBlk := p.parents[x].(*ast.BlockStmt); !isBlk {
							return true
						}
						c := &cand{obj: v, decl: x, st: st, nameN: vs.Names[0].Name}
						cands[v] = c
						order = append(order, c)
					}
					return true
				})
				if len(cands) > 0 {
					ast.Inspect(file, func(n ast.Node) bool {
						id, isId := n.(*ast.Ident)
						if !isId {
							return true
						}
						v, _ := info.Uses[id].(*types.Var)
						c := cands[v]
						if c == nil {
							return true
						}
						sel, isSel := p.parents[id].(*ast.SelectorExpr)
						if !isSel || sel.X != ast.Expr(id) {
							c.bad = true
							return true
						}
						seln := info.Selections[sel]
						if seln == nil || seln.Kind() != types.FieldVal || len(seln.Index()) != 1 {
							c.bad = true
							return true
						}
						c.uses = append(c.uses, sel)
						return true
					})
				}
				for _, c := range order {
					if c.bad || !free(c.decl.Pos(), c.decl.End()) {
						continue
					}
					okc := true
					for _, u := range c.uses {
						if !free(u.Pos(), u.End()) {
							okc = false
						}
					}
					// initial values by field
					inits := make([]string, c.st.NumFields())
					// the fields are declared in the order the literal evaluates them (its written order), the ones it leaves
					// out after them: calls among the values keep their order
					var emit []int
					emitted := map[int]bool{}
					if c.lit != nil {
						for i, el := range c.lit.Elts {
							if kv, isKV := el.(*ast.KeyValueExpr); isKV {
								kid, isId := kv.Key.(*ast.Ident)
								if !isId {
									okc = false
									break
								}
								found := false
								for j := 0; j < c.st.NumFields(); j++ {
									if c.st.Field(j).Name() == kid.Name && !emitted[j] {
										inits[j] = in.text(kv.Value.Pos(), kv.Value.End())
										emit = append(emit, j)
										emitted[j] = true
										found = true
									}
								}
								if !found {
									okc = false
								}
							} else {
								if i >= c.st.NumFields() {
									okc = false
									break
								}
								inits[i] = in.text(el.Pos(), el.End())
								emit = append(emit, i)
								emitted[i] = true
							}
						}
					}
					for j := 0; j < c.st.NumFields(); j++ {
						if !emitted[j] {
							emit = append(emit, j)
						}
					}
					if !okc {
						continue
					}
					scope := pkg.Types.Scope().Innermost(c.decl.Pos())
					names := make([]string, c.st.NumFields())
					var sb strings.Builder
					for k := range pendingImports {
						delete(pendingImports, k)
					}
					for _, j := range emit {
						fld := c.st.Field(j)
						if fld.Embedded() {
							okc = false
							break
						}
						nm := c.nameN + "_" + fld.Name()
						if scope != nil {
							if _, o := scope.LookupParent(nm, token.NoPos); o != nil {
								ctr++
								nm = fmt.Sprintf("mlbS%d_%s", ctr, nm)
							}
						}
						names[j] = nm
						tt, okT := typeText(fld.Type(), c.decl.Pos())
						if !okT || len(pendingImports) > 0 {
							okc = false
							break
						}
						if _, isSig := fld.Type().Underlying().(*types.Signature); isSig && strings.HasPrefix(strings.TrimSpace(inits[j]), "func") && !types.IsInterface(fld.Type()) {
							if _, named := fld.Type().(*types.Named); !named {
								// a function literal keeps the short form: the closure expansion of a later round reads `name := func..`
								sb.WriteString(nm + " := " + inits[j] + "\n")
								sb.WriteString("_ = " + nm + "\n")
								continue
							}
						}
						if inits[j] != "" {
							sb.WriteString("var " + nm + " " + tt + " = " + inits[j] + "\n")
						} else {
							sb.WriteString("var " + nm + " " + tt + "\n")
						}
						sb.WriteString("_ = " + nm + "\n")
					}
					if !okc {
						continue
					}
					fe := in.file(c.decl.Pos())
					fe.edits = append(fe.edits, textEdit{start: in.off(c.decl.Pos()), end: in.off(c.decl.End()), text: sb.String()})
					taken = append(taken, [2]token.Pos{c.decl.Pos(), c.decl.End()})
					for _, u := range c.uses {
						idx := info.Selections[u].Index()[0]
						fe.edits = append(fe.edits, textEdit{start: in.off(u.Pos()), end: in.off(u.End()), text: names[idx]})
						taken = append(taken, [2]token.Pos{u.Pos(), u.End()})
					}
					plan.expanded = append(plan.expanded, "local struct "+c.nameN+" split into its fields")
				}
			}
			if len(keepPkg) > 0 {
				fe := in.file(file.Pos())
				var ks []string
				for k := range keepPkg {
					ks = append(ks, k)
				}
				sort.Strings(ks)
				tail := "\n"
				for _, k := range ks {
					tail += "var _ = " + k + "." + keepPkg[k] + "\n"
				}
				fe.edits = append(fe.edits, textEdit{start: len(fe.src), end: len(fe.src), text: tail})
			}
			if len(decls) > 0 || len(keep) > 0 {
				fe := in.file(file.Pos())
				tail := "\n"
				var ks []string
				for k := range keep {
					if k != "" {
						ks = append(ks, k)
					}
				}
				sort.Strings(ks)
				for _, k := range ks {
					// keeps the import used whatever was rewritten
					switch k {
					case "slices":
						tail += "var _ = slices.Clone[[]int]\n"
					case "maps":
						tail += "var _ = maps.Clone[map[int]int]\n"
					case "cmp":
						tail += "var _ = cmp.Compare[int]\n"
					case "strings":
						tail += "var _ = strings.Compare\n"
					case "ptr":
						tail += "var _ = ptr.Deref[int]\n"
					case "pointer":
						tail += "var _ = pointer.BoolDeref\n"
					}
				}
				tail += strings.Join(decls, "\n")
				fe.edits = append(fe.edits, textEdit{start: len(fe.src), end: len(fe.src), text: tail})
				if len(extraImports) > 0 && len(decls) > 0 {
					var paths []string
					for k := range extraImports {
						paths = append(paths, k)
					}
					sort.Strings(paths)
					imp := "\n"
					for _, k := range paths {
						imp += "\nimport " + extraImports[k] + " \"" + k + "\""
					}
					fe.edits = append(fe.edits, textEdit{start: in.off(file.Name.End()), end: in.off(file.Name.End()), text: imp + "\n"})
				}
			}
		}
	}
	if methods {
		planMethodRestore(p, in, &plan)
		skipDecl := map[*ast.FuncDecl]bool{}
		planReceiverParamRestore(p, in, &plan, skipDecl)
		planParamWiden(p, in, &plan, skipDecl)
		planAnchorRestore(p, in, &plan, skipDecl)
		planAnchorMoved(p, in, &plan)
		planResultUngroup(p, in, &plan)
		planFieldRestore(p, in, &plan)
		planParamObjects(p, in, &plan)
	}
	return plan
}

func mentionsTypeParam(t types.Type) bool {
	found := false
	var walk func(t types.Type, depth int)
	walk = func(t types.Type, depth int) {
		if found || depth > 8 || t == nil {
			return
		}
		switch x := t.(type) {
		case *types.TypeParam:
			found = true
		case *types.Pointer:
			walk(x.Elem(), depth+1)
		case *types.Slice:
			walk(x.Elem(), depth+1)
		case *types.Array:
			walk(x.Elem(), depth+1)
		case *types.Map:
			walk(x.Key(), depth+1)
			walk(x.Elem(), depth+1)
		case *types.Chan:
			walk(x.Elem(), depth+1)
		case *types.Signature:
			for i := 0; i < x.Params().Len(); i++ {
				walk(x.Params().At(i).Type(), depth+1)
			}
			for i := 0; i < x.Results().Len(); i++ {
				walk(x.Results().At(i).Type(), depth+1)
			}
		case *types.Named:
			if ta := x.TypeArgs(); ta != nil {
				for i := 0; i < ta.Len(); i++ {
					walk(ta.At(i), depth+1)
				}
			}
		}
	}
	walk(t, 0)
	return found
}

// planMethodRestore: for every anchored method pkg.(Recv).name that no longer exists while the package has a plain
// function `name`, rewrite that function back into the method.
func planMethodRestore(p *Prog, in *inliner, plan *canonPlan) {
	for _, key := range methodAnchorsSnapshot() {
		parts := strings.Split(key, ".")
		if len(parts) < 3 {
			continue
		}
		name, recv := parts[len(parts)-1], parts[len(parts)-2]
		pkgSuffix := strings.Join(parts[:len(parts)-2], ".")
		if p.lookupQuiet(pkgSuffix, recv, name) != nil {
			continue
		}
		f := p.lookupQuiet(pkgSuffix, "", name)
		if f == nil || f.Decl == nil || f.Decl.Recv != nil || f.Decl.Type.TypeParams != nil {
			continue
		}
		// a plain function of that name that the confirmed tree has as well (next to the method) is not the method turned
		// into a function
		alsoPinned := false
		for _, ps := range pinnedSigs {
			if ps.Recv == "" && ps.Name == name && ps.Pkg == f.Pkg.PkgPath {
				alsoPinned = true
			}
		}
		if alsoPinned {
			continue
		}
		pkg := f.Pkg
		info := pkg.TypesInfo
		tn, _ := pkg.Types.Scope().Lookup(recv).(*types.TypeName)
		if tn == nil {
			continue
		}
		isRecvType := func(t types.Type) bool {
			if pt, ok := t.(*types.Pointer); ok {
				t = pt.Elem()
			}
			n, ok := t.(*types.Named)
			return ok && n.Obj() == tn
		}
		fobj, _ := info.Defs[f.Decl.Name].(*types.Func)
		if fobj == nil {
			continue
		}
		// every reference must be a direct call
		var calls []*ast.CallExpr
		okRefs := true
		for _, file := range pkg.Syntax {
			ast.Inspect(file, func(n ast.Node) bool {
				id, ok := n.(*ast.Ident)
				if !ok || info.Uses[id] != fobj {
					return true
				}
				call, isCall := p.parents[id].(*ast.CallExpr)
				if !isCall || call.Fun != ast.Expr(id) {
					okRefs = false
					return true
				}
				calls = append(calls, call)
				return true
			})
		}
		if !okRefs {
			continue
		}
		params := f.Decl.Type.Params
		firstIsRecv := params != nil && len(params.List) > 0 && isRecvType(info.TypeOf(params.List[0].Type))
		var eds []struct {
			pos  token.Pos
			edit textEdit
		}
		add := func(pos token.Pos, a, b token.Pos, text string) {
			eds = append(eds, struct {
				pos  token.Pos
				edit textEdit
			}{pos, textEdit{start: in.off(a), end: in.off(b), text: text}})
		}
		ok := true
		if firstIsRecv {
			fld := params.List[0]
			if len(fld.Names) == 0 {
				continue
			}
			rname := fld.Names[0].Name
			rtype := in.text(fld.Type.Pos(), fld.Type.End())
			// func name(r *T, rest)  ->  func (r *T) name(rest)
			var restStart token.Pos
			if len(fld.Names) > 1 {
				restStart = fld.Names[1].Pos()
			} else if len(params.List) > 1 {
				restStart = params.List[1].Pos()
			} else {
				restStart = params.Closing
			}
			add(f.Decl.Pos(), f.Decl.Name.Pos(), f.Decl.Name.Pos(), "("+rname+" "+rtype+") ")
			add(f.Decl.Pos(), params.Opening+1, restStart, "")
			for _, c := range calls {
				if len(c.Args) == 0 || c.Ellipsis.IsValid() && len(c.Args) == 1 {
					ok = false
					break
				}
				a0 := c.Args[0]
				rx := in.text(a0.Pos(), a0.End())
				if !isPlainOperand(a0) {
					rx = "(" + rx + ")"
				}
				var next token.Pos
				if len(c.Args) > 1 {
					next = c.Args[1].Pos()
				} else {
					next = c.Rparen
				}
				add(c.Pos(), c.Fun.Pos(), c.Fun.Pos(), rx+".")
				add(c.Pos(), a0.Pos(), next, "")
			}
		} else {
			// the receiver was dropped (unused) or replaced by the fields the function reads: give the method a
			// receiver again; every call site must lie in a method of the same type with a named receiver. A
			// parameter for which every call passes the same field of that receiver becomes a local read from the
			// receiver (`func f(ips *A, k K)` called as f(c.ips, k)  ->  `func (r *T) f(k K) { ips := r.ips; ...`).
			ptr := "*"
			type fparam struct {
				fld   *ast.Field
				idx   int
				field string
			}
			var fps []fparam
			if params != nil {
				k := 0
				for _, fld := range params.List {
					if len(fld.Names) != 1 {
						k += len(fld.Names)
						if len(fld.Names) == 0 {
							k++
						}
						continue
					}
					fieldName := ""
					same := len(calls) > 0
					for _, c := range calls {
						if k >= len(c.Args) || c.Ellipsis.IsValid() {
							same = false
							break
						}
						sel, isSel := ast.Unparen(c.Args[k]).(*ast.SelectorExpr)
						if !isSel {
							same = false
							break
						}
						x, isId := sel.X.(*ast.Ident)
						seln := info.Selections[sel]
						if !isId || seln == nil || seln.Kind() != types.FieldVal || !isRecvType(seln.Recv()) {
							same = false
							break
						}
						// x is the receiver of the enclosing method
						var owner *ast.FuncDecl
						for m := ast.Node(c); m != nil; m = p.parents[m] {
							if fd, isFd := m.(*ast.FuncDecl); isFd {
								owner = fd
								break
							}
						}
						if owner == nil || owner.Recv == nil || len(owner.Recv.List) != 1 || len(owner.Recv.List[0].Names) != 1 || info.Uses[x] != info.Defs[owner.Recv.List[0].Names[0]] {
							same = false
							break
						}
						if fieldName == "" {
							fieldName = sel.Sel.Name
						} else if fieldName != sel.Sel.Name {
							same = false
							break
						}
					}
					if same && fieldName != "" && fld.Names[0].Name != "_" {
						// the parameter must not be assigned in the body (it would have been a copy)
						pobj := info.Defs[fld.Names[0]]
						assigned := false
						ast.Inspect(f.Decl.Body, func(n ast.Node) bool {
							switch st := n.(type) {
							case *ast.AssignStmt:
								for _, l := range st.Lhs {
									if id, isId := ast.Unparen(l).(*ast.Ident); isId && info.Uses[id] == pobj {
										assigned = true
									}
								}
							case *ast.UnaryExpr:
								if id, isId := ast.Unparen(st.X).(*ast.Ident); isId && st.Op == token.AND && info.Uses[id] == pobj {
									assigned = true
								}
							}
							return true
						})
						if !assigned {
							fps = append(fps, fparam{fld, k, fieldName})
						}
					}
					k++
				}
			}
			rname := "_"
			if len(fps) > 0 {
				rname = "mlbRecv"
			}
			add(f.Decl.Pos(), f.Decl.Name.Pos(), f.Decl.Name.Pos(), "("+rname+" "+ptr+recv+") ")
			// remove the field parameters from the signature and add the locals
			removeListed := func(pos token.Pos, i, n int, start func(int) token.Pos, end func(int) token.Pos, closing token.Pos) {
				switch {
				case i+1 < n:
					add(pos, start(i), start(i+1), "")
				case i > 0:
					add(pos, end(i-1), end(i), "")
				default:
					add(pos, start(i), closing, "")
				}
			}
			removed := map[int]bool{}
			if len(fps) > 0 {
				// positions in the field list
				pre := ""
				for _, fp := range fps {
					li := -1
					for j, fld := range params.List {
						if fld == fp.fld {
							li = j
						}
					}
					// adjacent removals would overlap: remove at most every other neighbour safely by merging text
					if removed[li-1] || removed[li+1] {
						continue
					}
					removed[li] = true
					removeListed(f.Decl.Pos(), li, len(params.List), func(j int) token.Pos { return params.List[j].Pos() }, func(j int) token.Pos { return params.List[j].End() }, params.Closing)
					pre += "\nvar _ " + in.text(fp.fld.Type.Pos(), fp.fld.Type.End()) + "\n" + fp.fld.Names[0].Name + " := " + rname + "." + fp.field + "\n_ = " + fp.fld.Names[0].Name
				}
				add(f.Decl.Pos(), f.Decl.Body.Lbrace+1, f.Decl.Body.Lbrace+1, pre+"\n")
			}
			for _, c := range calls {
				for _, fp := range fps {
					li := -1
					for j, fld := range params.List {
						if fld == fp.fld {
							li = j
						}
					}
					if !removed[li] {
						continue
					}
					k := fp.idx
					removeListed(c.Pos(), k, len(c.Args), func(j int) token.Pos { return c.Args[j].Pos() }, func(j int) token.Pos { return c.Args[j].End() }, c.Rparen)
				}
			}
			for _, c := range calls {
				var owner *ast.FuncDecl
				for m := ast.Node(c); m != nil; m = p.parents[m] {
					if fd, isFd := m.(*ast.FuncDecl); isFd {
						owner = fd
						break
					}
				}
				if owner == nil || owner.Recv == nil || len(owner.Recv.List) != 1 || len(owner.Recv.List[0].Names) != 1 ||
					owner.Recv.List[0].Names[0].Name == "_" || !isRecvType(info.TypeOf(owner.Recv.List[0].Type)) {
					ok = false
					break
				}
				rn := owner.Recv.List[0].Names[0]
				// the receiver name must not be shadowed at the call
				if sc := pkg.Types.Scope().Innermost(c.Pos()); sc != nil {
					if _, o := sc.LookupParent(rn.Name, c.Pos()); o != info.Defs[rn] {
						ok = false
						break
					}
				}
				rx := rn.Name
				if _, isPtr := info.TypeOf(owner.Recv.List[0].Type).(*types.Pointer); !isPtr {
					rx = "(&" + rx + ")"
				}
				add(c.Pos(), c.Fun.Pos(), c.Fun.Pos(), rx+".")
			}
		}
		if !ok {
			continue
		}
		for _, e := range eds {
			fe := in.file(e.pos)
			fe.edits = append(fe.edits, e.edit)
		}
		plan.expanded = append(plan.expanded, "method restored: "+key)
	}
}

// planParamObjects undoes "introduce parameter object": an unexported function with a parameter of an unexported struct
// type of its own package, which it only reads field by field, gets the fields as separate parameters again (named like
// the fields); every call site passes `arg.f1, arg.f2, ...` (or the values of a keyed literal). Calls must be direct.
func planParamObjects(p *Prog, in *inliner, plan *canonPlan) {
	for _, pkg := range p.Pkgs {
		info := pkg.TypesInfo
		for _, file := range pkg.Syntax {
			fname := p.Fset.Position(file.Pos()).Filename
			if strings.HasSuffix(fname, "_test.go") {
				continue
			}
			for _, d := range file.Decls {
				fd, ok := d.(*ast.FuncDecl)
				if !ok || fd.Body == nil || fd.Type.Params == nil || fd.Type.TypeParams != nil || fd.Name.IsExported() {
					continue
				}
				fobj, _ := info.Defs[fd.Name].(*types.Func)
				if fobj == nil {
					continue
				}
				for fi, fld := range fd.Type.Params.List {
					if len(fld.Names) != 1 || fld.Names[0].Name == "_" {
						continue
					}
					pv, _ := info.Defs[fld.Names[0]].(*types.Var)
					if pv == nil {
						continue
					}
					named, _ := pv.Type().(*types.Named)
					if named == nil || named.Obj().Pkg() != pkg.Types || named.Obj().Exported() || named.TypeArgs() != nil {
						continue
					}
					st, _ := named.Underlying().(*types.Struct)
					if st == nil || st.NumFields() == 0 || st.NumFields() > 12 {
						continue
					}
					if named.NumMethods() > 0 {
						continue
					}
					// body: only field reads
					okBody := true
					var sels []*ast.SelectorExpr
					ast.Inspect(fd.Body, func(n ast.Node) bool {
						id, isId := n.(*ast.Ident)
						if !isId || info.Uses[id] != types.Object(pv) {
							return true
						}
						sel, isSel := p.parents[id].(*ast.SelectorExpr)
						if !isSel || sel.X != ast.Expr(id) {
							okBody = false
							return true
						}
						if seln := info.Selections[sel]; seln == nil || seln.Kind() != types.FieldVal || len(seln.Index()) != 1 {
							okBody = false
							return true
						}
						switch par := p.parents[sel].(type) {
						case *ast.AssignStmt:
							for _, l := range par.Lhs {
								if l == ast.Expr(sel) {
									okBody = false
								}
							}
						case *ast.UnaryExpr:
							if par.Op == token.AND {
								okBody = false
							}
						case *ast.IncDecStmt:
							okBody = false
						}
						sels = append(sels, sel)
						return true
					})
					if !okBody || len(sels) == 0 {
						continue
					}
					// names: the field names must be free in the function
					clash := false
					used := map[string]bool{}
					ast.Inspect(fd, func(n ast.Node) bool {
						if id, isId := n.(*ast.Ident); isId {
							if o := info.Defs[id]; o != nil && o != types.Object(pv) {
								used[id.Name] = true
							}
						}
						return true
					})
					var fnames, ftypes []string
					qok := true
					for k := 0; k < st.NumFields(); k++ {
						f := st.Field(k)
						if f.Embedded() || used[f.Name()] || f.Name() == "_" {
							clash = true
						}
						// the name must not hide something the body uses (a package, a function)
						if sc := pkg.Types.Scope().Innermost(fd.Body.Pos()); sc != nil {
							if _, o := sc.LookupParent(f.Name(), fd.Body.Pos()); o != nil {
								usedInBody := false
								ast.Inspect(fd.Body, func(n ast.Node) bool {
									if id, isId := n.(*ast.Ident); isId && info.Uses[id] == o {
										usedInBody = true
									}
									return !usedInBody
								})
								if usedInBody {
									clash = true
								}
							}
						}
						tt := types.TypeString(f.Type(), func(q *types.Package) string {
							if q == pkg.Types {
								return ""
							}
							for _, imp := range file.Imports {
								if strings.Trim(imp.Path.Value, "\"") == q.Path() {
									if imp.Name != nil {
										return imp.Name.Name
									}
									return q.Name()
								}
							}
							qok = false
							return q.Name()
						})
						fnames = append(fnames, f.Name())
						ftypes = append(ftypes, tt)
					}
					if clash || !qok {
						continue
					}
					// call sites: direct calls only
					var calls []*ast.CallExpr
					okRefs := true
					for _, f2 := range pkg.Syntax {
						ast.Inspect(f2, func(n ast.Node) bool {
							id, isId := n.(*ast.Ident)
							if !isId || info.Uses[id] != types.Object(fobj) {
								return true
							}
							var callee ast.Expr = id
							if sel, isSel := p.parents[id].(*ast.SelectorExpr); isSel && sel.Sel == id {
								callee = sel
							}
							call, isCall := p.parents[callee].(*ast.CallExpr)
							if !isCall || call.Fun != callee || call.Ellipsis.IsValid() {
								okRefs = false
								return true
							}
							calls = append(calls, call)
							return true
						})
					}
					// the flattened argument index of this parameter
					argIdx := 0
					for j := 0; j < fi; j++ {
						n := len(fd.Type.Params.List[j].Names)
						if n == 0 {
							n = 1
						}
						argIdx += n
					}
					if !okRefs || len(calls) == 0 {
						continue
					}
					type argEdit struct {
						call *ast.CallExpr
						text string
					}
					var aes []argEdit
					okArgs := true
					for _, c := range calls {
						if argIdx >= len(c.Args) {
							okArgs = false
							break
						}
						a := ast.Unparen(c.Args[argIdx])
						var parts []string
						if cl, isLit := a.(*ast.CompositeLit); isLit {
							vals := map[string]string{}
							for _, el := range cl.Elts {
								kv, isKV := el.(*ast.KeyValueExpr)
								if !isKV {
									okArgs = false
									break
								}
								if k, isId := kv.Key.(*ast.Ident); isId {
									vals[k.Name] = in.text(kv.Value.Pos(), kv.Value.End())
								}
							}
							for _, fnm := range fnames {
								v, has := vals[fnm]
								if !has {
									okArgs = false // a zero value would have to be spelt
									break
								}
								parts = append(parts, v)
							}
						} else if isPlainOperand(a) {
							at := in.text(a.Pos(), a.End())
							for _, fnm := range fnames {
								parts = append(parts, at+"."+fnm)
							}
						} else {
							okArgs = false
						}
						if !okArgs {
							break
						}
						aes = append(aes, argEdit{c, strings.Join(parts, ", ")})
					}
					if !okArgs {
						continue
					}
					// edits
					var plist []string
					for k := range fnames {
						plist = append(plist, fnames[k]+" "+ftypes[k])
					}
					fe := in.file(fd.Pos())
					fe.edits = append(fe.edits, textEdit{start: in.off(fld.Pos()), end: in.off(fld.End()), text: strings.Join(plist, ", ")})
					for _, sel := range sels {
						fe.edits = append(fe.edits, textEdit{start: in.off(sel.Pos()), end: in.off(sel.End()), text: sel.Sel.Name})
					}
					for _, ae := range aes {
						a := ae.call.Args[argIdx]
						fe2 := in.file(a.Pos())
						fe2.edits = append(fe2.edits, textEdit{start: in.off(a.Pos()), end: in.off(a.End()), text: ae.text})
					}
					plan.expanded = append(plan.expanded, "parameter object of "+fd.Name.Name+" flattened")
					break // one parameter per function and round
				}
			}
		}
	}
}

// twoValuedCompare: be is `F(X) == C` / `!=` (either order) with F a plain function of the module whose body is
// `if COND { return C1 }; return C2` over its single parameter, C, C1, C2 constants and X a plain operand. It returns the
// condition the comparison amounts to, spelt over X.
func twoValuedCompare(p *Prog, in *inliner, info *types.Info, be *ast.BinaryExpr) (string, bool) {
	callE, constE := ast.Unparen(be.X), ast.Unparen(be.Y)
	call, isCall := callE.(*ast.CallExpr)
	if !isCall {
		callE, constE = constE, callE
		call, isCall = callE.(*ast.CallExpr)
	}
	if !isCall || len(call.Args) != 1 || !isPlainOperand(call.Args[0]) {
		return "", false
	}
	ctv, has := info.Types[constE]
	if !has || ctv.Value == nil {
		return "", false
	}
	var fid *ast.Ident
	switch f := ast.Unparen(call.Fun).(type) {
	case *ast.Ident:
		fid = f
	case *ast.SelectorExpr:
		if id, isId := f.X.(*ast.Ident); isId {
			if _, isPkg := info.Uses[id].(*types.PkgName); isPkg {
				fid = f.Sel
			}
		}
	}
	if fid == nil {
		return "", false
	}
	fo, _ := info.Uses[fid].(*types.Func)
	fn := p.FnOf(fo)
	if fn == nil || fn.Decl == nil || fn.Decl.Recv != nil || fn.Decl.Type.TypeParams != nil || fn.Body == nil || len(fn.Body.List) != 2 {
		return "", false
	}
	pv := fn.Param(0)
	if pv == nil || fn.Param(1) != nil {
		return "", false
	}
	ifs, isIf := fn.Body.List[0].(*ast.IfStmt)
	ret2, isRet := fn.Body.List[1].(*ast.ReturnStmt)
	if !isIf || !isRet || ifs.Init != nil || ifs.Else != nil || len(ifs.Body.List) != 1 || len(ret2.Results) != 1 {
		return "", false
	}
	ret1, isRet1 := ifs.Body.List[0].(*ast.ReturnStmt)
	if !isRet1 || len(ret1.Results) != 1 {
		return "", false
	}
	finfo := fn.Info()
	v1, ok1 := finfo.Types[ret1.Results[0]]
	v2, ok2 := finfo.Types[ret2.Results[0]]
	if !ok1 || !ok2 || v1.Value == nil || v2.Value == nil || constant.Compare(v1.Value, token.EQL, v2.Value) {
		return "", false
	}
	// the condition reads only the parameter (through selectors / method calls) and nil
	okCond := true
	var uses []*ast.Ident
	ast.Inspect(ifs.Cond, func(m ast.Node) bool {
		switch y := m.(type) {
		case *ast.SelectorExpr:
			ast.Inspect(y.X, func(k ast.Node) bool {
				if id, isId := k.(*ast.Ident); isId {
					if finfo.Uses[id] == types.Object(pv) {
						uses = append(uses, id)
					} else if _, isNil := finfo.Uses[id].(*types.Nil); !isNil {
						okCond = false
					}
				}
				return true
			})
			return false
		case *ast.Ident:
			if finfo.Uses[y] == types.Object(pv) {
				uses = append(uses, y)
			} else if _, isNil := finfo.Uses[y].(*types.Nil); !isNil {
				okCond = false
			}
		case *ast.FuncLit:
			okCond = false
		}
		return okCond
	})
	if !okCond || len(uses) == 0 {
		return "", false
	}
	arg := "(" + in.text(call.Args[0].Pos(), call.Args[0].End()) + ")"
	if _, isId := ast.Unparen(call.Args[0]).(*ast.Ident); isId {
		arg = in.text(call.Args[0].Pos(), call.Args[0].End())
	}
	var sb strings.Builder
	pos := ifs.Cond.Pos()
	for _, u := range uses {
		sb.WriteString(in.text(pos, u.Pos()))
		sb.WriteString(arg)
		pos = u.End()
	}
	sb.WriteString(in.text(pos, ifs.Cond.End()))
	cond := "(" + sb.String() + ")"
	eq := be.Op == token.EQL
	switch {
	case constant.Compare(ctv.Value, token.EQL, v1.Value):
		if eq {
			return cond, true
		}
		return "(!" + cond + ")", true
	case constant.Compare(ctv.Value, token.EQL, v2.Value):
		if eq {
			return "(!" + cond + ")", true
		}
		return cond, true
	}
	return "", false
}

// zeroText spells the zero value of a comparable type whose zero has a literal: nil, "" or 0.
func zeroText(t types.Type) string {
	if t == nil {
		return ""
	}
	switch u := t.Underlying().(type) {
	case *types.Pointer, *types.Slice, *types.Map, *types.Chan, *types.Signature, *types.Interface:
		return "nil"
	case *types.Basic:
		switch {
		case u.Info()&types.IsString != 0:
			return "\"\""
		case u.Info()&types.IsNumeric != 0:
			return "0"
		}
	}
	return ""
}
