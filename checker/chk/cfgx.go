package chk

import (
	"go/ast"
	"go/constant"
	"go/token"
	"go/types"

	"golang.org/x/tools/go/cfg"
	"golang.org/x/tools/go/types/typeutil"
)

// Block is a basic block of the control-flow graph.
type Block = cfg.Block

// Graph is the control-flow graph of one function body (go/cfg) with the
// helpers the path rules need.
type Graph struct {
	nilUse      map[*ast.Ident]*[2]bool // nilAtUse cache (nil entry: being computed)
	defCache    map[defKey]defVal
	signFlags   map[types.Object]bool           // found-index variables (-1 or non-negative), see boolFlags
	eqFlags     map[types.Object]constant.Value // locals compared with one constant only: the flag is "equals that constant"
	eqConst     map[types.Object]ast.Expr       // the constant as it is written in one of those comparisons
	Fn          *Fn
	C           *cfg.CFG
	Blocks      []*cfg.Block // live blocks
	Entry       *cfg.Block
	preds       map[*cfg.Block][]*cfg.Block
	flags       *[]types.Object
	flagIdent   map[types.Object]*ast.Ident
	nilFlags    map[types.Object]bool
	inDefFilter bool
	flagNilCmp  map[types.Object]ast.Expr
}

// Preds returns the predecessor map over live blocks.
func (g *Graph) Preds() map[*cfg.Block][]*cfg.Block {
	if g.preds != nil {
		return g.preds
	}
	g.preds = map[*cfg.Block][]*cfg.Block{}
	for _, b := range g.Blocks {
		for _, s := range b.Succs {
			g.preds[s] = append(g.preds[s], b)
		}
	}
	return g.preds
}

// noReturn reports whether call never returns normally.
func (f *Fn) noReturn(call *ast.CallExpr) bool {
	if id, ok := ast.Unparen(call.Fun).(*ast.Ident); ok {
		if b, ok := f.Info().Uses[id].(*types.Builtin); ok && b.Name() == "panic" {
			return true
		}
	}
	o := typeutil.Callee(f.Info(), call)
	fn, _ := o.(*types.Func)
	if fn == nil || fn.Pkg() == nil {
		return false
	}
	switch fn.Pkg().Path() + "." + fn.Name() {
	case "os.Exit", "log.Fatal", "log.Fatalf", "log.Fatalln", "log.Panic", "log.Panicf", "runtime.Goexit":
		return true
	}
	return false
}

// Graph builds (once) the CFG of the function.
func (f *Fn) Graph() *Graph {
	if f.g != nil {
		return f.g
	}
	c := cfg.New(f.Body, func(call *ast.CallExpr) bool { return !f.noReturn(call) })
	// go/cfg puts the communication statement of every select clause into the block before the select (its channel
	// operands are evaluated there); the send / receive itself happens only in the chosen clause: move each one to the
	// head of its clause's body block.
	bodyOf := map[ast.Stmt]*cfg.Block{}
	for _, b := range c.Blocks {
		if b.Kind == cfg.KindSelectCaseBody {
			bodyOf[b.Stmt] = b
		}
	}
	if len(bodyOf) > 0 {
		for _, b := range c.Blocks {
			var keep []ast.Node
			for _, n := range b.Nodes {
				if cc, ok := f.Prog.Parent(n).(*ast.CommClause); ok && cc.Comm == n && bodyOf[cc] != nil && bodyOf[cc] != b {
					tgt := bodyOf[cc]
					tgt.Nodes = append([]ast.Node{n}, tgt.Nodes...)
					continue
				}
				keep = append(keep, n)
			}
			b.Nodes = keep
		}
	}
	g := &Graph{Fn: f, C: c}
	for _, b := range c.Blocks {
		if b.Live {
			g.Blocks = append(g.Blocks, b)
		}
	}
	if len(c.Blocks) > 0 {
		g.Entry = c.Blocks[0]
	}
	f.g = g
	return g
}

// LitFn wraps a function literal found inside f as an analysable function.
func (f *Fn) LitFn(lit *ast.FuncLit) *Fn {
	return &Fn{Prog: f.Prog, Pkg: f.Pkg, Lit: lit, Body: lit.Body, Type: lit.Type, name: f.Name() + "$lit"}
}

// Site is a syntax node located inside a CFG block.
type Site struct {
	G    *Graph
	B    *cfg.Block
	I    int      // index of the top-level node in B.Nodes
	Top  ast.Node // B.Nodes[I]
	Node ast.Node // the matched node (Top or a descendant)
}

func (s Site) Pos() token.Pos { return s.Node.Pos() }

// InspectNoLit walks n without descending into function literals.
func InspectNoLit(n ast.Node, fn func(ast.Node) bool) {
	ast.Inspect(n, func(m ast.Node) bool {
		if m == nil {
			return true
		}
		if _, ok := m.(*ast.FuncLit); ok && m != n {
			return false
		}
		return fn(m)
	})
}

// Find returns every node (in any live block, function literals excluded)
// satisfying pred.
func (g *Graph) Find(pred func(n ast.Node) bool) []Site {
	var out []Site
	g.Fn.searching++
	defer func() { g.Fn.searching-- }()
	for _, b := range g.Blocks {
		for i, top := range b.Nodes {
			InspectNoLit(top, func(n ast.Node) bool {
				if pred(n) {
					out = append(out, Site{g, b, i, top, n})
				}
				return true
			})
		}
	}
	return out
}

// FindCalls returns the call sites (in live blocks) whose resolved callee has
// one of the given short names.
func (g *Graph) FindCalls(names ...string) []Site {
	return g.Find(func(n ast.Node) bool { return g.Fn.IsCallTo(n, names...) != nil })
}

// Fact says that expression E evaluated to Val on a branch edge.
type Fact struct {
	E   ast.Expr
	Val bool
}

// edgeCond returns the condition controlling the edge b -> b.Succs[k] as a
// (expr, value) pair, or nil when the edge is unconditional or not value based
// (range, select).
// EdgeCondExpr returns the condition expression that decides the edge b -> b.Succs[k] (nil for an unconditional edge).
func (g *Graph) EdgeCondExpr(b *cfg.Block, k int) ast.Expr {
	if c := g.edgeCond(b, k); c != nil {
		return c.E
	}
	return nil
}

func (g *Graph) edgeCond(b *cfg.Block, k int) *Fact {
	if len(b.Succs) != 2 {
		return nil
	}
	t := b.Succs[0]
	switch t.Kind {
	case cfg.KindIfThen:
		s, ok := t.Stmt.(*ast.IfStmt)
		if !ok || len(b.Nodes) == 0 || b.Nodes[len(b.Nodes)-1] != ast.Node(s.Cond) {
			return nil
		}
		return &Fact{s.Cond, k == 0}
	case cfg.KindForBody:
		s, ok := t.Stmt.(*ast.ForStmt)
		if !ok || s.Cond == nil || len(b.Nodes) == 0 || b.Nodes[len(b.Nodes)-1] != ast.Node(s.Cond) {
			return nil
		}
		return &Fact{s.Cond, k == 0}
	case cfg.KindSwitchCaseBody:
		cc, ok := t.Stmt.(*ast.CaseClause)
		if !ok || len(b.Nodes) == 0 {
			return nil
		}
		ce, ok := b.Nodes[len(b.Nodes)-1].(ast.Expr)
		if !ok {
			return nil
		}
		found := false
		for _, e := range cc.List {
			if e == ce {
				found = true
			}
		}
		if !found {
			return nil
		}
		sw, _ := g.Fn.Prog.Parent(g.Fn.Prog.Parent(cc)).(*ast.SwitchStmt)
		if sw == nil {
			return nil
		}
		if sw.Tag == nil {
			return &Fact{ce, k == 0}
		}
		return &Fact{&ast.BinaryExpr{X: sw.Tag, Op: token.EQL, Y: ce, OpPos: ce.Pos()}, k == 0}
	}
	return nil
}

// Atoms decomposes a branch fact into the atomic facts it implies:
// (a && b)=true implies a=true and b=true; (a || b)=false implies a=false and
// b=false; !a flips. The composite fact itself is included.
func Atoms(f Fact) []Fact {
	out := []Fact{f}
	switch e := f.E.(type) {
	case *ast.ParenExpr:
		out = append(out, Atoms(Fact{e.X, f.Val})...)
	case *ast.UnaryExpr:
		if e.Op == token.NOT {
			out = append(out, Atoms(Fact{e.X, !f.Val})...)
		}
	case *ast.BinaryExpr:
		if (e.Op == token.LAND && f.Val) || (e.Op == token.LOR && !f.Val) {
			out = append(out, Atoms(Fact{e.X, f.Val})...)
			out = append(out, Atoms(Fact{e.Y, f.Val})...)
		}
	}
	return out
}

// EdgeFacts returns the atomic facts implied by taking edge b -> Succs[k].
func (g *Graph) EdgeFacts(b *cfg.Block, k int) []Fact {
	c := g.edgeCond(b, k)
	if c == nil {
		return nil
	}
	return g.expandAtoms(Atoms(*c), 0)
}

// expandAtoms adds, for every atom that is a boolean local with an unambiguous
// definition (`local := a == b; if local && ...`), the atoms of the definition.
func (g *Graph) expandAtoms(in []Fact, depth int) []Fact {
	out := in
	if depth > 3 {
		return out
	}
	for _, ft := range in {
		id, ok := ast.Unparen(ft.E).(*ast.Ident)
		if !ok {
			continue
		}
		if rhs := g.Fn.LocalDef(id); rhs != nil {
			out = append(out, g.expandAtoms(Atoms(Fact{rhs, ft.Val}), depth+1)...)
		}
	}
	return out
}

// reachable computes the blocks reachable from the entry when every edge for
// which cut returns true is deleted.
func (g *Graph) reachable(cut func(b *cfg.Block, k int) bool) map[*cfg.Block]bool {
	seen := map[*cfg.Block]bool{}
	if g.Entry == nil {
		return seen
	}
	work := []*cfg.Block{g.Entry}
	seen[g.Entry] = true
	for len(work) > 0 {
		b := work[len(work)-1]
		work = work[:len(work)-1]
		for k, s := range b.Succs {
			if cut != nil && cut(b, k) {
				continue
			}
			if !seen[s] {
				seen[s] = true
				work = append(work, s)
			}
		}
	}
	return seen
}

// DominatedAll reports whether the site is dominated by each of the guards.
func (g *Graph) DominatedAll(s Site, guards ...Guard) (bool, int) {
	for i, gd := range guards {
		if !g.Dominated(s, gd) {
			return false, i
		}
	}
	return true, -1
}

// ExitKind classifies how a path ends.
type ExitKind int

const (
	NotExit    ExitKind = iota
	ExitReturn          // return statement
	ExitFall            // falls off the end of the function
	ExitAbort           // panic / os.Exit
)

// Walk is a position-sensitive search over the CFG: starting after From (or at
// the entry when From.B == nil) it follows every path, stops a path at a node
// for which Stop returns true (the obligation is met on that path) and reports
// the first node for which Hit returns true. Within one top-level node Stop is
// consulted before Hit (the operands of a return are evaluated before it
// returns). Cut deletes edges.
type Walk struct {
	G       *Graph
	From    Site
	Stop    func(top ast.Node) bool
	Hit     func(top ast.Node) bool
	HitExit bool // normal function exits (return, fall-off) count as hits
	Cut     func(b *cfg.Block, k int) bool
	// Inclusive makes the From node itself subject to Stop/Hit.
	Inclusive bool
}

// Witness describes the offending path end.
type Witness struct {
	Found bool
	Node  ast.Node // nil for fall-off exit
	Block *cfg.Block
	Kind  ExitKind
}

func (w Witness) Pos() token.Pos {
	if w.Node != nil {
		return w.Node.Pos()
	}
	return token.NoPos
}

// Run executes the search.
func (w *Walk) Run() Witness {
	g := w.G
	type item struct {
		b *cfg.Block
		i int
	}
	var work []item
	seen := map[*cfg.Block]bool{}
	if w.From.B == nil {
		if g.Entry == nil {
			return Witness{}
		}
		work = append(work, item{g.Entry, 0})
		seen[g.Entry] = true
	} else if w.Inclusive {
		work = append(work, item{w.From.B, w.From.I})
	} else {
		work = append(work, item{w.From.B, w.From.I + 1})
	}
	for len(work) > 0 {
		it := work[len(work)-1]
		work = work[:len(work)-1]
		b := it.b
		stopped := false
		for i := it.i; i < len(b.Nodes); i++ {
			n := b.Nodes[i]
			if w.Stop != nil && w.Stop(n) {
				stopped = true
				break
			}
			if w.Hit != nil && w.Hit(n) {
				return Witness{true, n, b, NotExit}
			}
		}
		if stopped {
			continue
		}
		if len(b.Succs) == 0 {
			k := g.exitKind(b)
			if w.HitExit && (k == ExitReturn || k == ExitFall) {
				var n ast.Node
				if len(b.Nodes) > 0 {
					n = b.Nodes[len(b.Nodes)-1]
				}
				return Witness{true, n, b, k}
			}
			continue
		}
		for k, s := range b.Succs {
			if w.Cut != nil && w.Cut(b, k) {
				continue
			}
			if !seen[s] {
				seen[s] = true
				work = append(work, item{s, 0})
			}
		}
	}
	return Witness{}
}

func (g *Graph) exitKind(b *cfg.Block) ExitKind {
	if len(b.Succs) != 0 {
		return NotExit
	}
	if len(b.Nodes) == 0 {
		return ExitFall
	}
	switch n := b.Nodes[len(b.Nodes)-1].(type) {
	case *ast.ReturnStmt:
		return ExitReturn
	case *ast.ExprStmt:
		if call, ok := n.X.(*ast.CallExpr); ok && g.Fn.noReturn(call) {
			return ExitAbort
		}
	}
	return ExitFall
}

// Returns lists every return statement in live blocks.
func (g *Graph) Returns() []Site {
	return g.Find(func(n ast.Node) bool { _, ok := n.(*ast.ReturnStmt); return ok })
}

// MustPass reports whether every path from `from` (exclusive; entry when
// from.B == nil) to a node satisfying `to` crosses a node satisfying `via`.
// It returns the witness of a path that does not.
func (g *Graph) MustPass(from Site, to func(ast.Node) bool, toExit bool, via func(ast.Node) bool) Witness {
	w := &Walk{G: g, From: from, Stop: via, Hit: to, HitExit: toExit}
	return w.Run()
}

// ContainsCallTo builds a node predicate: the node contains (outside function
// literals) a call to one of the named functions.
func (f *Fn) ContainsCallTo(names ...string) func(ast.Node) bool {
	return func(top ast.Node) bool {
		found := false
		InspectNoLit(top, func(n ast.Node) bool {
			if f.IsCallTo(n, names...) != nil {
				found = true
			}
			return !found
		})
		return found
	}
}

// DeferDominates reports whether a `defer` statement whose call satisfies pred
// is executed on every path from the entry to the site.
func (g *Graph) DeferDominates(s Site, pred func(call *ast.CallExpr) bool) bool {
	isDefer := func(top ast.Node) bool {
		d, ok := top.(*ast.DeferStmt)
		return ok && pred(d.Call)
	}
	w := &Walk{G: g, Stop: isDefer, Hit: func(top ast.Node) bool { return top == s.Top }}
	return !w.Run().Found
}

// LoopOf returns the innermost enclosing range/for statement of n inside the
// function, or nil.
func (f *Fn) LoopOf(n ast.Node) ast.Stmt {
	for p := f.Prog.Parent(n); p != nil; p = f.Prog.Parent(p) {
		switch s := p.(type) {
		case *ast.RangeStmt:
			return s
		case *ast.ForStmt:
			return s
		case *ast.FuncLit, *ast.FuncDecl:
			return nil
		}
	}
	return nil
}

// Encloses reports whether outer syntactically contains n.
func Encloses(outer, n ast.Node) bool {
	return outer != nil && n != nil && outer.Pos() <= n.Pos() && n.End() <= outer.End()
}

// BlocksOfLoop returns the loop head block and body entry for a range stmt.
func (g *Graph) RangeBlocks(rs *ast.RangeStmt) (loop, body, done *cfg.Block) {
	for _, b := range g.C.Blocks {
		if b.Stmt == ast.Stmt(rs) {
			switch b.Kind {
			case cfg.KindRangeLoop:
				loop = b
			case cfg.KindRangeBody:
				body = b
			case cfg.KindRangeDone:
				done = b
			}
		}
	}
	return
}

// ForIterationEnds lists the sites at which an iteration of the `for` statement ends and the next begins: the ends of
// the blocks inside the loop that jump back to its head (the post statement's block, the condition's block, or - for a
// bare `for {}` - the first block of the body).
func (g *Graph) ForIterationEnds(fs *ast.ForStmt) []Site {
	var head *cfg.Block
	for _, k := range []cfg.BlockKind{cfg.KindForPost, cfg.KindForLoop, cfg.KindForBody} {
		for _, b := range g.C.Blocks {
			if b.Stmt == ast.Stmt(fs) && b.Kind == k && head == nil {
				head = b
			}
		}
	}
	if head == nil {
		return nil
	}
	var out []Site
	for _, p := range g.Preds()[head] {
		if !p.Live {
			continue
		}
		inside := p.Stmt == ast.Stmt(fs) && p.Kind != cfg.KindForBody || (len(p.Nodes) > 0 && Encloses(fs.Body, p.Nodes[0])) || (p.Stmt != nil && p.Stmt != ast.Stmt(fs) && Encloses(fs.Body, p.Stmt))
		if p == head && len(p.Nodes) > 0 {
			inside = true
		}
		if inside {
			out = append(out, Site{G: g, B: p, I: len(p.Nodes)})
		}
	}
	return out
}

// LoopForall decides the "for all elements" shape: every path from the body
// entry of the range loop back to the loop head takes an edge implying the
// guard (an element that fails the check leaves the loop or the function), and
// the loop has no `break` (the block after the loop is entered only from the
// loop head, i.e. after exhaustion).
func (g *Graph) LoopForall(rs *ast.RangeStmt, guard Guard) (bool, string) {
	loop, body, done := g.RangeBlocks(rs)
	if loop == nil || body == nil || done == nil {
		return false, "range loop not found in the control-flow graph"
	}
	for _, b := range g.Blocks {
		if b == loop {
			continue
		}
		for _, s := range b.Succs {
			if s == done {
				return false, "the loop can be left early (break) at " + g.Fn.Prog.Rel(lastPos(b, rs))
			}
		}
	}
	// search from body for loop head avoiding guarded edges
	seen := map[*cfg.Block]bool{body: true}
	work := []*cfg.Block{body}
	for len(work) > 0 {
		b := work[len(work)-1]
		work = work[:len(work)-1]
		for k, s := range b.Succs {
			if g.EdgeImplies(b, k, guard) {
				continue
			}
			if s == loop {
				return false, "an iteration can complete without passing the check (path through " + g.Fn.Prog.Rel(lastPos(b, rs)) + ")"
			}
			if !seen[s] {
				seen[s] = true
				work = append(work, s)
			}
		}
	}
	return true, ""
}

func lastPos(b *cfg.Block, fallback ast.Node) token.Pos {
	if len(b.Nodes) > 0 {
		return b.Nodes[len(b.Nodes)-1].Pos()
	}
	return fallback.Pos()
}

// AfterLoop reports whether the site is reachable only after the range loop
// ran to exhaustion (every path to it takes the loop-head -> done edge).
func (g *Graph) AfterLoop(s Site, rs *ast.RangeStmt) bool {
	loop, _, _ := g.RangeBlocks(rs)
	if loop == nil {
		return false
	}
	cut := func(b *cfg.Block, k int) bool { return b == loop && k == 1 }
	seen := g.reachable(cut)
	if !seen[s.B] {
		return true
	}
	// path-sensitively: the paths around the loop (an earlier `goto` to a common error exit) may all fail a
	// condition before the site
	return !g.feasiblyReachable(s, cut)
}

// feasiblyReachable: some path from the entry to the site that takes none of the cut edges is compatible with the
// tracked flags and conditions.
func (g *Graph) feasiblyReachable(s Site, cut func(b *cfg.Block, k int) bool) bool {
	if g.Entry == nil || s.B == nil {
		return true
	}
	ga := g.newGuardAnalysis(GNever(), true)
	in := map[*cfg.Block][]uint64{g.Entry: ga.full()}
	work := []*cfg.Block{g.Entry}
	for len(work) > 0 {
		b := work[len(work)-1]
		work = work[:len(work)-1]
		st := in[b]
		for _, n := range b.Nodes {
			st = ga.transferNode(n, st)
		}
		for k, nb := range b.Succs {
			if cut(b, k) {
				continue
			}
			t := st
			if al := ga.edgeAllowed(Edge{b, k}); al != nil {
				t = bsIntersect(st, al)
			}
			if bsEmpty(t) {
				continue
			}
			cur, ok := in[nb]
			if !ok {
				cp := make([]uint64, len(t))
				copy(cp, t)
				in[nb] = cp
				work = append(work, nb)
			} else if bsUnion(cur, t) {
				work = append(work, nb)
			}
		}
	}
	if _, ok := in[s.B]; !ok {
		return false
	}
	i := s.I
	if i < 0 {
		i = 0
	}
	return !bsEmpty(ga.stateAt(in, s.B, i))
}

// RangeLoops returns the range statements of the function (literals excluded)
// whose ranged expression satisfies pred.
func (f *Fn) RangeLoops(pred func(x ast.Expr) bool) []*ast.RangeStmt {
	var out []*ast.RangeStmt
	InspectNoLit(f.Body, func(n ast.Node) bool {
		if rs, ok := n.(*ast.RangeStmt); ok {
			// the ranged expression itself, or the value of a local it was hoisted into
			if pred(rs.X) || (f.Resolve(rs.X) != rs.X && pred(f.Resolve(rs.X))) {
				out = append(out, rs)
			}
		}
		return true
	})
	return out
}

// InBody reports whether the site lies inside the body of the loop statement.
func InBody(loop ast.Stmt, n ast.Node) bool {
	switch l := loop.(type) {
	case *ast.RangeStmt:
		return Encloses(l.Body, n)
	case *ast.ForStmt:
		return Encloses(l.Body, n)
	}
	return false
}

// Edge is a CFG edge B -> B.Succs[K].
type Edge struct {
	B *cfg.Block
	K int
}

// EdgesImplying lists the branch edges on which the guard becomes established:
// edges whose own condition implies it, and edges after which it holds given the
// conditions and flag assignments on every path leading there (`f := a && !b; if f`).
func (g *Graph) EdgesImplying(guard Guard) []Edge {
	var out []Edge
	seen := map[Edge]bool{}
	for _, b := range g.Blocks {
		for k := range b.Succs {
			if g.EdgeImplies(b, k, guard) && !g.edgeNeverTaken(b, k) {
				out = append(out, Edge{b, k})
				seen[Edge{b, k}] = true
			}
		}
	}
	for _, e := range g.establishingEdges(guard) {
		if !seen[e] {
			out = append(out, e)
		}
	}
	return out
}

// DirectEdgesImplying is EdgesImplying without the edges that establish the guard only through a tracked flag: the
// edges whose own condition decides it.
func (g *Graph) DirectEdgesImplying(guard Guard) []Edge {
	var out []Edge
	for _, b := range g.Blocks {
		for k := range b.Succs {
			if g.EdgeImplies(b, k, guard) && !g.edgeNeverTaken(b, k) {
				out = append(out, Edge{b, k})
			}
		}
	}
	return out
}

// edgeNeverTaken: the edge's own condition is constant the other way (`if !flag` where the only definition of flag
// that reaches the test is `flag := false`): no execution takes the edge, so it establishes nothing.
func (g *Graph) edgeNeverTaken(b *cfg.Block, k int) bool {
	if g.edgeCond(b, k) == nil {
		return false
	}
	ga := g.newGuardAnalysis(GNever(), false)
	al := ga.edgeAllowed(Edge{b, k})
	return al != nil && bsEmpty(al)
}

// Region returns the syntactic region entered by the edge: the body of the
// if/else/case/loop the target block belongs to.
func (g *Graph) Region(e Edge) ast.Node {
	t := e.B.Succs[e.K]
	switch t.Kind {
	case cfg.KindIfThen:
		return t.Stmt.(*ast.IfStmt).Body
	case cfg.KindIfElse:
		return t.Stmt.(*ast.IfStmt).Else
	case cfg.KindSwitchCaseBody:
		return t.Stmt
	case cfg.KindForBody:
		return t.Stmt.(*ast.ForStmt).Body
	case cfg.KindRangeBody:
		return t.Stmt.(*ast.RangeStmt).Body
	}
	return nil
}

// BranchAlways reports whether every path that enters the branch through the
// edge passes a node satisfying via before it leaves the branch's region (or
// the function). The witness describes a path that does not.
func (g *Graph) BranchAlways(e Edge, via func(ast.Node) bool) Witness {
	t := e.B.Succs[e.K]
	region := g.Region(e)
	w := &Walk{G: g, From: Site{G: g, B: t, I: 0}, Inclusive: true, Stop: via, HitExit: true,
		Hit: func(n ast.Node) bool { return region == nil || !Encloses(region, n) }}
	// leaving the region through an empty join block is also "leaving": model by
	// treating blocks whose statement lies outside the region as hits
	return w.runRegion(region)
}

// RunRegion is Run restricted to a syntactic region: starting (inclusive) at
// From, a path that leaves the region - a node outside it, an empty join block
// belonging to a statement outside it, or a function exit - is a hit.
func (w *Walk) RunRegion(region ast.Node) Witness { return w.runRegion(region) }

func (w *Walk) runRegion(region ast.Node) Witness {
	g := w.G
	type item struct {
		b *cfg.Block
		i int
	}
	start := w.From.I
	if start < 0 {
		start = 0
	}
	work := []item{{w.From.B, start}}
	seen := map[*cfg.Block]bool{}
	for len(work) > 0 {
		it := work[len(work)-1]
		work = work[:len(work)-1]
		b := it.b
		stopped := false
		for i := it.i; i < len(b.Nodes); i++ {
			n := b.Nodes[i]
			if w.Stop != nil && w.Stop(n) {
				stopped = true
				break
			}
			if w.Hit != nil && w.Hit(n) {
				return Witness{true, n, b, NotExit}
			}
		}
		if stopped {
			continue
		}
		if len(b.Succs) == 0 {
			k := g.exitKind(b)
			if k == ExitReturn || k == ExitFall {
				var n ast.Node
				if len(b.Nodes) > 0 {
					n = b.Nodes[len(b.Nodes)-1]
				}
				return Witness{true, n, b, k}
			}
			continue
		}
		for k, s := range b.Succs {
			if w.Cut != nil && w.Cut(b, k) {
				continue
			}
			if seen[s] {
				continue
			}
			seen[s] = true
			// a successor block that belongs to a statement outside the region means
			// the branch was left
			if region != nil && s.Stmt != nil && !Encloses(region, s.Stmt) && len(s.Nodes) == 0 {
				return Witness{true, s.Stmt, s, NotExit}
			}
			work = append(work, item{s, 0})
		}
	}
	return Witness{}
}

// EdgeImpliesAny reports whether some branch edge of the function implies the guard.
func (g *Graph) EdgeImpliesAny(guard Guard) bool { return len(g.EdgesImplying(guard)) > 0 }

// StateWalk is a path-sensitive search over (block, abstract state) pairs for a
// small finite state (ordinary dataflow over a finite lattice with branch
// refinement; no arithmetic, no solver). Transfer updates the state at a node,
// Refine updates it along a branch edge and may declare the edge infeasible for
// that state. Stop ends a path (obligation met), Hit reports a violation.
type StateWalk struct {
	G        *Graph
	Init     int
	From     Site // zero value: function entry
	Transfer func(n ast.Node, s int) int
	Refine   func(b *cfg.Block, k int, s int) (int, bool)
	Stop     func(n ast.Node, s int) bool
	Hit      func(n ast.Node, s int) bool
	HitExit  func(kind ExitKind, last ast.Node, s int) bool
}

// Run executes the search and returns a witness of the first hit.
func (w *StateWalk) Run() Witness {
	g := w.G
	type key struct {
		b *cfg.Block
		s int
	}
	type item struct {
		b *cfg.Block
		i int
		s int
	}
	seen := map[key]bool{}
	var work []item
	if w.From.B == nil {
		if g.Entry == nil {
			return Witness{}
		}
		work = append(work, item{g.Entry, 0, w.Init})
		seen[key{g.Entry, w.Init}] = true
	} else {
		work = append(work, item{w.From.B, w.From.I, w.Init})
	}
	for len(work) > 0 {
		it := work[len(work)-1]
		work = work[:len(work)-1]
		b, s := it.b, it.s
		stopped := false
		for i := it.i; i < len(b.Nodes); i++ {
			n := b.Nodes[i]
			if w.Stop != nil && w.Stop(n, s) {
				stopped = true
				break
			}
			if w.Hit != nil && w.Hit(n, s) {
				return Witness{true, n, b, NotExit}
			}
			if w.Transfer != nil {
				s = w.Transfer(n, s)
			}
		}
		if stopped {
			continue
		}
		if len(b.Succs) == 0 {
			k := g.exitKind(b)
			var last ast.Node
			if len(b.Nodes) > 0 {
				last = b.Nodes[len(b.Nodes)-1]
			}
			if w.HitExit != nil && (k == ExitReturn || k == ExitFall) && w.HitExit(k, last, s) {
				return Witness{true, last, b, k}
			}
			continue
		}
		for k, nb := range b.Succs {
			ns, ok := s, true
			if w.Refine != nil {
				ns, ok = w.Refine(b, k, s)
			}
			if !ok {
				continue
			}
			if !seen[key{nb, ns}] {
				seen[key{nb, ns}] = true
				work = append(work, item{nb, 0, ns})
			}
		}
	}
	return Witness{}
}

// Emptiness states of a slice variable.
const (
	EmpUnknown = iota
	EmpEmpty
	EmpNonEmpty
)

// EmptinessTracker returns Transfer/Refine functions tracking whether the slice
// variable obj is empty: `v = T{}` / `v := T{}` / `var v T` -> empty,
// `v = append(v, …)` -> non-empty, any other assignment -> unknown; branches on
// len(v) == 0, len(v) != 0, len(v) > 0, len(v) == N refine and prune.
func (g *Graph) EmptinessTracker(isVar func(ast.Expr) bool) (func(ast.Node, int) int, func(*cfg.Block, int, int) (int, bool)) {
	f := g.Fn
	transfer := func(n ast.Node, s int) int {
		switch st := n.(type) {
		case *ast.AssignStmt:
			for i, l := range st.Lhs {
				if !isVar(l) {
					continue
				}
				if len(st.Rhs) != len(st.Lhs) {
					return EmpUnknown
				}
				r := ast.Unparen(st.Rhs[i])
				if cl, ok := r.(*ast.CompositeLit); ok && len(cl.Elts) == 0 {
					return EmpEmpty
				}
				if call, ok := r.(*ast.CallExpr); ok {
					if id, ok := call.Fun.(*ast.Ident); ok && id.Name == "append" && len(call.Args) >= 2 && isVar(call.Args[0]) {
						return EmpNonEmpty
					}
				}
				if f.IsNilLit(r) {
					return EmpEmpty
				}
				return EmpUnknown
			}
		case *ast.ValueSpec:
			for i, nm := range st.Names {
				if isVar(nm) {
					if len(st.Values) == 0 {
						return EmpEmpty
					}
					if i < len(st.Values) {
						if cl, ok := ast.Unparen(st.Values[i]).(*ast.CompositeLit); ok && len(cl.Elts) == 0 {
							return EmpEmpty
						}
					}
					return EmpUnknown
				}
			}
		}
		return s
	}
	isLen := f.IsLenOf(isVar)
	refine := func(b *cfg.Block, k int, s int) (int, bool) {
		for _, ft := range g.EdgeFacts(b, k) {
			be, ok := ast.Unparen(ft.E).(*ast.BinaryExpr)
			if !ok {
				continue
			}
			var other ast.Expr
			op := be.Op
			switch {
			case isLen(be.X):
				other = be.Y
			case isLen(be.Y):
				other = be.X
				if m, ok := mirrorOp[op]; ok {
					op = m
				}
			default:
				continue
			}
			c := f.ConstVal(other)
			if c == nil {
				continue
			}
			n, exact := constantInt(c)
			if !exact {
				continue
			}
			// does the comparison (with truth value ft.Val) imply empty / non-empty?
			holdsFor := func(l int64) bool {
				var r bool
				switch op {
				case token.EQL:
					r = l == n
				case token.NEQ:
					r = l != n
				case token.LSS:
					r = l < n
				case token.LEQ:
					r = l <= n
				case token.GTR:
					r = l > n
				case token.GEQ:
					r = l >= n
				default:
					return true
				}
				return r == ft.Val
			}
			emptyOK := holdsFor(0)
			nonEmptyOK := false
			for _, l := range []int64{1, 2, 3, n - 1, n, n + 1} {
				if l >= 1 && holdsFor(l) {
					nonEmptyOK = true
				}
			}
			switch {
			case emptyOK && !nonEmptyOK:
				if s == EmpNonEmpty {
					return s, false
				}
				s = EmpEmpty
			case !emptyOK && nonEmptyOK:
				if s == EmpEmpty {
					return s, false
				}
				s = EmpNonEmpty
			case !emptyOK && !nonEmptyOK:
				return s, false
			}
		}
		return s, true
	}
	return transfer, refine
}
