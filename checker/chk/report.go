package chk

import (
	"bufio"
	"encoding/json"
	"fmt"
	"go/token"
	"os"
	"path/filepath"
	"sort"
	"strconv"
	"strings"
	"time"
)

// VerifDir is where evidence, violations and known findings live.
func VerifDir() string {
	if d := os.Getenv("MLB_VERIF"); d != "" {
		return d
	}
	return "/verif"
}

type Status string

const (
	Discharged Status = "discharged"
	Violated   Status = "violated"
	Undecided  Status = "undecided"
	Known      Status = "known-finding"
)

// Obligation is one decided instance of a rule. Key is rule:construct and never
// contains a line number, so that moving code does not change it.
type Obligation struct {
	Rule   string `json:"rule"`
	Key    string `json:"key"`
	Status Status `json:"status"`
	Pos    string `json:"pos,omitempty"`
	Detail string `json:"detail,omitempty"`
}

// RuleInfo is the statement of a rule plus its instance count and floor.
type RuleInfo struct {
	ID        string `json:"id"`
	Engine    string `json:"engine"`
	Text      string `json:"text"`
	Instances int    `json:"instances"`
	Floor     int    `json:"floor"`
	Violated  int    `json:"violated"`
}

// Report collects everything one property check decided.
type Report struct {
	Property    string
	Tier        string
	Seed        int
	Prog        *Prog
	start       time.Time
	rules       []*RuleInfo
	ruleByID    map[string]*RuleInfo
	Obls        []Obligation
	fnSeen      map[string]bool
	CallSites   int
	Explanation string
	NotDecided  string
	Assumptions []string
	Extra       map[string]any
	Configs     []string
	Info        []string // informational lines (never violations)
}

// ProcessStart is when the checker process started (wall_s includes loading
// and type-checking /repo).
var ProcessStart = time.Now()

func NewReport(prop, tier string, p *Prog) *Report {
	seed, _ := strconv.Atoi(os.Getenv("VERIF_SEED"))
	return &Report{Property: prop, Tier: tier, Seed: seed, Prog: p, start: ProcessStart,
		ruleByID: map[string]*RuleInfo{}, fnSeen: map[string]bool{}, Extra: map[string]any{}}
}

// R is the handle through which a rule reports its instances.
type R struct {
	rep  *Report
	info *RuleInfo
}

// Rule declares a rule. floor is the minimum number of instances (obligations)
// confirmed by hand on the pinned tree; fewer means the rule went vacuous.
func (r *Report) Rule(id, engine, text string, floor int) *R {
	if ri := r.ruleByID[id]; ri != nil {
		return &R{r, ri}
	}
	ri := &RuleInfo{ID: id, Engine: engine, Text: text, Floor: floor}
	r.rules = append(r.rules, ri)
	r.ruleByID[id] = ri
	return &R{r, ri}
}

// Saw records that a function body was analysed.
func (r *Report) Saw(fns ...*Fn) {
	for _, f := range fns {
		if f != nil {
			r.fnSeen[f.Name()] = true
		}
	}
}

func (x *R) add(key string, st Status, pos token.Pos, detail string) {
	x.info.Instances++
	if st == Violated || st == Undecided {
		x.info.Violated++
	}
	ps := ""
	if pos.IsValid() && x.rep.Prog != nil {
		ps = x.rep.Prog.Rel(pos)
	}
	x.rep.Obls = append(x.rep.Obls, Obligation{Rule: x.info.ID, Key: x.info.ID + ":" + key, Status: st, Pos: ps, Detail: detail})
}

// CheckAt is Check for a position of another program (the tree as written): the position is given already rendered.
func (x *R) CheckAt(key, at string, ok bool, okDetail, failDetail string) bool {
	x.info.Instances++
	st, detail := Discharged, okDetail
	if !ok {
		st, detail = Violated, failDetail
		x.info.Violated++
	}
	x.rep.Obls = append(x.rep.Obls, Obligation{Rule: x.info.ID, Key: x.info.ID + ":" + key, Status: st, Pos: at, Detail: detail})
	return ok
}

// OK records a discharged obligation.
func (x *R) OK(key string, pos token.Pos, detail string) { x.add(key, Discharged, pos, detail) }

// Fail records a violated obligation.
func (x *R) Fail(key string, pos token.Pos, detail string) { x.add(key, Violated, pos, detail) }

// Undecided records an obligation the checker could not decide (anchor missing,
// idiom not recognised). It fails the check with a distinct text.
func (x *R) Undecided(key string, detail string) { x.add(key, Undecided, token.NoPos, detail) }

// Check records ok ? discharged : violated.
func (x *R) Check(key string, pos token.Pos, ok bool, okDetail, failDetail string) bool {
	if ok {
		x.OK(key, pos, okDetail)
	} else {
		x.Fail(key, pos, failDetail)
	}
	return ok
}

// Need resolves an anchor; a nil anchor is reported as undecided.
func (x *R) Need(f *Fn, what string) bool {
	if f == nil {
		x.Undecided("anchor:"+what, "UNDECIDED anchor missing: "+what)
		return false
	}
	x.rep.Saw(f)
	return true
}

// OutDir is where evidence/ and out/ are written (differs from VerifDir only in
// the mutant self-test, whose child runs must not overwrite the real evidence).
func OutDir() string {
	if d := os.Getenv("MLB_OUT"); d != "" {
		return d
	}
	return VerifDir()
}

// ---- known findings -------------------------------------------------------

type knownEntry struct {
	property, key, text string
}

func loadKnown() ([]knownEntry, []string) {
	var known []knownEntry
	var fixed []string
	f, err := os.Open(filepath.Join(VerifDir(), "known_findings.txt"))
	if err != nil {
		return nil, nil
	}
	defer f.Close()
	sc := bufio.NewScanner(f)
	for sc.Scan() {
		line := strings.TrimSpace(sc.Text())
		if strings.HasPrefix(line, "fixed:") {
			fixed = append(fixed, line)
			continue
		}
		if !strings.HasPrefix(line, "known:") {
			continue
		}
		var e knownEntry
		rest := strings.TrimSpace(strings.TrimPrefix(line, "known:"))
		for _, tok := range strings.Fields(rest) {
			if strings.HasPrefix(tok, "property=") {
				e.property = strings.TrimPrefix(tok, "property=")
			} else if strings.HasPrefix(tok, "key=") {
				e.key = strings.TrimPrefix(tok, "key=")
			}
		}
		if i := strings.Index(rest, " -- "); i >= 0 {
			e.text = strings.TrimSpace(rest[i+4:])
		}
		known = append(known, e)
	}
	return known, fixed
}

// ---- finishing --------------------------------------------------------------

type evidence struct {
	PropertyID  string         `json:"property_id"`
	Tier        string         `json:"tier"`
	Seed        int            `json:"seed"`
	Level       string         `json:"level"`
	Coverage    map[string]any `json:"coverage"`
	Assumptions []string       `json:"assumptions"`
	WallS       float64        `json:"wall_s"`
	Violations  int            `json:"violations"`
}

// Finish applies instance floors and known findings, writes the evidence file
// (and the violation artefact), prints the verdict and returns the exit code.
func (r *Report) Finish() int {
	for _, ri := range r.rules {
		// vacuity guard: the number of instances confirmed by hand on the pinned tree is recorded per rule;
		// a rule that still finds at least half of them is not vacuous (behaviour-preserving edits merge or
		// split sites), the individual obligations decide the rest
		if eff := (ri.Floor + 1) / 2; ri.Instances < eff {
			r.Obls = append(r.Obls, Obligation{Rule: ri.ID, Key: ri.ID + ":instance-floor", Status: Undecided,
				Detail: fmt.Sprintf("UNDECIDED rule went vacuous: %d instances matched, fewer than half of the %d confirmed by hand on the pinned tree", ri.Instances, ri.Floor)})
			ri.Violated++
		}
	}
	known, _ := loadKnown()
	var knownLines []string
	for i := range r.Obls {
		o := &r.Obls[i]
		if o.Status != Violated {
			continue
		}
		for _, k := range known {
			if k.property == r.Property && k.key == o.Key {
				o.Status = Known
				knownLines = append(knownLines, fmt.Sprintf("KNOWN-FINDING: property=%s %s %s (%s)", r.Property, o.Key, k.text, o.Pos))
			}
		}
	}
	var bad []Obligation
	discharged := 0
	distinct := map[string]bool{}
	for _, o := range r.Obls {
		distinct[o.Key] = true
		switch o.Status {
		case Discharged:
			discharged++
		case Violated, Undecided:
			bad = append(bad, o)
		}
	}
	var fns []string
	for f := range r.fnSeen {
		fns = append(fns, f)
	}
	sort.Strings(fns)
	var samples []any
	perRule := map[string]int{}
	for _, o := range r.Obls {
		if perRule[o.Rule] < 2 && len(samples) < 40 {
			perRule[o.Rule]++
			samples = append(samples, o)
		}
	}
	cov := map[string]any{
		"explanation": r.Explanation,
		"not_decided": r.NotDecided,
		"rule": "one obligation per (rule, construct) instance found in /repo's current source; an obligation is non-trivial " +
			"when it names a concrete construct (function, call site, field access, switch, loop, template node) that was located " +
			"through type information and decided on all paths; distinct = distinct obligation keys",
		"evaluations":         len(r.Obls),
		"distinct_nontrivial": len(distinct),
		"obligations":         len(r.Obls),
		"discharged":          discharged,
		"known_findings":      len(knownLines),
		"rules":               r.rules,
		"samples":             samples,
		"functions_analysed":  fns,
		"n_functions":         len(fns),
		"call_sites":          r.CallSites,
		"build_configs":       r.Configs,
		"exhaustive":          false,
	}
	if r.Prog != nil {
		cov["packages"] = len(r.Prog.Pkgs)
		cov["files"] = r.Prog.NFiles
		if n := r.Prog.Norm; n != nil {
			exp := n.Expanded
			if len(exp) > 60 {
				exp = append(append([]string{}, exp[:60]...), fmt.Sprintf("... and %d more", len(n.Expanded)-60))
			}
			cov["normalisation"] = map[string]any{"rounds": n.Rounds, "expansions": len(n.Expanded), "helpers_removed": len(n.Removed),
				"fallback": n.Fallback, "expanded": exp,
				"rule": "calls to unexported helpers that no rule names are expanded in memory where evaluation order is preserved; index loops become range loops; the rules are decided on this normal form (DESIGN.md section 0a)"}
		}
	}
	if len(r.Info) > 0 {
		cov["information"] = r.Info
	}
	for k, v := range r.Extra {
		cov[k] = v
	}
	if len(bad) > 0 {
		cov["violated_obligations"] = bad
	}
	ev := evidence{PropertyID: r.Property, Tier: r.Tier, Seed: r.Seed, Level: "other", Coverage: cov,
		Assumptions: append([]string{
			"the Go sources under /repo type-check (asserted on every run) and are the sources that are built: non-test files of every package of module go.universe.tf/metallb, linux/amd64 (thorough: also linux/arm)",
			"anchors (functions, fields, types) are resolved through go/types; a missing anchor is UNDECIDED and fails the check",
			"no pointer analysis: a guarded structure is assumed to be reached through its owning receiver (true for every table entry on the pinned tree)",
		}, r.Assumptions...),
		WallS: time.Since(r.start).Seconds(), Violations: len(bad)}
	evDir := filepath.Join(OutDir(), "evidence")
	os.MkdirAll(evDir, 0o755)
	writeJSON(filepath.Join(evDir, r.Property+".json"), ev)

	for _, l := range knownLines {
		fmt.Println(l)
	}
	nrules := len(r.rules)
	if len(bad) == 0 {
		fmt.Printf("OK property=%s tier=%s rules=%d obligations=%d discharged=%d known=%d functions=%d wall=%.1fs\n",
			r.Property, r.Tier, nrules, len(r.Obls), discharged, len(knownLines), len(fns), time.Since(r.start).Seconds())
		return 0
	}
	vdir := filepath.Join(OutDir(), "out", "violations")
	os.MkdirAll(vdir, 0o755)
	vpath := filepath.Join(vdir, r.Property+".json")
	writeJSON(vpath, map[string]any{"property": r.Property, "tier": r.Tier, "violated": bad})
	for _, o := range bad {
		tag := "violated"
		if o.Status == Undecided {
			tag = "UNDECIDED"
		}
		fmt.Printf("  %s %s at %s\n      %s\n", tag, o.Key, o.Pos, o.Detail)
	}
	fmt.Printf("VIOLATION property=%s replay=%s\n", r.Property, vpath)
	return 1
}

func writeJSON(path string, v any) {
	b, err := json.MarshalIndent(v, "", " ")
	if err != nil {
		fmt.Fprintln(os.Stderr, "marshal:", err)
		return
	}
	if err := os.WriteFile(path, append(b, '\n'), 0o644); err != nil {
		fmt.Fprintln(os.Stderr, "write:", err)
	}
}

// FailLoad writes an evidence file and a violation for a tree that could not be
// analysed at all (type errors, too few packages).
func FailLoad(prop, tier string, err error) int {
	r := NewReport(prop, tier, nil)
	r.Explanation = "the tree could not be loaded; nothing was decided"
	x := r.Rule("LOAD", "loader", "the analysed tree must load and type-check completely", 0)
	x.Undecided("load", "UNDECIDED "+err.Error())
	return r.Finish()
}

// Rep returns the report the rule belongs to.
func (x *R) Rep() *Report { return x.rep }

// IsKnown reports whether the obligation key is listed as a known finding for
// the property.
func IsKnown(prop, key string) bool {
	known, _ := loadKnown()
	for _, k := range known {
		if k.property == prop && k.key == key {
			return true
		}
	}
	return false
}
