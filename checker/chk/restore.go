package chk

// Anchor restoration (part of round 0 of the normalisation). The rules name functions of the confirmed tree. When such
// a function is missing from the tree under analysis but the package contains exactly one function or method whose name
// did not exist on the confirmed tree (or that has the anchor's name but the other kind: function <-> method) and whose
// operands - receiver and parameters, as a multiset of types - and results are those of the anchor, that function is the
// anchor renamed and/or with one of its parameters turned into the receiver (or the receiver turned into a parameter).
// It is rewritten back into the recorded shape, call sites included (every reference must be a direct call inside the
// package). The rewrite is checked by re-type-checking; when it fails the tree is analysed as written.
//
// The signatures of the confirmed tree come from rules/sigs_gen.go (tools/gen_sigs.sh).

import (
	"fmt"
	"go/ast"
	"go/token"
	"go/types"
	"os"
	"sort"
	"strings"

	"golang.org/x/tools/go/packages"
)

// PinnedSig is the recorded signature of one function of the confirmed tree; types are written relative to the package.
type PinnedSig struct {
	Pkg, Recv, Name string
	PNames, PTypes  []string
	RTypes          []string
	Sels            []string // the field / method names the body selects (sorted, unique): tells moved bodies apart
}

var pinnedSigs []PinnedSig
var pinnedNames = map[string]bool{} // "pkgpath.name"

// SetPinnedSigs installs the recorded signatures.
func SetPinnedSigs(s []PinnedSig) {
	pinnedSigs = s
	pinnedNames = map[string]bool{}
	for _, x := range s {
		pinnedNames[x.Pkg+"."+x.Name] = true
	}
}

// SigOf renders the signature of a declared function in the recorded form.
func SigOf(f *Fn) (PinnedSig, bool) {
	if f.Decl == nil || f.Pkg == nil || f.Obj == nil {
		return PinnedSig{}, false
	}
	sig, ok := f.Obj.Type().(*types.Signature)
	if !ok {
		return PinnedSig{}, false
	}
	q := types.RelativeTo(f.Pkg.Types)
	s := PinnedSig{Pkg: f.Pkg.PkgPath, Name: f.Decl.Name.Name}
	if r := sig.Recv(); r != nil {
		s.Recv = types.TypeString(r.Type(), q)
	}
	for i := 0; i < sig.Params().Len(); i++ {
		pv := sig.Params().At(i)
		t := types.TypeString(pv.Type(), q)
		if sig.Variadic() && i == sig.Params().Len()-1 {
			t = "..." + strings.TrimPrefix(t, "[]")
		}
		s.PNames = append(s.PNames, pv.Name())
		s.PTypes = append(s.PTypes, t)
	}
	for i := 0; i < sig.Results().Len(); i++ {
		s.RTypes = append(s.RTypes, types.TypeString(sig.Results().At(i).Type(), q))
	}
	s.Sels = bodySels(f.Decl)
	return s, true
}

// bodySels lists the names selected in the body of d (x.Name), sorted and unique, at most 40.
func bodySels(d *ast.FuncDecl) []string {
	if d == nil || d.Body == nil {
		return nil
	}
	seen := map[string]bool{}
	ast.Inspect(d.Body, func(n ast.Node) bool {
		if sel, ok := n.(*ast.SelectorExpr); ok {
			seen[sel.Sel.Name] = true
		}
		return true
	})
	var out []string
	for k := range seen {
		out = append(out, k)
	}
	sort.Strings(out)
	if len(out) > 40 {
		out = out[:40]
	}
	return out
}

// selSimilarity is the Jaccard similarity of two sorted name sets.
func selSimilarity(a, b []string) float64 {
	if len(a) == 0 && len(b) == 0 {
		return 1
	}
	in := map[string]bool{}
	for _, x := range a {
		in[x] = true
	}
	common := 0
	for _, x := range b {
		if in[x] {
			common++
		}
	}
	union := len(a) + len(b) - common
	if union == 0 {
		return 0
	}
	return float64(common) / float64(union)
}

func sameStrings(a, b []string) bool {
	if len(a) != len(b) {
		return false
	}
	for i := range a {
		if a[i] != b[i] {
			return false
		}
	}
	return true
}

func sortedCopy(a []string) []string {
	b := append([]string{}, a...)
	sort.Strings(b)
	return b
}

func (s PinnedSig) operands() (names, typs []string) {
	if s.Recv != "" {
		names, typs = append(names, ""), append(typs, s.Recv)
	}
	return append(names, s.PNames...), append(typs, s.PTypes...)
}

func planAnchorRestore(p *Prog, in *inliner, plan *canonPlan, skipDecl map[*ast.FuncDecl]bool) {
	if len(pinnedSigs) == 0 {
		return
	}
	isTest := func(f *Fn) bool { return strings.HasSuffix(p.Fset.Position(f.Decl.Pos()).Filename, "_test.go") }
	usedCand := map[*Fn]bool{}
	for _, want := range pinnedSigs {
		Anchors.mu.Lock()
		anch := Anchors.pinned[want.Pkg+"."+want.Name]
		Anchors.mu.Unlock()
		if !anch {
			continue
		}
		pk := p.ByPath[want.Pkg]
		if pk == nil {
			continue
		}
		for _, pt := range want.PTypes {
			if strings.HasPrefix(pt, "...") {
				anch = false
			}
		}
		if !anch {
			continue
		}
		// still there?
		present := false
		var cands, renames []*Fn
		loose := map[*Fn]bool{} // candidates that differ by an added result: considered only when no exact one exists
		wn, wt := want.operands()
		_ = wn
		wsorted := sortedCopy(wt)
		for _, f := range p.fnList {
			if f.Pkg != pk || f.Decl == nil || isTest(f) || f.Decl.Type.TypeParams != nil {
				continue
			}
			have, ok := SigOf(f)
			if !ok {
				continue
			}
			reordered := false
			if have.Name == want.Name && (have.Recv == "") == (want.Recv == "") && strings.TrimPrefix(have.Recv, "*") == strings.TrimPrefix(want.Recv, "*") {
				// the same function with its parameters in another order (an unexported signature tidied up) is given
				// the recorded order back; anything else of that name is the anchor as it stands
				if have.Recv == want.Recv && !sameStrings(have.PTypes, want.PTypes) && sameStrings(sortedCopy(have.PTypes), sortedCopy(want.PTypes)) && sameStrings(have.RTypes, want.RTypes) && !ast.IsExported(have.Name) {
					reordered = true
				} else {
					present = true
					break
				}
			}
			if skipDecl[f.Decl] || usedCand[f] {
				continue
			}
			newName := !pinnedNames[have.Pkg+"."+have.Name]
			flipped := have.Name == want.Name && (have.Recv == "") != (want.Recv == "")
			if !newName && !flipped && !reordered {
				continue
			}
			if flipped && want.Recv != "" && have.Recv == "" {
				continue // an anchored method that became a function of the same name: planMethodRestore
			}
			_, ht := have.operands()
			if !sameStrings(have.RTypes, want.RTypes) {
				// a procedure that now also reports something (the same operands, a result where there was none) is
				// still that procedure: the rules on its body and on where it is called from read the same
				if !(len(want.RTypes) == 0 && len(have.RTypes) > 0 && newName && sameStrings(have.PTypes, want.PTypes) && have.Recv == want.Recv) {
					continue
				}
				loose[f] = true
			}
			if newName && want.Recv != "" && have.Recv == "" && sameStrings(have.PTypes, want.PTypes) {
				// an anchored method that lost its (unused) receiver *and* its name: the name is given back here, the
				// receiver by planMethodRestore in a second pass of this round
				renames = append(renames, f)
				continue
			}
			if !sameStrings(sortedCopy(ht), wsorted) {
				// a value parameter that became a pointer receiver (or the other way round): the same multiset once the
				// receiver's pointer is dropped on both sides
				strip := func(ts []string, recv bool) []string {
					out := append([]string{}, ts...)
					if recv && len(out) > 0 {
						out[0] = strings.TrimPrefix(out[0], "*")
					}
					return out
				}
				okPtr := false
				if have.Recv != "" && want.Recv == "" {
					base := strings.TrimPrefix(have.Recv, "*")
					for i, t := range wt {
						if strings.TrimPrefix(t, "*") == base {
							w2 := append([]string{}, wt...)
							w2[i] = base
							if sameStrings(sortedCopy(strip(ht, true)), sortedCopy(w2)) {
								okPtr = true
							}
						}
					}
				}
				if !okPtr {
					continue
				}
			}
			for _, t := range have.PTypes {
				if strings.HasPrefix(t, "...") {
					ok = false
				}
			}
			if ok {
				cands = append(cands, f)
			}
		}
		if len(cands) > 1 {
			var exact []*Fn
			for _, c := range cands {
				if !loose[c] {
					exact = append(exact, c)
				}
			}
			if len(exact) >= 1 {
				cands = exact
			}
		}
		if !present && len(cands) == 0 && len(renames) == 1 {
			c := renames[0]
			if o := pk.Types.Scope().Lookup(want.Name); o == nil {
				n := 0
				for _, pkg2 := range p.Pkgs {
					for _, file := range pkg2.Syntax {
						ast.Inspect(file, func(m ast.Node) bool {
							if id, ok := m.(*ast.Ident); ok && (pkg2.TypesInfo.Uses[id] == types.Object(c.Obj) || pkg2.TypesInfo.Defs[id] == types.Object(c.Obj)) {
								fe := in.file(id.Pos())
								fe.edits = append(fe.edits, textEdit{start: in.off(id.Pos()), end: in.off(id.End()), text: want.Name})
								n++
							}
							return true
						})
					}
				}
				if n > 0 {
					usedCand[c] = true
					plan.expanded = append(plan.expanded, "anchor renamed: "+c.Decl.Name.Name+" -> "+want.Name+" (again)")
				}
			}
			continue
		}
		if os.Getenv("MLB_DEBUG_RESTORE") == want.Name {
			fmt.Fprintln(os.Stderr, "restore", want.Name, "present", present, "cands", len(cands), "renames", len(renames))
			for _, c := range cands {
				fmt.Fprintln(os.Stderr, "  cand", c.Name())
			}
		}
		if present || len(cands) != 1 {
			continue
		}
		c := cands[0]
		// the wanted name must be free (or be the candidate's own): in the package scope for a function, in the method
		// set of the receiver for a method (a method may share its name with a package-level function)
		if o := pk.Types.Scope().Lookup(want.Name); want.Recv == "" && o != nil && o != types.Object(c.Obj) {
			continue
		}
		if want.Recv != "" {
			// the method set of the receiver type must not have the name already
			tn, _ := pk.Types.Scope().Lookup(strings.TrimPrefix(want.Recv, "*")).(*types.TypeName)
			if tn == nil {
				continue
			}
			if obj, _, _ := types.LookupFieldOrMethod(tn.Type(), true, pk.Types, want.Name); obj != nil && obj != types.Object(c.Obj) {
				continue
			}
		}
		if in.restoreTo(pk.TypesInfo, c, want) {
			usedCand[c] = true
			have, _ := SigOf(c)
			from := have.Name
			if have.Recv != "" {
				from = "(" + have.Recv + ")." + have.Name
			}
			to := want.Name
			if want.Recv != "" {
				to = "(" + want.Recv + ")." + want.Name
			}
			plan.expanded = append(plan.expanded, "anchor restored: "+from+" -> "+to)
		}
	}
}

// restoreTo rewrites the declaration of c and its calls into the recorded shape.
func (in *inliner) restoreTo(info *types.Info, c *Fn, want PinnedSig) bool {
	p := in.p
	d := c.Decl
	// the candidate's operands: names and types, receiver first
	type operand struct {
		name, typ string
	}
	var cops []operand
	have, _ := SigOf(c)
	if d.Recv != nil && len(d.Recv.List) == 1 {
		n := "_"
		if len(d.Recv.List[0].Names) == 1 {
			n = d.Recv.List[0].Names[0].Name
		}
		cops = append(cops, operand{n, have.Recv})
	}
	k := 0
	for _, fld := range d.Type.Params.List {
		if len(fld.Names) == 0 {
			cops = append(cops, operand{"_", have.PTypes[k]})
			k++
			continue
		}
		for _, nm := range fld.Names {
			cops = append(cops, operand{nm.Name, have.PTypes[k]})
			k++
		}
	}
	wn, wt := want.operands()
	if len(cops) != len(wt) {
		return false
	}
	// wanted position -> candidate operand: same type; among several of one type, the same name first, then the order kept
	sigma := make([]int, len(wt))
	taken := make([]bool, len(cops))
	for i := range sigma {
		sigma[i] = -1
	}
	for i := range wt {
		for j := range cops {
			if !taken[j] && cops[j].typ == wt[i] && wn[i] != "" && cops[j].name == wn[i] {
				sigma[i], taken[j] = j, true
				break
			}
		}
	}
	for i := range wt {
		if sigma[i] >= 0 {
			continue
		}
		for j := range cops {
			if !taken[j] && cops[j].typ == wt[i] {
				sigma[i], taken[j] = j, true
				break
			}
		}
	}
	for i := range wt {
		if sigma[i] >= 0 {
			continue
		}
		// the candidate's receiver for a parameter of the same type up to one pointer
		if d.Recv != nil && !taken[0] && strings.TrimPrefix(cops[0].typ, "*") == strings.TrimPrefix(wt[i], "*") {
			sigma[i], taken[0] = 0, true
			continue
		}
		return false
	}
	// type text as written in the candidate's declaration (keeps package qualifiers as the file spells them)
	typeText := make([]string, len(cops))
	j := 0
	if d.Recv != nil && len(d.Recv.List) == 1 {
		typeText[0] = in.text(d.Recv.List[0].Type.Pos(), d.Recv.List[0].Type.End())
		j = 1
	}
	for _, fld := range d.Type.Params.List {
		n := len(fld.Names)
		if n == 0 {
			n = 1
		}
		for q := 0; q < n; q++ {
			typeText[j] = in.text(fld.Type.Pos(), fld.Type.End())
			j++
		}
	}
	// references: direct calls inside the package
	type ref struct {
		call *ast.CallExpr
		ops  []string
	}
	var refs []ref
	okRefs := true
	for _, pkg := range p.Pkgs {
		for _, file := range pkg.Syntax {
			ast.Inspect(file, func(n ast.Node) bool {
				id, ok := n.(*ast.Ident)
				if !ok || pkg.TypesInfo.Uses[id] != types.Object(c.Obj) {
					return true
				}
				if pkg != c.Pkg {
					okRefs = false
					return true
				}
				var call *ast.CallExpr
				var ops []string
				switch par := p.parents[id].(type) {
				case *ast.CallExpr:
					if par.Fun == ast.Expr(id) {
						call = par
					}
				case *ast.SelectorExpr:
					if pc, isCall := p.parents[par].(*ast.CallExpr); isCall && pc.Fun == ast.Expr(par) && par.Sel == id {
						if seln := info.Selections[par]; seln != nil && seln.Kind() == types.MethodVal {
							call = pc
							x := in.text(par.X.Pos(), par.X.End())
							if !isPlainOperand(par.X) {
								x = "(" + x + ")"
							}
							xt := info.TypeOf(par.X)
							if xt == nil {
								okRefs = false
								return true
							}
							// the wanted operand's pointer-ness decides: the expression is adjusted from what it is
							wantPtr := false
							for i := range wt {
								if sigma[i] == 0 {
									wantPtr = strings.HasPrefix(wt[i], "*")
								}
							}
							_, isPtr := xt.Underlying().(*types.Pointer)
							switch {
							case wantPtr && !isPtr:
								x = "&" + x
							case !wantPtr && isPtr:
								x = "(*" + x + ")"
							}
							ops = append(ops, x)
						}
					}
				}
				if call == nil || call.Ellipsis.IsValid() {
					okRefs = false
					return true
				}
				for _, a := range call.Args {
					ops = append(ops, in.text(a.Pos(), a.End()))
				}
				if len(ops) != len(cops) {
					okRefs = false
					return true
				}
				refs = append(refs, ref{call, ops})
				return true
			})
		}
	}
	if !okRefs {
		return false
	}
	// the declaration
	var hdr strings.Builder
	hdr.WriteString("func ")
	first := 0
	if want.Recv != "" {
		o := cops[sigma[0]]
		hdr.WriteString("(" + o.name + " " + typeText[sigma[0]] + ") ")
		first = 1
	}
	hdr.WriteString(want.Name + "(")
	for i := first; i < len(wt); i++ {
		if i > first {
			hdr.WriteString(", ")
		}
		tt := typeText[sigma[i]]
		if cops[sigma[i]].typ != wt[i] {
			if strings.HasPrefix(wt[i], "*") {
				tt = "*" + tt
			} else {
				tt = strings.TrimPrefix(tt, "*")
			}
		}
		hdr.WriteString(cops[sigma[i]].name + " " + tt)
	}
	hdr.WriteString(")")
	fe := in.file(d.Pos())
	fe.edits = append(fe.edits, textEdit{start: in.off(d.Pos()), end: in.off(d.Type.Params.Closing) + 1, text: hdr.String()})
	for _, r := range refs {
		var sb strings.Builder
		first := 0
		if want.Recv != "" {
			x := r.ops[sigma[0]]
			if strings.HasPrefix(x, "&") || strings.HasPrefix(x, "(*") {
				x = "(" + x + ")"
			}
			sb.WriteString(x + ".")
			first = 1
		}
		sb.WriteString(want.Name + "(")
		for i := first; i < len(wt); i++ {
			if i > first {
				sb.WriteString(", ")
			}
			sb.WriteString(r.ops[sigma[i]])
		}
		sb.WriteString(")")
		fe := in.file(r.call.Pos())
		fe.edits = append(fe.edits, textEdit{start: in.off(r.call.Pos()), end: in.off(r.call.End()), text: sb.String()})
	}
	_ = token.NoPos
	return true
}

// ---- renamed struct fields -----------------------------------------------------------------------------------------

// PinnedField is one field of a named struct type of the confirmed tree.
type PinnedField struct {
	Pkg, Type, Name, FType string
}

var pinnedFields []PinnedField

// SetPinnedFields installs the recorded struct fields.
func SetPinnedFields(f []PinnedField) { pinnedFields = f }

// FieldsOf lists the fields of the named struct types of a package in the recorded form.
func FieldsOf(p *Prog) []PinnedField {
	var out []PinnedField
	for _, pkg := range p.Pkgs {
		sc := pkg.Types.Scope()
		q := types.RelativeTo(pkg.Types)
		for _, nm := range sc.Names() {
			tn, ok := sc.Lookup(nm).(*types.TypeName)
			if !ok {
				continue
			}
			st, ok := tn.Type().Underlying().(*types.Struct)
			if !ok {
				continue
			}
			if strings.HasSuffix(p.Fset.Position(tn.Pos()).Filename, "_test.go") {
				continue
			}
			for i := 0; i < st.NumFields(); i++ {
				f := st.Field(i)
				if f.Embedded() {
					continue
				}
				out = append(out, PinnedField{pkg.PkgPath, nm, f.Name(), types.TypeString(f.Type(), q)})
			}
		}
	}
	return out
}

// planFieldRestore: a field the rules name that is missing from its struct while the struct has exactly one field that
// did not exist on the confirmed tree and has the missing field's type is that field renamed; declaration, selectors
// and literal keys get the recorded name back.
func planFieldRestore(p *Prog, in *inliner, plan *canonPlan) {
	if len(pinnedFields) == 0 {
		return
	}
	byType := map[string][]PinnedField{}
	for _, f := range pinnedFields {
		byType[f.Pkg+"."+f.Type] = append(byType[f.Pkg+"."+f.Type], f)
	}
	Anchors.mu.Lock()
	idents := map[string]bool{}
	for k := range Anchors.idents {
		idents[k] = true
	}
	Anchors.mu.Unlock()
	for key, pf := range byType {
		pkg := p.ByPath[pf[0].Pkg]
		if pkg == nil {
			continue
		}
		tn, _ := pkg.Types.Scope().Lookup(pf[0].Type).(*types.TypeName)
		if tn == nil {
			continue
		}
		st, ok := tn.Type().Underlying().(*types.Struct)
		if !ok {
			continue
		}
		q := types.RelativeTo(pkg.Types)
		pinnedName := map[string]bool{}
		for _, f := range pf {
			pinnedName[f.Name] = true
		}
		cur := map[string]*types.Var{}
		for i := 0; i < st.NumFields(); i++ {
			cur[st.Field(i).Name()] = st.Field(i)
		}
		used := map[*types.Var]bool{}
		// a field that holds the recorded concrete type behind an interface of this module (dependency inversion for the
		// tests' sake): when everything the analysed code ever stores there is of the recorded type, the calls through
		// it are calls of that type's methods - the field gets its recorded type back
		for _, want := range pf {
			c := cur[want.Name]
			if c == nil || types.TypeString(c.Type(), q) == want.FType {
				continue
			}
			nt, isNamed := c.Type().(*types.Named)
			if !isNamed || nt.Obj().Pkg() == nil || !strings.HasPrefix(nt.Obj().Pkg().Path(), Module) {
				continue
			}
			if _, isIface := nt.Underlying().(*types.Interface); !isIface {
				continue
			}
			var stored types.Type
			good, n := true, 0
			note := func(info *types.Info, rhs ast.Expr) {
				t := info.TypeOf(rhs)
				if t == nil || types.TypeString(t, q) != want.FType {
					good = false
					return
				}
				stored = t
				n++
			}
			for _, pk := range p.Pkgs {
				for _, file := range pk.Syntax {
					if strings.HasSuffix(p.Fset.Position(file.Pos()).Filename, "_test.go") {
						continue
					}
					ast.Inspect(file, func(m ast.Node) bool {
						switch v := m.(type) {
						case *ast.KeyValueExpr:
							if k, isId := v.Key.(*ast.Ident); isId && pk.TypesInfo.Uses[k] == types.Object(c) {
								note(pk.TypesInfo, v.Value)
							}
						case *ast.AssignStmt:
							for i, l := range v.Lhs {
								sel, isSel := ast.Unparen(l).(*ast.SelectorExpr)
								if !isSel || pk.TypesInfo.Uses[sel.Sel] != types.Object(c) {
									continue
								}
								if len(v.Lhs) != len(v.Rhs) {
									good = false
									continue
								}
								note(pk.TypesInfo, v.Rhs[i])
							}
						case *ast.UnaryExpr:
							if sel, isSel := ast.Unparen(v.X).(*ast.SelectorExpr); isSel && v.Op == token.AND && pk.TypesInfo.Uses[sel.Sel] == types.Object(c) {
								good = false
							}
						case *ast.CompositeLit:
							// an unkeyed literal of the struct
							if t := pk.TypesInfo.TypeOf(v); t != nil && len(v.Elts) > 0 {
								if _, isKV := v.Elts[0].(*ast.KeyValueExpr); !isKV {
									if ut, isSt := t.Underlying().(*types.Struct); isSt && ut == st {
										good = false
									}
								}
							}
						}
						return true
					})
				}
			}
			if !good || n == 0 || stored == nil {
				continue
			}
			// the declaration: a field of its own
			var ftype ast.Expr
			for _, file := range pkg.Syntax {
				ast.Inspect(file, func(m ast.Node) bool {
					fl, isF := m.(*ast.Field)
					if isF && len(fl.Names) == 1 && pkg.TypesInfo.Defs[fl.Names[0]] == types.Object(c) {
						ftype = fl.Type
					}
					return ftype == nil
				})
			}
			if ftype == nil {
				continue
			}
			txt := types.TypeString(stored, func(o *types.Package) string {
				if o == pkg.Types {
					return ""
				}
				return o.Name()
			})
			fe := in.file(ftype.Pos())
			fe.edits = append(fe.edits, textEdit{start: in.off(ftype.Pos()), end: in.off(ftype.End()), text: txt})
			plan.expanded = append(plan.expanded, "field type restored: "+key+"."+want.Name+" "+nt.Obj().Name()+" -> "+txt)
		}
		for _, want := range pf {
			if cur[want.Name] != nil || !idents[want.Name] {
				continue
			}
			var cands []*types.Var
			for i := 0; i < st.NumFields(); i++ {
				f := st.Field(i)
				if f.Embedded() || pinnedName[f.Name()] || used[f] {
					continue
				}
				if types.TypeString(f.Type(), q) == want.FType {
					cands = append(cands, f)
				}
			}
			// the other missing fields of this type must not compete for the same candidate
			competitors := 0
			for _, w2 := range pf {
				if cur[w2.Name] == nil && w2.FType == want.FType {
					competitors++
				}
			}
			if len(cands) != 1 || competitors != 1 {
				continue
			}
			if obj, _, _ := types.LookupFieldOrMethod(tn.Type(), true, pkg.Types, want.Name); obj != nil {
				continue
			}
			c := cands[0]
			used[c] = true
			n := 0
			for _, pk := range p.Pkgs {
				for _, file := range pk.Syntax {
					ast.Inspect(file, func(m ast.Node) bool {
						id, ok := m.(*ast.Ident)
						if !ok {
							return true
						}
						if pk.TypesInfo.Uses[id] == types.Object(c) || pk.TypesInfo.Defs[id] == types.Object(c) {
							fe := in.file(id.Pos())
							fe.edits = append(fe.edits, textEdit{start: in.off(id.Pos()), end: in.off(id.End()), text: want.Name})
							n++
						}
						return true
					})
				}
			}
			if n > 0 {
				plan.expanded = append(plan.expanded, "field restored: "+key+"."+c.Name()+" -> "+want.Name)
			}
		}
	}
}

// ---- an anchored function moved to another package ---------------------------------------------------------------------

// planAnchorMoved: an anchored package-level function that is gone from its package, while another package of the
// module has gained exactly one function or method (a name the confirmed tree does not have) with the same operands -
// for a method: the receiver is one of the anchor's parameters, the parameters are the others in order - the same
// results, and a name the anchor's name ends with (poolMatchesNodeL2 -> (*config.Pool).MatchesNodeL2). When the moved
// body reads nothing but its operands, exported fields / methods and exported names of its new package, the anchor is
// put back where it was: declared in the file of its first caller with the moved body, and the calls inside the old
// package are directed to it. The moved declaration stays (other packages may use it). Checked by re-type-checking.
func planAnchorMoved(p *Prog, in *inliner, plan *canonPlan) {
	if len(pinnedSigs) == 0 {
		return
	}
	for _, want := range pinnedSigs {
		Anchors.mu.Lock()
		anch := Anchors.pinned[want.Pkg+"."+want.Name]
		Anchors.mu.Unlock()
		if !anch || want.Recv != "" || len(want.RTypes) == 0 {
			continue
		}
		pk := p.ByPath[want.Pkg]
		if pk == nil || pk.Types.Scope().Lookup(want.Name) != nil {
			continue
		}
		variadic := false
		for _, pt := range want.PTypes {
			if strings.HasPrefix(pt, "...") {
				variadic = true
			}
		}
		if variadic {
			continue
		}
		q := types.RelativeTo(pk.Types)
		type cand struct {
			f     *Fn
			order []int // wanted parameter i is the candidate's operand order[i] (0 = receiver when there is one)
		}
		var cands []cand
		for _, f := range p.fnList {
			if f.Pkg == pk || f.Decl == nil || f.Obj == nil || f.Decl.Type.TypeParams != nil || !ast.IsExported(f.Decl.Name.Name) ||
				strings.HasSuffix(p.Fset.Position(f.Decl.Pos()).Filename, "_test.go") || !strings.HasPrefix(f.Pkg.PkgPath, Module) {
				continue
			}
			if pinnedNames[f.Pkg.PkgPath+"."+f.Decl.Name.Name] {
				continue
			}
			nameFits := strings.HasSuffix(strings.ToLower(want.Name), strings.ToLower(f.Decl.Name.Name)) && len(f.Decl.Name.Name) >= 6
			if !nameFits && (len(want.Sels) == 0 || selSimilarity(want.Sels, bodySels(f.Decl)) < 0.8) {
				continue // neither the name nor what the body reads says it is the anchor
			}
			sig := f.Obj.Type().(*types.Signature)
			if sig.Variadic() || sig.Results().Len() != len(want.RTypes) {
				continue
			}
			okR := true
			for i := 0; i < sig.Results().Len(); i++ {
				if types.TypeString(stripParamNames(sig.Results().At(i).Type()), q) != want.RTypes[i] {
					okR = false
				}
			}
			if !okR {
				continue
			}
			var ops []string
			if r := sig.Recv(); r != nil {
				ops = append(ops, types.TypeString(stripParamNames(r.Type()), q))
			}
			for i := 0; i < sig.Params().Len(); i++ {
				ops = append(ops, types.TypeString(stripParamNames(sig.Params().At(i).Type()), q))
			}
			if len(ops) != len(want.PTypes) {
				continue
			}
			// the receiver takes the place of the first wanted parameter of its type; the others keep their order
			order := make([]int, len(want.PTypes))
			used := make([]bool, len(ops))
			okO := true
			start := 0
			if sig.Recv() != nil {
				start = 1
				ri := -1
				for i, t := range want.PTypes {
					if t == ops[0] {
						ri = i
						break
					}
				}
				if ri < 0 {
					continue
				}
				order[ri], used[0] = 0, true
				k := start
				for i := range want.PTypes {
					if i == ri {
						continue
					}
					if k >= len(ops) || ops[k] != want.PTypes[i] {
						okO = false
						break
					}
					order[i], used[k] = k, true
					k++
				}
			} else {
				for i := range want.PTypes {
					if ops[i] != want.PTypes[i] {
						okO = false
					}
					order[i] = i
				}
			}
			if okO {
				cands = append(cands, cand{f, order})
			}
		}
		if len(cands) > 1 && len(want.Sels) > 0 {
			// several moved functions of that shape: the one whose body reads what the anchor's body read
			best, bestSim, tie := -1, -1.0, false
			for i, c := range cands {
				sim := selSimilarity(want.Sels, bodySels(c.f.Decl))
				switch {
				case sim > bestSim:
					best, bestSim, tie = i, sim, false
				case sim == bestSim:
					tie = true
				}
			}
			if best >= 0 && !tie && bestSim >= 0.8 {
				cands = []cand{cands[best]}
			}
		}
		if len(cands) != 1 {
			continue
		}
		c := cands[0]
		if in.moveBack(pk, c.f, c.order, want) {
			plan.expanded = append(plan.expanded, "anchor moved to "+c.f.Name()+" put back as "+want.Name)
		}
	}
}

func (in *inliner) moveBack(pk *packages.Package, c *Fn, order []int, want PinnedSig) bool {
	p := in.p
	cinfo := c.Pkg.TypesInfo
	sig := c.Obj.Type().(*types.Signature)
	// the calls inside the old package: all direct, in non-test files
	var calls []*ast.CallExpr
	okUses := true
	var firstFile *ast.File
	for _, file := range pk.Syntax {
		if strings.HasSuffix(p.Fset.Position(file.Pos()).Filename, "_test.go") {
			continue
		}
		ast.Inspect(file, func(n ast.Node) bool {
			id, ok := n.(*ast.Ident)
			if !ok || pk.TypesInfo.Uses[id] != types.Object(c.Obj) {
				return true
			}
			sel, isSel := p.parents[id].(*ast.SelectorExpr)
			if !isSel || sel.Sel != id {
				okUses = false
				return true
			}
			call, isCall := p.parents[sel].(*ast.CallExpr)
			if !isCall || call.Fun != ast.Expr(sel) || call.Ellipsis.IsValid() {
				okUses = false
				return true
			}
			calls = append(calls, call)
			if firstFile == nil {
				firstFile = file
			}
			return true
		})
	}
	if !okUses || len(calls) == 0 || firstFile == nil {
		return false
	}
	// import names of the target file
	impName := map[string]string{}
	for _, imp := range firstFile.Imports {
		path := strings.Trim(imp.Path.Value, "\"")
		name := ""
		if imp.Name != nil {
			name = imp.Name.Name
		} else if ip := p.AllTypes[path]; ip != nil {
			name = ip.Name()
		} else {
			name = path[strings.LastIndexByte(path, '/')+1:]
		}
		impName[path] = name
	}
	qual := func(tp *types.Package) string {
		if tp == pk.Types {
			return ""
		}
		if n, ok := impName[tp.Path()]; ok && n != "_" && n != "." {
			return n
		}
		return "\x00"
	}
	// the candidate's operand names (receiver first)
	var opNames []*ast.Ident
	if c.Decl.Recv != nil && len(c.Decl.Recv.List) == 1 {
		if len(c.Decl.Recv.List[0].Names) != 1 {
			return false
		}
		opNames = append(opNames, c.Decl.Recv.List[0].Names[0])
	}
	for _, fld := range c.Decl.Type.Params.List {
		if len(fld.Names) == 0 {
			return false
		}
		opNames = append(opNames, fld.Names...)
	}
	if len(opNames) != len(order) {
		return false
	}
	// parameter list of the restored function, named as the moved one names them
	var params []string
	for i := range want.PTypes {
		var t types.Type
		k := order[i]
		if sig.Recv() != nil {
			if k == 0 {
				t = sig.Recv().Type()
			} else {
				t = sig.Params().At(k - 1).Type()
			}
		} else {
			t = sig.Params().At(k).Type()
		}
		ts := types.TypeString(t, qual)
		if strings.Contains(ts, "\x00") {
			return false
		}
		params = append(params, opNames[k].Name+" "+ts)
	}
	var results []string
	for i := 0; i < sig.Results().Len(); i++ {
		ts := types.TypeString(sig.Results().At(i).Type(), qual)
		if strings.Contains(ts, "\x00") {
			return false
		}
		results = append(results, ts)
	}
	// the body: only operands, locals, universe, exported members and exported names of its package / imported packages
	okBody := true
	var eds []posEdit
	scope := pk.Types.Scope()
	ast.Inspect(c.Decl.Body, func(n ast.Node) bool {
		switch x := n.(type) {
		case *ast.FuncLit:
			okBody = false
		case *ast.Ident:
			o := cinfo.Uses[x]
			if o == nil {
				return true
			}
			if sel, isSel := p.parents[x].(*ast.SelectorExpr); isSel && sel.Sel == x {
				if !ast.IsExported(x.Name) {
					okBody = false
				}
				return true
			}
			switch ob := o.(type) {
			case *types.PkgName:
				if n, ok := impName[ob.Imported().Path()]; !ok || n != x.Name {
					okBody = false
				}
			case *types.Builtin, *types.Nil:
			default:
				if o.Pkg() == nil {
					return true // universe
				}
				if o.Pos() >= c.Decl.Pos() && o.Pos() <= c.Decl.End() {
					// a local or an operand: its name must not be taken by a package-level name of the old package used here
					return true
				}
				if o.Parent() == o.Pkg().Scope() {
					qn := qual(o.Pkg())
					if !ast.IsExported(x.Name) || qn == "\x00" || qn == "" {
						okBody = false
						return true
					}
					eds = append(eds, posEdit{x.Pos(), x.End(), qn + "." + x.Name})
					return true
				}
				okBody = false
			}
		}
		return okBody
	})
	if !okBody {
		return false
	}
	// local names of the body must not capture package-level names of the old package that the body does not use: the
	// body uses none of them (checked above), so nothing to rename
	_ = scope
	body := in.renderEdits(c.Decl.Body.Pos(), c.Decl.Body.End(), eds)
	res := ""
	switch len(results) {
	case 0:
	case 1:
		res = " " + results[0]
	default:
		res = " (" + strings.Join(results, ", ") + ")"
	}
	decl := "\n\nfunc " + want.Name + "(" + strings.Join(params, ", ") + ")" + res + " " + body + "\n"
	fe := in.file(firstFile.Pos())
	fe.edits = append(fe.edits, textEdit{start: in.off(firstFile.End()), end: in.off(firstFile.End()), text: decl})
	for _, call := range calls {
		sel := call.Fun.(*ast.SelectorExpr)
		ops := make([]string, len(order))
		k := 0
		if sig.Recv() != nil {
			ops[0] = in.text(sel.X.Pos(), sel.X.End())
			if _, isPtrRecv := sig.Recv().Type().(*types.Pointer); isPtrRecv {
				if t := pk.TypesInfo.TypeOf(sel.X); t != nil {
					if _, isPtr := t.(*types.Pointer); !isPtr {
						ops[0] = "&" + ops[0]
					}
				}
			}
			k = 1
		}
		for _, a := range call.Args {
			if k >= len(ops) {
				return false
			}
			ops[k] = in.text(a.Pos(), a.End())
			k++
		}
		args := make([]string, len(order))
		for i := range order {
			args[i] = ops[order[i]]
		}
		ce := in.file(call.Pos())
		ce.edits = append(ce.edits, textEdit{start: in.off(call.Pos()), end: in.off(call.End()), text: want.Name + "(" + strings.Join(args, ", ") + ")"})
	}
	return true
}

// ---- results grouped into a struct -------------------------------------------------------------------------------------

// planResultUngroup: an anchored function that still has its name and parameters but now returns one struct value in the
// place of several results of the confirmed tree - `(ips []net.IP, family Family, err error)` became `(desiredIPs, error)`
// with `type desiredIPs struct { ips []net.IP; family Family }` - is given its recorded results back: every `return
// S{f1: A, f2: B}, rest` becomes `return A, B, rest` (missing fields their zero values), every `r, rest := F(..)` whose r
// is only read field by field becomes `r_f1, r_f2, rest := F(..)` with r.f1 -> r_f1. Checked by re-type-checking.
func planResultUngroup(p *Prog, in *inliner, plan *canonPlan) {
	if len(pinnedSigs) == 0 {
		return
	}
	for _, want := range pinnedSigs {
		Anchors.mu.Lock()
		anch := Anchors.pinned[want.Pkg+"."+want.Name]
		Anchors.mu.Unlock()
		if !anch || len(want.RTypes) < 2 {
			continue
		}
		pk := p.ByPath[want.Pkg]
		if pk == nil {
			continue
		}
		var f *Fn
		for _, c := range p.fnList {
			if c.Pkg != pk || c.Decl == nil || c.Obj == nil || c.Decl.Name.Name != want.Name || c.Decl.Type.TypeParams != nil ||
				strings.HasSuffix(p.Fset.Position(c.Decl.Pos()).Filename, "_test.go") {
				continue
			}
			have, ok := SigOf(c)
			if ok && have.Recv == want.Recv && sameStrings(have.PTypes, want.PTypes) {
				f = c
			}
		}
		if f == nil || f.Decl.Type.Results == nil {
			continue
		}
		sig := f.Obj.Type().(*types.Signature)
		nHave := sig.Results().Len()
		k := len(want.RTypes) - nHave + 1
		if k < 2 || nHave < 1 {
			continue
		}
		q := types.RelativeTo(pk.Types)
		st, isSt := sig.Results().At(0).Type().Underlying().(*types.Struct)
		nt, isNamed := sig.Results().At(0).Type().(*types.Named)
		if !isSt || !isNamed || nt.Obj().Pkg() != pk.Types || st.NumFields() != k {
			continue
		}
		okT := true
		for i := 0; i < k; i++ {
			if types.TypeString(st.Field(i).Type(), q) != want.RTypes[i] || st.Field(i).Embedded() {
				okT = false
			}
		}
		for i := 1; i < nHave; i++ {
			if types.TypeString(sig.Results().At(i).Type(), q) != want.RTypes[k+i-1] {
				okT = false
			}
		}
		// unnamed results only
		for _, fld := range f.Decl.Type.Results.List {
			if len(fld.Names) > 0 {
				okT = false
			}
		}
		if !okT || len(f.Decl.Type.Results.List) != nHave {
			continue
		}
		if in.ungroupResults(pk, f, st, k) {
			plan.expanded = append(plan.expanded, "results of "+want.Name+" grouped in "+nt.Obj().Name()+" given back as separate results (again)")
		}
	}
}

func (in *inliner) ungroupResults(pk *packages.Package, f *Fn, st *types.Struct, k int) bool {
	p := in.p
	info := pk.TypesInfo
	file := in.fileOfNode(f.Decl)
	if file == nil {
		return false
	}
	impName := map[string]string{}
	for _, imp := range file.Imports {
		path := strings.Trim(imp.Path.Value, "\"")
		name := path[strings.LastIndexByte(path, '/')+1:]
		if imp.Name != nil {
			name = imp.Name.Name
		} else if ip := p.AllTypes[path]; ip != nil {
			name = ip.Name()
		}
		impName[path] = name
	}
	qual := func(tp *types.Package) string {
		if tp == pk.Types {
			return ""
		}
		if n, ok := impName[tp.Path()]; ok && n != "_" && n != "." {
			return n
		}
		return "\x00"
	}
	var ftypes, zeros []string
	for i := 0; i < k; i++ {
		ts := types.TypeString(st.Field(i).Type(), qual)
		z := zeroText(st.Field(i).Type())
		if bt, isB := st.Field(i).Type().Underlying().(*types.Basic); isB && bt.Info()&types.IsBoolean != 0 {
			z = "false"
		}
		if strings.Contains(ts, "\x00") || z == "" {
			return false
		}
		ftypes, zeros = append(ftypes, ts), append(zeros, z)
	}
	type ed struct {
		a, b token.Pos
		t    string
	}
	var eds []ed
	// the signature
	r0 := f.Decl.Type.Results.List[0].Type
	eds = append(eds, ed{r0.Pos(), r0.End(), strings.Join(ftypes, ", ")})
	if !f.Decl.Type.Results.Opening.IsValid() {
		// a single unparenthesised result: add the parentheses
		eds[0] = ed{r0.Pos(), r0.End(), "(" + strings.Join(ftypes, ", ") + ")"}
	}
	// the returns
	okR := true
	var visit func(n ast.Node) bool
	visit = func(n ast.Node) bool {
		switch x := n.(type) {
		case *ast.FuncLit:
			return false
		case *ast.ReturnStmt:
			if len(x.Results) == 0 {
				okR = false
				return false
			}
			if len(x.Results) == 1 && f.Obj.Type().(*types.Signature).Results().Len() > 1 {
				okR = false // return g() forwarding a tuple
				return false
			}
			r := ast.Unparen(x.Results[0])
			vals := make([]string, k)
			switch v := r.(type) {
			case *ast.CompositeLit:
				copy(vals, zeros)
				for i, el := range v.Elts {
					if kv, isKV := el.(*ast.KeyValueExpr); isKV {
						kid, isId := kv.Key.(*ast.Ident)
						if !isId {
							okR = false
							return false
						}
						found := false
						for j := 0; j < k; j++ {
							if st.Field(j).Name() == kid.Name {
								vals[j] = in.text(kv.Value.Pos(), kv.Value.End())
								found = true
							}
						}
						if !found {
							okR = false
						}
					} else if i < k {
						vals[i] = in.text(el.Pos(), el.End())
					}
				}
			default:
				if !isPlainOperand(r) {
					okR = false
					return false
				}
				rt := in.text(r.Pos(), r.End())
				for j := 0; j < k; j++ {
					vals[j] = rt + "." + st.Field(j).Name()
				}
			}
			eds = append(eds, ed{x.Results[0].Pos(), x.Results[0].End(), strings.Join(vals, ", ")})
			return false
		}
		return true
	}
	ast.Inspect(f.Decl.Body, visit)
	if !okR {
		return false
	}
	// the call sites
	for _, pkg2 := range p.Pkgs {
		for _, file2 := range pkg2.Syntax {
			bad := false
			ast.Inspect(file2, func(n ast.Node) bool {
				id, ok := n.(*ast.Ident)
				if !ok || pkg2.TypesInfo.Uses[id] != types.Object(f.Obj) {
					return true
				}
				if pkg2 != pk || strings.HasSuffix(p.Fset.Position(file2.Pos()).Filename, "_test.go") {
					if pkg2 != pk {
						bad = true
					}
					return true
				}
				var call *ast.CallExpr
				switch par := p.parents[id].(type) {
				case *ast.CallExpr:
					if par.Fun == ast.Expr(id) {
						call = par
					}
				case *ast.SelectorExpr:
					if c2, isC := p.parents[par].(*ast.CallExpr); isC && c2.Fun == ast.Expr(par) && par.Sel == id {
						call = c2
					}
				}
				if call == nil {
					bad = true
					return true
				}
				as, isAs := p.parents[call].(*ast.AssignStmt)
				if !isAs || len(as.Rhs) != 1 || as.Rhs[0] != ast.Expr(call) || len(as.Lhs) < 1 {
					bad = true
					return true
				}
				l0, isId := as.Lhs[0].(*ast.Ident)
				if !isId {
					bad = true
					return true
				}
				if l0.Name == "_" {
					blanks := make([]string, k)
					for j := range blanks {
						blanks[j] = "_"
					}
					eds = append(eds, ed{l0.Pos(), l0.End(), strings.Join(blanks, ", ")})
					return true
				}
				robj := info.Defs[l0]
				if robj == nil {
					robj = info.Uses[l0]
				}
				if robj == nil {
					bad = true
					return true
				}
				// every other use of r: a field read
				used := make([]bool, k)
				scopeFn := ast.Node(file2)
				ast.Inspect(scopeFn, func(m ast.Node) bool {
					uid, ok := m.(*ast.Ident)
					if !ok || uid == l0 || (info.Uses[uid] != robj && info.Defs[uid] != robj) {
						return true
					}
					sel, isSel := p.parents[uid].(*ast.SelectorExpr)
					if !isSel || sel.X != ast.Expr(uid) {
						bad = true
						return true
					}
					fi := -1
					for j := 0; j < k; j++ {
						if st.Field(j).Name() == sel.Sel.Name {
							fi = j
						}
					}
					if fi < 0 {
						bad = true
						return true
					}
					switch pp := p.parents[sel].(type) {
					case *ast.AssignStmt:
						for _, l := range pp.Lhs {
							if l == ast.Expr(sel) {
								bad = true
							}
						}
					case *ast.UnaryExpr:
						if pp.Op == token.AND {
							bad = true
						}
					case *ast.IncDecStmt:
						bad = true
					}
					used[fi] = true
					eds = append(eds, ed{sel.Pos(), sel.End(), l0.Name + "_" + sel.Sel.Name})
					return true
				})
				names := make([]string, k)
				anyNew := false
				for j := 0; j < k; j++ {
					if used[j] {
						names[j] = l0.Name + "_" + st.Field(j).Name()
						anyNew = true
						if sc := pk.Types.Scope().Innermost(as.Pos()); sc != nil {
							if _, o := sc.LookupParent(names[j], token.NoPos); o != nil {
								bad = true
							}
						}
					} else {
						names[j] = "_"
					}
				}
				eds = append(eds, ed{l0.Pos(), l0.End(), strings.Join(names, ", ")})
				if as.Tok == token.DEFINE && !anyNew {
					for _, l := range as.Lhs[1:] {
						if lid, isL := l.(*ast.Ident); isL && lid.Name != "_" && info.Defs[lid] != nil {
							anyNew = true
						}
					}
					if !anyNew {
						eds = append(eds, ed{as.TokPos, as.TokPos + 2, "="})
					}
				}
				return true
			})
			if bad {
				return false
			}
		}
	}
	for _, e := range eds {
		fe := in.file(e.a)
		fe.edits = append(fe.edits, textEdit{start: in.off(e.a), end: in.off(e.b), text: e.t})
	}
	return true
}

// ---- a parameter that became a read of the receiver ----------------------------------------------------------------

// planReceiverParamRestore: an anchored plain function `name(.., q Q, ..)` that is gone while the package has a method
// of that name with the same parameters minus q and the same results, whose receiver is used only as the root of one
// selector chain of type Q that the body never assigns, is that function with the argument every caller passed moved
// behind the receiver ("the pools were always a.pools.ByName"). Declaration and calls get the recorded shape back:
// the chain becomes the parameter again, and every call r.name(args) becomes name(.., r.chain, ..).
func planReceiverParamRestore(p *Prog, in *inliner, plan *canonPlan, skipDecl map[*ast.FuncDecl]bool) {
	isTest := func(f *Fn) bool { return strings.HasSuffix(p.Fset.Position(f.Decl.Pos()).Filename, "_test.go") }
	for _, want := range pinnedSigs {
		if want.Recv != "" {
			continue
		}
		Anchors.mu.Lock()
		anch := Anchors.pinned[want.Pkg+"."+want.Name]
		Anchors.mu.Unlock()
		pk := p.ByPath[want.Pkg]
		if !anch || pk == nil || pk.Types.Scope().Lookup(want.Name) != nil {
			continue
		}
		var cands []*Fn
		for _, f := range p.fnList {
			if f.Pkg != pk || f.Decl == nil || f.Decl.Recv == nil || f.Decl.Body == nil || isTest(f) || f.Decl.Type.TypeParams != nil || f.Decl.Name.Name != want.Name {
				continue
			}
			cands = append(cands, f)
		}
		if len(cands) != 1 {
			continue
		}
		c := cands[0]
		have, ok := SigOf(c)
		if !ok || !sameStrings(have.RTypes, want.RTypes) || len(have.PTypes)+1 != len(want.PTypes) {
			continue
		}
		// the missing parameter
		q := -1
		for i := range want.PTypes {
			rest := append(append([]string{}, want.PTypes[:i]...), want.PTypes[i+1:]...)
			if sameStrings(rest, have.PTypes) {
				if q >= 0 {
					q = -2
					break
				}
				q = i
			}
		}
		if q < 0 || strings.HasPrefix(want.PTypes[q], "...") || len(c.Decl.Recv.List) != 1 || len(c.Decl.Recv.List[0].Names) != 1 {
			continue
		}
		for _, t := range have.PTypes {
			if strings.HasPrefix(t, "...") {
				q = -1
			}
		}
		if q < 0 {
			continue
		}
		info := pk.TypesInfo
		recvObj := info.Defs[c.Decl.Recv.List[0].Names[0]]
		if recvObj == nil {
			continue
		}
		qual := types.RelativeTo(pk.Types)
		// every use of the receiver roots the same chain of type Q
		var chains []ast.Expr
		chainText := ""
		good := true
		ast.Inspect(c.Decl.Body, func(n ast.Node) bool {
			id, isId := n.(*ast.Ident)
			if !isId || info.Uses[id] != recvObj {
				return true
			}
			var top ast.Expr = id
			found := false
			for {
				sel, isSel := p.parents[top].(*ast.SelectorExpr)
				if !isSel || sel.X != top {
					break
				}
				if s := info.Selections[sel]; s == nil || s.Kind() != types.FieldVal {
					break
				}
				top = sel
				if t := info.TypeOf(top); t != nil && types.TypeString(t, qual) == want.PTypes[q] {
					found = true
					break
				}
			}
			if !found {
				good = false
				return true
			}
			txt := in.text(top.Pos(), top.End())
			if chainText == "" {
				chainText = txt
			} else if chainText != txt {
				good = false
			}
			// not assigned, not address-taken
			switch par := p.parents[top].(type) {
			case *ast.AssignStmt:
				for _, l := range par.Lhs {
					if l == top {
						good = false
					}
				}
			case *ast.UnaryExpr:
				if par.Op == token.AND {
					good = false
				}
			case *ast.IncDecStmt:
				good = false
			}
			chains = append(chains, top)
			return true
		})
		if !good || len(chains) == 0 {
			continue
		}
		// the parameter's name must be free in the method
		pname := want.PNames[q]
		if pname == "" || pname == "_" {
			pname = "restored"
		}
		clash := false
		ast.Inspect(c.Decl, func(n ast.Node) bool {
			if id, isId := n.(*ast.Ident); isId && id.Name == pname {
				if v, isVar := info.ObjectOf(id).(*types.Var); isVar && v.IsField() {
					return true
				}
				clash = true
			}
			return true
		})
		if clash {
			pname += "_"
		}
		// references: direct method calls on a plain operand, inside the package
		type ref struct {
			call *ast.CallExpr
			x    ast.Expr
		}
		var refs []ref
		okRefs := true
		for _, pkg := range p.Pkgs {
			for _, file := range pkg.Syntax {
				ast.Inspect(file, func(n ast.Node) bool {
					id, isId := n.(*ast.Ident)
					if !isId || pkg.TypesInfo.Uses[id] != types.Object(c.Obj) {
						return true
					}
					sel, isSel := p.parents[id].(*ast.SelectorExpr)
					if !isSel || sel.Sel != id || pkg != pk {
						okRefs = false
						return true
					}
					call, isCall := p.parents[sel].(*ast.CallExpr)
					if !isCall || call.Fun != ast.Expr(sel) || call.Ellipsis.IsValid() || !isPlainOperand(sel.X) {
						okRefs = false
						return true
					}
					if s := pkg.TypesInfo.Selections[sel]; s == nil || s.Kind() != types.MethodVal {
						okRefs = false
						return true
					}
					refs = append(refs, ref{call, sel.X})
					return true
				})
			}
		}
		if !okRefs {
			continue
		}
		// the type as this file would spell it
		var qt types.Type
		if t := info.TypeOf(chains[0]); t != nil {
			qt = t
		}
		if qt == nil {
			continue
		}
		typeText := types.TypeString(qt, func(o *types.Package) string {
			if o == pk.Types {
				return ""
			}
			return o.Name()
		})
		d := c.Decl
		var hdr strings.Builder
		hdr.WriteString("func " + want.Name + "(")
		k := 0
		var parts []string
		for _, fld := range d.Type.Params.List {
			tt := in.text(fld.Type.Pos(), fld.Type.End())
			names := fld.Names
			if len(names) == 0 {
				parts = append(parts, "_ "+tt)
				k++
				continue
			}
			for _, nm := range names {
				parts = append(parts, nm.Name+" "+tt)
				k++
			}
		}
		parts = append(parts[:q], append([]string{pname + " " + typeText}, parts[q:]...)...)
		hdr.WriteString(strings.Join(parts, ", ") + ")")
		fe := in.file(d.Pos())
		fe.edits = append(fe.edits, textEdit{start: in.off(d.Pos()), end: in.off(d.Type.Params.Closing) + 1, text: hdr.String()})
		for _, ch := range chains {
			fe := in.file(ch.Pos())
			fe.edits = append(fe.edits, textEdit{start: in.off(ch.Pos()), end: in.off(ch.End()), text: pname})
		}
		recvName := c.Decl.Recv.List[0].Names[0].Name
		suffix := strings.TrimPrefix(chainText, recvName)
		for _, r := range refs {
			var args []string
			for _, a := range r.call.Args {
				args = append(args, in.text(a.Pos(), a.End()))
			}
			x := in.text(r.x.Pos(), r.x.End()) + suffix
			args = append(args[:q], append([]string{x}, args[q:]...)...)
			fe := in.file(r.call.Pos())
			fe.edits = append(fe.edits, textEdit{start: in.off(r.call.Pos()), end: in.off(r.call.End()), text: want.Name + "(" + strings.Join(args, ", ") + ")"})
		}
		skipDecl[d] = true
		plan.expanded = append(plan.expanded, "anchor restored: ("+have.Recv+")."+have.Name+" -> "+want.Name+" (parameter "+pname+" = receiver"+suffix+")")
	}
}

// ---- a parameter narrowed to the one field the function reads --------------------------------------------------------

// planParamWiden: an anchored function `name(.., q *S, ..)` that is gone while the package has exactly one function of a
// new name (or of that name) with the same receiver, results and parameters except that position i holds the type of a
// field F of S, every call of which passes `X.F` with X of the recorded type, is that function with its parameter
// narrowed ("it only ever read pool.L2Advertisements"). The parameter is widened again: the declaration takes X's
// type under the recorded parameter name, the body reads name.F where it read the narrowed parameter (never assigned
// there), and every call passes X. The name, if it changed too, is given back by planAnchorRestore in the next pass.
func planParamWiden(p *Prog, in *inliner, plan *canonPlan, skipDecl map[*ast.FuncDecl]bool) {
	isTest := func(f *Fn) bool { return strings.HasSuffix(p.Fset.Position(f.Decl.Pos()).Filename, "_test.go") }
	for _, want := range pinnedSigs {
		Anchors.mu.Lock()
		anch := Anchors.pinned[want.Pkg+"."+want.Name]
		Anchors.mu.Unlock()
		pk := p.ByPath[want.Pkg]
		if !anch || pk == nil {
			continue
		}
		present := false
		type cand struct {
			f     *Fn
			idx   int
			field string
			calls []*ast.CallExpr
		}
		var cands []cand
		for _, f := range p.fnList {
			if f.Pkg != pk || f.Decl == nil || f.Decl.Body == nil || isTest(f) || f.Decl.Type.TypeParams != nil {
				continue
			}
			have, ok := SigOf(f)
			if !ok {
				continue
			}
			if have.Name == want.Name && strings.TrimPrefix(have.Recv, "*") == strings.TrimPrefix(want.Recv, "*") && sameStrings(have.PTypes, want.PTypes) {
				present = true
				break
			}
			if skipDecl[f.Decl] || have.Recv != want.Recv || !sameStrings(have.RTypes, want.RTypes) || len(have.PTypes) != len(want.PTypes) {
				continue
			}
			if have.Name != want.Name && pinnedNames[have.Pkg+"."+have.Name] {
				continue
			}
			idx := -1
			for i := range want.PTypes {
				if have.PTypes[i] != want.PTypes[i] {
					if idx >= 0 {
						idx = -2
						break
					}
					idx = i
				}
			}
			if idx < 0 || strings.HasPrefix(want.PTypes[idx], "...") || strings.HasPrefix(have.PTypes[idx], "...") {
				continue
			}
			// every reference is a direct call passing X.F, X of the recorded type
			qual := types.RelativeTo(pk.Types)
			field := ""
			good := true
			var calls []*ast.CallExpr
			for _, pkg := range p.Pkgs {
				for _, file := range pkg.Syntax {
					ast.Inspect(file, func(n ast.Node) bool {
						id, isId := n.(*ast.Ident)
						if !isId || pkg.TypesInfo.Uses[id] != types.Object(f.Obj) {
							return true
						}
						if pkg != pk {
							good = false
							return true
						}
						var call *ast.CallExpr
						switch par := p.parents[id].(type) {
						case *ast.CallExpr:
							if par.Fun == ast.Expr(id) {
								call = par
							}
						case *ast.SelectorExpr:
							if pc, isCall := p.parents[par].(*ast.CallExpr); isCall && pc.Fun == ast.Expr(par) && par.Sel == id {
								call = pc
							}
						}
						if call == nil || call.Ellipsis.IsValid() || idx >= len(call.Args) {
							good = false
							return true
						}
						sel, isSel := ast.Unparen(call.Args[idx]).(*ast.SelectorExpr)
						if !isSel {
							good = false
							return true
						}
						if s := pkg.TypesInfo.Selections[sel]; s == nil || s.Kind() != types.FieldVal || len(s.Index()) != 1 {
							good = false
							return true
						}
						xt := pkg.TypesInfo.TypeOf(sel.X)
						if xt == nil || !isPlainOperand(sel.X) {
							good = false
							return true
						}
						// (a field reached through a pointer to the recorded value type: the value is *X)
						if types.TypeString(xt, qual) != want.PTypes[idx] && types.TypeString(xt, qual) != "*"+want.PTypes[idx] {
							good = false
							return true
						}
						if field == "" {
							field = sel.Sel.Name
						} else if field != sel.Sel.Name {
							good = false
						}
						calls = append(calls, call)
						return true
					})
				}
			}
			if !good || len(calls) == 0 {
				continue
			}
			cands = append(cands, cand{f, idx, field, calls})
		}
		if present || len(cands) != 1 {
			continue
		}
		c := cands[0]
		d := c.f.Decl
		info := pk.TypesInfo
		// the narrowed parameter: named, never assigned or address-taken in the body
		var pobj types.Object
		k := 0
		for _, fld := range d.Type.Params.List {
			if len(fld.Names) == 0 {
				k++
				continue
			}
			for _, nm := range fld.Names {
				if k == c.idx {
					pobj = info.Defs[nm]
				}
				k++
			}
		}
		if pobj == nil || pobj.Name() == "_" {
			continue
		}
		good := true
		var uses []*ast.Ident
		ast.Inspect(d.Body, func(n ast.Node) bool {
			id, isId := n.(*ast.Ident)
			if !isId || info.Uses[id] != pobj {
				return true
			}
			switch par := p.parents[id].(type) {
			case *ast.AssignStmt:
				for _, l := range par.Lhs {
					if l == ast.Expr(id) {
						good = false
					}
				}
			case *ast.UnaryExpr:
				if par.Op == token.AND {
					good = false
				}
			case *ast.IncDecStmt:
				good = false
			case *ast.RangeStmt:
				if par.Key == ast.Expr(id) || par.Value == ast.Expr(id) {
					good = false
				}
			}
			uses = append(uses, id)
			return true
		})
		if !good {
			continue
		}
		pname := want.PNames[c.idx]
		if pname == "" || pname == "_" {
			pname = "widened"
		}
		clash := false
		ast.Inspect(d, func(n ast.Node) bool {
			if id, isId := n.(*ast.Ident); isId && id.Name == pname {
				if v, isVar := info.ObjectOf(id).(*types.Var); isVar && v.IsField() {
					return true
				}
				if info.ObjectOf(id) == pobj {
					return true
				}
				clash = true
			}
			return true
		})
		if clash {
			pname += "_"
		}
		xt := info.TypeOf(ast.Unparen(c.calls[0].Args[c.idx]).(*ast.SelectorExpr).X)
		if types.TypeString(xt, types.RelativeTo(pk.Types)) == "*"+want.PTypes[c.idx] {
			xt = xt.(*types.Pointer).Elem()
		}
		typeText := types.TypeString(xt, func(o *types.Package) string {
			if o == pk.Types {
				return ""
			}
			return o.Name()
		})
		var parts []string
		k = 0
		for _, fld := range d.Type.Params.List {
			tt := in.text(fld.Type.Pos(), fld.Type.End())
			if len(fld.Names) == 0 {
				parts = append(parts, "_ "+tt)
				k++
				continue
			}
			for _, nm := range fld.Names {
				if k == c.idx {
					parts = append(parts, pname+" "+typeText)
				} else {
					parts = append(parts, nm.Name+" "+tt)
				}
				k++
			}
		}
		fe := in.file(d.Pos())
		fe.edits = append(fe.edits, textEdit{start: in.off(d.Type.Params.Opening), end: in.off(d.Type.Params.Closing) + 1, text: "(" + strings.Join(parts, ", ") + ")"})
		for _, u := range uses {
			fe := in.file(u.Pos())
			fe.edits = append(fe.edits, textEdit{start: in.off(u.Pos()), end: in.off(u.End()), text: pname + "." + c.field})
		}
		for _, call := range c.calls {
			a := call.Args[c.idx]
			sel := ast.Unparen(a).(*ast.SelectorExpr)
			fe := in.file(a.Pos())
			xtext := in.text(sel.X.Pos(), sel.X.End())
			if at := info.TypeOf(sel.X); at != nil && types.TypeString(at, types.RelativeTo(pk.Types)) == "*"+want.PTypes[c.idx] {
				xtext = "*" + xtext
			}
			fe.edits = append(fe.edits, textEdit{start: in.off(a.Pos()), end: in.off(a.End()), text: xtext})
		}
		skipDecl[d] = true
		plan.expanded = append(plan.expanded, "parameter widened: "+d.Name.Name+" "+pobj.Name()+" -> "+pname+"."+c.field+" (again)")
	}
}

// stripParamNames: the type with the parameter and result names of every function type in it dropped
// (`func(nodeName *string) bool` is `func(*string) bool`): names are documentation, not part of the type's identity.
func stripParamNames(t types.Type) types.Type {
	switch x := t.(type) {
	case *types.Signature:
		tuple := func(tp *types.Tuple) *types.Tuple {
			if tp == nil {
				return nil
			}
			vs := make([]*types.Var, tp.Len())
			for i := 0; i < tp.Len(); i++ {
				vs[i] = types.NewVar(tp.At(i).Pos(), tp.At(i).Pkg(), "", stripParamNames(tp.At(i).Type()))
			}
			return types.NewTuple(vs...)
		}
		if x.TypeParams() != nil || x.Recv() != nil {
			return t
		}
		return types.NewSignatureType(nil, nil, nil, tuple(x.Params()), tuple(x.Results()), x.Variadic())
	case *types.Pointer:
		return types.NewPointer(stripParamNames(x.Elem()))
	case *types.Slice:
		return types.NewSlice(stripParamNames(x.Elem()))
	case *types.Array:
		return types.NewArray(stripParamNames(x.Elem()), x.Len())
	case *types.Map:
		return types.NewMap(stripParamNames(x.Key()), stripParamNames(x.Elem()))
	case *types.Chan:
		return types.NewChan(x.Dir(), stripParamNames(x.Elem()))
	}
	return t
}
