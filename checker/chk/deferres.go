package chk

// Deferred result handlers (pre-round of the normalisation). A function with a named result that registers, at the top
// level of its body and as its last defer,
//
//	defer func() { BODY }()
//
// where BODY reads (or adjusts) the named result - the "if err != nil { roll back }" idiom - runs BODY at every return
// that follows, after the results have been stored and before any earlier defer. The returns are rewritten to say so:
//
//	return E            =>  { err = E; BODY; return err }
//	return X, E         =>  { err = E; BODY; return X, err }     (X free of calls)
//
// and the defer statement is dropped, so that a rule sees the roll-back on the error path where it looks for it. Not
// reproduced: the handler running during a panic. The rewrite is type-checked; when that fails the function is analysed
// as written.

import (
	"go/ast"
	"go/token"
	"go/types"
	"strings"
)

func planDeferResult(p *Prog, in *inliner, plan *roundPlan) {
	for _, pkg := range p.Pkgs {
		info := pkg.TypesInfo
		for _, file := range pkg.Syntax {
			if strings.HasSuffix(p.Fset.Position(file.Pos()).Filename, "_test.go") {
				continue
			}
			for _, d := range file.Decls {
				fd, ok := d.(*ast.FuncDecl)
				if !ok || fd.Body == nil || fd.Type.Results == nil {
					continue
				}
				if eds, ok := in.deferResultEdits(pkg.Types, info, fd); ok {
					fe := in.file(fd.Pos())
					fe.edits = append(fe.edits, eds...)
					plan.expanded = append(plan.expanded, "deferred result handler of "+fd.Name.Name+" run at its returns")
				}
			}
		}
	}
}

func (in *inliner) deferResultEdits(tpkg *types.Package, info *types.Info, fd *ast.FuncDecl) ([]textEdit, bool) {
	// named results
	var results []*ast.Ident
	for _, fld := range fd.Type.Results.List {
		if len(fld.Names) == 0 {
			return nil, false
		}
		results = append(results, fld.Names...)
	}
	// the last defer of the function, at the top level of the body, a literal called without arguments
	var ds *ast.DeferStmt
	nDefer := 0
	var lastDefer *ast.DeferStmt
	ast.Inspect(fd.Body, func(n ast.Node) bool {
		if _, isLit := n.(*ast.FuncLit); isLit {
			return false
		}
		if x, ok := n.(*ast.DeferStmt); ok {
			nDefer++
			if lastDefer == nil || x.Pos() > lastDefer.Pos() {
				lastDefer = x
			}
		}
		return true
	})
	for _, st := range fd.Body.List {
		if x, ok := st.(*ast.DeferStmt); ok && x == lastDefer {
			ds = x
		}
	}
	if ds == nil || len(ds.Call.Args) != 0 {
		return nil, false
	}
	lit, ok := ast.Unparen(ds.Call.Fun).(*ast.FuncLit)
	if !ok || lit.Type.Params.NumFields() != 0 || lit.Type.Results.NumFields() != 0 {
		return nil, false
	}
	// the handler mentions a named result; it has no return, no recover, no defer/go, no labels
	mentions := map[types.Object]bool{}
	bad := false
	declared := map[string]bool{}
	ast.Inspect(lit.Body, func(n ast.Node) bool {
		switch x := n.(type) {
		case *ast.ReturnStmt, *ast.DeferStmt, *ast.GoStmt, *ast.LabeledStmt, *ast.FuncLit:
			if n != ast.Node(lit) {
				bad = true
			}
		case *ast.Ident:
			if b, isB := info.Uses[x].(*types.Builtin); isB && b.Name() == "recover" {
				bad = true
			}
			for _, r := range results {
				if info.Uses[x] != nil && info.Uses[x] == info.Defs[r] {
					mentions[info.Defs[r]] = true
				}
			}
			if info.Defs[x] != nil {
				declared[x.Name] = true
			}
		}
		return true
	})
	if bad || len(mentions) == 0 {
		return nil, false
	}
	for _, r := range results {
		if r.Name == "_" && false {
			return nil, false
		}
	}
	body := in.text(lit.Body.Lbrace+1, lit.Body.Rbrace)
	var eds []textEdit
	okAll := true
	nRet := 0
	ast.Inspect(fd.Body, func(n ast.Node) bool {
		if _, isLit := n.(*ast.FuncLit); isLit {
			return false
		}
		rt, ok := n.(*ast.ReturnStmt)
		if !ok || rt.Pos() < ds.End() {
			return true
		}
		nRet++
		// the named results are visible under their names here
		scope := tpkg.Scope().Innermost(rt.Pos())
		for _, r := range results {
			if r.Name == "_" {
				continue
			}
			if scope == nil {
				okAll = false
				continue
			}
			if _, o := scope.LookupParent(r.Name, rt.Pos()); o != info.Defs[r] {
				okAll = false
			}
		}
		// names the handler declares must not hide what the return expressions mention: the handler sits in its own block
		var sb strings.Builder
		sb.WriteString("{\n")
		var outs []string
		if len(rt.Results) == 0 {
			for _, r := range results {
				outs = append(outs, r.Name)
			}
			sb.WriteString("{" + body + "}\nreturn\n}")
			eds = append(eds, textEdit{start: in.off(rt.Pos()), end: in.off(rt.End()), text: sb.String()})
			return true
		}
		if len(rt.Results) != len(results) {
			okAll = false // return f() with several results
			return true
		}
		for i, e := range rt.Results {
			r := results[i]
			et := in.text(e.Pos(), e.End())
			if r.Name == "_" {
				// a result without a name keeps its expression in the return: it must not depend on evaluation order
				if !callFree(e) {
					okAll = false
				}
				outs = append(outs, et)
				continue
			}
			if id, isId := ast.Unparen(e).(*ast.Ident); isId && info.Uses[id] == info.Defs[r] {
				outs = append(outs, r.Name)
				continue
			}
			sb.WriteString(r.Name + " = " + et + "\n")
			outs = append(outs, r.Name)
		}
		sb.WriteString("{" + body + "}\nreturn " + strings.Join(outs, ", ") + "\n}")
		eds = append(eds, textEdit{start: in.off(rt.Pos()), end: in.off(rt.End()), text: sb.String()})
		return true
	})
	if !okAll || nRet == 0 {
		return nil, false
	}
	// a function that can fall off its end has no results; with results every exit is a return (or a panic)
	eds = append(eds, textEdit{start: in.off(ds.Pos()), end: in.off(ds.End()), text: ""})
	_ = token.NoPos
	_ = nDefer
	return eds, true
}
