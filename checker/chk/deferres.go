package chk

// Deferred result handlers (pre-round of the normalisation). A function with a named result that registers, at the top
// level of its body and as its last defer,
//
//	defer func() { BODY }()
//
// where BODY reads (or adjusts) the named result - the "if err != nil { roll back }" idiom - runs BODY at every return
// that follows, after the results have been stored and before any earlier defer. The returns are rewritten to say so:
//
//	return E            =>  { err = E; BODY; return err }
//	return X, E         =>  { err = E; BODY; return X, err }     (X free of calls)
//
// and the defer statement is dropped, so that a rule sees the roll-back on the error path where it looks for it. Not
// reproduced: the handler running during a panic. The rewrite is type-checked; when that fails the function is analysed
// as written.

import (
	"go/ast"
	"go/token"
	"go/types"
	"strings"
)

func planDeferResult(p *Prog, in *inliner, plan *roundPlan) {
	for _, pkg := range p.Pkgs {
		info := pkg.TypesInfo
		for _, file := range pkg.Syntax {
			if strings.HasSuffix(p.Fset.Position(file.Pos()).Filename, "_test.go") {
				continue
			}
			for _, d := range file.Decls {
				fd, ok := d.(*ast.FuncDecl)
				if !ok || fd.Body == nil || fd.Type.Results == nil {
					continue
				}
				if eds, ok := in.deferResultEdits(pkg.Types, info, fd); ok {
					fe := in.file(fd.Pos())
					fe.edits = append(fe.edits, eds...)
					plan.expanded = append(plan.expanded, "deferred result handler of "+fd.Name.Name+" run at its returns")
				}
			}
		}
	}
}

func (in *inliner) deferResultEdits(tpkg *types.Package, info *types.Info, fd *ast.FuncDecl) ([]textEdit, bool) {
	// named results
	var results []*ast.Ident
	for _, fld := range fd.Type.Results.List {
		if len(fld.Names) == 0 {
			return nil, false
		}
		results = append(results, fld.Names...)
	}
	// the last defer of the function, at the top level of the body, a literal called without arguments
	var ds *ast.DeferStmt
	nDefer := 0
	var lastDefer *ast.DeferStmt
	ast.Inspect(fd.Body, func(n ast.Node) bool {
		if _, isLit := n.(*ast.FuncLit); isLit {
			return false
		}
		if x, ok := n.(*ast.DeferStmt); ok {
			nDefer++
			if lastDefer == nil || x.Pos() > lastDefer.Pos() {
				lastDefer = x
			}
		}
		return true
	})
	for _, st := range fd.Body.List {
		if x, ok := st.(*ast.DeferStmt); ok && x == lastDefer {
			ds = x
		}
	}
	if ds == nil || len(ds.Call.Args) != 0 {
		return nil, false
	}
	lit, ok := ast.Unparen(ds.Call.Fun).(*ast.FuncLit)
	if !ok || lit.Type.Params.NumFields() != 0 || lit.Type.Results.NumFields() != 0 {
		return nil, false
	}
	// the handler mentions a named result; it has no return, no recover, no defer/go, no labels
	mentions := map[types.Object]bool{}
	bad := false
	declared := map[string]bool{}
	ast.Inspect(lit.Body, func(n ast.Node) bool {
		switch x := n.(type) {
		case *ast.ReturnStmt, *ast.DeferStmt, *ast.GoStmt, *ast.LabeledStmt, *ast.FuncLit:
			if n != ast.Node(lit) {
				bad = true
			}
		case *ast.Ident:
			if b, isB := info.Uses[x].(*types.Builtin); isB && b.Name() == "recover" {
				bad = true
			}
			for _, r := range results {
				if info.Uses[x] != nil && info.Uses[x] == info.Defs[r] {
					mentions[info.Defs[r]] = true
				}
			}
			if info.Defs[x] != nil {
				declared[x.Name] = true
			}
		}
		return true
	})
	if bad || len(mentions) == 0 {
		return nil, false
	}
	for _, r := range results {
		if r.Name == "_" && false {
			return nil, false
		}
	}
	body := in.text(lit.Body.Lbrace+1, lit.Body.Rbrace)
	var eds []textEdit
	okAll := true
	nRet := 0
	ast.Inspect(fd.Body, func(n ast.Node) bool {
		if _, isLit := n.(*ast.FuncLit); isLit {
			return false
		}
		rt, ok := n.(*ast.ReturnStmt)
		if !ok || rt.Pos() < ds.End() {
			return true
		}
		nRet++
		// the named results are visible under their names here
		scope := tpkg.Scope().Innermost(rt.Pos())
		for _, r := range results {
			if r.Name == "_" {
				continue
			}
			if scope == nil {
				okAll = false
				continue
			}
			if _, o := scope.LookupParent(r.Name, rt.Pos()); o != info.Defs[r] {
				okAll = false
			}
		}
		// names the handler declares must not hide what the return expressions mention: the handler sits in its own block
		var sb strings.Builder
		sb.WriteString("{\n")
		var outs []string
		if len(rt.Results) == 0 {
			for _, r := range results {
				outs = append(outs, r.Name)
			}
			sb.WriteString("{" + body + "}\nreturn\n}")
			eds = append(eds, textEdit{start: in.off(rt.Pos()), end: in.off(rt.End()), text: sb.String()})
			return true
		}
		if len(rt.Results) != len(results) {
			okAll = false // return f() with several results
			return true
		}
		for i, e := range rt.Results {
			r := results[i]
			et := in.text(e.Pos(), e.End())
			if r.Name == "_" {
				// a result without a name keeps its expression in the return: it must not depend on evaluation order
				if !callFree(e) {
					okAll = false
				}
				outs = append(outs, et)
				continue
			}
			if id, isId := ast.Unparen(e).(*ast.Ident); isId && info.Uses[id] == info.Defs[r] {
				outs = append(outs, r.Name)
				continue
			}
			sb.WriteString(r.Name + " = " + et + "\n")
			outs = append(outs, r.Name)
		}
		sb.WriteString("{" + body + "}\nreturn " + strings.Join(outs, ", ") + "\n}")
		eds = append(eds, textEdit{start: in.off(rt.Pos()), end: in.off(rt.End()), text: sb.String()})
		return true
	})
	if !okAll || nRet == 0 {
		return nil, false
	}
	// a function that can fall off its end has no results; with results every exit is a return (or a panic)
	eds = append(eds, textEdit{start: in.off(ds.Pos()), end: in.off(ds.End()), text: ""})
	_ = token.NoPos
	_ = nDefer
	return eds, true
}

// planDeferExplicit: an unexported helper that is not an anchor and whose defers are plain calls registered at the top
// level of its body (`mu.Lock(); defer mu.Unlock(); ...`) gets its deferred calls written out at its exits, results
// evaluated first: `return E` -> `{ r := E; mu.Unlock(); return r }`. The helper can then be expanded at its calls like
// any other (a locked section moved into a method of its own is the locked section again). Anchored and exported
// functions keep their defers: the lock rules read them as written. Not reproduced: deferred calls running during a
// panic.
func planDeferExplicit(p *Prog, in *inliner, plan *roundPlan) {
	for _, pkg := range p.Pkgs {
		info := pkg.TypesInfo
		for _, file := range pkg.Syntax {
			if strings.HasSuffix(p.Fset.Position(file.Pos()).Filename, "_test.go") {
				continue
			}
			for _, d := range file.Decls {
				fd, ok := d.(*ast.FuncDecl)
				if !ok || fd.Body == nil || ast.IsExported(fd.Name.Name) || fd.Name.Name == "main" || fd.Name.Name == "init" {
					continue
				}
				fo, _ := info.Defs[fd.Name].(*types.Func)
				fn := p.FnOf(fo)
				if fn == nil || Anchors.has(fn) {
					continue
				}
				if eds, ok := in.deferExplicitEdits(info, fd); ok {
					fe := in.file(fd.Pos())
					fe.edits = append(fe.edits, eds...)
					plan.expanded = append(plan.expanded, "deferred calls of helper "+fd.Name.Name+" written out at its exits")
				}
			}
		}
	}
}

func (in *inliner) deferExplicitEdits(info *types.Info, fd *ast.FuncDecl) ([]textEdit, bool) {
	// named results are the business of planDeferResult
	if fd.Type.Results != nil {
		for _, fld := range fd.Type.Results.List {
			if len(fld.Names) > 0 {
				return nil, false
			}
		}
	}
	var defers []*ast.DeferStmt
	bad := false
	ast.Inspect(fd.Body, func(n ast.Node) bool {
		switch x := n.(type) {
		case *ast.FuncLit:
			return false
		case *ast.DeferStmt:
			top := false
			for _, st := range fd.Body.List {
				if st == ast.Stmt(x) {
					top = true
				}
			}
			if !top {
				bad = true
			}
			defers = append(defers, x)
		case *ast.LabeledStmt, *ast.GoStmt:
			bad = true
		case *ast.BranchStmt:
			if x.Tok == token.GOTO {
				bad = true
			}
		case *ast.Ident:
			if b, isB := info.Uses[x].(*types.Builtin); isB && b.Name() == "recover" {
				bad = true
			}
		}
		return true
	})
	if bad || len(defers) == 0 {
		return nil, false
	}
	assigned := map[types.Object]bool{}
	ast.Inspect(fd.Body, func(n ast.Node) bool {
		switch x := n.(type) {
		case *ast.AssignStmt:
			if x.Tok != token.DEFINE {
				for _, l := range x.Lhs {
					if id, ok := ast.Unparen(l).(*ast.Ident); ok {
						assigned[info.Uses[id]] = true
					}
				}
			}
		case *ast.IncDecStmt:
			if id, ok := ast.Unparen(x.X).(*ast.Ident); ok {
				assigned[info.Uses[id]] = true
			}
		}
		return true
	})
	for _, ds := range defers {
		if _, isLit := ast.Unparen(ds.Call.Fun).(*ast.FuncLit); isLit {
			return nil, false
		}
		ok := true
		check := func(e ast.Expr) {
			if !isPlainOperand(e) {
				if tv, has := info.Types[e]; !has || tv.Value == nil {
					ok = false
				}
				return
			}
			ast.Inspect(e, func(m ast.Node) bool {
				if id, isId := m.(*ast.Ident); isId && assigned[info.Uses[id]] {
					ok = false
				}
				return true
			})
		}
		for _, a := range ds.Call.Args {
			check(a)
		}
		if sel, isSel := ast.Unparen(ds.Call.Fun).(*ast.SelectorExpr); isSel {
			check(sel.X)
		}
		if !ok {
			return nil, false
		}
	}
	callsBefore := func(pos token.Pos) string {
		var sb strings.Builder
		for i := len(defers) - 1; i >= 0; i-- {
			if defers[i].Pos() < pos {
				sb.WriteString(in.text(defers[i].Call.Pos(), defers[i].Call.End()) + "\n")
			}
		}
		return sb.String()
	}
	var eds []textEdit
	ctr := 0
	okAll := true
	ast.Inspect(fd.Body, func(n ast.Node) bool {
		if _, isLit := n.(*ast.FuncLit); isLit {
			return false
		}
		rt, ok := n.(*ast.ReturnStmt)
		if !ok {
			return true
		}
		calls := callsBefore(rt.Pos())
		if calls == "" {
			return true
		}
		var sb strings.Builder
		sb.WriteString("{\n")
		var outs []string
		if len(rt.Results) == 1 {
			if tv, has := info.Types[rt.Results[0]]; has {
				if tup, isTup := tv.Type.(*types.Tuple); isTup {
					// return f() with several results
					var names []string
					for i := 0; i < tup.Len(); i++ {
						ctr++
						names = append(names, "_dfr"+itoaS(ctr))
					}
					sb.WriteString(strings.Join(names, ", ") + " := " + in.text(rt.Results[0].Pos(), rt.Results[0].End()) + "\n")
					outs = names
				}
			}
		}
		if outs == nil {
			for _, e := range rt.Results {
				tv, has := info.Types[e]
				if !has {
					okAll = false
					continue
				}
				if tv.Value != nil || tv.IsNil() {
					outs = append(outs, in.text(e.Pos(), e.End()))
					continue
				}
				ctr++
				nm := "_dfr" + itoaS(ctr)
				sb.WriteString(nm + " := " + in.text(e.Pos(), e.End()) + "\n")
				outs = append(outs, nm)
			}
		}
		sb.WriteString(calls)
		sb.WriteString("return " + strings.Join(outs, ", ") + "\n}")
		eds = append(eds, textEdit{start: in.off(rt.Pos()), end: in.off(rt.End()), text: sb.String()})
		return true
	})
	if !okAll {
		return nil, false
	}
	// falling off the end
	last := fd.Body.List[len(fd.Body.List)-1]
	if _, isRet := last.(*ast.ReturnStmt); !isRet {
		if fd.Type.Results != nil && len(fd.Type.Results.List) > 0 {
			// a function with results ends in a terminating statement: nothing falls off the end - unless it ends in a
			// panic / infinite loop, which is left alone
		} else {
			eds = append(eds, textEdit{start: in.off(fd.Body.Rbrace), end: in.off(fd.Body.Rbrace), text: "\n" + callsBefore(fd.Body.Rbrace)})
		}
	}
	for _, ds := range defers {
		eds = append(eds, textEdit{start: in.off(ds.Pos()), end: in.off(ds.End()), text: ""})
	}
	return eds, true
}

// planDeferGuarded: "clean up unless committed". A function without named results that registers, at the top level of
// its body and as its last defer,
//
//	defer func() { if COND { CLEANUP } }()
//
// where COND reads nothing but boolean local variables of the function (the `committed` / `established` flag) and
// CLEANUP has no return, recover, defer, go or label, runs the test at every return that follows, after the results
// were evaluated and before any earlier defer. The returns are rewritten to say so:
//
//	return E    =>    { _dfgN := E; if COND { CLEANUP }; return _dfgN }
//
// and the defer is dropped; the flag analysis of the graphs then sees on which exits the cleanup runs. Every name the
// handler uses must denote the same object at the return. Not reproduced: the handler running during a panic.
func planDeferGuarded(p *Prog, in *inliner, plan *roundPlan) {
	for _, pkg := range p.Pkgs {
		info := pkg.TypesInfo
		for _, file := range pkg.Syntax {
			if strings.HasSuffix(p.Fset.Position(file.Pos()).Filename, "_test.go") {
				continue
			}
			for _, d := range file.Decls {
				fd, ok := d.(*ast.FuncDecl)
				if !ok || fd.Body == nil {
					continue
				}
				if eds, ok := in.deferGuardedEdits(pkg.Types, info, fd); ok {
					fe := in.file(fd.Pos())
					fe.edits = append(fe.edits, eds...)
					plan.expanded = append(plan.expanded, "flag-guarded deferred cleanup of "+fd.Name.Name+" run at its returns")
				}
			}
		}
	}
}

func (in *inliner) deferGuardedEdits(tpkg *types.Package, info *types.Info, fd *ast.FuncDecl) ([]textEdit, bool) {
	if fd.Type.Results != nil {
		for _, fld := range fd.Type.Results.List {
			if len(fld.Names) > 0 {
				return nil, false
			}
		}
	}
	var lastDefer, ds *ast.DeferStmt
	bad := false
	ast.Inspect(fd.Body, func(n ast.Node) bool {
		switch x := n.(type) {
		case *ast.FuncLit:
			return false
		case *ast.DeferStmt:
			if lastDefer == nil || x.Pos() > lastDefer.Pos() {
				lastDefer = x
			}
		case *ast.LabeledStmt:
			bad = true
		case *ast.BranchStmt:
			if x.Tok == token.GOTO {
				bad = true
			}
		}
		return true
	})
	if bad || lastDefer == nil {
		return nil, false
	}
	for _, st := range fd.Body.List {
		if x, ok := st.(*ast.DeferStmt); ok && x == lastDefer {
			ds = x
		}
	}
	if ds == nil || len(ds.Call.Args) != 0 {
		return nil, false
	}
	lit, ok := ast.Unparen(ds.Call.Fun).(*ast.FuncLit)
	if !ok || lit.Type.Params.NumFields() != 0 || lit.Type.Results.NumFields() != 0 || len(lit.Body.List) != 1 {
		return nil, false
	}
	ifs, ok := lit.Body.List[0].(*ast.IfStmt)
	if !ok || ifs.Init != nil || ifs.Else != nil {
		return nil, false
	}
	// the condition: boolean locals of this function only
	okCond, nFlag := true, 0
	ast.Inspect(ifs.Cond, func(n ast.Node) bool {
		switch x := n.(type) {
		case *ast.Ident:
			v, isVar := info.Uses[x].(*types.Var)
			if !isVar || v.IsField() || v.Parent() == nil || v.Parent() == tpkg.Scope() || !types.Identical(v.Type().Underlying(), types.Typ[types.Bool]) ||
				v.Pos() < fd.Body.Pos() || v.Pos() > ds.Pos() {
				if c, isC := info.Uses[x].(*types.Const); isC && (c.Name() == "true" || c.Name() == "false") {
					return true
				}
				okCond = false
			}
			nFlag++
		case *ast.UnaryExpr:
			if x.Op != token.NOT {
				okCond = false
			}
		case *ast.BinaryExpr:
			if x.Op != token.LAND && x.Op != token.LOR && x.Op != token.EQL && x.Op != token.NEQ {
				okCond = false
			}
		case *ast.ParenExpr, nil:
		default:
			okCond = false
		}
		return okCond
	})
	if !okCond || nFlag == 0 {
		return nil, false
	}
	var outer []*ast.Ident // identifiers of the handler that denote something declared outside it
	ast.Inspect(lit.Body, func(n ast.Node) bool {
		switch x := n.(type) {
		case *ast.ReturnStmt, *ast.DeferStmt, *ast.GoStmt, *ast.LabeledStmt, *ast.FuncLit:
			bad = true
		case *ast.BranchStmt:
			if x.Tok == token.GOTO || x.Label != nil {
				bad = true
			}
		case *ast.Ident:
			o := info.Uses[x]
			if o == nil {
				return true
			}
			if b, isB := o.(*types.Builtin); isB && b.Name() == "recover" {
				bad = true
			}
			if o.Pos().IsValid() && (o.Pos() < lit.Pos() || o.Pos() > lit.End()) && o.Parent() != nil && o.Parent() != tpkg.Scope() && o.Parent() != types.Universe {
				if _, isField := o.(*types.Var); isField && o.(*types.Var).IsField() {
					return true
				}
				outer = append(outer, x)
			}
		}
		return true
	})
	// a break / continue in the cleanup would leave the handler's own loops only; refuse unlabeled ones outside a loop
	if bad {
		return nil, false
	}
	body := in.text(lit.Body.Lbrace+1, lit.Body.Rbrace)
	var eds []textEdit
	okAll := true
	nRet := 0
	ctr := 0
	ast.Inspect(fd.Body, func(n ast.Node) bool {
		if _, isLit := n.(*ast.FuncLit); isLit {
			return false
		}
		rt, ok := n.(*ast.ReturnStmt)
		if !ok || rt.Pos() < ds.End() {
			return true
		}
		nRet++
		scope := tpkg.Scope().Innermost(rt.Pos())
		if scope == nil {
			okAll = false
			return true
		}
		for _, id := range outer {
			if _, o := scope.LookupParent(id.Name, rt.Pos()); o != info.Uses[id] {
				okAll = false
			}
		}
		var sb strings.Builder
		sb.WriteString("{\n")
		var outs []string
		if len(rt.Results) == 1 {
			if tv, has := info.Types[rt.Results[0]]; has {
				if tup, isTup := tv.Type.(*types.Tuple); isTup {
					var names []string
					for i := 0; i < tup.Len(); i++ {
						ctr++
						names = append(names, "_dfg"+itoaS(ctr))
					}
					sb.WriteString(strings.Join(names, ", ") + " := " + in.text(rt.Results[0].Pos(), rt.Results[0].End()) + "\n")
					outs = names
				}
			}
		}
		if outs == nil {
			for _, e := range rt.Results {
				tv, has := info.Types[e]
				if !has {
					okAll = false
					continue
				}
				if tv.Value != nil || tv.IsNil() {
					outs = append(outs, in.text(e.Pos(), e.End()))
					continue
				}
				ctr++
				nm := "_dfg" + itoaS(ctr)
				sb.WriteString(nm + " := " + in.text(e.Pos(), e.End()) + "\n")
				outs = append(outs, nm)
			}
		}
		sb.WriteString("{" + body + "}\nreturn " + strings.Join(outs, ", ") + "\n}")
		eds = append(eds, textEdit{start: in.off(rt.Pos()), end: in.off(rt.End()), text: sb.String()})
		return true
	})
	if !okAll {
		return nil, false
	}
	last := fd.Body.List[len(fd.Body.List)-1]
	if _, isRet := last.(*ast.ReturnStmt); !isRet {
		if fd.Type.Results == nil || len(fd.Type.Results.List) == 0 {
			scope := tpkg.Scope().Innermost(fd.Body.Rbrace - 1)
			for _, id := range outer {
				if scope == nil {
					return nil, false
				}
				if _, o := scope.LookupParent(id.Name, fd.Body.Rbrace-1); o != info.Uses[id] {
					return nil, false
				}
			}
			eds = append(eds, textEdit{start: in.off(fd.Body.Rbrace), end: in.off(fd.Body.Rbrace), text: "\n{" + body + "}\n"})
			nRet++
		}
	}
	if nRet == 0 {
		return nil, false
	}
	eds = append(eds, textEdit{start: in.off(ds.Pos()), end: in.off(ds.End()), text: ""})
	return eds, true
}

func itoaS(n int) string {
	if n == 0 {
		return "0"
	}
	s := ""
	for n > 0 {
		s = string(rune('0'+n%10)) + s
		n /= 10
	}
	return s
}
