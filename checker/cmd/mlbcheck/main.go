// mlbcheck decides structural necessary conditions of the 20 given MetalLB
// properties from /repo's current source (static analysis only).
package main

import (
	"flag"
	"fmt"
	"os"
	"path/filepath"
	"sort"
	"strings"

	"verif/mlbcheck/chk"
	"verif/mlbcheck/rules"
)

func usage() {
	fmt.Fprintln(os.Stderr, `usage:
  mlbcheck check <Cxx> [--tier quick|thorough] [--overlay file.json] [--repo dir]
  mlbcheck selftest <Cxx>|all [--jobs n]
  mlbcheck sweep [--repo dir] [--overlay file.json|file.diff]
  mlbcheck corpus [--jobs n] [--property Cxx] [dir...]   replay /verif/seeded and /verif/benign as overlays
  mlbcheck list
  mlbcheck explain <violation.json>`)
	os.Exit(2)
}

func main() {
	if len(os.Args) < 2 {
		usage()
	}
	switch os.Args[1] {
	case "check":
		if len(os.Args) < 3 {
			usage()
		}
		id := os.Args[2]
		fs := flag.NewFlagSet("check", flag.ExitOnError)
		tier := fs.String("tier", "quick", "quick|thorough")
		overlay := fs.String("overlay", "", "JSON overlay (mutant self-test)")
		repo := fs.String("repo", "", "repository root (default /repo)")
		fs.Parse(os.Args[3:])
		if t := os.Getenv("VERIF_TIER"); t != "" && !flagSet(fs, "tier") {
			*tier = t
		}
		os.Exit(rules.RunCheck(id, *tier, *overlay, *repo))
	case "selftest":
		if len(os.Args) < 3 {
			usage()
		}
		fs := flag.NewFlagSet("selftest", flag.ExitOnError)
		jobs := fs.Int("jobs", 8, "parallel mutant runs")
		fs.Parse(os.Args[3:])
		os.Exit(rules.SelfTest(os.Args[2], *jobs, true))
	case "sweep":
		fs := flag.NewFlagSet("sweep", flag.ExitOnError)
		repo := fs.String("repo", "", "repository root (default /repo)")
		overlay := fs.String("overlay", "", "JSON overlay or unified diff applied in memory")
		fs.Parse(os.Args[2:])
		os.Exit(rules.Sweep(*repo, *overlay))
	case "corpus":
		fs := flag.NewFlagSet("corpus", flag.ExitOnError)
		jobs := fs.Int("jobs", 6, "parallel replays")
		only := fs.String("property", "", "only changes recorded for this property")
		fs.Parse(os.Args[2:])
		dirs := fs.Args()
		if len(dirs) == 0 {
			for _, sub := range []string{"seeded", "benign"} {
				m, _ := filepath.Glob(filepath.Join(chk.VerifDir(), sub, "*", "patch.diff"))
				for _, p := range m {
					dirs = append(dirs, filepath.Dir(p))
				}
			}
		}
		sort.Strings(dirs)
		res, rc := rules.Corpus(dirs, *jobs, *only)
		n := map[string]int{}
		for _, r := range res {
			if r.Outcome == "skipped" {
				continue
			}
			n[r.Kind+" "+r.Outcome]++
			fmt.Printf("%-10s %-4s %-9s %-12s fired=%v %s\n", r.Name, r.Property, r.Kind, r.Outcome, r.Fired, strings.Join(r.Keys, " "))
		}
		fmt.Println("SUMMARY", n)
		os.Exit(rc)
	case "list":
		ids := rules.IDs()
		sort.Strings(ids)
		for _, id := range ids {
			fmt.Println(id)
		}
	case "explain":
		if len(os.Args) < 3 {
			usage()
		}
		os.Exit(rules.Explain(os.Args[2]))
	default:
		usage()
	}
	_ = chk.Module
}

func flagSet(fs *flag.FlagSet, name string) bool {
	set := false
	fs.Visit(func(f *flag.Flag) {
		if f.Name == name {
			set = true
		}
	})
	return set
}
