package rules

import (
	"go/ast"
	"go/token"
	"go/types"
	"strings"

	"verif/mlbcheck/chk"
)

// guardRow is one row of the frozen guarded-by table (derived from the struct
// comments and confirmed by reading every access).
type guardRow struct {
	pkg, typ  string
	lockPkg   string // package of the struct that holds the lock ("" = same)
	lockTyp   string // struct that holds the lock ("" = same)
	lockField string // "" = embedded sync.Mutex / sync.RWMutex
	fields    []string
	exempt    []string // constructors: the object is not shared yet
	why       string
}

var guardTable = []guardRow{
	{pkg: "internal/allocator", typ: "Allocator", lockField: "countersMutex", fields: []string{"poolToCounters"}, exempt: []string{"internal/allocator.New"},
		why: "read by the pool status reconciler (CountersForPool) concurrently with the handlers"},
	{pkg: "speaker", typ: "bgpController", lockField: "activeAdsMutex", fields: []string{"activeAds"}, exempt: []string{"speaker.newController"},
		why: "read by the BGP status reconciler (PeersForService) concurrently with the handlers"},
	{pkg: "internal/layer2", typ: "Announce", lockField: "", fields: []string{"nodeInterfaces", "arps", "ndps", "ips", "ipRefcnt"}, exempt: []string{"internal/layer2.New"},
		why: "read by the ARP/NDP responder goroutines, the interface scanner, the spam loop and the layer-2 status reconciler"},
	{pkg: "internal/layer2", typ: "ndpResponder", lockPkg: "internal/layer2", lockTyp: "Announce", lockField: "", fields: []string{"solicitedNodeGroups"}, exempt: []string{"internal/layer2.newNDPResponder"},
		why: "multicast group reference counts, changed only through Announce under its lock"},
	{pkg: "internal/speakerlist", typ: "SpeakerList", lockField: "mlMux", fields: []string{"mlSpeakerIPs"},
		why: "updated by the background refresher, read by the membership code"},
}

var lockPkgs = []string{"internal/allocator", "speaker", "internal/layer2", "internal/speakerlist", "internal/k8s", "controller",
	"internal/bgp/native", "internal/bgp/frr", "internal/bgp/frrk8s", "internal/k8s/controllers"}

// lockCache memoises the lock analysis per loaded program.
var lockCache = map[*chk.Prog]*chk.LockAnalysis{}

func locksOf(p *chk.Prog) *chk.LockAnalysis {
	if la := lockCache[p]; la != nil {
		return la
	}
	la := p.AnalyseLocks(lockPkgs...)
	lockCache[p] = la
	return la
}

// guardedRule decides LOCK-GUARDED for the given rows.
func guardedRule(x *chk.R, p *chk.Prog, rows []guardRow) {
	la := locksOf(p)
	for _, row := range rows {
		lp, lt := row.lockPkg, row.lockTyp
		if lp == "" {
			lp, lt = row.pkg, row.typ
		}
		lock := p.LockField(lp, lt, row.lockField)
		if lock == nil {
			x.Undecided("anchor:lock:"+lt+"."+row.lockField, "UNDECIDED anchor missing: lock of "+lp+"."+lt)
			continue
		}
		ex := map[string]bool{}
		for _, e := range row.exempt {
			ex[e] = true
		}
		for _, fn := range row.fields {
			fld := p.LookupField(row.pkg, row.typ, fn)
			if fld == nil {
				x.Undecided("anchor:"+row.typ+"."+fn, "UNDECIDED anchor missing: field "+row.pkg+"."+row.typ+"."+fn)
				continue
			}
			seen := map[string]int{}
			for _, ga := range la.CheckGuarded(fld, lock, ex) {
				mode := "read"
				if ga.IsWrite() || strings.HasPrefix(ga.Kind, "method:") {
					mode = ga.Kind
				}
				key := row.typ + "." + fn + "@" + ga.Fn.Name() + "#" + mode
				seen[key]++
				if seen[key] > 1 && ga.OK {
					continue // one obligation per (field, function, access kind); every failing access is reported
				}
				x.Rep().Saw(ga.Fn)
				x.Check(key, ga.Sel.Pos(), ga.OK, "", row.typ+"."+fn+" is accessed ("+ga.Kind+") without its lock: "+ga.Why+" - "+row.why)
			}
		}
	}
}

// callsHeld reports the positions at which a call matching isCall executes
// while `lock` is held, in every function of the given package.
func callsHeld(p *chk.Prog, pkg string, lock *types.Var, isCall func(f *chk.Fn, call *ast.CallExpr) bool) (sites int, bad []token.Pos) {
	la := locksOf(p)
	for _, f := range p.FuncsIn(pkg) {
		ff := f
		op := func(n ast.Node) bool {
			c, ok := n.(*ast.CallExpr)
			return ok && isCall(ff, c)
		}
		ast.Inspect(f.Body, func(n ast.Node) bool {
			if n != nil && op(n) {
				sites++
			}
			return true
		})
		bad = append(bad, la.BlockingUnder(f, lock, op)...)
	}
	return
}

type token_Pos = token.Pos

// Guarded-by rows owned by other properties (shared with C20's thorough sweep).
var c17Table = []guardRow{
	{pkg: "internal/bgp/native", typ: "session", lockField: "mu", fields: []string{"closed", "conn", "actualHoldTime", "nextHop", "advertised", "new", "peerFBASNSupport"},
		exempt: []string{"(*internal/bgp/native.sessionManager).NewSession"},
		why:    "shared by the connect/sendUpdates, keepalive and reader goroutines and by Set/Close"},
}

var c19Table = []guardRow{
	{pkg: "internal/bgp/frr", typ: "sessionManager", lockField: "", fields: []string{"sessions", "bfdProfiles", "extraConfig"}, exempt: []string{"internal/bgp/frr.NewSessionManager"},
		why: "sessions are created, closed and updated by the handlers while the configuration is regenerated"},
	{pkg: "internal/bgp/frr", typ: "session", lockPkg: "internal/bgp/frr", lockTyp: "sessionManager", lockField: "", fields: []string{"advertised"},
		exempt: []string{"(*internal/bgp/frr.sessionManager).NewSession"}, why: "read by createConfig for every session"},
	{pkg: "internal/k8s/controllers", typ: "FRRK8sReconciler", lockField: "", fields: []string{"desiredConfiguration"},
		why: "written by the speaker's UpdateConfig callback, read by Reconcile"},
}

var c14Table = []guardRow{
	{pkg: "internal/bgp/frrk8s", typ: "sessionManager", lockField: "", fields: []string{"sessions", "bfdProfiles", "configChangedCallback"}, exempt: []string{"internal/bgp/frrk8s.NewSessionManager"},
		why: "sessions are created, closed and updated by the handlers while the FRRConfiguration is regenerated"},
	{pkg: "internal/bgp/frrk8s", typ: "session", lockPkg: "internal/bgp/frrk8s", lockTyp: "sessionManager", lockField: "", fields: []string{"advertised"},
		exempt: []string{"(*internal/bgp/frrk8s.sessionManager).NewSession"}, why: "read by updateConfig for every session"},
}
