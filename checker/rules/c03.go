package rules

import (
	"go/ast"
	"go/token"
	"go/types"
	"strings"

	"verif/mlbcheck/chk"
)

func init() {
	register(&Prop{
		ID: "C03",
		Explanation: "Decided (on all paths): in convergeBalancer, once the enumerated admissible reasons for giving up an address are excluded " +
			"(not a LoadBalancer, no pools, no cluster IPs, dual-stack requirement unmet, empty status, family change, Assign refused by the " +
			"configuration, different pool / addresses requested, internal inconsistencies), no clearServiceState, no reset of the held " +
			"addresses, no Unassign and no allocation call is reachable (HAPPY-PATH); held addresses are re-adopted through Assign before any " +
			"allocation and allocateIPs runs only with no held address (READOPT); the only growth of the held set is the PreferDualStack " +
			"additional family from the owning pool (GAIN); Allocate/AllocateFromPool return an existing allocation unchanged without searching " +
			"(KEEP-EXISTING); SetPools drops an allocation only when no pool contains it and re-homes it (Unassign + assign of the same " +
			"allocation under the new pool name) otherwise (REHOME); Unassign is called only by its five owners, with the handler's own key " +
			"(UNASSIGN-OWN-KEY); UpdateStatus is reachable only when the converged copy differs from the observed Service (WRITE-ON-CHANGE); " +
			"the restart gate, the assigned-first order of the full pass and the untouched allocator memory after a failed status write (GATE, GATE-WRITE, ORDER, HANDLER-ERR, shared with C06).",
		NotDecided: "The frame condition over whole histories (that no sequence of events makes an admissible address inadmissible in the allocator's view) and " +
			"the correctness of the admissibility tests as values.",
		Run: runC03,
		Mutants: []Mutant{
			{Name: "status-written-unconditionally", File: "controller/main.go",
				Old: "\t\tif err := c.client.UpdateStatus(svc); err != nil {", New: "\t\tsvc.ResourceVersion = \"\"\n\t\tif err := c.client.UpdateStatus(svc); err != nil {", Expect: "copy-edited-only-by-converge"},
			{Name: "ipv6-first-pair-refused", File: "internal/ipfamily/ipfamily.go",
				Old: "\t\tif (ip1.To4() == nil) == (ip2.To4() == nil) {", New: "\t\tif ip1.To4() == nil || ip2.To4() != nil {", Expect: "FAMILY-PAIR"},
			{Name: "namespace-list-error-ignored", File: "internal/k8s/controllers/pool_controller.go",
				Old: "\t\tlevel.Error(r.Logger).Log(\"controller\", \"ConfigReconciler\", \"message\", \"failed to get namespaces\", \"error\", err)\n\t\treturn ctrl.Result{}, err\n", New: "\t\tlevel.Error(r.Logger).Log(\"controller\", \"ConfigReconciler\", \"message\", \"failed to get namespaces\", \"error\", err)\n", Expect: "FETCH-CHECKED"},
			{Name: "service-get-error-tested-on-other-variable", File: "internal/k8s/controllers/service_controller.go",
				Old: "\terr := r.Get(ctx, name, &res)\n\tif apierrors.IsNotFound(err) {", New: "\tvar err error\n\tif err := r.Get(ctx, name, &res); apierrors.IsNotFound(err) {", Expect: "FETCH-CHECKED"},
			{Name: "full-pass-from-a-service-event", File: "internal/k8s/controllers/service_controller.go",
				Old: "\tif !isReloadReq(req) {\n\t\treturn r.reconcileService(ctx, req)\n\t}", New: "\tif !isReloadReq(req) && r.initialLoadPerformed {\n\t\treturn r.reconcileService(ctx, req)\n\t}", Expect: "RELOAD-ONLY"},
			{Name: "tenant-set-dropped-on-pool-counter", File: "internal/allocator/allocator.go",
				Old: "\t\tif a.poolIPsInUse[al.pool][ip.String()] == 0 {\n\t\t\tdelete(a.poolIPsInUse[al.pool], ip.String())\n",
				New: "\t\tif a.poolIPsInUse[al.pool][ip.String()] == 0 {\n\t\t\tdelete(a.poolIPsInUse[al.pool], ip.String())\n\t\t\tdelete(a.servicesOnIP, ip.String())\n", Expect: "delete-servicesOnIP"},
			{Name: "unlabelled-service-never-compatible", File: "internal/allocator/allocator.go",
				Old: "\tif p.ServiceAllocations != nil && len(p.ServiceAllocations.ServiceSelectors) > 0 {\n\t\tsvcLabels := labels.Set(svc.Labels)\n",
				New: "\tif p.ServiceAllocations != nil && len(p.ServiceAllocations.ServiceSelectors) > 0 {\n\t\tif len(svc.Labels) == 0 {\n\t\t\treturn false\n\t\t}\n\t\tsvcLabels := labels.Set(svc.Labels)\n", Expect: "return-false:justified"},
			{Name: "sharing-verdict-of-last-address-only", File: "internal/allocator/allocator.go",
				Old: "\tfor _, ip := range ips {\n\t\t// Does the IP already have allocs? If so, needs to be the same\n\t\t// sharing key, and have non-overlapping ports. If not, the\n\t\t// proposed IP needs to be allowed by configuration.\n\t\tif err := a.checkSharing(svcKey, ip.String(), ports, sk); err != nil {\n\t\t\treturn err\n\t\t}\n\t}",
				New: "\tvar sharingErr error\n\tfor _, ip := range ips {\n\t\tsharingErr = a.checkSharing(svcKey, ip.String(), ports, sk)\n\t}\n\tif sharingErr != nil {\n\t\treturn sharingErr\n\t}", Expect: "GUARD-SHARE"},
			{Name: "pool-handler-under-its-own-mutex", File: "internal/k8s/listener.go",
				Old: "func (l *Listener) PoolHandler(logger log.Logger, pools *config.Pools) controllers.SyncState {\n\tl.Lock()\n\tdefer l.Unlock()",
				New: "var poolsMu sync.Mutex\n\nfunc (l *Listener) PoolHandler(logger log.Logger, pools *config.Pools) controllers.SyncState {\n\tpoolsMu.Lock()\n\tdefer poolsMu.Unlock()", Expect: "LOCK-ENTRY"},
			{Name: "early-validation-before-readoption", File: "controller/service.go",
				Old: "\tif len(lbIPs) != 0 {\n\t\t// This assign is idempotent if the config is consistent,", New: "\tif len(lbIPs) != 0 {\n\t\tif _, _, err := getDesiredLbIPs(svc); err != nil {\n\t\t\treturn ErrConverge\n\t\t}\n\t\t// This assign is idempotent if the config is consistent,", Expect: "READOPT-EXIT"},
			{Name: "family-change-judged-by-held-family", File: "controller/service.go",
				Old: "\tif clusterIPsIPFamily == ipfamily.DualStack && familyPolicy == v1.IPFamilyPolicyPreferDualStack {", New: "\tif lbIPsIPFamily == ipfamily.DualStack && familyPolicy == v1.IPFamilyPolicyPreferDualStack {", Expect: "FAMILY-KEPT"},
			{Name: "allocate-before-readopt", File: "controller/service.go",
				Old: "\t// It's possible the config mutated and the IP we have no longer\n", New: "\tif familyPolicy == v1.IPFamilyPolicySingleStack {\n\t\tlbIPs, err = c.allocateIPs(key, svc)\n\t}\n\t// It's possible the config mutated and the IP we have no longer\n", Expect: "READOPT"},
			{Name: "allocate-drops-early-return", File: "internal/allocator/allocator.go",
				Old: "\tif alloc := a.allocated[svcKey]; alloc != nil {\n\t\tif err := a.Assign(svcKey, svc, alloc.ips, ports, sharingKey, backendKey); err != nil {\n\t\t\treturn nil, err\n\t\t}\n\t\treturn alloc.ips, nil\n\t}\n\t// First, check the pinned pools",
				New: "\tif alloc := a.allocated[svcKey]; alloc != nil {\n\t\tif err := a.Assign(svcKey, svc, alloc.ips, ports, sharingKey, backendKey); err != nil {\n\t\t\treturn nil, err\n\t\t}\n\t}\n\t// First, check the pinned pools", Expect: "KEEP-EXISTING"},
			{Name: "setpools-unassign-without-rehome", File: "internal/allocator/allocator.go",
				Old: "\t\t\talloc.pool = pool.Name\n\t\t\t// Use the internal assign, we know for a fact the IP is\n\t\t\t// still usable.\n\t\t\ta.assign(svc, alloc)\n", New: "\t\t\talloc.pool = pool.Name\n", Expect: "REHOME"},
			{Name: "write-without-diff-guard", File: "controller/main.go",
				Old: "\tif !reflect.DeepEqual(toWrite, svcRo) {\n", New: "\tif !reflect.DeepEqual(toWrite, svcRo) || len(prevIPs) == 0 {\n", Expect: "WRITE-ON-CHANGE"},
			{Name: "new-clear-reason", File: "controller/service.go",
				Old: "\tclusterIPsIPFamily, _ := ipfamily.ForService(svc)\n", New: "\tif len(lbIPs) == 2 && familyPolicy == v1.IPFamilyPolicySingleStack {\n\t\tc.clearServiceState(key, svc)\n\t\tlbIPs = []net.IP{}\n\t}\n\tclusterIPsIPFamily, _ := ipfamily.ForService(svc)\n", Expect: "HAPPY-PATH"},
			{Name: "gain-for-single-stack-cluster-ips", File: "controller/service.go",
				Old: "familyPolicy == v1.IPFamilyPolicyPreferDualStack && clusterIPsIPFamily == ipfamily.DualStack {", New: "familyPolicy == v1.IPFamilyPolicyPreferDualStack {\n\t\t_ = clusterIPsIPFamily", Expect: "gain-survives-next-sync"},
			{Name: "assign-error-ignored-for-keep", File: "controller/service.go",
				Old: "\t\t\tc.client.Infof(svc, \"ClearAssignment\", \"current IP for %q not allowed by config, will attempt for new IP assignment: %s\", key, err)\n\t\t\tc.clearServiceState(key, svc)\n\t\t\tlbIPs = []net.IP{}\n\t\t}\n",
				New: "\t\t\tc.client.Infof(svc, \"ClearAssignment\", \"current IP for %q not allowed by config, will attempt for new IP assignment: %s\", key, err)\n\t\t\tc.clearServiceState(key, svc)\n\t\t\tlbIPs = []net.IP{}\n\t\t}\n\t\tif len(lbIPs) > 1 && familyPolicy == v1.IPFamilyPolicyPreferDualStack {\n\t\t\tlbIPs = lbIPs[:1]\n\t\t}\n", Expect: "HAPPY-PATH"},
			{Name: "additional-family-from-any-pool", File: "controller/service.go",
				Old: "\t\tcurrentPool := c.ips.Pool(key)\n", New: "\t\tcurrentPool := valueForAnnotation(svc.Annotations, AnnotationAddressPool, DeprecatedAnnotationAddressPool)\n", Expect: "GAIN"},
			{Name: "rehome-keeps-old-pool-name", File: "internal/allocator/allocator.go",
				Old: "\t\t\ta.Unassign(svc)\n\t\t\talloc.pool = pool.Name\n", New: "\t\t\ta.Unassign(svc)\n", Expect: "REHOME"},
			{Name: "updatestatus-of-observed-object", File: "controller/main.go",
				Old: "if err := c.client.UpdateStatus(svc); err != nil {", New: "if err := c.client.UpdateStatus(toWrite); err != nil {", Expect: "WRITE-ON-CHANGE"},
			{Name: "additional-family-drops-existing", File: "internal/allocator/allocator.go",
				Old: "newIps := []net.IP{existingIP, additionalIPs[0]}", New: "newIps := []net.IP{additionalIPs[0]}", Expect: "GAIN"},
		},
	})
}

// c03Reasons returns the guards naming the admissible reasons for which
// convergeBalancer may give up the addresses recorded in the status.
func c03Reasons(f *chk.Fn, g *chk.Graph, lbIPs types.Object) []chk.Guard {
	svc, key := isParam(f, "svc"), isParam(f, "key")
	L := chk.H("L", f.IsObj(lbIPs))
	dpool := definedBy(g, "valueForAnnotation(S.Annotations, A, B)", chk.H("S", svc), chk.H("A", constStr(f, "metallb.io/address-pool")), chk.H("B", constStr(f, "metallb.universe.tf/address-pool")))
	policy := func(e ast.Expr) bool {
		id, ok := ast.Unparen(e).(*ast.Ident)
		if !ok {
			return false
		}
		o := f.ObjOf(id)
		return o != nil && o.Name() == "familyPolicy" || definedBy(g, "*(S.Spec.IPFamilyPolicy)", chk.H("S", svc))(e)
	}
	return []chk.Guard{
		g.GPat(true, "S.Spec.Type != T", chk.H("S", svc), chk.H("T", constStr(f, "LoadBalancer"))),
		g.GPat(true, "len(RECV.pools.ByName) == 0"),
		g.GPat(true, `len(S.Spec.ClusterIPs) == 0 && S.Spec.ClusterIP == ""`, chk.H("S", svc)),
		g.GPat(true, "P == R && len(S.Spec.ClusterIPs) < 2", chk.H("S", svc), chk.H("P", policy), chk.H("R", constStr(f, "RequireDualStack"))),
		g.GPat(true, "len(L) == 0", L),
		g.GPat(true, "serviceFamilyChanged(A, B, P)", chk.H("A", definedBy(g, "ipfamily.ForAddressesIPs(L)", L)), chk.H("B", definedBy(g, "ipfamily.ForService(S)", chk.H("S", svc)))),
		g.GErrNil(false, "ipfamily.ForService(S)", chk.H("S", svc)),
		g.GErrNil(false, "RECV.ips.Assign(K, S, L, ETC)", chk.H("K", key), chk.H("S", svc), L),
		g.GPat(true, `len(L) != 0 && DP != "" && RECV.ips.Pool(K) != DP`, L, chk.H("DP", dpool), chk.H("K", key)),
		g.GErrNil(false, "getDesiredLbIPs(S)", chk.H("S", svc)),
		g.GPat(true, "len(D) > 0 && !isEqualIPs(L, D)", L, chk.H("D", definedBy(g, "getDesiredLbIPs(S)", chk.H("S", svc)))),
		g.GPat(true, `P == "" || RECV.pools == nil || RECV.pools.IsEmpty(P)`, chk.H("P", definedBy(g, "RECV.ips.Pool(K)", chk.H("K", key)))),
	}
}

func runC03(p *chk.Prog, r *chk.Report) {
	// pools that contain one another are refused: the owner of an address is unambiguous (CIDR-CONTAINS, shared with C02, C08)
	// a held address stays while a pool contains all of the Service's addresses: the membership test (MEMBER, shared with C02)
	c02Member(p, r)
	cidrContainmentRule(p, r)
	argRolesRule(p, r, 20, allocPkg, "controller")
	// a released allocation leaves no tenant behind (SIBLING, shared with C11): a ghost tenant makes the next holder's re-adoption fail
	c11Sibling(p, r)
	familyPairRule(p, r)
	c06ReloadOnly(p, r)
	fetchCheckedRule(p, r)
	assignCommitsRule(p, r)
	c03Converge(p, r)
	c03KeepExisting(p, r)
	c03Rehome(p, r)
	c03Unassign(p, r)
	c03Write(p, r)
	// re-adoption judges sharing with the same symmetric test that admitted the co-tenants: a holder is evicted on its
	// next sync when a newcomer was admitted by a laxer comparison than the one the holder is then judged by
	c01ShareOK(p, r)
	// ... with every check of the first assignment (SHARE-BODY) and with the Service's own keys (ARGS), both shared with
	// C01: a re-adoption that skips the port scan, or judges by another key than the allocation did, keeps a set that
	// is no longer admissible or drops one that is
	c01ShareBody(p, r)
	c01Args(p, r)
	// a co-tenant that leaves must not take the address's sharing key with it (KEY-LIFETIME, shared with C01): the
	// remaining holder is evicted on its next sync by whoever was allocated the "free" address in between
	c01KeyLifetime(p, r)
	// "the request changed" rests on isEqualIPs being set equality (SAME-IPS, shared with C02)
	c02SameIPs(p, r)
	// restart and failed-write stability (rules shared with C06): the recorded
	// addresses are re-adopted, assigned services first, before any per-service
	// event is handled, and a failed status write leaves the allocator's memory alone
	c06Gate(p, r)
	c06Order(p, r)
	c06Handler(p, r)
	c06ReadoptFirst(p, r)
	readoptBeforeExitRule(p, r)
	// "the family changed" is decided from the cluster IPs' family, not from what the Service happens to hold
	// (FAMILY-KEPT, shared with C02): the wrong operand clears and re-allocates a valid single address on every sync
	c02FamilyChanged(p, r)
	// an address is taken only when every requested address passed the sharing check (GUARD-SHARE, shared with C01):
	// a holder whose address was handed to an incompatible newcomer is evicted at its next sync
	c01GuardShare(p, r)
	// the pool update re-homes allocations in two steps (Unassign + assign): it must exclude the service handler
	// (LOCK-ENTRY, shared with C20), or a newcomer takes the address in between and the holder is evicted later
	c20Entry(p, r)
	// re-adoption asks isPoolCompatibleWithService: it refuses only for a namespace or selector reason (POOL-COMPAT,
	// shared with C02)
	c02PoolCompat(p, r)
}

func c03Converge(p *chk.Prog, r *chk.Report) {
	hp := r.Rule("HAPPY-PATH", "B path", "in controller.convergeBalancer, after deleting every branch edge that states one of the 12 enumerated admissible reasons (frozen table c03Reasons), no clearServiceState, no Allocator.Unassign, no allocation call and no assignment to the held-address list other than the PreferDualStack append is reachable", 4)
	ro := r.Rule("READOPT", "B path", "in controller.convergeBalancer allocateIPs is reachable only with len(lbIPs) == 0, and every path from the entry to it passes Assign(key, svc, lbIPs, …) of the addresses parsed from the status or clearServiceState (an address recorded in the status is re-adopted or deliberately dropped before anything is allocated)", 3)
	ga := r.Rule("GAIN", "B path", "the only growth of the held set: lbIPs = append(lbIPs, newIP) with newIP from AllocateFromPoolForAdditionalFamily(key, svc, lbIPs[0], c.ips.Pool(key), …) under len(lbIPs) == 1 && PreferDualStack and only for a Service whose pair the next sync keeps (dual-stack cluster IPs, as serviceFamilyChanged requires); that allocator method assigns {existingIP, new} and searches only the named pool", 5)
	f := need(hp, p, "controller", "controller", "convergeBalancer")
	if f == nil {
		return
	}
	r.Saw(f)
	g := f.Graph()
	svc, key := isParam(f, "svc"), isParam(f, "key")
	var lbIPs types.Object
	assignSites := g.FindPat("RECV.ips.Assign(K, S, IPS, ETC)", chk.H("K", key), chk.H("S", svc))
	if len(assignSites) != 1 {
		hp.Fail("converge:readopt-call", f.Pos(), "expected exactly one c.ips.Assign(key, svc, lbIPs, …) in convergeBalancer")
		return
	}
	lbIPs = f.ObjOf(assignSites[0].Node.(*ast.CallExpr).Args[2])
	L := chk.H("L", f.IsObj(lbIPs))
	// lbIPs is filled from the status
	// the element of a loop over svc.Status.LoadBalancer.Ingress (range value, or Ingress[i] of the loop's index)
	ingressElem := func(e ast.Expr) bool {
		for _, rs := range f.RangeLoops(func(x ast.Expr) bool { return f.MatchWith("S.Status.LoadBalancer.Ingress", x, chk.H("S", svc)) != nil }) {
			if rangeVal(f, rs)(e) {
				return true
			}
		}
		return false
	}
	fill := g.Find(f.IsAssignPat("L", "append(L, net.ParseIP(EL.IP))", L, chk.H("EL", ingressElem)))
	ro.Check("converge:held-set-from-status", f.Pos(), len(fill) == 1, "", "the held addresses are not parsed from svc.Status.LoadBalancer.Ingress")

	reasons := chk.GAnyOf(c03Reasons(f, g, lbIPs)...)
	cut := func(b *cfgBlock, k int) bool { return g.EdgeImplies(b, k, reasons) }
	isClear := f.ContainsPat("RECV.clearServiceState(ETC)")
	isUnassign := f.ContainsCallTo(allocA + "Unassign")
	isAlloc := func(n ast.Node) bool {
		return f.ContainsPat("RECV.allocateIPs(ETC)")(n) || f.ContainsCallTo(allocA+"Allocate", allocA+"AllocateFromPool")(n)
	}
	gainStmt := f.IsAssignPat("L", "append(L, N)", L, chk.H("N", definedBy(g, "RECV.ips.AllocateFromPoolForAdditionalFamily(ETC)")))
	isReset := func(n ast.Node) bool {
		as, ok := n.(*ast.AssignStmt)
		if !ok {
			return false
		}
		for _, l := range as.Lhs {
			if f.ObjOf(l) == lbIPs && !gainStmt(n) && !(len(fill) == 1 && n == fill[0].Top) {
				// the initial declaration is not a reset, nor is an initialisation that precedes the parsing of the status
				if as.Tok.String() == ":=" {
					return false
				}
				if len(fill) == 1 {
					self := ast.Node(as)
					if w := (&chk.Walk{G: g, From: fill[0], Hit: func(m ast.Node) bool { return m == self }}).Run(); !w.Found {
						return false
					}
				}
				return true
			}
		}
		return false
	}
	for _, c := range []struct {
		name string
		hit  func(ast.Node) bool
		msg  string
	}{
		{"no-clearServiceState", isClear, "clearServiceState is reachable for a Service whose recorded addresses are admissible"},
		{"no-Unassign", isUnassign, "Allocator.Unassign is reachable for a Service whose recorded addresses are admissible"},
		{"no-allocation", isAlloc, "an allocation call is reachable for a Service whose recorded addresses are admissible"},
		{"no-reset-of-held-addresses", isReset, "the held addresses are overwritten for a Service whose recorded addresses are admissible"},
	} {
		w := (&chk.Walk{G: g, Hit: c.hit, Cut: cut}).Run()
		hp.Check("converge:"+c.name, posOf(w, f), !w.Found, "", c.msg+" (outside the enumerated reasons): "+describe(f, w))
	}
	// the reasons must all still exist (a reason that disappeared would silently widen nothing, but the table would be stale)
	nreasons := 0
	for _, gd := range c03Reasons(f, g, lbIPs) {
		if g.EdgeImpliesAny(gd) {
			nreasons++
		}
	}
	hp.Rep().Extra["c03_reasons_matched"] = nreasons

	// READOPT
	allocCalls := g.FindPat("RECV.allocateIPs(K, S)", chk.H("K", key), chk.H("S", svc))
	ro.Check("converge:allocateIPs-call", f.Pos(), len(allocCalls) == 1, "", "expected one allocateIPs(key, svc) call")
	for _, a := range allocCalls {
		ro.Check("converge:allocate-only-when-empty", a.Pos(), g.Dominated(a, g.GPat(true, "len(L) == 0", L)), "", "allocateIPs is reachable while addresses are held")
		tr, rf := g.EmptinessTracker(f.IsObj(lbIPs))
		w := (&chk.StateWalk{G: g, Init: chk.EmpUnknown, Transfer: tr, Refine: rf,
			Stop: func(n ast.Node, _ int) bool {
				return n == assignSites[0].Top || chk.Encloses(n, assignSites[0].Node) || isClear(n)
			},
			Hit: func(n ast.Node, _ int) bool { return n == a.Top }}).Run()
		ro.Check("converge:readopt-or-clear-before-allocate", posOf(w, f), !w.Found, "", "allocateIPs is reachable without re-adopting (Assign) or deliberately clearing the recorded addresses first")
		// the result of allocateIPs becomes the held set
		ro.Check("converge:allocation-becomes-held-set", a.Pos(), func() bool {
			as, ok := a.Top.(*ast.AssignStmt)
			if !ok || len(as.Lhs) != 2 {
				return false
			}
			if f.ObjOf(as.Lhs[0]) == lbIPs {
				return true
			}
			// through a local of its own: `got, err := allocateIPs(..)` and, before the held set is looked at again,
			// `lbIPs = got`
			t, isVar := f.ObjOf(as.Lhs[0]).(*types.Var)
			if !isVar || t.IsField() || len(assignsTo(f, t)) > 1 {
				return false
			}
			isCopy := f.IsAssignPat("L", "T", L, chk.H("T", f.IsObj(t)))
			w := g.MustPass(a, func(n ast.Node) bool { return !isCopy(n) && f.Mentions(n, lbIPs) }, false, isCopy)
			return !w.Found && len(g.Find(isCopy)) > 0
		}(), "", "the allocated addresses are not recorded as the held set")
	}
	// Assign is dominated by len(lbIPs) != 0
	ro.Check("converge:readopt-when-held", assignSites[0].Pos(), g.Dominated(assignSites[0], g.GPat(true, "len(L) != 0", L)), "", "re-adoption is not conditioned on held addresses")
	// status write uses the held set
	ing := g.Find(f.IsAssignPat("S.Status.LoadBalancer.Ingress", "V", chk.H("S", svc)))
	okIng := len(ing) == 1
	if okIng {
		v := f.ObjOf(ing[0].Node.(*ast.AssignStmt).Rhs[0])
		okIng = false
		for _, rs := range f.RangeLoops(f.IsObj(lbIPs)) {
			if len(g.Find(func(n ast.Node) bool {
				return chk.InBody(rs, n) && f.IsAssignPat("V", "append(V, v1.LoadBalancerIngress{IP: X.String()})", chk.H("V", f.IsObj(v)), chk.H("X", rangeVal(f, rs)))(n)
			})) == 1 && !loopCanSkip(g, rs, func(n ast.Node) bool { _, ok := n.(*ast.AssignStmt); return ok }) {
				okIng = true
			}
			// or a list made with one slot per held address and filled slot by slot
			fill := f.IsAssignPat("V[I]", "v1.LoadBalancerIngress{IP: X.String()}", chk.H("V", f.IsObj(v)), chk.H("I", rangeKey(f, rs)), chk.H("X", rangeVal(f, rs)))
			sized := false
			for _, d := range assignsTo(f, v) {
				if as, isAs := d.(*ast.AssignStmt); isAs && len(as.Rhs) == 1 && f.MatchWith("make(T, len(L))", as.Rhs[0], chk.H("L", f.IsObj(lbIPs))) != nil {
					sized = true
				}
			}
			if sized && !loopSkipsWithout(g, rs, fill, chk.NoGuard) && !loopHasBreak(g, rs) {
				okIng = true
			}
			// ... or the address field of each (zero) slot set in place
			fillIP := f.IsAssignPat("V[I].IP", "X.String()", chk.H("V", f.IsObj(v)), chk.H("I", rangeKey(f, rs)), chk.H("X", rangeVal(f, rs)))
			if sized && !loopSkipsWithout(g, rs, fillIP, chk.NoGuard) && !loopHasBreak(g, rs) {
				okIng = true
			}
		}
	}
	ro.Check("converge:status-is-held-set", f.Pos(), okIng, "", "the written status is not exactly the held addresses")

	// GAIN
	gains := g.Find(gainStmt)
	ga.Check("converge:gain-site", f.Pos(), len(gains) == 1, "", "expected one PreferDualStack gain site")
	for _, s := range gains {
		ga.Check("converge:gain-guard", s.Pos(), g.Dominated(s, g.GPat(true, "len(L) == 1 && P == PD", L, chk.H("PD", constStr(f, "PreferDualStack")))), "", "an address can be added outside len(lbIPs) == 1 && PreferDualStack")
	}
	// The pair written after a gain is read back by the next sync, which keeps a dual-stack pair only when
	// serviceFamilyChanged accepts it. Unless that function accepts a PreferDualStack pair whatever the cluster-IP
	// family, the gain has to be limited to Services whose cluster IPs are dual-stack.
	acceptsAny := false
	if sfc := p.LookupFunc("controller", "", "serviceFamilyChanged"); sfc != nil && sfc.Decl.Type.Params.NumFields() == 3 {
		sg := sfc.Graph()
		pol := sg.GPat(true, "P == PD", chk.H("P", isParamIdx(sfc, 2)), chk.H("PD", constStr(sfc, "PreferDualStack")))
		dual := sg.GPat(true, "C == ipfamily.DualStack", chk.H("C", isParamIdx(sfc, 1)))
		for _, rt := range sg.Returns() {
			rr := retResults(rt)
			if len(rr) == 1 && sfc.IsConstBool(rr[0], false) && sg.Dominated(rt, pol) && !sg.Dominated(rt, dual) {
				acceptsAny = true
			}
		}
	}
	for _, s := range gains {
		dual := g.GPat(true, "F == ipfamily.DualStack", chk.H("F", definedByIdx(g, f, "ipfamily.ForService(S)", 0, chk.H("S", svc))))
		ga.Check("converge:gain-survives-next-sync", s.Pos(), acceptsAny || g.Dominated(s, dual), "",
			"a PreferDualStack Service with single-stack cluster IPs gains the other family, and the next sync clears the pair as a family change (serviceFamilyChanged accepts a dual-stack pair only for dual-stack cluster IPs): the Service alternates between one and two addresses for ever")
	}
	for _, c := range g.FindPat("RECV.ips.AllocateFromPoolForAdditionalFamily(K, S, E, POOL, ETC)", chk.H("K", key), chk.H("S", svc)) {
		call := c.Node.(*ast.CallExpr)
		ga.Check("converge:gain-args", c.Pos(), f.MatchWith("L[0]", call.Args[2], L) != nil && definedBy(g, "RECV.ips.Pool(K)", chk.H("K", key))(call.Args[3]), "",
			"the additional family is not requested for the held address from the pool that owns it")
	}
	af := need(ga, p, allocPkg, "Allocator", "AllocateFromPoolForAdditionalFamily")
	if af != nil {
		ag := af.Graph()
		ok := false
		for _, c := range ag.FindPat("RECV.Assign(K, S, IPS, ETC)", chk.H("K", isParam(af, "svcKey"))) {
			ips := c.Node.(*ast.CallExpr).Args[2]
			ok = definedBy(ag, "[]net.IP{E, A[0]}", chk.H("E", isParam(af, "existingIP")), chk.H("A", definedBy(ag, "POOLIPS.selectIPsForFamilyAndPolicy(ETC)")))(ips) ||
				af.MatchWith("[]net.IP{E, A[0]}", ips, chk.H("E", isParam(af, "existingIP"))) != nil
		}
		ga.Check("AdditionalFamily:keeps-existing", af.Pos(), ok, "", "the new assignment does not consist of the existing address plus the additional one")
		okPool := false
		for _, c := range ag.FindPat("RECV.getFreeIPsFromPool(P, ETC)") {
			okPool = definedByOrNil(ag, "RECV.pools.ByName[N]", chk.H("N", isParam(af, "poolName")))(c.Node.(*ast.CallExpr).Args[0])
		}
		ga.Check("AdditionalFamily:same-pool", af.Pos(), okPool, "", "the additional address is searched outside the named pool")
	}
}

func c03KeepExisting(p *chk.Prog, r *chk.Report) {
	x := r.Rule("KEEP-EXISTING", "B path", "in (*Allocator).Allocate and AllocateFromPool the branch `a.allocated[svcKey] != nil` reaches no search (getFreeIPsFromPool / allocateFromPools / findBestPoolForService / pinnedPoolsForService) and its success returns yield alloc.ips of that existing allocation", 4)
	for _, name := range []string{"Allocate", "AllocateFromPool"} {
		f := need(x, p, allocPkg, "Allocator", name)
		if f == nil {
			continue
		}
		g := f.Graph()
		ex := definedBy(g, "RECV.allocated[K]", chk.H("K", isParam(f, "svcKey")))
		es := g.EdgesImplying(g.GPat(true, "AL != nil", chk.H("AL", ex)))
		if len(es) != 1 {
			x.Fail(name+":existing-branch", f.Pos(), "no `if alloc := a.allocated[svcKey]; alloc != nil` branch")
			continue
		}
		start := chk.Site{G: g, B: es[0].B.Succs[es[0].K], I: 0}
		search := f.ContainsCallTo(allocA+"getFreeIPsFromPool", allocA+"allocateFromPools", allocA+"findBestPoolForService", allocA+"pinnedPoolsForService", allocA+"getIPFromCIDR")
		w := (&chk.Walk{G: g, From: start, Inclusive: true, Hit: search}).Run()
		x.Check(name+":existing:no-search", posOf(w, f), !w.Found, "", "a Service that already holds an allocation can be given a newly searched address: "+describe(f, w))
		n := 0
		w2 := (&chk.Walk{G: g, From: start, Inclusive: true, Hit: func(nd ast.Node) bool {
			rs, ok := nd.(*ast.ReturnStmt)
			if !ok || len(rs.Results) != 2 || !f.IsNilLit(rs.Results[1]) {
				return false
			}
			n++
			if f.MatchWith("AL.ips", rs.Results[0], chk.H("AL", ex)) != nil {
				return false
			}
			// a result variable shared with the allocating path (`ips = alloc.ips` in this branch, one Assign and one return
			// below): in the executions that took this branch the only definitions that reach the return are `= AL.ips`
			if id, isId := ast.Unparen(rs.Results[0]).(*ast.Ident); isId {
				sites := g.Find(func(m ast.Node) bool { return m == nd })
				if len(sites) == 1 {
					notExisting := g.GPat(false, "AL != nil", chk.H("AL", ex))
					defs, entry := g.ReachingDefsUnder(id, sites[0], func(b *cfgBlock, k int) bool { return g.EdgeImplies(b, k, notExisting) })
					okDefs := !entry && len(defs) > 0
					for _, d := range defs {
						as, isAs := d.(*ast.AssignStmt)
						if !isAs || len(as.Lhs) != 1 || len(as.Rhs) != 1 || f.MatchWith("AL.ips", as.Rhs[0], chk.H("AL", ex)) == nil {
							okDefs = false
						}
					}
					if okDefs {
						return false
					}
				}
			}
			return true
		}}).Run()
		x.Check(name+":existing:returns-held-addresses", posOf(w2, f), !w2.Found && n > 0, "", "the existing-allocation branch does not return alloc.ips")
		// the branch cannot fall out into the search code
		w3 := g.BranchAlways(es[0], func(nd ast.Node) bool { _, ok := nd.(*ast.ReturnStmt); return ok })
		// (a branch that joins a tail shared with the allocating path is fine as long as no search is reachable from it)
		x.Check(name+":existing:always-returns", posOf(w3, f), !w3.Found || !w.Found, "", "the existing-allocation branch can fall through into the allocation search")
	}
}

func c03Rehome(p *chk.Prog, r *chk.Report) {
	x := r.Rule("REHOME", "B path", "in (*Allocator).SetPools the new pools are installed before the walk over a.allocated; an allocation is Unassigned only when poolFor(a.pools.ByName, alloc.ips) == nil, or when the owning pool's name changed, in which case alloc.pool is set to the new name and a.assign(svc, alloc) of the same allocation follows on every path", 4)
	f := need(x, p, allocPkg, "Allocator", "SetPools")
	if f == nil {
		return
	}
	g := f.Graph()
	loops := mapWalks(f, g, func(e ast.Expr) bool { return f.MatchWith("RECV.allocated", e, chk.H("RECV", isRecv(f))) != nil })
	if len(loops) != 1 {
		x.Fail("SetPools:walk", f.Pos(), "expected one walk over a.allocated")
		return
	}
	rs := loops[0].rs
	svcK, al := loops[0].key, loops[0].val
	pool := definedBy(g, "poolFor(RECV.pools.ByName, AL.ips)", chk.H("AL", al))
	// a.pools = pools before the loop
	install := f.IsAssignPat("RECV.pools", "P", chk.H("RECV", isRecv(f)), chk.H("P", isParamIdx(f, 0)))
	loopHead, _, _ := g.RangeBlocks(rs)
	w := (&chk.Walk{G: g, Stop: install, Hit: func(n ast.Node) bool { return false }}).Run()
	_ = w
	seenInstall := !(&chk.Walk{G: g, Stop: install, Hit: func(n ast.Node) bool { return n == ast.Node(rs.X) }}).Run().Found
	_ = loopHead
	x.Check("SetPools:install-before-walk", rs.Pos(), seenInstall, "", "allocations are re-homed against the old pool set")
	uns := g.Find(func(n ast.Node) bool {
		return chk.InBody(rs, n) && f.MatchWith("RECV.Unassign(K)", asExpr(n), chk.H("K", svcK)) != nil
	})
	x.Check("SetPools:unassign-sites", rs.Pos(), len(uns) >= 1, "", "no allocation is ever released by the walk")
	// every allocation is judged again by poolFor (all its addresses, buggy-address avoidance included): no iteration
	// ends on a weaker test
	judged := chk.GEvent(f.ContainsPat("poolFor(RECV.pools.ByName, AL.ips)", chk.H("AL", al)))
	okAll := !loopHasBreak(g, rs)
	for _, e := range g.LoopIteration(rs, judged) {
		if !e.OK {
			okAll = false
		}
	}
	x.Check("SetPools:every-allocation-revalidated", rs.Pos(), okAll, "", "an allocation can be kept without poolFor being asked whether a pool still owns all its addresses (a shrunk pool or newly avoided .0/.255 address keeps its allocation; counters go negative, released addresses stay reserved)")
	gone := g.GPat(true, "P == nil", chk.H("P", pool))
	renamed := chk.GOr(g.GPat(true, "P.Name != AL.pool", chk.H("P", pool), chk.H("AL", al)), g.GPat(true, "AL.pool != P.Name", chk.H("P", pool), chk.H("AL", al)))
	sameName := chk.GOr(g.GPat(false, "P.Name != AL.pool", chk.H("P", pool), chk.H("AL", al)), g.GPat(false, "AL.pool != P.Name", chk.H("P", pool), chk.H("AL", al)))
	isUn := func(n ast.Node) bool {
		for _, u := range uns {
			if n == u.Top {
				return true
			}
		}
		return false
	}
	isAssign := f.ContainsPat("RECV.assign(K, AL)", chk.H("K", svcK), chk.H("AL", al))
	isRename := f.IsAssignPat("AL.pool", "P.Name", chk.H("AL", al), chk.H("P", pool))
	for _, u := range uns {
		// released only when no pool owns the addresses any more, or the owning pool has another name
		x.Check("SetPools:unassign(reason)", u.Pos(), g.Dominated(u, chk.GOr(gone, renamed)), "", "an allocation is released although a pool of the same name still contains its addresses")
		// order: Unassign, rename, assign
		w3 := g.MustPass(u, isAssign, false, isRename)
		x.Check("SetPools:unassign:rename-before-assign", u.Pos(), !w3.Found, "", "the allocation is re-assigned under its old pool name")
	}
	for _, a := range g.Find(func(n ast.Node) bool { return chk.InBody(rs, n) && isAssign(n) }) {
		x.Check("SetPools:assign-after-unassign", a.Pos(), g.Dominated(a, chk.GEvent(isUn)), "", "an allocation is assigned again without its old bookkeeping being released first (counters are counted twice)")
	}
	// an iteration ends in one of three states: released because no pool owns the addresses; released and assigned again
	// under the new name; or untouched, with a pool of the same name still owning the addresses
	done := chk.GOr(
		chk.GAnd(chk.GEvent(isUn), chk.GOr(gone, chk.GEvent(isAssign))),
		chk.GAnd(g.GPat(false, "P == nil", chk.H("P", pool)), sameName))
	okEnd := !loopHasBreak(g, rs)
	for _, e := range g.LoopIteration(rs, done) {
		if !e.OK {
			okEnd = false
		}
	}
	x.Check("SetPools:released-or-rehomed", rs.Pos(), okEnd, "", "an allocation whose addresses lost their pool is kept, or one whose pool was renamed/re-grouped is not released and re-assigned under the new pool name")
}

func asExpr(n ast.Node) ast.Expr {
	e, _ := n.(ast.Expr)
	return e
}

func c03Unassign(p *chk.Prog, r *chk.Report) {
	x := r.Rule("UNASSIGN-OWN-KEY", "D ownership", "Allocator.Unassign is called only from assign, SetPools (allocator) and clearServiceState, SetBalancer, allocateIPs (controller), and the controller sites pass the handler's own key/name parameter", 5)
	allowed := map[string]string{
		allocA + "assign":                            "svc",
		allocA + "SetPools":                          "",
		allocA + "Assign":                            "svcKey", // the release of the previous allocation made by the caller of the raw assign
		"(*controller.controller).clearServiceState": "key",
		"(*controller.controller).SetBalancer":       "name",
		"(*controller.controller).allocateIPs":       "key",
	}
	for _, cs := range append(p.CallSites(allocA+"Unassign"), p.FuncValueUses(allocA+"Unassign")...) {
		par, ok := allowed[cs.Fn.Name()]
		good := ok
		if ok && par != "" && len(cs.Call.Args) == 1 {
			good = isParam(cs.Fn, par)(cs.Call.Args[0])
		}
		if good && cs.Fn.Name() == "(*controller.controller).SetBalancer" {
			// the handler itself releases only a deleted service
			g := cs.Fn.Graph()
			sites := g.Find(func(n ast.Node) bool { return n == ast.Node(cs.Call) })
			good = len(sites) == 1 && g.Dominated(sites[0], g.GPat(true, "RO == nil", chk.H("RO", isParam(cs.Fn, "svcRo"))))
		}
		x.Check("Unassign@"+cs.Fn.Name(), cs.Call.Pos(), good, "", "Allocator.Unassign is called from "+cs.Fn.Name()+" (not an owner, or not with the handler's own key)")
	}
}

func c03Write(p *chk.Prog, r *chk.Report) {
	x := r.Rule("WRITE-ON-CHANGE", "B path", "in controller.SetBalancer UpdateStatus(svc) is dominated by the false edges of reflect.DeepEqual(svcRo, svc) and reflect.DeepEqual(toWrite, svcRo); svc is a DeepCopy of the observed object and is what convergeBalancer mutates; toWrite differs from the observed object only in Status / Annotations copied from svc", 5)
	f := need(x, p, "controller", "controller", "SetBalancer")
	if f == nil {
		return
	}
	g := f.Graph()
	ro := isParam(f, "svcRo")
	svc := definedBy(g, "RO.DeepCopy()", chk.H("RO", ro))
	ups := g.FindPat("RECV.client.UpdateStatus(S)")
	if len(ups) != 1 {
		x.Fail("SetBalancer:UpdateStatus-call", f.Pos(), "expected one UpdateStatus call")
		return
	}
	u := ups[0]
	arg := u.Node.(*ast.CallExpr).Args[0]
	var svcObj types.Object
	for _, c := range g.FindPat("RECV.convergeBalancer(_, _, S)") {
		svcObj = f.ObjOf(c.Node.(*ast.CallExpr).Args[2])
	}
	x.Check("SetBalancer:converge-mutates-a-copy", f.Pos(), svcObj != nil && svc(ast.NewIdent("")) == false && func() bool {
		for _, c := range g.FindPat("RECV.convergeBalancer(_, _, S)") {
			if !svc(c.Node.(*ast.CallExpr).Args[2]) {
				return false
			}
		}
		return true
	}(), "", "convergeBalancer does not work on a DeepCopy of the observed Service")
	x.Check("SetBalancer:writes-the-converged-copy", u.Pos(), svcObj != nil && f.ObjOf(arg) == svcObj, "", "UpdateStatus is not given the converged copy")
	// ... as convergeBalancer left it: SetBalancer itself stores nothing into the copy (its resourceVersion in particular
	// is the one the decision was taken on - the API server refuses the write when the object changed since, and the
	// retry decides again on the fresh object)
	edited := token.NoPos
	ast.Inspect(f.Body, func(n ast.Node) bool {
		as, ok := n.(*ast.AssignStmt)
		if !ok || svcObj == nil {
			return true
		}
		for _, l := range as.Lhs {
			if _, isId := ast.Unparen(l).(*ast.Ident); isId {
				continue
			}
			if f.RootObj(l) == svcObj {
				edited = as.Pos()
			}
		}
		return true
	})
	x.Check("SetBalancer:copy-edited-only-by-converge", func() token.Pos {
		if edited.IsValid() {
			return edited
		}
		return u.Pos()
	}(), !edited.IsValid(), "", "SetBalancer stores into the converged copy before writing it (a cleared resourceVersion makes the write unconditional: a decision taken on a stale object overwrites the current status, and a converged Service is moved)")
	isSvc := f.IsObj(svcObj)
	x.Check("SetBalancer:write:differs-from-observed", u.Pos(), g.Dominated(u, g.GPat(false, "reflect.DeepEqual(RO, S)", chk.H("RO", ro), chk.H("S", isSvc))), "", "UpdateStatus is reachable although the converged copy equals the observed Service")
	var tw types.Object
	twGuard := g.GPat(false, "reflect.DeepEqual(TW, RO)", chk.H("RO", ro), chk.H("TW", func(e ast.Expr) bool {
		if definedBy(g, "RO.DeepCopy()", chk.H("RO", ro))(e) && f.ObjOf(e) != svcObj {
			tw = f.ObjOf(e)
			return true
		}
		return false
	}))
	okDiff := g.Dominated(u, twGuard)
	direct := false
	if !okDiff {
		// the same test spelt on the two fields themselves: the status differs or the annotations differ
		differs := func(fld string) chk.Guard {
			return chk.GSame(g.GPat(false, "reflect.DeepEqual(RO."+fld+", S."+fld+")", chk.H("RO", ro), chk.H("S", isSvc)),
				g.GPat(false, "reflect.DeepEqual(S."+fld+", RO."+fld+")", chk.H("RO", ro), chk.H("S", isSvc)))
		}
		okDiff = g.Dominated(u, chk.GOr(differs("Status"), differs("Annotations")))
		direct = okDiff
	}
	x.Check("SetBalancer:write:status-or-annotations-differ", u.Pos(), okDiff, "", "UpdateStatus is reachable although neither status nor annotations changed")
	// toWrite receives only svc.Status / svc.Annotations
	good := tw != nil || direct
	ast.Inspect(f.Body, func(n ast.Node) bool {
		as, ok := n.(*ast.AssignStmt)
		if !ok || len(as.Lhs) != 1 || len(as.Rhs) != 1 {
			return true
		}
		sel, ok := as.Lhs[0].(*ast.SelectorExpr)
		if !ok || f.ObjOf(sel.X) != tw || tw == nil {
			return true
		}
		rsel, ok := as.Rhs[0].(*ast.SelectorExpr)
		if !ok || f.ObjOf(rsel.X) != svcObj || rsel.Sel.Name != sel.Sel.Name || (sel.Sel.Name != "Status" && sel.Sel.Name != "Annotations") {
			good = false
		}
		return true
	})
	x.Check("SetBalancer:toWrite-is-observed-plus-status-annotations", f.Pos(), good, "", "the comparison object is not the observed Service with only Status/Annotations taken from the converged copy")
	// the converse: what convergeBalancer changed is written, whichever of the two it is - the addresses (status) or the
	// pool annotation. A decision that looks at the status alone leaves a refreshed annotation unwritten.
	for _, fld := range []string{"Status", "Annotations"} {
		fld := fld
		same := chk.GSame(g.GPat(true, "reflect.DeepEqual(RO."+fld+", S."+fld+")", chk.H("RO", ro), chk.H("S", isSvc)),
			g.GPat(true, "reflect.DeepEqual(S."+fld+", RO."+fld+")", chk.H("RO", ro), chk.H("S", isSvc)))
		okConv := false
		if direct {
			// the write is decided on the fields themselves: every return behind the convergence that is not an error
			// answer has written, or knows that this field (or the whole object) is unchanged
			whole := chk.GSame(g.GPat(true, "reflect.DeepEqual(RO, S)", chk.H("RO", ro), chk.H("S", isSvc)), g.GPat(true, "reflect.DeepEqual(S, RO)", chk.H("RO", ro), chk.H("S", isSvc)))
			written := chk.GEvent(func(n ast.Node) bool { return n == u.Top })
			okConv = true
			conv := g.FindPat("RECV.convergeBalancer(_, _, S)")
			for _, rt := range g.Returns() {
				res := retResults(rt)
				if len(res) != 1 || isObjNamed(f, ctrlPkg+".SyncStateError")(res[0]) || isObjNamed(f, ctrlPkg+".SyncStateErrorNoRetry")(res[0]) {
					continue
				}
				after := false
				for _, c := range conv {
					if w := (&chk.Walk{G: g, From: c, Hit: func(n ast.Node) bool { return n == rt.Top }}).Run(); w.Found {
						after = true
					}
				}
				if after && !g.Dominated(rt, chk.GOr(written, same, whole)) {
					okConv = false
				}
			}
			okConv = okConv && len(conv) > 0
		} else if tw != nil {
			// the write is decided on the comparison object: when this field differs it has been copied into it by the
			// time the object is compared
			isCopy := f.IsAssignPat("TW."+fld, "S."+fld, chk.H("TW", f.IsObj(tw)), chk.H("S", isSvc))
			isTest := f.ContainsPat("reflect.DeepEqual(TW, RO)", chk.H("TW", f.IsObj(tw)), chk.H("RO", ro))
			w := (&chk.Walk{G: g, Stop: isCopy, Hit: isTest,
				Cut: func(b *cfgBlock, k int) bool { return g.EdgeImplies(b, k, same) }}).Run()
			okConv = !w.Found && len(g.Find(isCopy)) > 0
		}
		x.Check("SetBalancer:write:changed-"+strings.ToLower(fld)+"-is-written", u.Pos(), okConv, "", "a Service whose "+fld+" convergeBalancer changed can be acknowledged without UpdateStatus (the write is decided without looking at that field): the allocator's decision - the address, or the pool annotation that names its owner - never reaches the API object")
	}
}

// familyPairRule (C03, shared with C02): a pair of addresses is dual-stack exactly when the two differ in family,
// whichever comes first. The status of a Service that gained its IPv4 address after its IPv6 one lists IPv6 first;
// a classifier that only knows IPv4-first pairs reports a family change for it on every sync, and the Service is
// cleared and re-allocated although nothing about it changed.
func familyPairRule(p *chk.Prog, r *chk.Report) {
	x := r.Rule("FAMILY-PAIR", "B path (truth table)", "ipfamily.ForAddresses and ipfamily.ForAddressesIPs answer DualStack for two addresses only behind `the two differ in family` - (a.To4() == nil) != (b.To4() == nil), a symmetric condition - and ForAddressesIPs either classifies the parsed addresses that way itself or hands the String() of every address to ForAddresses", 2)
	for _, name := range []string{"ForAddresses", "ForAddressesIPs"} {
		f := need(x, p, "internal/ipfamily", "", name)
		if f == nil {
			continue
		}
		g := f.Graph()
		par := isParamIdx(f, 0)
		elem := func(i string) func(ast.Expr) bool {
			return func(e ast.Expr) bool {
				return f.MatchWith("P["+i+"]", ast.Unparen(f.Resolve(e)), chk.H("P", par)) != nil ||
					definedBy(g, "net.ParseIP(P["+i+"])", chk.H("P", par))(e) || f.MatchWith("net.ParseIP(P["+i+"])", ast.Unparen(e), chk.H("P", par)) != nil
			}
		}
		a6 := g.GPat(true, "X.To4() == nil", chk.H("X", elem("0")))
		b6 := g.GPat(true, "X.To4() == nil", chk.H("X", elem("1")))
		differ := chk.GOr(chk.GAnd(a6, chk.GNot(b6)), chk.GAnd(chk.GNot(a6), b6))
		// however the families are obtained (To4, ForAddress, a list of families filled in a loop): every condition that
		// involves both addresses treats them alike - it reads the same when the two are exchanged
		symmetric, nPair := true, 0
		ast.Inspect(f.Body, func(nd ast.Node) bool {
			var cond ast.Expr
			switch y := nd.(type) {
			case *ast.IfStmt:
				cond = y.Cond
			case *ast.CaseClause:
				for _, e := range y.List {
					if a, b := pairCanon(f, g, par, e, false), pairCanon(f, g, par, e, true); strings.Contains(a, "\x000") && strings.Contains(a, "\x001") {
						nPair++
						if a != b {
							symmetric = false
						}
					}
				}
			}
			if cond != nil {
				if a, b := pairCanon(f, g, par, cond, false), pairCanon(f, g, par, cond, true); strings.Contains(a, "\x000") && strings.Contains(a, "\x001") {
					nPair++
					if a != b {
						symmetric = false
					}
				}
			}
			return true
		})
		symOK := symmetric && nPair > 0
		nDual, nDelegate, nOther := 0, 0, 0
		for _, rt := range g.Returns() {
			rr := retResults(rt)
			switch {
			case len(rr) == 2 && isObjNamed(f, "internal/ipfamily.DualStack")(rr[0]):
				nDual++
				x.Check(name+":dual-stack-means-the-two-differ", rt.Pos(), symOK || g.Dominated(rt, differ), "", "two addresses are classified as dual-stack (or refused) depending on their order, not only on their families: a status that lists the IPv6 address first is taken for a family change and the Service is re-allocated on every sync")
			case len(rr) == 1 && f.MatchNew("ForAddresses(S)", ast.Unparen(rr[0])) != nil && name == "ForAddressesIPs":
				nDelegate++
				// every address reaches the string form handed on
				b := f.MatchNew("ForAddresses(S)", ast.Unparen(rr[0]))
				okAll := false
				for _, rs := range f.RangeLoops(par) {
					apps := g.Find(func(nd ast.Node) bool {
						return chk.InBody(rs, nd) && f.IsAssignPat("L", "append(L, IP.String())", chk.H("L", func(e ast.Expr) bool { return f.SameExpr(e, b["S"]) }), chk.H("IP", rangeVal(f, rs)))(nd)
					})
					if len(apps) == 0 {
						// filled by index into a list of the same length
						apps = g.Find(func(nd ast.Node) bool {
							return chk.InBody(rs, nd) && f.IsAssignPat("L[I]", "IP.String()", chk.H("L", func(e ast.Expr) bool { return f.SameExpr(e, b["S"]) }), chk.H("I", rangeKey(f, rs)), chk.H("IP", rangeVal(f, rs)))(nd)
						})
					}
					okAll = len(apps) == 1 && !loopCanSkip(g, rs, func(nd ast.Node) bool { return nd == apps[0].Top }) && !loopHasBreak(g, rs) && g.AfterLoop(rt, rs)
				}
				x.Check(name+":every-address-handed-on", rt.Pos(), okAll, "", "ForAddressesIPs does not hand every address to ForAddresses")
			case len(rr) == 2 && isObjNamed(f, "internal/ipfamily.Unknown")(rr[0]) && g.Dominated(rt, g.GPat(true, "len(P) == 2", chk.H("P", par))):
				// a pair is refused only when an address is invalid or the two are of one family
				invalid := chk.GOr(g.GPat(true, "X == nil", chk.H("X", elem("0"))), g.GPat(true, "X == nil", chk.H("X", elem("1"))))
				x.Check(name+":pair-refused-only-for-one-family", rt.Pos(), symOK || g.Dominated(rt, chk.GOr(chk.GNot(differ), invalid)), "", "two valid addresses of different families are refused in one of the two orders: a status that lists the IPv6 address first is taken for a family change and the Service is cleared and re-allocated on every sync")
				nOther++
			default:
				nOther++
			}
		}
		x.Check(name+":classifies-pairs", f.Pos(), nDual >= 1 || (nDelegate >= 1 && nOther == 0), "", "no dual-stack answer and no delegation to ForAddresses")
	}
}

// pairCanon renders a condition with everything that stands for the first / second element of the list parameter
// replaced by the markers \x000 / \x001 (exchanged when swap is set) and the operands of ==, !=, && and || in sorted
// order: two renderings are equal exactly when the condition treats the two elements alike.
func pairCanon(f *chk.Fn, g *chk.Graph, par func(ast.Expr) bool, e ast.Expr, swap bool) string {
	slot := func(i int) string {
		if swap {
			i = 1 - i
		}
		return "\x00" + string(rune('0'+i))
	}
	var mentionsSlot func(e ast.Expr, depth int) int
	mentionsSlot = func(e ast.Expr, depth int) int {
		found := -1
		ast.Inspect(e, func(n ast.Node) bool {
			if ix, ok := n.(*ast.IndexExpr); ok {
				if c, isC := constInt(f, ix.Index); isC && (c == 0 || c == 1) {
					found = int(c)
				}
			}
			return found < 0
		})
		return found
	}
	var rec func(e ast.Expr) string
	rec = func(e ast.Expr) string {
		e = ast.Unparen(e)
		switch y := e.(type) {
		case *ast.BinaryExpr:
			a, b := rec(y.X), rec(y.Y)
			switch y.Op {
			case token.EQL, token.NEQ, token.LAND, token.LOR:
				if b < a {
					a, b = b, a
				}
			}
			return "(" + a + " " + y.Op.String() + " " + b + ")"
		case *ast.UnaryExpr:
			return y.Op.String() + rec(y.X)
		case *ast.CallExpr:
			out := rec(y.Fun) + "("
			for i, a := range y.Args {
				if i > 0 {
					out += ", "
				}
				out += rec(a)
			}
			return out + ")"
		case *ast.SelectorExpr:
			return rec(y.X) + "." + y.Sel.Name
		case *ast.IndexExpr:
			if c, isC := constInt(f, y.Index); isC && (c == 0 || c == 1) {
				return rec(y.X) + "[" + slot(int(c)) + "]"
			}
			return rec(y.X) + "[" + rec(y.Index) + "]"
		case *ast.Ident:
			// a local defined from element 0 / 1 of something (ip1 := net.ParseIP(ips[0]))
			if def, _ := g.DefOf(y, g.FactSite(y)); def != nil {
				if i := mentionsSlot(def, 0); i >= 0 {
					// the definition with its slot abstracted names the local
					return "{" + rec(def) + "}"
				}
			}
			return y.Name
		}
		return f.Src(e)
	}
	return rec(e)
}
