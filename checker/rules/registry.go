// Package rules holds, one file per property, the rule instances whose slots
// are filled from the MetalLB repository, plus the mutant battery that tests
// every rule both ways.
package rules

import (
	"encoding/json"
	"fmt"
	"os"
	"os/exec"
	"path/filepath"
	"sort"
	"strings"
	"sync"

	"verif/mlbcheck/chk"
)

// Prop is one property's static check.
type Prop struct {
	ID          string
	Explanation string // clauses decided
	NotDecided  string // residual, stated plainly
	Assumptions []string
	Run         func(p *chk.Prog, r *chk.Report)
	// Thorough adds repo-wide sweeps that are too slow or too broad for every change.
	Thorough func(p *chk.Prog, r *chk.Report)
	Mutants  []Mutant
}

// Mutant is a small source edit that still type-checks and breaks one rule.
// Mutants are applied in memory (go/packages overlay); /repo is never written.
type Mutant struct {
	Name   string
	File   string // relative to the repository root
	Old    string // must occur exactly once
	New    string
	Expect string // substring of the obligation key that must be reported
	// SuiteKills notes whether the repository's own tests notice the mutant
	// ("" = not tried, "no" = suite stays green, "yes" = a test fails).
	SuiteKills string
}

var props = map[string]*Prop{}

func register(p *Prop) { props[p.ID] = p }

// IDs lists the registered property ids.
func IDs() []string {
	var out []string
	for id := range props {
		out = append(out, id)
	}
	sort.Strings(out)
	return out
}

// RunCheck runs one property's check and returns the process exit code.
func RunCheck(id, tier, overlayPath, repo string) int {
	pr := props[id]
	if pr == nil {
		fmt.Fprintf(os.Stderr, "unknown property %s\n", id)
		return 2
	}
	if repo != "" {
		os.Setenv("MLB_REPO", repo)
	}
	var overlay map[string][]byte
	if overlayPath != "" {
		var err error
		overlay, err = loadOverlay(overlayPath)
		if err != nil {
			fmt.Fprintln(os.Stderr, err)
			return 2
		}
	}
	prog, err := chk.LoadNormalised(chk.LoadOpts{Overlay: overlay}, dryRun(pr))
	if err != nil {
		return chk.FailLoad(id, tier, err)
	}
	r := chk.NewReport(id, tier, prog)
	r.Explanation = pr.Explanation
	r.NotDecided = pr.NotDecided
	r.Assumptions = pr.Assumptions
	r.Configs = []string{"linux/amd64"}
	runSafely(pr.Run, prog, r, "")
	if tier == "thorough" {
		if pr.Thorough != nil {
			runSafely(pr.Thorough, prog, r, "")
		}
		// second build configuration: the only constraint-tagged source pair of the
		// module is arm/!arm (internal/safeconvert); every rule is re-decided there.
		if overlay == nil {
			armProg, err := chk.LoadNormalised(chk.LoadOpts{GOARCH: "arm"}, dryRun(pr))
			if err != nil {
				x := r.Rule("LOAD-ARM", "loader", "the tree must also load and type-check for linux/arm", 0)
				x.Undecided("load-arm", "UNDECIDED "+err.Error())
			} else {
				ra := chk.NewReport(id, tier, armProg)
				runSafely(pr.Run, armProg, ra, "")
				bad := 0
				for _, o := range ra.Obls {
					if o.Status == chk.Violated && chk.IsKnown(id, o.Key) {
						continue // the same known finding as on amd64
					}
					if o.Status == chk.Violated || o.Status == chk.Undecided {
						bad++
						x := r.Rule("ARM", "loader", "every rule is also decided for GOARCH=arm", 0)
						x.Fail("arm:"+o.Key, 0, o.Pos+" "+o.Detail)
					}
				}
				r.Configs = append(r.Configs, "linux/arm")
				r.Extra["arm_obligations"] = len(ra.Obls)
				r.Extra["arm_violations"] = bad
			}
			st := runMutants(pr, 8)
			r.Extra["mutants"] = st.Results
			r.Extra["mutants_total"] = len(pr.Mutants)
			r.Extra["mutants_killed"] = st.Killed
			r.Extra["mutants_inapplicable"] = st.Inapplicable
			// The self-test says how sharp the rules are on this tree; it is not a verdict about the tree: a mutant or
			// recorded change that is not reported is listed in the evidence and on stderr, never as a violation.
			x := r.Rule("SELFTEST", "mutants", "every rule is armed: each source-level mutant of this property (a small edit that still type-checks) is reported with the expected obligation key; survivors are listed, they are not violations of the property", 0)
			for _, m := range st.Results {
				switch m.Outcome {
				case "killed":
					x.OK("mutant:"+m.Name, 0, "reported "+m.Reported)
				case "inapplicable":
					r.Info = append(r.Info, "mutant "+m.Name+" no longer applies (source drifted); not counted")
				default:
					r.Info = append(r.Info, "SELFTEST-SURVIVOR mutant "+m.Name+": expected a report containing "+m.Expect+" - "+m.Detail)
					fmt.Fprintln(os.Stderr, "SELFTEST-SURVIVOR property="+id+" mutant="+m.Name+" expected="+m.Expect)
				}
			}
			var dirs []string
			for _, sub := range []string{"seeded", "benign"} {
				m, _ := filepath.Glob(filepath.Join(chk.VerifDir(), sub, "*", "patch.diff"))
				for _, p := range m {
					dirs = append(dirs, filepath.Dir(p))
				}
			}
			sort.Strings(dirs)
			cres, _ := Corpus(dirs, 8, id)
			var kept []CorpusResult
			counts := map[string]int{}
			y := r.Rule("CORPUS", "recorded changes", "the recorded changes for this property are replayed on the current tree as in-memory overlays: each breaking change (written by an independent agent from the property text, confirmed by a failing demonstration) is reported, each behaviour-preserving one is not; misses are listed, they are not violations of the property", 0)
			for _, c := range cres {
				if c.Outcome == "skipped" {
					continue
				}
				kept = append(kept, c)
				counts[c.Kind+":"+c.Outcome]++
				switch c.Outcome {
				case "caught", "silent":
					y.OK("change:"+c.Name, 0, c.Kind+" "+c.Outcome+" "+strings.Join(c.Keys, " "))
				case "inapplicable":
					r.Info = append(r.Info, "recorded change "+c.Name+" no longer applies (source drifted); not counted")
				default:
					r.Info = append(r.Info, "SELFTEST-SURVIVOR recorded change "+c.Name+" ("+c.Kind+"): "+c.Outcome)
					fmt.Fprintln(os.Stderr, "SELFTEST-SURVIVOR property="+id+" change="+c.Name+" outcome="+c.Outcome)
				}
			}
			r.Extra["corpus"] = kept
			r.Extra["corpus_counts"] = counts
		}
	}
	return r.Finish()
}

func runSafely(f func(*chk.Prog, *chk.Report), p *chk.Prog, r *chk.Report, label string) {
	defer func() {
		if e := recover(); e != nil {
			x := r.Rule("PANIC", "checker", "the checker must not crash", 0)
			x.Undecided("panic"+label, fmt.Sprintf("UNDECIDED checker panic: %v", e))
		}
	}()
	f(p, r)
}

// MutantResult is the outcome of one mutant run.
type MutantResult struct {
	Name     string `json:"name"`
	File     string `json:"file"`
	Expect   string `json:"expect"`
	Outcome  string `json:"outcome"` // killed | survived | inapplicable
	Reported string `json:"reported,omitempty"`
	Detail   string `json:"detail,omitempty"`
	Suite    string `json:"suite_kills,omitempty"`
}

type mutantStats struct {
	Results      []MutantResult
	Killed       int
	Inapplicable int
}

func runMutants(pr *Prop, jobs int) mutantStats {
	var st mutantStats
	st.Results = make([]MutantResult, len(pr.Mutants))
	self, _ := os.Executable()
	scratchRoot := filepath.Join(chk.VerifDir(), "out", "selftest", pr.ID)
	os.RemoveAll(scratchRoot)
	os.MkdirAll(scratchRoot, 0o755)
	defer os.RemoveAll(scratchRoot)
	sem := make(chan struct{}, jobs)
	var wg sync.WaitGroup
	for i, m := range pr.Mutants {
		wg.Add(1)
		go func(i int, m Mutant) {
			defer wg.Done()
			sem <- struct{}{}
			defer func() { <-sem }()
			res := MutantResult{Name: m.Name, File: m.File, Expect: m.Expect, Suite: m.SuiteKills}
			abs := filepath.Join(chk.RepoDir(), m.File)
			src, err := os.ReadFile(abs)
			if err != nil || strings.Count(string(src), m.Old) != 1 {
				res.Outcome = "inapplicable"
				if err == nil {
					res.Detail = fmt.Sprintf("anchor text occurs %d times", strings.Count(string(src), m.Old))
				}
				st.Results[i] = res
				return
			}
			dir := filepath.Join(scratchRoot, fmt.Sprintf("m%02d", i))
			os.MkdirAll(dir, 0o755)
			ov := map[string]string{abs: strings.Replace(string(src), m.Old, m.New, 1)}
			b, _ := json.Marshal(ov)
			ovPath := filepath.Join(dir, "overlay.json")
			os.WriteFile(ovPath, b, 0o644)
			cmd := exec.Command(self, "check", pr.ID, "--tier", "quick", "--overlay", ovPath)
			cmd.Env = append(os.Environ(), "MLB_OUT="+dir)
			out, _ := cmd.CombinedOutput()
			code := cmd.ProcessState.ExitCode()
			vb, _ := os.ReadFile(filepath.Join(dir, "out", "violations", pr.ID+".json"))
			var v struct {
				Violated []chk.Obligation `json:"violated"`
			}
			json.Unmarshal(vb, &v)
			res.Outcome = "survived"
			if code == 1 {
				var keys []string
				for _, o := range v.Violated {
					keys = append(keys, o.Key)
					if strings.Contains(o.Key, m.Expect) && res.Outcome != "killed" {
						if strings.Contains(o.Detail, "type errors in the analysed tree") {
							res.Detail = "mutant does not type-check: " + o.Detail
							continue
						}
						res.Outcome = "killed"
						res.Reported = o.Key + " at " + o.Pos
					}
				}
				if res.Outcome != "killed" {
					res.Detail += " reported instead: " + strings.Join(keys, ", ")
				}
			} else {
				res.Detail = fmt.Sprintf("exit %d: %s", code, lastLine(string(out)))
			}
			st.Results[i] = res
		}(i, m)
	}
	wg.Wait()
	for _, r := range st.Results {
		switch r.Outcome {
		case "killed":
			st.Killed++
		case "inapplicable":
			st.Inapplicable++
		}
	}
	return st
}

func lastLine(s string) string {
	s = strings.TrimSpace(s)
	if i := strings.LastIndexByte(s, '\n'); i >= 0 {
		return s[i+1:]
	}
	return s
}

// SelfTest runs the mutant battery of one property (or all) and prints a table.
func SelfTest(id string, jobs int, verbose bool) int {
	ids := []string{id}
	if id == "all" {
		ids = IDs()
	}
	rc := 0
	for _, id := range ids {
		pr := props[id]
		if pr == nil {
			fmt.Fprintf(os.Stderr, "unknown property %s\n", id)
			return 2
		}
		st := runMutants(pr, jobs)
		for _, m := range st.Results {
			fmt.Printf("%s %-12s %-44s %s %s\n", id, m.Outcome, m.Name, m.Reported, m.Detail)
			if m.Outcome == "survived" {
				rc = 1
			}
		}
		fmt.Printf("%s mutants=%d killed=%d inapplicable=%d\n", id, len(st.Results), st.Killed, st.Inapplicable)
	}
	return rc
}

// Explain prints a violation artefact and re-decides the property on the
// current tree.
func Explain(path string) int {
	b, err := os.ReadFile(path)
	if err != nil {
		fmt.Fprintln(os.Stderr, err)
		return 2
	}
	var v struct {
		Property string           `json:"property"`
		Violated []chk.Obligation `json:"violated"`
	}
	if err := json.Unmarshal(b, &v); err != nil {
		fmt.Fprintln(os.Stderr, err)
		return 2
	}
	fmt.Printf("recorded violations of %s:\n", v.Property)
	for _, o := range v.Violated {
		fmt.Printf("  %s %s at %s\n      %s\n", o.Status, o.Key, o.Pos, o.Detail)
	}
	fmt.Println("re-deciding on the current tree:")
	return RunCheck(v.Property, "quick", "", "")
}

// dryRun runs the rules of a property once on the un-normalised program, only to
// record which functions they name (the anchors, which are never expanded).
func dryRun(pr *Prop) func(*chk.Prog) {
	return func(p *chk.Prog) {
		r := chk.NewReport(pr.ID, "dry", p)
		runSafely(pr.Run, p, r, "")
	}
}

// Sweep loads the tree once and decides every property's quick rules against it. It is a
// development aid for the seeded-change matrix (evidence goes to a scratch MLB_OUT, never /verif).
// loadOverlay reads a JSON overlay (file -> content) or builds one from a unified diff (*.diff, *.patch).
func loadOverlay(path string) (map[string][]byte, error) {
	if strings.HasSuffix(path, ".diff") || strings.HasSuffix(path, ".patch") {
		return chk.OverlayFromPatch(path)
	}
	return chk.OverlayFromFile(path)
}

func Sweep(repo, overlayPath string) int {
	if repo != "" {
		os.Setenv("MLB_REPO", repo)
	}
	var overlay map[string][]byte
	if overlayPath != "" {
		var err error
		if overlay, err = loadOverlay(overlayPath); err != nil {
			fmt.Println("OVERLAY-FAIL", err)
			return 3
		}
	}
	if os.Getenv("MLB_OUT") == "" {
		d, _ := os.MkdirTemp("", "mlbsweep")
		os.Setenv("MLB_OUT", d)
		defer os.RemoveAll(d)
	}
	ids := IDs()
	sort.Strings(ids)
	prog, err := chk.LoadNormalised(chk.LoadOpts{Overlay: overlay}, func(p *chk.Prog) {
		for _, id := range ids {
			dryRun(props[id])(p)
		}
	})
	if err != nil {
		fmt.Println("LOAD-FAIL", err)
		return 2
	}
	if prog.Norm != nil {
		fmt.Printf("NORMALISED rounds=%d expanded=%d removed=%d fallback=%q\n", prog.Norm.Rounds, len(prog.Norm.Expanded), len(prog.Norm.Removed), prog.Norm.Fallback)
	}
	if out := os.Getenv("MLB_RECORD_ANCHORS"); out != "" {
		// the functions of this tree that the rules treat as anchors (tools/gen_anchors.sh, on the confirmed tree)
		var keys []string
		for _, f := range prog.Funcs() {
			if f.Decl != nil && chk.Anchors.Has(f) {
				keys = append(keys, chk.AnchorKey(f))
			}
		}
		sort.Strings(keys)
		os.WriteFile(out, []byte(strings.Join(keys, "\n")+"\n"), 0o644)
	}
	if out := os.Getenv("MLB_RECORD_SIGS"); out != "" {
		// the signatures of every function of this tree (tools/gen_sigs.sh, on the confirmed tree)
		var lines []string
		for _, f := range prog.Funcs() {
			if f.Decl == nil || strings.HasSuffix(prog.Fset.Position(f.Decl.Pos()).Filename, "_test.go") {
				continue
			}
			if s, ok := chk.SigOf(f); ok {
				lines = append(lines, strings.Join([]string{s.Pkg, s.Recv, s.Name, strings.Join(s.PNames, ","), strings.Join(s.PTypes, ";"), strings.Join(s.RTypes, ";"), strings.Join(s.Sels, ",")}, "\t"))
			}
		}
		sort.Strings(lines)
		os.WriteFile(out, []byte(strings.Join(lines, "\n")+"\n"), 0o644)
		var fl []string
		for _, f := range chk.FieldsOf(prog) {
			fl = append(fl, strings.Join([]string{f.Pkg, f.Type, f.Name, f.FType}, "\t"))
		}
		sort.Strings(fl)
		os.WriteFile(out+".fields", []byte(strings.Join(fl, "\n")+"\n"), 0o644)
	}
	rc := 0
	for _, id := range ids {
		pr := props[id]
		r := chk.NewReport(id, "quick", prog)
		runSafely(pr.Run, prog, r, "")
		if r.Finish() != 0 {
			rc = 1
		}
	}
	return rc
}

// CorpusResult is the outcome of replaying one recorded change (seeded or benign) as an overlay.
type CorpusResult struct {
	Name     string   `json:"name"`
	Property string   `json:"property"`
	Kind     string   `json:"kind"` // breaking | benign
	Outcome  string   `json:"outcome"`
	Fired    []string `json:"fired,omitempty"`
	Keys     []string `json:"keys,omitempty"`
}

// Corpus replays recorded changes (directories with patch.diff and meta.json) against the current tree as overlays:
// a breaking change must be reported by its own property, a benign one by none. /repo is not written.
func Corpus(dirs []string, jobs int, only string) ([]CorpusResult, int) {
	self, _ := os.Executable()
	res := make([]CorpusResult, len(dirs))
	sem := make(chan struct{}, jobs)
	var wg sync.WaitGroup
	for i, d := range dirs {
		wg.Add(1)
		go func(i int, d string) {
			defer wg.Done()
			sem <- struct{}{}
			defer func() { <-sem }()
			var meta struct {
				Property string `json:"property"`
				Kind     string `json:"kind"`
			}
			b, _ := os.ReadFile(filepath.Join(d, "meta.json"))
			json.Unmarshal(b, &meta)
			if strings.HasPrefix(meta.Kind, "benign") {
				meta.Kind = "benign"
			} else {
				meta.Kind = "breaking"
			}
			r := CorpusResult{Name: filepath.Base(d), Property: meta.Property, Kind: meta.Kind}
			if only != "" && meta.Property != only {
				r.Outcome = "skipped"
				res[i] = r
				return
			}
			cmd := exec.Command(self, "sweep", "--overlay", filepath.Join(d, "patch.diff"))
			if only != "" {
				scratch, _ := os.MkdirTemp("", "mlbcorpus")
				defer os.RemoveAll(scratch)
				cmd = exec.Command(self, "check", only, "--tier", "quick", "--overlay", filepath.Join(d, "patch.diff"))
				cmd.Env = append(os.Environ(), "MLB_OUT="+scratch)
			}
			out, _ := cmd.CombinedOutput()
			code := cmd.ProcessState.ExitCode()
			for _, ln := range strings.Split(string(out), "\n") {
				if strings.HasPrefix(ln, "VIOLATION property=") {
					r.Fired = append(r.Fired, strings.Fields(strings.TrimPrefix(ln, "VIOLATION property="))[0])
				}
				if f := strings.Fields(ln); len(f) >= 2 && (f[0] == "violated" || f[0] == "UNDECIDED") {
					r.Keys = append(r.Keys, f[1])
				}
			}
			own := false
			for _, p := range r.Fired {
				own = own || p == meta.Property
			}
			switch {
			case code == 3 || code == 2 && strings.Contains(string(out), "patch does not apply"):
				r.Outcome = "inapplicable"
			case code != 0 && code != 1:
				r.Outcome = "error"
			case meta.Kind == "benign" && len(r.Fired) == 0:
				r.Outcome = "silent"
			case meta.Kind == "benign":
				r.Outcome = "FALSE-ALARM"
			case own:
				r.Outcome = "caught"
			default:
				r.Outcome = "MISSED"
			}
			res[i] = r
		}(i, d)
	}
	wg.Wait()
	rc := 0
	for _, r := range res {
		if r.Outcome == "MISSED" || r.Outcome == "FALSE-ALARM" || r.Outcome == "error" {
			rc = 1
		}
	}
	return res, rc
}
