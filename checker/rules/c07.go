package rules

import (
	"go/ast"
	"go/types"
	"strings"

	"verif/mlbcheck/chk"
)

func init() {
	register(&Prop{
		ID: "C07",
		Explanation: "Decided (on all paths): every path of controller.SetBalancer that releases an address requests a full re-sync - the deleted-service " +
			"branch returns ReprocessAll whenever it Unassigned, and whenever a previously held address is no longer held (releasedIPs of the addresses " +
			"read before convergeBalancer against those held afterwards) and still lies in a pool the result becomes ReprocessAll and stays so " +
			"(RELEASE-REPROCESS); SetPools always answers ReprocessAll (SETPOOLS-REPROCESS); every SyncState switch propagates the request (SYNCSTATE); " +
			"the free-address search has no early exit: getIPFromCIDR leaves its cursor loop only with an address or on exhaustion, getFreeIPsFromPool " +
			"visits every CIDR (skipping only families already found), findBestPoolForService visits every pool unless it returns a complete answer, " +
			"Allocate always tries the fallback pools after the pinned attempt failed (SCAN-ALL); the search and the final Assign are given the same " +
			"service key, ports, sharing key and backend key at every hop (KEY-THREAD).",
		NotDecided: "Completeness against an independent admissibility oracle (that the set searched is the whole admissible set for every input) and timing " +
			"(\"the same settling period\"). A failed UpdateStatus after a release drops the computed ReprocessAll (fault sequence; noted in DESIGN.md O-1).",
		Run: runC07,
		Mutants: []Mutant{
			{Name: "controller-pools-stored-only-when-non-empty", File: "controller/main.go",
				Old: "\tc.pools = pools\n\n\treturn controllers.SyncStateReprocessAll", New: "\tif len(pools.ByName) > 0 {\n\t\tc.pools = pools\n\t}\n\n\treturn controllers.SyncStateReprocessAll", Expect: "SETPOOLS-REPROCESS"},
			{Name: "key-compared-after-the-no-change-exit", File: "controller/main.go",
				Old: "\tnewAllocKey := c.ips.AllocationKey(name)\n\n\tif prevAllocKey != newAllocKey {\n\t\tlevel.Debug(l).Log(\"event\", \"allocation key changed\", \"msg\", \"allocation changed for shared service, reprocessing\")\n\t\tsyncStateRes = controllers.SyncStateReprocessAll\n\t}\n\n\tif reflect.DeepEqual(svcRo, svc) {\n\t\tlevel.Debug(l).Log(\"event\", \"noChange\", \"msg\", \"service converged, no change\")\n\t\treturn syncStateRes\n\t}\n", New: "\tif reflect.DeepEqual(svcRo, svc) {\n\t\tlevel.Debug(l).Log(\"event\", \"noChange\", \"msg\", \"service converged, no change\")\n\t\treturn syncStateRes\n\t}\n\n\tnewAllocKey := c.ips.AllocationKey(name)\n\n\tif prevAllocKey != newAllocKey {\n\t\tlevel.Debug(l).Log(\"event\", \"allocation key changed\", \"msg\", \"allocation changed for shared service, reprocessing\")\n\t\tsyncStateRes = controllers.SyncStateReprocessAll\n\t}\n", Expect: "key-compared-on-every-exit"},
			{Name: "reload-request-dropped-when-busy", File: "internal/k8s/controllers/service_controller_reload.go",
				Old: "\tr.Reload <- NewReloadEvent()\n", New: "\tselect {\n\tcase r.Reload <- NewReloadEvent():\n\tdefault:\n\t}\n", Expect: "FALLBACK-POOLS"},
			{Name: "fallback-skips-pools-without-free-ipv4", File: "internal/allocator/allocator.go",
				Old: "\t\tif !pool.AutoAssign || pool.ServiceAllocations != nil {\n\t\t\tcontinue\n\t\t}\n", New: "\t\tif !pool.AutoAssign || pool.ServiceAllocations != nil {\n\t\t\tcontinue\n\t\t}\n\t\tif a.CountersForPool(pool.Name).AvailableIPv4 == 0 {\n\t\t\tcontinue\n\t\t}\n", Expect: "FALLBACK-POOLS"},
			{Name: "pinned-enumeration-stops-at-unusable-pool", File: "internal/allocator/allocator.go",
				Old: "\t\t\tif !nsPool.AutoAssign || !a.isPoolCompatibleWithService(nsPool, svc) {\n\t\t\t\tcontinue\n",
				New: "\t\t\tif !nsPool.AutoAssign || !a.isPoolCompatibleWithService(nsPool, svc) {\n\t\t\t\tbreak\n", Expect: "every-pinned-pool-examined"},
			{Name: "backend-key-from-service-labels", File: "internal/allocator/k8salloc/k8salloc.go",
				Old: "labels.Set(svc.Spec.Selector)",
				New: "labels.Set(svc.Labels)", Expect: "SHAREOK"},
			{Name: "allocation-key-without-backend", File: "internal/allocator/allocator.go",
				Old: "\t\treturn alloc.key.backend + alloc.key.sharing",
				New: "\t\treturn alloc.key.sharing", Expect: "sharing-and-backend"},
			{Name: "selectors-anded", File: "internal/allocator/allocator.go",
				Old: "\t\t\tif svcSelector.Matches(svcLabels) {\n\t\t\t\treturn true\n\t\t\t}\n\t\t}\n\t\treturn false",
				New: "\t\t\tif !svcSelector.Matches(svcLabels) {\n\t\t\t\treturn false\n\t\t\t}\n\t\t}\n\t\treturn true", Expect: "POOL-COMPAT"},
			{Name: "family-swap-loses-ipv4", File: "internal/allocator/allocator.go",
				Old: "\t\tprimaryIPFamily = ipfamily.IPv6\n\t\tsecondaryIPFamily = ipfamily.IPv4", New: "\t\tprimaryIPFamily = secondaryIPFamily\n\t\tsecondaryIPFamily = primaryIPFamily", Expect: "SCAN-ALL"},
			{Name: "unassign-returns-early-for-removed-pool", File: "internal/allocator/allocator.go",
				Old: "\tal := a.allocated[svc]\n\tdelete(a.allocated, svc)\n", New: "\tal := a.allocated[svc]\n\tdelete(a.allocated, svc)\n\tif _, ok := a.pools.ByName[al.pool]; !ok {\n\t\tdeleteStatsFor(al.pool)\n\t\treturn\n\t}\n", Expect: "UNASSIGN-COMPLETE"},
			{Name: "key-gain-does-not-reprocess", File: "controller/main.go",
				Old: "\tif prevAllocKey != newAllocKey {", New: "\tif prevAllocKey != \"\" && prevAllocKey != newAllocKey {", Expect: "RELEASE-REPROCESS"},
			{Name: "delete-returns-success", File: "controller/main.go",
				Old: "\t\t\t// check for newly feasible balancers.\n\t\t\treturn controllers.SyncStateReprocessAll", New: "\t\t\t// check for newly feasible balancers.\n\t\t\treturn controllers.SyncStateSuccess", Expect: "RELEASE-REPROCESS"},
			{Name: "cursor-breaks-on-busy-address", File: "internal/allocator/allocator.go",
				Old: "\t\tif a.checkSharing(svc, pos.IP.String(), ports, sk) != nil {\n\t\t\tcontinue\n\t\t}", New: "\t\tif a.checkSharing(svc, pos.IP.String(), ports, sk) != nil {\n\t\t\tbreak\n\t\t}", Expect: "SCAN-ALL"},
			{Name: "release-only-for-autoassign-pools", File: "controller/main.go",
				Old: "\t\tif c.ips.PoolForIP(prevIPs) != nil {", New: "\t\tif p := c.ips.PoolForIP(prevIPs); p != nil && p.AutoAssign {", Expect: "RELEASE-REPROCESS"},
			{Name: "setpools-success", File: "controller/main.go",
				Old: "\tc.pools = pools\n\n\treturn controllers.SyncStateReprocessAll", New: "\tc.pools = pools\n\n\treturn controllers.SyncStateSuccess", Expect: "SETPOOLS-REPROCESS"},
			{Name: "scan-drops-backend-key", File: "internal/allocator/allocator.go",
				Old: "if ip := a.getIPFromCIDR(cidr, pool.AvoidBuggyIPs, svcKey, ports, sharingKey, backendKey); ip != nil {", New: "if ip := a.getIPFromCIDR(cidr, pool.AvoidBuggyIPs, svcKey, ports, sharingKey, \"\"); ip != nil {", Expect: "KEY-THREAD"},
			{Name: "best-pool-stops-at-first-pool", File: "internal/allocator/allocator.go",
				Old: "\t\tif !isPreferDualStack(serviceIPFamilyPolicy, serviceIPFamily) {\n\t\t\tcontinue\n\t\t}", New: "\t\tif !isPreferDualStack(serviceIPFamilyPolicy, serviceIPFamily) {\n\t\t\tbreak\n\t\t}", Expect: "SCAN-ALL"},
			{Name: "no-fallback-when-pinned-exist", File: "internal/allocator/allocator.go",
				Old: "\t// No suitable IPs in pinnedPools, use all pools instead.\n", New: "\tif len(pinnedPools) > 0 {\n\t\treturn nil, err\n\t}\n\t// No suitable IPs in pinnedPools, use all pools instead.\n", Expect: "SCAN-ALL"},
			{Name: "prev-ips-read-after-converge", File: "controller/main.go",
				Old: "\tprevIPs := c.ips.IPs(name)\n\tprevAllocKey := c.ips.AllocationKey(name)\n\n\tif c.convergeBalancer(l, name, svc) != nil {\n\t\tsyncStateRes = controllers.SyncStateErrorNoRetry\n\t}\n",
				New: "\tprevAllocKey := c.ips.AllocationKey(name)\n\n\tif c.convergeBalancer(l, name, svc) != nil {\n\t\tsyncStateRes = controllers.SyncStateErrorNoRetry\n\t}\n\tprevIPs := c.ips.IPs(name)\n", Expect: "RELEASE-REPROCESS"},
			{Name: "released-needs-all-gone", File: "controller/main.go",
				Old: "\t\tif !held {\n\t\t\treturn true\n\t\t}\n\t}\n\treturn false", New: "\t\tif held {\n\t\t\treturn false\n\t\t}\n\t}\n\treturn len(prev) > 0", Expect: "RELEASE-REPROCESS"},
			{Name: "freeips-stops-after-first-cidr", File: "internal/allocator/allocator.go",
				Old: "\t\t\tallocation.setIPForFamily(cidrIPFamily, ip)\n\t\t}\n", New: "\t\t\tallocation.setIPForFamily(cidrIPFamily, ip)\n\t\t}\n\t\tif cidrIPFamily == ipfamily.IPv4 {\n\t\t\tbreak\n\t\t}\n", Expect: "SCAN-ALL"},
		},
	})
}

func runC07(p *chk.Prog, r *chk.Report) {
	// PreferDualStack settles for the family that is left (FAMILY-SELECT, shared with C02)
	c02FamilySelect(p, r)
	// every namespace a pool's selectors match is pinned to it (ALLOCATE-TO, shared with C02): an unpinned namespace's
	// Services stay pending next to a free pool
	c02AllocateTo(p, r)
	// the gate that lets single-Service events through is opened once and never closed again (GATE, shared with C06): a
	// closed gate drops every event, and a pending Service is then never retried
	c06Gate(p, r)
	argRolesRule(p, r, 20, allocPkg, "controller")
	c07Fallback(p, r)
	assignCommitsRule(p, r)
	c07Release(p, r)
	syncStateRule(p, r)
	c07Scan(p, r)
	c07Thread(p, r)
	// the candidate search must judge sharing with the same (sharing, backend) key
	// that Assign will use: FREE-IP (shared with C02) pins the key built in
	// getIPFromCIDR to the caller's sharingKey and backendKey.
	c02FreeIP(p, r)
	releaseOnExitRule(p, r)
	// a request that is refused after its addresses were assigned gives them back (REQUEST-IPS, shared with C02): a
	// leaked allocation starves the Services for which that address is the only admissible one
	c02Requests(p, r)
	c02SameIPs(p, r)
	// a released allocation leaves nothing behind (UNASSIGN-COMPLETE, shared with C11): a ghost tenant or sharing key
	// makes the address unusable for every later Service
	unassignCompleteRule(p, r)
	// a pool admits a Service that matches any one of its selectors (POOL-COMPAT, shared with C02)
	c02PoolCompat(p, r)
	// what "may share" means - the backend key is the pod selector under the Local policy - decides whether the only
	// admissible address is found (SHAREOK, shared with C01)
	c01ShareOK(p, r)
	// every pool pinned to the Service is offered (PINNED, shared with C02)
	c02Pinned(p, r)
}

func c07Release(p *chk.Prog, r *chk.Report) {
	x := r.Rule("RELEASE-REPROCESS", "B path", "in controller.SetBalancer: (a) on the deleted-service branch every return after c.ips.Unassign(name) yields SyncStateReprocessAll and the Unassign happens whenever the service was allocated; (b) the held addresses are read before convergeBalancer; (c) on the edge releasedIPs(prev, c.ips.IPs(name)), unless PoolForIP(prev) == nil, the result variable is set to ReprocessAll before leaving the branch; (d) afterwards every return yields it (except SyncStateError after a failed UpdateStatus); releasedIPs returns true exactly when some previous address is not among the current ones", 8)
	f := need(x, p, "controller", "controller", "SetBalancer")
	if f == nil {
		return
	}
	g := f.Graph()
	name := isParam(f, "name")
	isRA := isObjNamed(f, ctrlPkg+".SyncStateReprocessAll")
	// (a)
	del := g.EdgesImplying(g.GPat(true, "RO == nil", chk.H("RO", isParam(f, "svcRo"))))
	if len(del) != 1 {
		x.Fail("SetBalancer:deleted-branch", f.Pos(), "no `if svcRo == nil` branch")
	} else {
		uns := g.FindPat("RECV.ips.Unassign(N)", chk.H("N", name))
		nUn := 0
		for _, u := range uns {
			if !g.Dominated(u, g.GPat(true, "RO == nil", chk.H("RO", isParam(f, "svcRo")))) {
				continue
			}
			nUn++
			w := (&chk.Walk{G: g, From: u, Hit: func(n ast.Node) bool {
				rs, ok := n.(*ast.ReturnStmt)
				return ok && !(len(rs.Results) == 1 && isRA(rs.Results[0]))
			}}).Run()
			x.Check("SetBalancer:deleted:unassign-then-reprocess", posOf(w, f), !w.Found, "", "a deleted service's address is released without requesting a full re-sync")
		}
		x.Check("SetBalancer:deleted:unassign-present", f.Pos(), nUn == 1, "", "the deleted-service branch does not release the service's allocation")
		// "the service holds an allocation": c.ips.Pool(name) != "" (the one-line helper that wraps it is expanded by
		// the normalisation, so both spellings are this test)
		nAlloc := 0
		for _, e := range g.EdgesImplying(g.GPat(true, `RECV.ips.Pool(N) != ""`, chk.H("N", name))) {
			if !g.Dominated(chk.Site{G: g, B: e.B.Succs[e.K]}, g.GPat(true, "RO == nil", chk.H("RO", isParam(f, "svcRo")))) {
				continue
			}
			nAlloc++
			w := g.BranchAlways(e, f.ContainsPat("RECV.ips.Unassign(N)", chk.H("N", name)))
			x.Check("SetBalancer:deleted:allocated-implies-unassign", posOf(w, f), !w.Found, "", "a deleted service that holds addresses is not released")
		}
		x.Check("SetBalancer:deleted:allocation-test", f.Pos(), nAlloc >= 1, "", "the deleted-service branch does not test whether the service holds an allocation (c.ips.Pool(name) != \"\")")
	}
	// (b)
	conv := g.FindPat("RECV.convergeBalancer(_, N, _)", chk.H("N", name))
	if len(conv) != 1 {
		x.Fail("SetBalancer:convergeBalancer-call", f.Pos(), "expected one convergeBalancer call")
		return
	}
	prev := definedBy(g, "RECV.ips.IPs(N)", chk.H("N", name))
	rel := g.GPat(true, "releasedIPs(PREV, RECV.ips.IPs(N))", chk.H("PREV", prev), chk.H("N", name))
	es := g.EdgesImplying(rel)
	if len(es) != 1 {
		x.Fail("SetBalancer:release-test", f.Pos(), "no `if releasedIPs(prevIPs, c.ips.IPs(name))` test on the addresses held before convergeBalancer")
		return
	}
	condExpr := es[0].B.Nodes[len(es[0].B.Nodes)-1].(ast.Expr)
	condSite := g.FactSite(condExpr)
	// the release test may be one conjunct of the condition
	var prevObj types.Object
	for _, c := range f.CallsIn(condExpr, "controller.releasedIPs") {
		if len(c.Args) == 2 && prev(c.Args[0]) {
			prevObj = f.ObjOf(c.Args[0])
		}
	}
	// prev defined before converge, and the test after converge
	isPrevDef := func(n ast.Node) bool {
		as, ok := n.(*ast.AssignStmt)
		return ok && len(as.Lhs) == 1 && f.ObjOf(as.Lhs[0]) == prevObj && prevObj != nil
	}
	w1 := g.MustPass(chk.Site{}, func(n ast.Node) bool { return n == conv[0].Top }, false, isPrevDef)
	x.Check("SetBalancer:held-addresses-read-before-converge", conv[0].Pos(), !w1.Found, "", "the previously held addresses are read after convergeBalancer may already have changed them")
	w2 := g.MustPass(chk.Site{}, func(n ast.Node) bool { return n == condSite.Top }, false, func(n ast.Node) bool { return n == conv[0].Top })
	x.Check("SetBalancer:release-test-after-converge", condSite.Pos(), !w2.Found, "", "the release test does not follow convergeBalancer")
	// (c)
	var resVar types.Object
	setRA := func(n ast.Node) bool {
		as, ok := n.(*ast.AssignStmt)
		if ok && len(as.Lhs) == 1 && len(as.Rhs) == 1 && isRA(as.Rhs[0]) {
			resVar = f.ObjOf(as.Lhs[0])
			return true
		}
		return false
	}
	region := g.Region(es[0])
	noPool := g.GPat(true, "RECV.ips.PoolForIP(PREV) == nil", chk.H("PREV", f.IsObj(prevObj)))
	start := chk.Site{G: g, B: es[0].B.Succs[es[0].K], I: 0}
	w3 := (&chk.Walk{G: g, From: start, Inclusive: true, Stop: setRA, HitExit: true,
		Hit: func(n ast.Node) bool { return region == nil || !chk.Encloses(region, n) },
		Cut: func(b *cfgBlock, k int) bool { return g.EdgeImplies(b, k, noPool) }}).Run()
	x.Check("SetBalancer:release-sets-reprocess", posOf(w3, f), !w3.Found && resVar != nil, "", "an address that is still part of a pool can be released without the result becoming SyncStateReprocessAll (extra condition or missing assignment)")
	// (d)
	if resVar != nil {
		var setSite chk.Site
		for _, s := range g.Find(setRA) {
			if region != nil && chk.Encloses(region, s.Node) {
				setSite = s
			}
		}
		if setSite.B != nil {
			setSite.I++
			w4 := stickyReprocess(f, g, setSite, resVar)
			x.Check("SetBalancer:release-result-sticks", posOf(w4, f), !w4.Found, "", "after a release the result can be overwritten or a different result returned: "+describe(f, w4))
		}
	}
	// (e) a changed allocation key (sharing / backend key gained, lost or replaced while the address stayed) lets waiting
	// Services share the address, or stops them: exactly `key before converge != key after` requests the full re-sync
	keyOf := definedBy(g, "RECV.ips.AllocationKey(N)", chk.H("N", name))
	changed := chk.GSame(g.GPat(true, "A != B", chk.H("A", keyOf), chk.H("B", keyOf)))
	ke := g.EdgesImplying(changed)
	okKey := len(ke) >= 1
	for _, e := range ke {
		// nothing else decides: the other edge of that test means "unchanged"
		if !g.EdgeImplies(e.B, 1-e.K, chk.GNot(changed)) {
			okKey = false
		}
		if g.BranchAlways(e, setRA).Found {
			okKey = false
		}
	}
	// one key is read before convergeBalancer, the other after
	nBefore, nAfter := 0, 0
	for _, c := range g.FindPat("RECV.ips.AllocationKey(N)", chk.H("N", name)) {
		if (&chk.Walk{G: g, From: c, Hit: func(n ast.Node) bool { return n == conv[0].Top }}).Run().Found {
			nBefore++
		} else {
			nAfter++
		}
	}
	// ... and it is asked on every way out behind the convergence: no return (the "nothing changed on the object" exit
	// included - the key can change while address and annotations stay) comes before the second reading of the key
	if len(conv) == 1 {
		w := (&chk.Walk{G: g, From: conv[0], Stop: f.ContainsPat("RECV.ips.AllocationKey(N)", chk.H("N", name)),
			Hit: func(n ast.Node) bool { _, isRet := n.(*ast.ReturnStmt); return isRet }}).Run()
		x.Check("SetBalancer:key-compared-on-every-exit", posOf(w, f), !w.Found, "", "SetBalancer can return behind convergeBalancer without comparing the allocation key before and after: a holder that changes its sharing or backend key in place (same address, same annotations) leaves through that exit, no full re-sync is requested and the Services waiting to share the address stay pending")
	}
	x.Check("SetBalancer:key-change-requests-reprocess", f.Pos(), okKey && nBefore >= 1 && nAfter >= 1, "", "a Service whose allocation key changed while it kept its address (it started or stopped sharing) does not request a full re-sync under exactly that condition: Services waiting to share the address stay pending")
	// ... and the key that is compared is the whole key: two Services share an address only with equal sharing AND
	// backend keys, so a change of either one changes who may join
	if kf := need(x, p, allocPkg, "Allocator", "AllocationKey"); kf != nil {
		kg := kf.Graph()
		okWhole, nKey := true, 0
		for _, rt := range kg.Returns() {
			res := retResults(rt)
			if len(res) != 1 || kf.IsConstString(res[0], "") {
				continue
			}
			nKey++
			e := kf.Resolve(res[0])
			sharing, backend := false, false
			ast.Inspect(e, func(n ast.Node) bool {
				if sel, isSel := n.(*ast.SelectorExpr); isSel {
					if fld, isF := kf.ObjOf(sel.Sel).(*types.Var); isF && fld.IsField() {
						switch fld.Name() {
						case "sharing":
							sharing = true
						case "backend":
							backend = true
						}
					}
				}
				return true
			})
			if tv := kf.Info().TypeOf(e); tv != nil {
				if n, isN := types.Unalias(tv).(*types.Named); isN && n.Obj().Name() == "key" {
					sharing, backend = true, true // the key itself
				}
			}
			if !sharing || !backend {
				okWhole = false
			}
		}
		x.Check("AllocationKey:sharing-and-backend", kf.Pos(), okWhole && nKey > 0, "", "the allocation key that SetBalancer compares leaves out the sharing key or the backend key: a holder that changes the omitted one keeps its address without a re-sync, and the Services waiting to share it stay pending")
	}
	// releasedIPs: true exactly when some previous address p equals none of the current ones
	rf := need(x, p, "controller", "", "releasedIPs")
	if rf != nil {
		rg := rf.Graph()
		outer := rf.RangeLoops(isParamIdx(rf, 0))
		inner := rf.RangeLoops(isParamIdx(rf, 1))
		okk := len(outer) == 1 && len(inner) == 1 && chk.InBody(outer[0], inner[0])
		if okk {
			pv, cv := rangeVal(rf, outer[0]), rangeVal(rf, inner[0])
			// one leaf for the comparison in either orientation
			equal := func(pos bool) chk.Guard {
				return chk.GFunc(func(ft chk.Fact) bool {
					if ft.Val != pos {
						return false
					}
					return rf.MatchWith("P.Equal(C)", ft.E, chk.H("P", pv), chk.H("C", cv)) != nil || rf.MatchWith("C.Equal(P)", ft.E, chk.H("P", pv), chk.H("C", cv)) != nil
				})
			}
			// the "found" flags: booleans set to true in the inner loop only where the two addresses are equal
			var found []chk.Guard
			for _, s := range rg.Find(rf.IsAssignPat("H", "true")) {
				if !chk.InBody(inner[0], s.Node) {
					continue
				}
				if rg.Dominated(s, equal(true)) {
					h := rf.ObjOf(s.Node.(*ast.AssignStmt).Lhs[0])
					isH := func(e ast.Expr) bool { return rf.IsObj(h)(e) || rf.IsObj(h)(rf.Resolve(e)) }
					// the flag speaks about this previous address only if every search starts with it cleared
					if !rg.LoopEntryDominated(inner[0], chk.GBool(false, isH)) {
						okk = false
					}
					found = append(found, chk.GBool(true, isH))
				}
			}
			nTrue := 0
			for _, rt := range rg.Returns() {
				res := retResults(rt)
				if len(res) != 1 {
					okk = false
					continue
				}
				switch {
				case rf.IsConstBool(res[0], true):
					nTrue++
					// p was compared with every current address and equals none
					if !chk.InBody(outer[0], rt.Node) || forallBefore(rf, rg, inner[0], chk.GNot(equal(true)), rt) != "" {
						okk = false
					}
				case rf.IsConstBool(res[0], false):
					if !rg.AfterLoop(rt, outer[0]) {
						okk = false
					}
				default:
					okk = false
				}
			}
			okk = okk && nTrue >= 1 && !loopHasBreak(rg, outer[0])
			// an iteration of the outer loop goes on to the next previous address only when an equal current one was found
			if okk {
				// ... found: a flag set where the two were equal, or the jump to the next previous address taken right
				// there (`continue outer` under p.Equal(c))
				ends := rg.LoopIteration(outer[0], chk.GOr(append(append([]chk.Guard{}, found...), equal(true))...))
				okk = len(ends) > 0
				for _, e := range ends {
					if !e.OK {
						okk = false
					}
				}
			}
		}
		x.Check("releasedIPs:some-previous-address-not-held", rf.Pos(), okk, "", "releasedIPs does not return true exactly when some previously held address is missing from the current ones")
	}

	setPoolsRule(p, r)
}

// setPoolsRule (C07, shared with C02, C06): a pool update reaches the allocator and the controller's own view together
// and is followed by the full pass.
func setPoolsRule(p *chk.Prog, r *chk.Report) {
	y := r.Rule("SETPOOLS-REPROCESS", "B path", "controller.SetPools installs the pools in the allocator and in the controller and its only success return is SyncStateReprocessAll; allocator.SetPools Unassigns (hence frees) every allocation no pool contains", 2)
	sp := need(y, p, "controller", "controller", "SetPools")
	if sp != nil {
		sg := sp.Graph()
		pools := isParamIdx(sp, 1)
		inst := sp.ContainsPat("RECV.ips.SetPools(P)", chk.H("P", pools))
		for _, rt := range sg.Returns() {
			res := retResults(rt)
			if len(res) != 1 {
				continue
			}
			if sg.Dominated(rt, sg.GPat(true, "P == nil || P.ByName == nil", chk.H("P", pools))) {
				continue
			}
			w := sg.MustPass(chk.Site{}, func(n ast.Node) bool { return n == rt.Top }, false, inst)
			y.Check("SetPools:return-is-reprocess", rt.Pos(), isObjNamed(sp, ctrlPkg+".SyncStateReprocessAll")(res[0]) && !w.Found, "", "a pool change does not install the pools and request a full re-sync")
		}
		st := sg.Find(sp.IsAssignPat("RECV.pools", "P", chk.H("P", pools)))
		y.Check("SetPools:controller-pools-updated", sp.Pos(), len(st) == 1, "", "the controller's own view of the pools is not updated")
		// on every path that hands the pools to the allocator: the two views never differ (SetBalancer is a no-op while
		// c.pools is nil - a first full pass over an allocator that has pools the controller does not know about opens the
		// gate of the initial load without having re-adopted anything)
		isStore := sp.IsAssignPat("RECV.pools", "P", chk.H("P", pools))
		for _, rt := range sg.Returns() {
			if sg.Dominated(rt, sg.GPat(true, "P == nil || P.ByName == nil", chk.H("P", pools))) {
				continue
			}
			if (&chk.Walk{G: sg, Hit: func(n ast.Node) bool { return n == rt.Top }, Stop: inst}).Run().Found {
				continue // not through the allocator's SetPools: judged above
			}
			w := sg.MustPass(chk.Site{}, func(n ast.Node) bool { return n == rt.Top }, false, isStore)
			y.Check("SetPools:both-views-updated-together", rt.Pos(), !w.Found, "", "SetPools can hand the pools to the allocator without storing them in the controller (the store is conditional): the controller goes on treating every Service event as `no configuration yet` while the allocator hands out addresses, and the first full pass re-adopts nothing")
		}
	}
}

func c07Scan(p *chk.Prog, r *chk.Report) {
	x := r.Rule("SCAN-ALL", "B path", "the search for a free address has no early exit: getIPFromCIDR's cursor loop is left only by `return pos.IP` or exhaustion; getFreeIPsFromPool's loop over pool.CIDR has no break and skips only families already found; findBestPoolForService's loop over pools has no break and returns only complete answers; in Allocate every path from the failed pinned attempt reaches the fallback attempt", 6)
	f := need(x, p, allocPkg, "Allocator", "getIPFromCIDR")
	if f != nil {
		g := f.Graph()
		var loop *ast.ForStmt
		chk.InspectNoLit(f.Body, func(n ast.Node) bool {
			if fs, ok := n.(*ast.ForStmt); ok {
				loop = fs
			}
			return true
		})
		okk := loop != nil
		why := "no cursor loop"
		if okk {
			// blocks: ForDone entered only from the loop condition
			var loopB, doneB *cfgBlock
			for _, b := range g.Blocks {
				if b.Stmt == ast.Stmt(loop) {
					switch b.Kind.String() {
					case "ForLoop":
						loopB = b
					case "ForDone":
						doneB = b
					}
				}
			}
			if loopB == nil || doneB == nil {
				okk, why = false, "cursor loop has no exhaustion test"
			} else {
				for _, b := range g.Blocks {
					for _, s := range b.Succs {
						if s == doneB && b != loopB {
							at := loop.Pos()
							if len(b.Nodes) > 0 {
								at = b.Nodes[len(b.Nodes)-1].Pos()
							}
							okk, why = false, "the cursor loop can be left early (break) near "+p.Rel(at)
						}
					}
				}
			}
			// loop shape: First() / pos != nil / Next()
			cur := definedBy(g, "ipaddr.NewCursor(_)")
			shape := false
			if as, ok := loop.Init.(*ast.AssignStmt); ok && len(as.Rhs) == 1 && f.MatchWith("C.First()", as.Rhs[0], chk.H("C", cur)) != nil {
				if ps, ok := loop.Post.(*ast.AssignStmt); ok && len(ps.Rhs) == 1 && f.MatchWith("C.Next()", ps.Rhs[0], chk.H("C", cur)) != nil && f.SameExpr(ps.Lhs[0], as.Lhs[0]) {
					if f.MatchNew("P != nil", loop.Cond) != nil {
						shape = true
					}
				}
			}
			if !shape {
				okk, why = false, "the loop is not `for pos := c.First(); pos != nil; pos = c.Next()` over a cursor of the CIDR"
			}
			for _, rt := range g.Returns() {
				if chk.InBody(loop, rt.Node) {
					res := retResults(rt)
					if len(res) < 1 || len(res) > 2 || f.MatchNew("POS.IP", res[0]) == nil {
						okk, why = false, "the cursor loop returns something other than the position's address"
					} else if len(res) == 2 {
						if id, isId := ast.Unparen(res[1]).(*ast.Ident); !isId || id.Name != "true" {
							okk, why = false, "the cursor loop returns a usable address flagged as not found"
						}
					}
				}
			}
			// cursor over the cidr parameter
			// ... built from the network itself or from a copy of it (address and mask of the same network)
			cidrP := isParam(f, "cidr")
			nCur := len(g.FindPat("ipaddr.NewCursor([]ipaddr.Prefix{*ipaddr.NewPrefix(C)})", chk.H("C", cidrP))) +
				len(g.FindPat("ipaddr.NewCursor([]ipaddr.Prefix{*ipaddr.NewPrefix(&net.IPNet{IP: C.IP, Mask: C2.Mask})})", chk.H("C", cidrP), chk.H("C2", cidrP)))
			if nCur != 1 {
				okk, why = false, "the cursor does not cover the CIDR given"
			}
		}
		x.Check("getIPFromCIDR:exhaustive-cursor", f.Pos(), okk, "", why)
	}
	ff := need(x, p, allocPkg, "Allocator", "getFreeIPsFromPool")
	if ff != nil {
		g := ff.Graph()
		loops := ff.RangeLoops(func(e ast.Expr) bool { return ff.MatchWith("P.CIDR", e, chk.H("P", isParam(ff, "pool"))) != nil })
		okk := len(loops) == 1
		why := "no loop over pool.CIDR"
		if okk {
			rs := loops[0]
			search := ff.ContainsPat("RECV.getIPFromCIDR(C, ETC)", chk.H("C", rangeVal(ff, rs)))
			have := g.GPat(true, "X != nil", chk.H("X", definedBy(g, "AL.getIPForFamily(F)", chk.H("F", definedBy(g, "ipfamily.ForCIDR(C)", chk.H("C", rangeVal(ff, rs)))))))
			if loopHasBreak(g, rs) {
				okk, why = false, "the loop over pool.CIDR can be left early"
			} else if loopSkipsWithout(g, rs, search, have) {
				okk, why = false, "a CIDR can be skipped although no address of its family was found yet"
			}
			for _, rt := range g.Returns() {
				if chk.InBody(rs, rt.Node) {
					okk, why = false, "return inside the CIDR loop"
				}
			}
		}
		x.Check("getFreeIPsFromPool:every-cidr", ff.Pos(), okk, "", why)
	}
	fb := need(x, p, allocPkg, "Allocator", "findBestPoolForService")
	if fb != nil {
		g := fb.Graph()
		loops := fb.RangeLoops(isParam(fb, "pools"))
		okk := len(loops) == 1
		why := "no loop over pools"
		if okk {
			rs := loops[0]
			if loopHasBreak(g, rs) {
				okk, why = false, "the loop over candidate pools can be left early"
			}
			search := fb.ContainsPat("RECV.getFreeIPsFromPool(P, ETC)", chk.H("P", rangeVal(fb, rs)))
			if loopSkipsWithout(g, rs, search, chk.NoGuard) {
				okk, why = false, "a candidate pool can be skipped without being searched"
			}
			for _, rt := range g.Returns() {
				if !chk.InBody(rs, rt.Node) {
					continue
				}
				res := retResults(rt)
				if len(res) != 2 || !successResult(fb, res[1]) || !definedBy(g, "RECV.getFreeIPsFromPool(ETC)")(res[0]) {
					okk, why = false, "the pool loop is left with something other than a found allocation"
				}
			}
		}
		x.Check("findBestPoolForService:every-pool", fb.Pos(), okk, "", why)
		c07BothFamilies(x, fb, g)
		// after the loop: candidates before the error
		for _, rt := range g.Returns() {
			res := retResults(rt)
			if len(res) == 2 && fb.IsNilLit(res[0]) && len(loops) == 1 && !chk.InBody(loops[0], rt.Node) {
				cands := 0
				for _, o := range []string{"primaryAllocationCandidate", "secondaryAllocationCandidate"} {
					_ = o
				}
				for _, e := range g.EdgesImplying(g.GPat(false, "C != nil", chk.H("C", func(e ast.Expr) bool {
					id, ok := ast.Unparen(e).(*ast.Ident)
					return ok && fb.Info().TypeOf(id) != nil && fb.Info().TypeOf(id).String() == "*"+chk.Module+"/"+allocPkg+".Allocation"
				}))) {
					_ = e
					cands++
				}
				x.Check("findBestPoolForService:error-only-without-candidates", rt.Pos(), cands >= 2 && g.AfterLoop(rt, loops[0]), "", "the no-suitable-pool error can be returned although a partial candidate was found or before all pools were visited")
			}
		}
	}
	fa := need(x, p, allocPkg, "Allocator", "Allocate")
	if fa != nil {
		g := fa.Graph()
		pinFail := g.GErrNil(false, "RECV.allocateFromPools(POOLS, ETC)", chk.H("POOLS", definedBy(g, "RECV.pinnedPoolsForService(_)")))
		es := g.EdgesImplying(pinFail)
		okk := len(es) >= 1
		pos := fa.Pos()
		for _, e := range es {
			start := chk.Site{G: g, B: e.B.Succs[e.K], I: 0}
			fallback := func(n ast.Node) bool {
				found := false
				chk.InspectNoLit(n, func(m ast.Node) bool {
					if ex, ok := m.(ast.Expr); ok {
						if b := fa.MatchNew("RECV.allocateFromPools(POOLS, ETC)", ex); b != nil && !definedBy(g, "RECV.pinnedPoolsForService(_)")(b["POOLS"]) {
							found = true
						}
					}
					return true
				})
				return found
			}
			w := (&chk.Walk{G: g, From: start, Inclusive: true, Stop: fallback, HitExit: true}).Run()
			if w.Found {
				okk = false
				pos = posOf(w, fa)
			}
		}
		x.Check("Allocate:fallback-always-tried", pos, okk, "", "Allocate can give up after the pinned pools without trying the unpinned auto-assign pools")
		// fallback loop visits every pool
		for _, rs := range fa.RangeLoops(func(e ast.Expr) bool { return fa.MatchNew("RECV.pools.ByName", e) != nil }) {
			x.Check("Allocate:fallback-list-visits-all-pools", rs.Pos(), !loopHasBreak(g, rs), "", "building the fallback list can stop early")
		}
	}
	afp := need(x, p, allocPkg, "Allocator", "allocateFromPools")
	if afp != nil {
		g := afp.Graph()
		// the pools searched are the pools given
		c := g.FindPat("RECV.findBestPoolForService(P, ETC)", chk.H("P", isParam(afp, "pools")))
		x.Check("allocateFromPools:searches-given-pools", afp.Pos(), len(c) == 1, "", "allocateFromPools does not search the pools it was given")
	}
}

func loopHasBreak(g *chk.Graph, rs *ast.RangeStmt) bool {
	loop, _, done := g.RangeBlocks(rs)
	for _, b := range g.Blocks {
		for _, s := range b.Succs {
			if s == done && b != loop {
				return true
			}
		}
	}
	return false
}

// KEY-THREAD: parameter threading inside the allocator.
func c07Thread(p *chk.Prog, r *chk.Report) {
	x := r.Rule("KEY-THREAD", "E sibling", "inside package internal/allocator every call from a function with parameters named svcKey/svc, ports, sharingKey, backendKey to a module function with a same-named parameter passes its own parameter in that position (the candidate search and the final Assign judge sharing with the same inputs)", 20)
	names := map[string]bool{"svcKey": true, "ports": true, "sharingKey": true, "backendKey": true, "svc": true, "serviceIPFamily": true}
	for _, f := range p.FuncsIn(allocPkg) {
		if f.Decl == nil {
			continue
		}
		own := map[string]*types.Var{}
		for n := range names {
			if v := f.ParamNamed(n); v != nil {
				own[n] = v
			}
		}
		if len(own) == 0 {
			continue
		}
		chk.InspectNoLit(f.Body, func(n ast.Node) bool {
			call, ok := n.(*ast.CallExpr)
			if !ok {
				return true
			}
			callee, _ := f.Callee(call).(*types.Func)
			if callee == nil || callee.Pkg() == nil || callee.Pkg().Path() != chk.Module+"/"+allocPkg {
				return true
			}
			sig := callee.Type().(*types.Signature)
			for i := 0; i < sig.Params().Len() && i < len(call.Args); i++ {
				pn := sig.Params().At(i).Name()
				v := own[pn]
				if v == nil || !types.Identical(v.Type(), sig.Params().At(i).Type()) {
					continue
				}
				r.CallSites++
				x.Check(f.Name()+"->"+callee.Name()+":"+pn, call.Args[i].Pos(), f.ObjOf(call.Args[i]) == types.Object(v), "",
					"argument `"+types.ExprString(call.Args[i])+"` is passed for parameter "+pn+" instead of the caller's own "+pn)
			}
			return true
		})
		r.Saw(f)
	}
}

// c07BothFamilies: the two families whose addresses decide "this pool has both" / "a candidate for the first / second
// choice" are IPv4 and IPv6 in one order or the other, whichever branch chose the order: with the same family twice a
// pool that lacks one family counts as complete and pools holding only the other family are never candidates.
func c07BothFamilies(x *chk.R, f *chk.Fn, g *chk.Graph) {
	// the pair: two calls A.getIPForFamily(V) on the same allocation whose results are tested together (P != nil && S != nil)
	var pv, sv *ast.Ident
	for _, e := range g.FindPat("P != nil && S != nil") {
		b := f.MatchNew("P != nil && S != nil", e.Node.(ast.Expr))
		get := func(v ast.Expr) *ast.Ident {
			id, ok := ast.Unparen(v).(*ast.Ident)
			if !ok {
				return nil
			}
			rhs, _ := g.DefOf(id, g.FactSite(id))
			if m := f.MatchNew("A.getIPForFamily(F)", rhs); m != nil {
				if fid, isId := ast.Unparen(m["F"]).(*ast.Ident); isId {
					return fid
				}
			}
			return nil
		}
		if a, c := get(b["P"]), get(b["S"]); a != nil && c != nil {
			pv, sv = a, c
		}
	}
	if pv == nil || sv == nil {
		x.Fail("findBestPoolForService:families-are-distinct", f.Pos(), "no test `both families available` over two getIPForFamily results found")
		return
	}
	famOf := func(e ast.Expr) string {
		for _, n := range []string{"IPv4", "IPv6"} {
			if isObjNamed(f, "internal/ipfamily."+n)(e) {
				return n
			}
		}
		return ""
	}
	// the branch conditions under which either variable is assigned: decided for each polarity of each of them
	conds := map[string]ast.Expr{}
	for _, id := range []*ast.Ident{pv, sv} {
		for _, d := range assignsTo(f, f.ObjOf(id)) {
			for m := f.Prog.Parent(d); m != nil; m = f.Prog.Parent(m) {
				if is, ok := m.(*ast.IfStmt); ok {
					conds[types.ExprString(is.Cond)] = is.Cond
				}
				if _, ok := m.(*ast.FuncDecl); ok {
					break
				}
			}
		}
	}
	type assumption struct {
		txt string
		val bool
	}
	cases := [][]assumption{{}}
	for txt := range conds {
		var next [][]assumption
		for _, c := range cases {
			next = append(next, append(append([]assumption{}, c...), assumption{txt, true}), append(append([]assumption{}, c...), assumption{txt, false}))
		}
		cases = next
	}
	ok := len(cases) <= 8
	why := ""
	for _, c := range cases {
		var against []chk.Guard
		for _, a := range c {
			against = append(against, g.GPat(!a.val, a.txt))
		}
		cut := func(b *cfgBlock, k int) bool {
			for _, ag := range against {
				if g.EdgeImplies(b, k, ag) {
					return true
				}
			}
			return false
		}
		pvs, ok1 := g.ValuesUnder(pv, g.FactSite(pv), cut)
		svs, ok2 := g.ValuesUnder(sv, g.FactSite(sv), cut)
		if !ok1 || !ok2 || len(pvs) == 0 || len(svs) == 0 {
			continue // an infeasible combination of branches
		}
		for _, a := range pvs {
			for _, b := range svs {
				fa, fb := famOf(a), famOf(b)
				if fa == "" || fb == "" || fa == fb {
					ok = false
					why = "first choice " + types.ExprString(a) + ", second choice " + types.ExprString(b)
				}
			}
		}
	}
	x.Check("findBestPoolForService:families-are-distinct", pv.Pos(), ok, "", "the first and the second choice family are not IPv4 and IPv6 in some order on every branch ("+why+"): a pool lacking one family counts as complete, pools holding only the other family are never candidates")
}

// c07Fallback: when no pinned pool serves the Service, every unpinned auto-assign pool is searched, and the reload that
// reprocesses waiting Services after a release is always delivered.
func c07Fallback(p *chk.Prog, r *chk.Report) {
	x := r.Rule("FALLBACK-POOLS", "B path", "in (*Allocator).Allocate the loop over a.pools.ByName hands every pool to the search except those with !AutoAssign or a ServiceAllocations block (no other skip, no early exit); (*ServiceReconciler).forceReload sends on r.Reload on every path, as a plain (blocking) send", 2)
	f := need(x, p, allocPkg, "Allocator", "Allocate")
	if f != nil {
		g := f.Graph()
		n := 0
		for _, rs := range f.RangeLoops(func(e ast.Expr) bool { return f.MatchNew("RECV.pools.ByName", e) != nil }) {
			pool := rangeVal(f, rs)
			apps := g.Find(func(nd ast.Node) bool {
				return chk.InBody(rs, nd) && f.IsAssignPat("L", "append(L, P)", chk.H("P", pool))(nd)
			})
			if len(apps) != 1 {
				continue
			}
			n++
			pinnedOrManual := chk.GAnyOf(g.GPat(false, "P.AutoAssign", chk.H("P", pool)), g.GPat(true, "P.ServiceAllocations != nil", chk.H("P", pool)))
			ok := !loopSkipsWithout(g, rs, func(nd ast.Node) bool { return nd == apps[0].Top }, pinnedOrManual) && !loopLeavesEarly(f, g, rs)
			x.Check("Allocate:every-unpinned-pool-searched", rs.Pos(), ok, "", "an unpinned auto-assign pool can be left out of the search for a reason other than AutoAssign / ServiceAllocations (a shortcut on its counters, say): a Service for which that pool holds the only admissible address is refused although an assignment exists")
		}
		x.Check("Allocate:fallback-loop", f.Pos(), n == 1, "", "no loop collecting the unpinned pools")
	}
	// the reload request: wherever it is sent (forceReload, or in place where that helper was folded into its callers), it is
	// a plain send, not an alternative of a select
	nSend := 0
	for _, cf := range p.FuncsIn(ctrlPkg) {
		if cf.Body == nil || cf.Lit != nil {
			continue
		}
		cf := cf
		ast.Inspect(cf.Body, func(nd ast.Node) bool {
			ss, ok := nd.(*ast.SendStmt)
			if !ok {
				return true
			}
			se, isSel := ast.Unparen(ss.Chan).(*ast.SelectorExpr)
			if !isSel || se.Sel.Name != "Reload" {
				return true
			}
			if t := cf.Info().TypeOf(ss.Value); t == nil || !strings.HasSuffix(t.String(), "event.GenericEvent") {
				return true
			}
			nSend++
			_, inSelect := p.Parent(ss).(*ast.CommClause)
			x.Check("reload-send@"+cf.Name(), ss.Pos(), !inSelect, "", "the reload request can be dropped (an alternative of a select): `would block` only means the receiver is not parked on the unbuffered channel at this instant - the released address is never offered to the Services waiting for it")
			return true
		})
	}
	x.Check("reload-send:sites", 0, nSend >= 1, "", "no send of a reload event on a Reload channel in the controllers package")
	if fr := p.LookupFunc(ctrlPkg, "ServiceReconciler", "forceReload"); fr != nil {
		g := fr.Graph()
		w := g.MustPass(chk.Site{}, nil, true, func(nd ast.Node) bool { _, isSend := nd.(*ast.SendStmt); return isSend })
		x.Check("forceReload:always-delivered", fr.Pos(), !w.Found, "", "forceReload can return without having sent the reload request")
	}
}
