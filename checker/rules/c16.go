package rules

import (
	"fmt"
	"go/ast"
	"go/constant"
	"go/token"
	"go/types"
	"regexp"
	"sort"
	"strings"

	"verif/mlbcheck/chk"
)

func init() {
	register(&Prop{
		ID: "C16",
		Explanation: "Decided (writer/reader table agreement and structure, for every input at once): the byte ranges patched into UPDATE / withdraw buffers are exactly the " +
			"uint16 fields Len / AttrLen / WdrLen of the header struct that was written first, the attribute length is measured after the attributes and before the " +
			"prefixes, and nothing is appended after the total length was patched (LAYOUT-1); every message header has all-ones markers and its type constant, " +
			"KEEPALIVE's length is its packed size (CONST-HDR); the constant part of the OPEN, folded into a byte template and walked with an RFC 4271 parser, has " +
			"option and capability lengths equal to the bytes they cover and Len = binary.Size of the struct (TLV-1); constant path-attribute headers are followed " +
			"by payload writes of exactly the declared size (ATTR-TLV); AS_TRANS is used exactly above 65535, the 2-byte AS path goes through a checked " +
			"conversion, LOCAL_PREF and the empty AS path are written exactly for iBGP (ASN-IBGP); NLRI length byte and byte count derive from the same prefix " +
			"length and the bytes are the address's own (PREFIX-AGREE); every narrowing conversion in the encoders is a checked safeconvert call with its error " +
			"handled or in the reviewed table (NARROW-1); in readOpen and its callees every read after the header goes through an io.LimitedReader bounded by the " +
			"announced lengths, whose limit is never re-assigned, decoder loops start with a read whose failure leaves the function, and there is no indexing, " +
			"unchecked assertion, division or panic (BOUNDED-READ); the minimum OPEN length equals the packed size of header plus fixed fields (MIN-LEN); the " +
			"advertisement sets handed to the encoders passed validate (VALIDATED); the connection's reader is consumed by exact reads only, never wrapped in a " +
			"reader that reads ahead, never reassigned (NO-READAHEAD).",
		NotDecided: "The value-level round trip (that a decoder reads back exactly the intended prefix bits, ASN bytes, communities) is a runtime-value property; the " +
			"length of the NEXT_HOP payload (declared 4, the value is whatever address the dialer bound: reviewed exception, see DESIGN.md section 6).",
		Run: runC16,
		Mutants: []Mutant{
			{Name: "negotiated-hold-time-written-into-the-request", File: "internal/bgp/native/native.go",
				Old: "\ts.actualHoldTime = *s.HoldTime\n\tif op.holdTime < s.actualHoldTime {\n\t\ts.actualHoldTime = op.holdTime\n\t}", New: "\tif op.holdTime < *s.HoldTime {\n\t\t*s.HoldTime = op.holdTime\n\t}\n\ts.actualHoldTime = *s.HoldTime", Expect: "PARAMS-READONLY"},
			{Name: "notification-class-table-indexed-by-wire-octet", File: "internal/bgp/native/messages.go",
				Old: "\t\tv = \"unknown code\"\n", New: "\t\tv = [...]string{\"\", \"header\", \"open\", \"update\", \"hold\", \"fsm\", \"cease\"}[code>>8]\n", Expect: "WIRE-INDEX"},
			{Name: "hold-time-clamped-on-the-wire", File: "internal/bgp/native/messages.go",
				Old: "\tmsg := struct {\n\t\t// Header\n", New: "\tif holdTimeSeconds < 3 {\n\t\tholdTimeSeconds = 3\n\t}\n\tmsg := struct {\n\t\t// Header\n", Expect: "OPEN-FIELDS"},
			{Name: "unknown-capability-skipped-by-raw-reads", File: "internal/bgp/native/messages.go",
				Old: "\t\t\tif _, err := io.Copy(io.Discard, &lr); err != nil {\n\t\t\t\treturn err\n\t\t\t}", New: "\t\t\tvar skip [255]byte\n\t\t\tfor lr.N > 0 {\n\t\t\t\tif _, err := lr.Read(skip[:]); err != nil && err != io.EOF {\n\t\t\t\t\treturn err\n\t\t\t\t}\n\t\t\t}", Expect: "OPEN-FIELDS"},
			{Name: "capability-flag-overwritten", File: "internal/bgp/native/messages.go",
				Old: "\t\t\tcase af.AFI == 1 && af.SAFI == 1:\n\t\t\t\tret.mp4 = true\n",
				New: "\t\t\tcase af.AFI == 1:\n\t\t\t\tret.mp4 = af.SAFI == 1\n", Expect: "CAPS-UNION"},
			{Name: "notification-reader-rewrapped", File: "internal/bgp/native/messages.go",
				Old: "func readNotification(r io.Reader) error {\n\tvar code uint16",
				New: "func readNotification(r io.Reader) error {\n\tr = io.MultiReader(r)\n\tvar code uint16", Expect: "NO-READAHEAD"},
			{Name: "unknown-capability-refused", File: "internal/bgp/native/messages.go",
				Old: "\t\tdefault:\n\t\t\t// TODO: only ignore capabilities that we know are fine to\n\t\t\t// ignore.\n\t\t\tif _, err := io.Copy(io.Discard, &lr); err != nil {\n\t\t\t\treturn err\n\t\t\t}", New: "\t\tcase 2, 64, 70:\n\t\t\tif _, err := io.Copy(io.Discard, &lr); err != nil {\n\t\t\t\treturn err\n\t\t\t}\n\t\tdefault:\n\t\t\treturn fmt.Errorf(\"unsupported capability %d\", cap.Code)", Expect: "CAP-TOLERANT"},
			{Name: "patch-wrong-offset", File: "internal/bgp/native/messages.go",
				Old: "\tbinary.BigEndian.PutUint16(b.Bytes()[21:23], toWrite)\n\tencodePrefixes(&b, []*net.IPNet{adv.Prefix})", New: "\tbinary.BigEndian.PutUint16(b.Bytes()[20:22], toWrite)\n\tencodePrefixes(&b, []*net.IPNet{adv.Prefix})", Expect: "LAYOUT-1"},
			{Name: "header-field-added-offsets-stale", File: "internal/bgp/native/messages.go",
				Old: "\t\tLen     uint16\n\t\tType    uint8\n\t\tWdrLen  uint16\n\t\tAttrLen uint16\n\t}{", New: "\t\tLen     uint16\n\t\tType    uint8\n\t\tFlags   uint8\n\t\tWdrLen  uint16\n\t\tAttrLen uint16\n\t}{", Expect: "LAYOUT-1"},
			{Name: "open-optlen-wrong", File: "internal/bgp/native/messages.go",
				Old: "\t\tOptLen:  18,", New: "\t\tOptLen:  16,", Expect: "TLV-1"},
			{Name: "option-header-read-from-unbounded-reader", File: "internal/bgp/native/messages.go",
				Old: "\tif err := readOptions(lr, ret); err != nil {", New: "\tif err := readOptions(r, ret); err != nil {", Expect: "BOUNDED-READ"},
			{Name: "localpref-for-ebgp", File: "internal/bgp/native/messages.go",
				Old: "\tif ibgp {\n\t\tb.Write([]byte{\n\t\t\t0x40, 5, // well-known, localpref", New: "\tif ibgp || adv.LocalPref != 0 {\n\t\tb.Write([]byte{\n\t\t\t0x40, 5, // well-known, localpref", Expect: "ASN-IBGP"},
			{Name: "holdtime-unchecked-narrowing", File: "internal/bgp/native/messages.go",
				Old: "\t\tHoldTime: holdTimeSeconds,", New: "\t\tHoldTime: holdTimeSeconds + uint16(holdTime.Milliseconds()/1000) - holdTimeSeconds,", Expect: "NARROW-1"},
			{Name: "limit-rebound-by-peer-length", File: "internal/bgp/native/messages.go",
				Old: "\tif err := readOptions(lr, ret); err != nil {", New: "\tlr.N = int64(open.OptsLen)\n\tif err := readOptions(lr, ret); err != nil {", Expect: "BOUNDED-READ"},
			{Name: "attrlen-measured-after-prefixes", File: "internal/bgp/native/messages.go",
				Old: "\tbinary.BigEndian.PutUint16(b.Bytes()[21:23], toWrite)\n\tencodePrefixes(&b, []*net.IPNet{adv.Prefix})\n", New: "\tencodePrefixes(&b, []*net.IPNet{adv.Prefix})\n\tbinary.BigEndian.PutUint16(b.Bytes()[21:23], toWrite)\n\ttoWrite, err = safeconvert.IntToUInt16(b.Len() - l)\n\tif err != nil {\n\t\treturn err\n\t}\n\tbinary.BigEndian.PutUint16(b.Bytes()[21:23], toWrite)\n", Expect: "LAYOUT-1"},
			{Name: "as4-path-length-wrong", File: "internal/bgp/native/messages.go",
				Old: "\t\t\t\t6, // len (1x 4-byte ASN)", New: "\t\t\t\t4, // len (1x 4-byte ASN)", Expect: "ATTR-TLV"},
			{Name: "min-open-length-wrong", File: "internal/bgp/native/messages.go",
				Old: "\tif hdr.Len < 29 {", New: "\tif hdr.Len < 37 {", Expect: "MIN-LEN"},
			{Name: "prefix-bytes-masked-wrongly", File: "internal/bgp/native/messages.go",
				Old: "\t\tb.Write(pfx.IP.To4()[:bytesForBits(o)])", New: "\t\tbuf := append([]byte{}, pfx.IP.To4()[:bytesForBits(o)]...)\n\t\tif o%8 != 0 {\n\t\t\tbuf[len(buf)-1] &= 0xff << (o % 8)\n\t\t}\n\t\tb.Write(buf)", Expect: "PREFIX-AGREE"},
			{Name: "keepalive-length-wrong", File: "internal/bgp/native/messages.go",
				Old: "\t\tLen:     19,\n\t\tType:    4,", New: "\t\tLen:     21,\n\t\tType:    4,", Expect: "CONST-HDR"},
			{Name: "communities-bound-raised", File: "internal/bgp/native/native.go",
				Old: "\tif len(adv.Communities) > 63 {", New: "\tif len(adv.Communities) > 64 {", Expect: "VALIDATED"},
			{Name: "as-trans-threshold-off", File: "internal/bgp/native/messages.go",
				Old: "\tif asn > 65535 {\n\t\tmsg.ASN16 = 23456", New: "\tif asn > 65536 {\n\t\tmsg.ASN16 = 23456", Expect: "ASN-IBGP"},
		},
	})
}

func runC16(p *chk.Prog, r *chk.Report) {
	// the first UPDATEs of a connection carry the session's own ASN as every later one does (FULL-RESEND / DIFF, shared with C17)
	c17Diff(p, r)
	c16OpenFields(p, r)
	c16Layout(p, r)
	c16Open(p, r)
	c16Attrs(p, r)
	c16Prefix(p, r)
	c16Narrow(p, r)
	c16Read(p, r)
	c16Validated(p, r)
	c16Negotiated(p, r)
	c16Tolerant(p, r)
	c16ReadAhead(p, r)
	c16CapsSticky(p, r)
	c16WireIndex(p, r)
	c16ReadToEnd(p, r)
	c16ParamsReadonly(p, r)
	// the NEXT_HOP put on the wire is the address the session actually speaks from (ROUND-ATOMIC next-hop part, shared
	// with C17): the local address of the established connection, not a configured value
	c17RoundAtomic(p, r)
}

// c16WireIndex: what a peer sends is never used to index a fixed table without a bounds test. The decoding functions of
// the package (read*, consume*) index or slice arrays, slices and strings only with constants, with the key of a range
// over that same operand, or behind a comparison of that very index with the operand's length: a code or length octet
// taken from the wire that is larger than the table panics the speaker - every session of the node goes down at the
// peer's will.
func c16WireIndex(p *chk.Prog, r *chk.Report) {
	x := r.Rule("WIRE-INDEX", "B path", "in package native the functions that decode what the peer sent (read*, consume*) index or slice an array, slice or string only with constant indices, with the key of a range loop over the same operand, or behind a comparison of the index with len of the operand (maps are exempt: a missing key is not a fault)", 0)
	nFn := 0
	for _, f := range p.FuncsIn(natPkg) {
		if f.Body == nil || f.Decl == nil {
			continue
		}
		name := f.Decl.Name.Name
		if !strings.HasPrefix(name, "read") && !strings.HasPrefix(name, "consume") {
			continue
		}
		nFn++
		r.Saw(f)
		g := f.Graph()
		indexable := func(e ast.Expr) bool {
			t := f.Info().TypeOf(e)
			if t == nil {
				return false
			}
			switch u := t.Underlying().(type) {
			case *types.Array, *types.Slice:
				return true
			case *types.Pointer:
				_, isArr := u.Elem().Underlying().(*types.Array)
				return isArr
			case *types.Basic:
				return u.Info()&types.IsString != 0
			}
			return false
		}
		check := func(at ast.Node, operand, idx ast.Expr) {
			if idx == nil || f.ConstVal(idx) != nil {
				return
			}
			// the key of a range over the operand
			if id, isId := ast.Unparen(idx).(*ast.Ident); isId {
				for _, rs := range f.RangeLoops(func(e ast.Expr) bool { return f.SameExpr(e, operand) }) {
					if k, isK := rs.Key.(*ast.Ident); isK && f.ObjOf(k) == f.ObjOf(id) && chk.InBody(rs, at) {
						return
					}
				}
			}
			site := g.FactSite(idx)
			isIdx := func(e ast.Expr) bool { return f.SameValue(e, idx) || f.SameExpr(e, idx) }
			isLen := func(e ast.Expr) bool {
				if c := f.ConstVal(e); c != nil {
					return true // compared with a constant bound (the table's length is a constant too)
				}
				b := f.MatchNew("len(X)", e)
				return b != nil && f.SameExpr(b["X"], operand)
			}
			bounded := site.B != nil && (g.Dominated(site, chk.GCompare(true, token.LSS, isIdx, isLen)) || g.Dominated(site, chk.GCompare(true, token.LEQ, isIdx, isLen)))
			x.Check(name+":index-bounded@"+f.Src(operand), at.Pos(), bounded, "", "a value decoded from the peer's message indexes "+f.Src(operand)+" without a bounds test: a larger value than the table holds panics the process (every BGP session of the node drops)")
		}
		chk.InspectNoLit(f.Body, func(n ast.Node) bool {
			switch v := n.(type) {
			case *ast.IndexExpr:
				if indexable(v.X) {
					check(v, v.X, v.Index)
				}
			case *ast.SliceExpr:
				if indexable(v.X) {
					check(v, v.X, v.Low)
					check(v, v.X, v.High)
				}
			}
			return true
		})
	}
	x.Check("decoders-found", token.NoPos, nFn >= 4, "", "fewer read*/consume* functions than on the confirmed tree")
}

// c16CapsSticky: what readOpen reports about the peer's capabilities is the union over the capabilities the OPEN
// carries: a flag, once set by one capability, is not cleared by a later one (a second multiprotocol capability for the
// same AFI with another SAFI is legal).
func c16CapsSticky(p *chk.Prog, r *chk.Report) {
	x := r.Rule("CAPS-UNION", "B path", "in readCapabilities (and readOptions) the boolean fields of the result (fbasn, mp4, mp6) are only ever assigned the constant true", 3)
	n := 0
	for _, name := range []string{"readCapabilities", "readOptions"} {
		f := p.LookupFunc(natPkg, "", name)
		if f == nil {
			continue
		}
		res := f.ParamNamed("ret")
		if res == nil {
			res = f.Param(1)
		}
		// the flags collected in a scratch value that is stored through the result pointer as a whole (`*ret = caps`):
		// the scratch value must start as the whole of what was collected so far (`caps := *ret`), and its flags are
		// held to the same rule; a scratch value seeded field by field drops the flags of the earlier parameters
		scratch := map[types.Object]bool{}
		ast.Inspect(f.Body, func(nd ast.Node) bool {
			as, ok := nd.(*ast.AssignStmt)
			if !ok || len(as.Lhs) != 1 || len(as.Rhs) != 1 || res == nil {
				return true
			}
			st, isStar := ast.Unparen(as.Lhs[0]).(*ast.StarExpr)
			if !isStar || f.ObjOf(st.X) != types.Object(res) {
				return true
			}
			okWhole := false
			if id, isId := ast.Unparen(as.Rhs[0]).(*ast.Ident); isId {
				if o := f.ObjOf(id); o != nil {
					defs := assignsTo(f, o)
					okWhole = len(defs) == 1
					for _, d := range defs {
						da, isAs := d.(*ast.AssignStmt)
						if !isAs || len(da.Lhs) != 1 || len(da.Rhs) != 1 || f.MatchWith("*R", da.Rhs[0], chk.H("R", f.IsObj(res))) == nil {
							okWhole = false
						}
					}
					if okWhole {
						scratch[o] = true
					}
				}
			}
			x.Check(name+":whole-result-store", as.Pos(), okWhole, "", "the result is overwritten as a whole with a value that does not start from everything collected so far: the capability flags established by an earlier optional parameter of the OPEN are lost (RFC 5492 allows one capability per parameter)")
			return true
		})
		ast.Inspect(f.Body, func(nd ast.Node) bool {
			as, ok := nd.(*ast.AssignStmt)
			if !ok || len(as.Lhs) != len(as.Rhs) {
				return true
			}
			for i, l := range as.Lhs {
				sel, isSel := ast.Unparen(l).(*ast.SelectorExpr)
				if !isSel || res == nil || (f.RootObj(sel.X) != types.Object(res) && !scratch[f.RootObj(sel.X)]) {
					continue
				}
				if t := f.Info().TypeOf(l); t == nil || !types.Identical(t.Underlying(), types.Typ[types.Bool]) {
					continue
				}
				n++
				x.Check(name+":"+sel.Sel.Name+":only-set", as.Pos(), f.IsConstBool(as.Rhs[i], true), "", "a capability flag is assigned something other than true: a later capability of the OPEN can clear what an earlier one established (the OPEN is then mis-reported)")
			}
			return true
		})
	}
	x.Check("capability-flags-found", 0, n >= 3, "", "expected the assignments of fbasn, mp4 and mp6")
}

// c16ReadAhead: the decoders take from the connection exactly the bytes of the message they decode. The reader they
// are given is the connection itself, and whatever follows the OPEN (the peer's KEEPALIVE, then UPDATEs) is read by
// somebody else later: a consumer that reads ahead (a bufio.Reader, io.ReadAll) swallows those bytes.
func c16ReadAhead(p *chk.Prog, r *chk.Report) {
	x := r.Rule("NO-READAHEAD", "D ownership (who may consume)", "in package internal/bgp/native every io.Reader / io.ReadCloser parameter is consumed only by exact reads: binary.Read, io.ReadFull, io.ReadAtLeast, io.CopyN, its own Read/Close method, as the R of an io.LimitedReader / io.LimitReader, or handed to another function of the package (checked in turn); it is never reassigned", 5)
	exact := map[string]bool{"encoding/binary.Read": true, "io.ReadFull": true, "io.ReadAtLeast": true, "io.CopyN": true, "io.LimitReader": true}
	n := 0
	for _, f := range p.FuncsIn(natPkg) {
		if f.Decl == nil || f.Body == nil {
			continue
		}
		for i := 0; ; i++ {
			pv := f.Param(i)
			if pv == nil {
				break
			}
			nm, isNamed := types.Unalias(pv.Type()).(*types.Named)
			if !isNamed || nm.Obj().Pkg() == nil || nm.Obj().Pkg().Path() != "io" || (nm.Obj().Name() != "Reader" && nm.Obj().Name() != "ReadCloser") {
				continue
			}
			n++
			bad := ""
			// the reader under its other names: `r := io.Reader(conn)`, `r := conn`
			tracked := map[types.Object]bool{pv: true}
			for changed := true; changed; {
				changed = false
				ast.Inspect(f.Body, func(nd ast.Node) bool {
					as, isAs := nd.(*ast.AssignStmt)
					if !isAs || len(as.Lhs) != len(as.Rhs) {
						return true
					}
					for i, l := range as.Lhs {
						lid, isId := l.(*ast.Ident)
						if !isId || tracked[f.ObjOf(lid)] || f.ObjOf(lid) == nil {
							continue
						}
						if src := readerAlias(f, as.Rhs[i]); src != nil && tracked[f.ObjOf(src)] {
							tracked[f.ObjOf(lid)] = true
							changed = true
						}
					}
					return true
				})
			}
			var stack []ast.Node
			ast.Inspect(f.Body, func(nd ast.Node) bool {
				if nd == nil {
					stack = stack[:len(stack)-1]
					return true
				}
				stack = append(stack, nd)
				id, isId := nd.(*ast.Ident)
				if !isId || !tracked[f.ObjOf(id)] || len(stack) < 2 {
					return true
				}
				k := len(stack) - 2
				for k > 0 {
					if _, isP := stack[k].(*ast.ParenExpr); !isP {
						break
					}
					k--
				}
				switch par := stack[k].(type) {
				case *ast.CallExpr:
					if par.Fun == ast.Expr(id) {
						return true
					}
					if tv, has := f.Info().Types[par.Fun]; has && tv.IsType() {
						return true // a conversion: followed as another name of the reader above
					}
					fo, _ := f.Callee(par).(*types.Func)
					switch {
					case fo == nil:
						bad = "an indirect call"
					case exact[fo.FullName()]:
					case fo.Pkg() != nil && fo.Pkg().Path() == chk.Module+"/"+natPkg:
					default:
						bad = fo.FullName()
					}
				case *ast.SelectorExpr:
					if par.X != ast.Expr(id) || (par.Sel.Name != "Read" && par.Sel.Name != "Close") {
						bad = "." + par.Sel.Name
					}
				case *ast.KeyValueExpr:
					ok := false
					if k >= 1 {
						if cl, isCl := stack[k-1].(*ast.CompositeLit); isCl {
							if t := f.Info().TypeOf(cl); t != nil && strings.HasSuffix(t.String(), "io.LimitedReader") {
								ok = true
							}
						}
					}
					if !ok {
						bad = "a composite literal"
					}
				case *ast.AssignStmt:
					for _, l := range par.Lhs {
						if l == ast.Expr(id) && par.Tok != token.DEFINE {
							// re-binding a tracked name to anything but another name of the reader
							for i, l2 := range par.Lhs {
								if l2 == l && i < len(par.Rhs) {
									if src := readerAlias(f, par.Rhs[i]); src == nil || !tracked[f.ObjOf(src)] {
										bad = "a reassignment of the reader"
									}
								}
							}
						}
					}
				case *ast.BinaryExpr: // r == nil, s.conn == conn
				default:
					bad = fmt.Sprintf("%T", par)
				}
				return true
			})
			x.Check(f.Name()+":"+pv.Name()+":exact-reads-only", f.Pos(), bad == "", "", "the connection's reader is consumed through "+bad+", which is not known to take exactly the bytes it returns (a buffering reader reads ahead: the bytes that follow this message on the connection are lost to the next reader)")
		}
	}
	r.CallSites += n
}

// c16Negotiated: what the peer's OPEN negotiated is per connection. The session object survives reconnects, so every
// successful connect must overwrite the negotiated state from the OPEN it has just read; and the BGP identifier written
// into our OPEN is the 4-byte form of the router id.
func c16Negotiated(p *chk.Prog, r *chk.Report) {
	x := r.Rule("NEGOTIATED", "B path", "in (*session).connect every path to the success return assigns s.peerFBASNSupport = op.fbasn (unconditionally: the flag selects the AS_PATH encoding of every later UPDATE) and s.actualHoldTime; in sendOpen the bytes copied into msg.RouterID are routerID.To4()", 3)
	f := need(x, p, natPkg, "session", "connect")
	if f != nil {
		g := f.Graph()
		op := definedByIdx(g, f, "readOpen(C)", 0)
		isOK := func(n ast.Node) bool {
			rs, ok := n.(*ast.ReturnStmt)
			return ok && len(rs.Results) == 1 && f.IsNilLit(rs.Results[0])
		}
		w := g.MustPass(chk.Site{}, isOK, false, f.IsAssignPat("RECV.peerFBASNSupport", "OP.fbasn", chk.H("OP", op)))
		x.Check("connect:fbasn-from-this-open", posOf(w, f), !w.Found, "", "a connection can be established without taking the 4-byte-ASN capability from the OPEN just read: the session keeps what an earlier connection negotiated and encodes the AS_PATH in the wrong width")
		for _, s := range g.Find(func(n ast.Node) bool {
			as, ok := n.(*ast.AssignStmt)
			return ok && len(as.Lhs) == 1 && f.MatchNew("RECV.peerFBASNSupport", as.Lhs[0]) != nil
		}) {
			as := s.Node.(*ast.AssignStmt)
			x.Check("connect:fbasn-only-from-open", s.Pos(), f.MatchWith("OP.fbasn", as.Rhs[0], chk.H("OP", op)) != nil, "", "peerFBASNSupport is set from something other than the peer's OPEN")
		}
		w2 := g.MustPass(chk.Site{}, isOK, false, func(n ast.Node) bool {
			as, ok := n.(*ast.AssignStmt)
			return ok && len(as.Lhs) == 1 && f.MatchNew("RECV.actualHoldTime", as.Lhs[0]) != nil
		})
		x.Check("connect:holdtime-renegotiated", posOf(w2, f), !w2.Found, "", "a connection can be established without renegotiating the hold time")
	}
	so := need(x, p, natPkg, "", "sendOpen")
	if so != nil {
		g := so.Graph()
		rid := isParam(so, "routerID")
		cps := g.FindPat("copy(M.RouterID[:], SRC)")
		ok := len(cps) == 1
		for _, c := range cps {
			src := c.Node.(*ast.CallExpr).Args[1]
			ok = ok && so.MatchWith("R.To4()", so.Resolve(src), chk.H("R", rid)) != nil
		}
		if !ok && len(cps) == 0 {
			// the identifier given in the message literal as the array conversion of the 4-byte form: RouterID:
			// [4]byte(routerID.To4()) (Go 1.20 slice-to-array conversion: panics on a short slice, never pads)
			n := 0
			ast.Inspect(so.Body, func(nd ast.Node) bool {
				kv, isKV := nd.(*ast.KeyValueExpr)
				if !isKV {
					return true
				}
				if k, isId := kv.Key.(*ast.Ident); !isId || k.Name != "RouterID" {
					return true
				}
				n++
				if b := so.MatchNew("[4]byte(SRC)", ast.Unparen(kv.Value)); b != nil && so.MatchWith("R.To4()", so.Resolve(b["SRC"]), chk.H("R", rid)) != nil {
					ok = true
				}
				// ... or as the 32-bit number those four bytes are in network order (written big-endian again)
				if b := so.MatchNew("binary.BigEndian.Uint32(SRC)", ast.Unparen(kv.Value)); b != nil && so.MatchWith("R.To4()", so.Resolve(b["SRC"]), chk.H("R", rid)) != nil {
					ok = true
				}
				return true
			})
			ok = ok && n == 1 && len(g.Find(func(nd ast.Node) bool {
				as, isAs := nd.(*ast.AssignStmt)
				return isAs && len(as.Lhs) == 1 && so.MatchNew("M.RouterID", as.Lhs[0]) != nil
			})) == 0
		}
		x.Check("sendOpen:router-id-is-4-byte-form", so.Pos(), ok, "", "the BGP identifier of the OPEN is not copied from routerID.To4(): a router id held in 16-byte form yields the identifier 0.0.0.0")
	}
}

// writesTo: node contains a write into buffer b (b.Write*, binary.Write(&b,…), a
// call of a module function that is handed &b or b).
func writesTo(f *chk.Fn, buf types.Object) func(ast.Node) bool {
	// handed over as the buffer itself (b, &b), not as something computed from it (b.Len(), b.Bytes())
	isBuf := func(a ast.Expr) bool {
		a = ast.Unparen(a)
		if u, ok := a.(*ast.UnaryExpr); ok && u.Op == token.AND {
			a = ast.Unparen(u.X)
		}
		switch a.(type) {
		case *ast.Ident, *ast.SelectorExpr:
			return f.RootObj(a) == buf
		}
		return false
	}
	return func(n ast.Node) bool {
		found := false
		chk.InspectNoLit(n, func(m ast.Node) bool {
			c, ok := m.(*ast.CallExpr)
			if !ok {
				return true
			}
			if sel, ok := c.Fun.(*ast.SelectorExpr); ok && f.RootObj(sel.X) == buf && strings.HasPrefix(sel.Sel.Name, "Write") && sel.Sel.Name != "WriteTo" {
				found = true
			}
			for _, a := range c.Args {
				if isBuf(a) {
					if fn, ok := f.Callee(c).(*types.Func); ok {
						full := fn.FullName()
						if full == "encoding/binary.Write" || strings.HasPrefix(full, chk.Module) {
							found = true
						}
					}
				}
			}
			return true
		})
		return found
	}
}

func c16Layout(p *chk.Prog, r *chk.Report) {
	x := r.Rule("LAYOUT-1", "F layout agreement", "in sendUpdate and sendWithdraw: the buffer's first write is binary.Write(&b, BigEndian, hdr); every binary.BigEndian.PutUint16(b.Bytes()[i:j], v) addresses exactly the bytes of a uint16 field of hdr's struct type (offsets from the packed layout); [Len] receives IntToUInt16(b.Len()) and no write to b follows it before io.Copy(w, &b); [AttrLen] (sendUpdate) receives IntToUInt16(b.Len() - l) with l taken after the header and before encodePathAttrs, measured after encodePathAttrs and before encodePrefixes; [WdrLen] (sendWithdraw) likewise around encodePrefixes and before the trailing attribute length", 10)
	for _, name := range []string{"sendUpdate", "sendWithdraw"} {
		f := need(x, p, natPkg, "", name)
		if f == nil {
			continue
		}
		g := f.Graph()
		// header write
		hw := g.FindPat("binary.Write(&B, binary.BigEndian, H)")
		if len(hw) < 1 {
			x.Fail(name+":header-write", f.Pos(), "no binary.Write(&b, BigEndian, hdr)")
			continue
		}
		first := hw[0]
		for _, h := range hw {
			if h.Pos() < first.Pos() {
				first = h
			}
		}
		call := first.Node.(*ast.CallExpr)
		buf := f.RootObj(call.Args[0])
		ht := f.Info().TypeOf(call.Args[2])
		lay := chk.PackedLayout(ht)
		if buf == nil || lay == nil {
			x.Fail(name+":header-layout", first.Pos(), "header is not a fixed-size struct")
			continue
		}
		isWrite := writesTo(f, buf)
		// first write to the buffer
		w0 := g.MustPass(chk.Site{}, func(n ast.Node) bool { return n != first.Top && isWrite(n) }, false, func(n ast.Node) bool { return n == first.Top })
		x.Check(name+":header-written-first", first.Pos(), !w0.Found, "", "something is written to the buffer before the header struct (all offsets shift)")
		byOff := map[[2]int]chk.FieldLayout{}
		for _, l := range lay {
			byOff[[2]int{l.Offset, l.Offset + l.Size}] = l
		}
		puts := g.FindPat("binary.BigEndian.PutUint16(B.Bytes()[I:J], V)", chk.H("B", f.IsObj(buf)))
		if len(puts) == 0 {
			// no length is patched afterwards: the sections are encoded first and the header is built with its lengths
			if c16PrecomputedLengths(x, p, f, g, name, buf, first, ht, lay) {
				x.OK(name+":total-length-patched", f.Pos(), "the lengths are computed before the header is written (decided above)")
				continue
			}
		}
		seenLen := false
		for _, s := range puts {
			b := f.MatchNew("binary.BigEndian.PutUint16(B.Bytes()[I:J], V)", s.Node.(ast.Expr))
			i, oki := constInt(f, b["I"])
			j, okj := constInt(f, b["J"])
			fl, okf := byOff[[2]int{i, j}]
			key := fmt.Sprintf("%s:patch[%d:%d]", name, i, j)
			if !oki || !okj || !okf || fl.Size != 2 {
				x.Fail(key+":field", s.Pos(), fmt.Sprintf("bytes [%d:%d] are not a uint16 field of the header struct %s", i, j, describeLayout(lay)))
				continue
			}
			key = name + ":patch[" + fl.Name + "]"
			x.OK(key+":field", s.Pos(), "")
			leaf := fl.Name // the field of a nested header struct counts by its own name
			if i := strings.LastIndexByte(leaf, '.'); i >= 0 {
				leaf = leaf[i+1:]
			}
			switch leaf {
			case "Len":
				seenLen = true
				okv := definedBy(g, "safeconvert.IntToUInt16(B.Len())", chk.H("B", f.IsObj(buf)))(b["V"])
				w := (&chk.Walk{G: g, From: s, Hit: isWrite, Stop: sendsBuffer(f, buf)}).Run()
				// the value is measured after the last write before the patch
				vid, _ := ast.Unparen(b["V"]).(*ast.Ident)
				okOrder := false
				if vid != nil {
					if rhs, _ := g.DefOf(vid, s); rhs != nil {
						ds := g.FactSite(rhs)
						if cv := f.MatchNew("safeconvert.IntToUInt16(X)", rhs); cv != nil && !okv {
							// the measure taken into a local first: `v := b.Len(); n, err := IntToUInt16(v)`
							if m := throughLocals(g, cv["X"]); m != cv["X"] && f.MatchWith("B.Len()", m, chk.H("B", f.IsObj(buf))) != nil {
								okv = true
								ds = g.FactSite(m)
							}
						}
						w2 := (&chk.Walk{G: g, From: ds, Hit: isWrite, Stop: func(n ast.Node) bool { return n == s.Top }}).Run()
						okOrder = !w2.Found
					}
				}
				x.Check(key+":total-length-final", s.Pos(), okv && !w.Found && okOrder, "", "the message length is not b.Len() measured after the last byte was appended (or bytes are appended after it was patched)")
				wc := g.MustPass(s, nil, true, func(n ast.Node) bool {
					return sendsBuffer(f, buf)(n) || isErrReturn(f, n)
				})
				x.Check(key+":then-sent", s.Pos(), !wc.Found, "", "the patched buffer is not written to the connection")
			case "AttrLen", "WdrLen":
				section := "encodePathAttrs"
				after := "encodePrefixes"
				if leaf == "WdrLen" {
					section, after = "encodePrefixes", ""
				}
				vb := ast.Expr(nil)
				if vid, ok := ast.Unparen(b["V"]).(*ast.Ident); ok {
					vb, _ = g.DefOf(vid, s)
				}
				mb := f.MatchNew("safeconvert.IntToUInt16(B.Len() - L)", vb)
				if cv := f.MatchNew("safeconvert.IntToUInt16(X)", vb); cv != nil && mb == nil {
					// the measure taken into a local first: `v := b.Len() - l; n, err := IntToUInt16(v)`
					if m := throughLocals(g, cv["X"]); m != cv["X"] {
						if mb = f.MatchNew("B.Len() - L", m); mb != nil {
							vb = m
						}
					}
				}
				okv := mb != nil && f.ObjOf(mb["B"]) == buf
				if okv {
					lid, _ := ast.Unparen(mb["L"]).(*ast.Ident)
					lrhs, _ := g.DefOf(lid, g.FactSite(lid))
					okv = lid != nil && lrhs != nil && f.MatchWith("B.Len()", lrhs, chk.H("B", f.IsObj(buf))) != nil
					if okv {
						lsite := g.FactSite(lrhs)
						msite := g.FactSite(vb)
						isSection := f.ContainsPat(section + "(&B, ETC)")
						// l is taken after the header and before the section; the measure after the section and before the next section
						w1 := (&chk.Walk{G: g, From: first, Hit: func(n ast.Node) bool { return isWrite(n) }, Stop: func(n ast.Node) bool { return n == lsite.Top }}).Run()
						w2 := g.MustPass(lsite, func(n ast.Node) bool { return n == msite.Top }, false, isSection)
						w3 := (&chk.Walk{G: g, From: lsite, Hit: func(n ast.Node) bool { return isWrite(n) && !isSection(n) }, Stop: func(n ast.Node) bool { return n == msite.Top }}).Run()
						okv = !w1.Found && !w2.Found && !w3.Found
						if after != "" {
							w4 := g.MustPass(chk.Site{}, f.ContainsPat(after+"(&B, ETC)"), false, func(n ast.Node) bool { return n == msite.Top })
							okv = okv && !w4.Found
						}
					}
				}
				x.Check(key+":section-length", s.Pos(), okv, "", fl.Name+" is not the number of bytes appended by "+section+" alone (measured as b.Len() - l around exactly that section)")
			default:
				x.Fail(key+":unexpected", s.Pos(), "a header field other than a length is patched")
			}
		}
		x.Check(name+":total-length-patched", f.Pos(), seenLen, "", "the total message length is never patched into the header")
		// every error of a checked conversion returns
	}
}

func isErrReturn(f *chk.Fn, n ast.Node) bool {
	rs, ok := n.(*ast.ReturnStmt)
	return ok && len(rs.Results) == 1 && !f.IsNilLit(rs.Results[0])
}

// errorAlwaysReturned: the error value defined by an expression that `from` accepts is compared with nil, and every
// branch on which it is not nil ends by returning an error. A branch may also hand the error to the result variable of
// an expanded helper (`_inlNrK = err; goto L`): the obligation then moves to that variable.
func errorAlwaysReturned(f *chk.Fn, g *chk.Graph, from func(rhs ast.Expr) bool, depth int) bool {
	if depth > 3 {
		return false
	}
	es := g.EdgesImplying(chk.GFunc(func(ft chk.Fact) bool {
		xx, yy, eq, ok := chk.EqParts(ft)
		if !ok || eq {
			return false
		}
		var other ast.Expr
		switch {
		case f.IsNilLit(yy):
			other = xx
		case f.IsNilLit(xx):
			other = yy
		default:
			return false
		}
		id, isID := ast.Unparen(other).(*ast.Ident)
		if !isID {
			return false
		}
		rhs, _ := g.DefOf(id, g.FactSite(id))
		return rhs != nil && from(rhs)
	}))
	if len(es) == 0 {
		return false
	}
	for _, e := range es {
		if !branchRefuses(f, g, e, depth) {
			return false
		}
	}
	return true
}

// branchRefuses: every path from the edge ends by returning an error, or hands a non-nil error to the result variable
// of an expanded helper (`_inlNrK = err; goto L`, also as one position of a tuple assignment) whose non-nil value is in
// turn always returned.
func branchRefuses(f *chk.Fn, g *chk.Graph, e chk.Edge, depth int) bool {
	if depth > 3 {
		return false
	}
	handedOn := map[types.Object]bool{}
	if g.BranchAlways(e, func(n ast.Node) bool {
		if isErrReturn(f, n) {
			return true
		}
		if as, isAs := n.(*ast.AssignStmt); isAs && as.Tok == token.ASSIGN && len(as.Lhs) == len(as.Rhs) {
			for i := range as.Lhs {
				if l, isId := as.Lhs[i].(*ast.Ident); isId && inlineResult.MatchString(l.Name) && !f.IsNilLit(as.Rhs[i]) && isErrorTyped(f, as.Rhs[i]) {
					handedOn[f.ObjOf(l)] = true
					return true
				}
			}
		}
		return false
	}).Found {
		return false
	}
	for o := range handedOn {
		o := o
		if !errorAlwaysReturned(f, g, func(rhs ast.Expr) bool {
			id, isId := ast.Unparen(rhs).(*ast.Ident)
			return isId && f.ObjOf(id) == o
		}, depth+1) {
			return false
		}
	}
	return true
}

var inlineResult = regexp.MustCompile(`^_inl[0-9]+_[0-9]+r[0-9]+$`)

func isErrorTyped(f *chk.Fn, e ast.Expr) bool {
	t := f.Info().TypeOf(e)
	return t != nil && types.Identical(t, types.Universe.Lookup("error").Type())
}

// throughLocals follows e, a local with one reaching definition, to the expression that defines it (repeatedly).
func throughLocals(g *chk.Graph, e ast.Expr) ast.Expr {
	for i := 0; i < 4; i++ {
		id, ok := ast.Unparen(e).(*ast.Ident)
		if !ok {
			return e
		}
		rhs, idx := g.DefOf(id, g.FactSite(id))
		if rhs == nil || idx != 0 {
			return e
		}
		e = rhs
	}
	return e
}

func constInt(f *chk.Fn, e ast.Expr) (int, bool) {
	if e == nil {
		return 0, false
	}
	c := f.ConstVal(e)
	if c == nil || c.Kind() != constant.Int {
		return 0, false
	}
	v, ok := constant.Int64Val(c)
	return int(v), ok
}

func describeLayout(lay []chk.FieldLayout) string {
	var s []string
	for _, l := range lay {
		s = append(s, fmt.Sprintf("%s@%d+%d", l.Name, l.Offset, l.Size))
	}
	return "{" + strings.Join(s, " ") + "}"
}

// msgLiteral finds the struct composite literal that is written by f.
func msgLiteral(f *chk.Fn) *ast.CompositeLit {
	var lit *ast.CompositeLit
	ast.Inspect(f.Body, func(n ast.Node) bool {
		cl, ok := n.(*ast.CompositeLit)
		if !ok {
			return true
		}
		if lit != nil {
			return true
		}
		if _, isStruct := cl.Type.(*ast.StructType); isStruct {
			lit = cl
			return true
		}
		// a named struct type of this package (the anonymous struct given a name)
		if tv, ok := f.Info().Types[cl]; ok && tv.Type != nil {
			if nt, isNamed := tv.Type.(*types.Named); isNamed && nt.Obj().Pkg() == f.Pkg.Types {
				if _, isStruct := nt.Underlying().(*types.Struct); isStruct {
					lit = cl
				}
			}
		}
		return true
	})
	return lit
}

func c16Open(p *chk.Prog, r *chk.Report) {
	x := r.Rule("CONST-HDR", "F layout agreement", "every message struct literal (sendOpen, sendUpdate, sendWithdraw, sendKeepalive) starts with 16 bytes 0xff, a 2-byte length and a constant type byte (1 OPEN, 2 UPDATE, 4 KEEPALIVE); sendKeepalive's constant length equals the packed size of its struct (19)", 4)
	types_ := map[string]int{"sendOpen": 1, "sendUpdate": 2, "sendWithdraw": 2, "sendKeepalive": 4}
	for name, want := range types_ {
		f := need(x, p, natPkg, "", name)
		if f == nil {
			continue
		}
		lit := msgLiteral(f)
		if lit == nil && name == "sendKeepalive" {
			// the constant message kept as its wire bytes: w.Write(K[:]) of a package-level byte array that nothing writes
			if tmpl, pos, okT := constBytesWritten(p, f); okT {
				ok := len(tmpl) == 19 && tmpl[16] == 0 && tmpl[17] == 19 && tmpl[18] == want
				for i := 0; i < 16 && ok; i++ {
					ok = tmpl[i] == 0xff
				}
				x.Check(name+":header", pos, ok, "", "the message header is not {16 x 0xff, length, type "+itoa(want)+"} (for KEEPALIVE: length = packed size)")
				continue
			}
		}
		if lit == nil {
			x.Fail(name+":message-literal", f.Pos(), "no message struct literal")
			continue
		}
		tmpl, lay := f.ByteTemplate(lit)
		ok := len(tmpl) >= 19 && len(lay) >= 4
		if ok {
			for i := 0; i < 16; i++ {
				if tmpl[i] != 0xff {
					ok = false
				}
			}
			ok = ok && tmpl[18] == want && lay[2].Offset == 16 && lay[2].Size == 2
			if name == "sendKeepalive" {
				ok = ok && tmpl[16] == 0 && tmpl[17] == len(tmpl) && len(tmpl) == 19
			}
		}
		x.Check(name+":header", lit.Pos(), ok, "", "the message header is not {16 x 0xff, length, type "+itoa(want)+"} (for KEEPALIVE: length = packed size)")
	}
	y := r.Rule("TLV-1", "F layout agreement (constant folding)", "the OPEN struct literal of sendOpen, folded into a byte template (constants big-endian, other fields holes) and walked as RFC 4271 OPEN {version, AS, hold, id, optlen, options{type, len, capabilities{code, len, value}}}, has optlen = bytes of all options, each option length = bytes of its capabilities, each capability length = bytes of its value, no length byte is a hole, and the walk ends exactly at the end of the struct; msg.Len is assigned IntToUInt16(binary.Size(msg)) before the write; the write is binary.Write(w, BigEndian, msg)", 3)
	f := need(y, p, natPkg, "", "sendOpen")
	if f == nil {
		return
	}
	g := f.Graph()
	lit := msgLiteral(f)
	if lit == nil {
		y.Fail("sendOpen:message-literal", f.Pos(), "no message struct literal")
		return
	}
	tmpl, _ := f.ByteTemplate(lit)
	why := walkOpen(tmpl)
	y.Check("sendOpen:option-and-capability-lengths", lit.Pos(), why == "", "", "OPEN template: "+why)
	// capabilities advertised: MP IPv4 unicast, MP IPv6 unicast, 4-byte ASN
	caps := openCaps(tmpl)
	y.Check("sendOpen:capabilities", lit.Pos(), caps["1:0,1,0,1"] && caps["1:0,2,0,1"] && caps["65:?"], "", "the OPEN does not advertise multiprotocol IPv4/IPv6 unicast and the 4-byte ASN capability")
	msg := ast.Expr(nil)
	for _, s := range g.FindPat("binary.Write(W, binary.BigEndian, M)", chk.H("W", isParamIdx(f, 0))) {
		msg = s.Node.(*ast.CallExpr).Args[2]
		ls := g.Find(func(n ast.Node) bool {
			as, ok := n.(*ast.AssignStmt)
			return ok && len(as.Lhs) == 2 && len(as.Rhs) == 1 && f.MatchWith("M.Len", as.Lhs[0], chk.H("M", func(e ast.Expr) bool { return f.SameExpr(e, msg) })) != nil &&
				f.MatchWith("safeconvert.IntToUInt16(binary.Size(M))", as.Rhs[0], chk.H("M", func(e ast.Expr) bool { return f.SameExpr(e, msg) })) != nil
		})
		ok := len(ls) == 1 && definedByLit(f, g, msg, lit)
		if ok {
			w := g.MustPass(chk.Site{}, func(n ast.Node) bool { return n == s.Top }, false, func(n ast.Node) bool { return n == ls[0].Top })
			ok = !w.Found
		}
		y.Check("sendOpen:length-is-struct-size", s.Pos(), ok, "", "the OPEN's length field is not the packed size of the struct that is written")
	}
	if msg == nil {
		y.Fail("sendOpen:write", f.Pos(), "the message is not written with binary.Write(w, BigEndian, msg)")
	}
}

func definedByLit(f *chk.Fn, g *chk.Graph, e ast.Expr, lit *ast.CompositeLit) bool {
	id, ok := ast.Unparen(e).(*ast.Ident)
	if !ok {
		return false
	}
	for _, a := range assignsTo(f, f.ObjOf(id)) {
		if as, ok := a.(*ast.AssignStmt); ok && len(as.Rhs) == 1 && ast.Unparen(as.Rhs[0]) == ast.Expr(lit) {
			return true
		}
	}
	return false
}

// walkOpen parses the byte template of an OPEN message; "" means consistent.
func walkOpen(t []int) string {
	if len(t) < 29 {
		return "shorter than 29 bytes"
	}
	if t[19] != 4 {
		return "version is not the constant 4"
	}
	optlen := t[28]
	if optlen < 0 {
		return "the optional-parameters length is not a constant"
	}
	if 29+optlen != len(t) {
		return fmt.Sprintf("optional-parameters length %d does not cover the %d bytes that follow", optlen, len(t)-29)
	}
	i := 29
	for i < len(t) {
		if i+2 > len(t) {
			return "truncated option header"
		}
		ot, ol := t[i], t[i+1]
		if ot < 0 || ol < 0 {
			return "option type/length is not a constant"
		}
		i += 2
		end := i + ol
		if end > len(t) {
			return fmt.Sprintf("option length %d runs past the end of the message", ol)
		}
		if ot != 2 {
			return fmt.Sprintf("option type %d is not Capabilities (2)", ot)
		}
		for i < end {
			if i+2 > end {
				return "truncated capability header"
			}
			cl := t[i+1]
			if t[i] < 0 || cl < 0 {
				return "capability code/length is not a constant"
			}
			i += 2 + cl
			if i > end {
				return fmt.Sprintf("capability length %d runs past the end of its option", cl)
			}
		}
	}
	if i != len(t) {
		return "options do not end at the end of the struct"
	}
	return ""
}

func openCaps(t []int) map[string]bool {
	out := map[string]bool{}
	if walkOpen(t) != "" {
		return out
	}
	i := 29
	for i < len(t) {
		end := i + 2 + t[i+1]
		i += 2
		for i < end {
			code, cl := t[i], t[i+1]
			var v []string
			hole := false
			for k := 0; k < cl; k++ {
				if t[i+2+k] < 0 {
					hole = true
				}
				v = append(v, fmt.Sprint(t[i+2+k]))
			}
			if hole {
				out[fmt.Sprintf("%d:?", code)] = true
			} else {
				out[fmt.Sprintf("%d:%s", code, strings.Join(v, ","))] = true
			}
			i += 2 + cl
		}
	}
	return out
}

// byteLit returns the constant bytes of a []byte{...} literal.
func byteLit(f *chk.Fn, e ast.Expr) []int {
	cl, ok := ast.Unparen(e).(*ast.CompositeLit)
	if !ok {
		return nil
	}
	var out []int
	for _, el := range cl.Elts {
		v, ok := constInt(f, el)
		if !ok {
			return nil
		}
		out = append(out, v)
	}
	return out
}

func c16Attrs(p *chk.Prog, r *chk.Report) {
	x := r.Rule("ATTR-TLV", "F layout agreement", "in encodePathAttrs every constant attribute header is followed by payload writes of exactly its declared length: ORIGIN len 1 + 1 byte; AS_PATH len 0 (iBGP), 6 = segment type + count + one 4-byte ASN, 4 = segment type + count + one 2-byte ASN; LOCAL_PREF len 4 + a 4-byte value; COMMUNITIES length byte = IntToUInt8(len(list) * 4) followed by one 4-byte value per element; NEXT_HOP len 4 + b.Write(nextHop) (reviewed exception: dynamically sized)", 6)
	f := need(x, p, natPkg, "", "encodePathAttrs")
	if f == nil {
		return
	}
	g := f.Graph()
	buf := isParamIdx(f, 0)
	writes := g.FindPat("B.Write(L)", chk.H("B", buf))
	sizeOfWrite := func(n ast.Node) (int, bool) {
		// a fixed-size value appended to the buffer: its packed size
		_, sz, ok := fixedWrite(f, buf, n)
		return sz, ok
	}
	nextBinaryWrite := func(from chk.Site) (int, bool) {
		// the first buffer write on every path after `from` is a binary.Write of fixed size (all paths agree)
		size, ok, first := 0, true, true
		w := &chk.Walk{G: g, From: from, Stop: func(n ast.Node) bool {
			if s, isBW := sizeOfWrite(n); isBW {
				if first {
					size, first = s, false
				} else if s != size {
					ok = false
				}
				return true
			}
			return false
		}, Hit: func(n ast.Node) bool {
			// another kind of write to b, or leaving the function, before the payload
			if f.ContainsPat("B.Write(ETC)", chk.H("B", buf))(n) || f.ContainsPat("B.WriteByte(ETC)", chk.H("B", buf))(n) {
				return true
			}
			if rs, isRet := n.(*ast.ReturnStmt); isRet && len(rs.Results) == 1 && f.IsNilLit(rs.Results[0]) {
				return true
			}
			return false
		}}
		if w.Run().Found || first {
			return 0, false
		}
		return size, ok
	}
	seen := map[string]bool{}
	for _, s := range writes {
		bs := byteLit(f, s.Node.(*ast.CallExpr).Args[0])
		if bs == nil {
			continue
		}
		switch {
		case len(bs) == 6 && bs[0] == 0x40 && bs[1] == 1:
			// ORIGIN {0x40,1,1,v} then AS_PATH header {0x40,2}
			seen["origin"] = true
			x.Check("attrs:ORIGIN", s.Pos(), bs[2] == 1 && bs[4] == 0x40 && bs[5] == 2, "", "ORIGIN is not {flags 0x40, type 1, len 1, one value byte} followed by the AS_PATH header")
		case len(bs) == 3 && bs[1] == 2 && bs[2] == 1:
			// AS_PATH body {len, AS_SEQUENCE, count=1} + one ASN
			sz, ok := nextBinaryWrite(s)
			tag := "as2"
			if bs[0] == 6 {
				tag = "as4"
			}
			seen[tag] = true
			x.Check("attrs:AS_PATH("+tag+")", s.Pos(), ok && bs[0] == 2+sz, "", fmt.Sprintf("AS_PATH declares length %d but carries segment header (2) + a %d-byte ASN", bs[0], sz))
		case len(bs) == 3 && bs[0] == 0x40 && bs[1] == 5:
			seen["localpref"] = true
			sz, ok := nextBinaryWrite(s)
			x.Check("attrs:LOCAL_PREF", s.Pos(), ok && bs[2] == sz && sz == 4, "", fmt.Sprintf("LOCAL_PREF declares length %d but a %d-byte value follows", bs[2], sz))
		case len(bs) == 3 && bs[0] == 0x40 && bs[1] == 3:
			seen["nexthop"] = true
			// reviewed exception: payload is b.Write(nextHop)
			nh := g.FindPat("B.Write(NH)", chk.H("B", buf), chk.H("NH", isParam(f, "nextHop")))
			ok := bs[2] == 4 && len(nh) == 1
			if ok {
				w := (&chk.Walk{G: g, From: s, Stop: func(n ast.Node) bool { return n == nh[0].Top }, Hit: writesToParam(f, buf)}).Run()
				ok = !w.Found
			}
			x.Check("attrs:NEXT_HOP", s.Pos(), ok, "", "NEXT_HOP is not {0x40, 3, 4} immediately followed by the next-hop address")
		case len(bs) == 2 && bs[0] == 0xc0 && bs[1] == 8:
			seen["communities"] = true
			// length byte then 4 bytes per element of the same list
			var list types.Object
			okLen := false
			for _, c := range g.FindPat("safeconvert.IntToUInt8(len(L) * 4)") {
				list = f.ObjOf(f.MatchNew("safeconvert.IntToUInt8(len(L) * 4)", c.Node.(ast.Expr))["L"])
			}
			if list != nil {
				sz, ok := nextBinaryWrite(s)
				okLen = ok && sz == 1
				nWriters := 0
				direct := false // the length is taken from the advertisement's own list: nothing to fill
				if v, isVar := list.(*types.Var); isVar && v.IsField() && v.Name() == "Communities" {
					direct = true
				}
				for _, rs := range f.RangeLoops(f.IsObj(list)) {
					el := rangeVal(f, rs)
					// the element itself, or its 32-bit form taken through the legacy type (c.(BGPCommunityLegacy).ToUint32())
					fromEl := func(v ast.Expr) bool {
						if el(v) {
							return true
						}
						b := f.MatchNew("X.ToUint32()", ast.Unparen(f.Resolve(v)))
						if b == nil {
							return false
						}
						x := ast.Unparen(f.Resolve(b["X"]))
						if ta, isTA := x.(*ast.TypeAssertExpr); isTA {
							x = ta.X
						}
						return el(x)
					}
					wsize := -1
					wr := func(n ast.Node) bool {
						found := false
						chk.InspectNoLit(n, func(m ast.Node) bool {
							if v, _, ok := fixedWrite(f, buf, m); ok && fromEl(v) {
								found = true
								wsize = chk.PackedSize(f.Info().TypeOf(v))
							}
							return true
						})
						return found
					}
					if len(g.Find(func(n ast.Node) bool { return chk.InBody(rs, n) && wr(n) })) == 0 {
						continue // a loop over the list that writes nothing (a validation pass)
					}
					okLen = okLen && !loopSkipsWithout(g, rs, wr, chk.NoGuard) && !loopHasBreak(g, rs) && wsize == 4
					nWriters++
				}
				// or the whole list in one binary.Write (a slice of fixed-size values is encoded element by element)
				for _, c := range g.FindPat("binary.Write(B, binary.BigEndian, L)", chk.H("B", buf), chk.H("L", f.IsObj(list))) {
					if sl, isSl := f.Info().TypeOf(c.Node.(*ast.CallExpr).Args[2]).Underlying().(*types.Slice); isSl && chk.PackedSize(sl.Elem()) == 4 && f.LoopOf(c.Node) == nil {
						nWriters++
					} else {
						okLen = false
					}
				}
				okLen = okLen && nWriters == 1
				// the list gets one element per community
				okFill := false
				for _, rs := range f.RangeLoops(func(e ast.Expr) bool { return f.MatchNew("A.Communities", e) != nil }) {
					app := f.IsAssignPat("L", "append(L, V)", chk.H("L", isObjOrSource(f, list)))
					okFill = !loopSkipsWithout(g, rs, app, chk.NoGuard) && !loopHasBreak(g, rs)
					if !okFill {
						// made with one slot per community and filled slot by slot: L := make([]T, len(A.Communities)); L[i] = v
						sized := false
						for _, d := range assignsTo(f, list) {
							if as, isAs := d.(*ast.AssignStmt); isAs && len(as.Rhs) == 1 && f.MatchWith("make(T, len(C))", as.Rhs[0], chk.H("C", func(e ast.Expr) bool { return f.SameExpr(e, rs.X) })) != nil {
								sized = true
							} else {
								sized = false
								break
							}
						}
						store := f.IsAssignPat("L[I]", "V", chk.H("L", f.IsObj(list)), chk.H("I", rangeKey(f, rs)))
						okFill = sized && !loopSkipsWithout(g, rs, store, chk.NoGuard) && !loopHasBreak(g, rs)
					}
				}
				okLen = okLen && (okFill || direct)
			}
			x.Check("attrs:COMMUNITIES", s.Pos(), okLen, "", "COMMUNITIES length is not 4 x the number of communities written (one 4-byte value per community)")
		}
	}
	for _, k := range []string{"origin", "as2", "as4", "localpref", "nexthop", "communities"} {
		if !seen[k] {
			x.Fail("attrs:missing:"+k, f.Pos(), "attribute header for "+k+" not found")
		}
	}

	y := r.Rule("ASN-IBGP", "B path", "the empty AS path (b.WriteByte(0)) and LOCAL_PREF are written exactly on the ibgp edge; the 4-byte AS path exactly under !ibgp && fbasn with the asn parameter, the 2-byte one through safeconvert.Uint32ToInt16(asn) with its error returned; in sendOpen ASN16 = 23456 exactly under asn > 65535 and ASN32 = asn; connect refuses a peer without 4-byte support when MyASN needs it", 6)
	ibgp, fbasn := isParam(f, "ibgp"), isParam(f, "fbasn")
	tI, fI := chk.GBool(true, ibgp), chk.GBool(false, ibgp)
	for _, s := range g.FindPat("B.WriteByte(0)", chk.H("B", buf)) {
		y.Check("attrs:empty-as-path-iff-ibgp", s.Pos(), g.Dominated(s, tI), "", "an empty AS path can be written for an eBGP peer")
	}
	for _, s := range writes {
		bs := byteLit(f, s.Node.(*ast.CallExpr).Args[0])
		if len(bs) == 3 && bs[1] == 2 && bs[2] == 1 {
			want4 := bs[0] == 6
			ok := g.Dominated(s, fI) && g.Dominated(s, chk.GBool(want4, fbasn))
			y.Check("attrs:as-path-form("+itoa(bs[0])+")", s.Pos(), ok, "", "the AS path form does not follow (eBGP, peer's 4-byte ASN capability)")
		}
		if len(bs) == 3 && bs[0] == 0x40 && bs[1] == 5 {
			ok := g.Dominated(s, tI)
			// and on the ibgp edge it is always written: some ibgp-true edge's branch always contains it
			always := false
			for _, e := range g.EdgesImplying(tI) {
				if !g.BranchAlways(e, func(n ast.Node) bool { return n == s.Top }).Found {
					always = true
				}
			}
			// the condition is exactly `ibgp`
			exact := false
			for _, e := range g.EdgesImplying(tI) {
				if cond, okc := e.B.Nodes[len(e.B.Nodes)-1].(ast.Expr); okc && ibgp(cond) && chk.Encloses(g.Region(e), s.Node) {
					exact = true
				}
			}
			y.Check("attrs:local-pref-iff-ibgp", s.Pos(), ok && always && exact, "", "LOCAL_PREF is not written exactly for iBGP peers")
		}
	}
	asn := isParam(f, "asn")
	ok4 := false
	conv := definedBy(g, "safeconvert.Uint32ToInt16(ASN)", chk.H("ASN", asn))
	ok2 := false
	for _, s := range g.Find(func(n ast.Node) bool {
		if _, isE := n.(ast.Expr); !isE {
			return false
		}
		v, _, ok := fixedWriteAt(f, buf, n)
		return ok && (asn(v) || conv(v))
	}) {
		v, _, _ := fixedWriteAt(f, buf, s.Node)
		if asn(v) {
			ok4 = g.Dominated(s, chk.GBool(true, fbasn)) && g.Dominated(s, fI)
		} else {
			ok2 = g.Dominated(s, g.GErrNil(true, "safeconvert.Uint32ToInt16(ASN)", chk.H("ASN", asn))) && g.Dominated(s, chk.GBool(false, fbasn))
		}
	}
	y.Check("attrs:own-asn-in-path", f.Pos(), ok4 && ok2, "", "the AS path does not carry the speaker's own ASN (4-byte form: asn; 2-byte form: checked conversion of asn)")
	so := need(y, p, natPkg, "", "sendOpen")
	if so != nil {
		sg := so.Graph()
		a := isParam(so, "asn")
		// the 2-byte ASN of the message: the field M.ASN16 itself, or the local that the literal puts there
		lit0 := msgLiteral(so)
		var carrier types.Object
		if lit0 != nil {
			for _, e := range lit0.Elts {
				if kv, ok := e.(*ast.KeyValueExpr); ok && kv.Key.(*ast.Ident).Name == "ASN16" {
					if id, isId := ast.Unparen(kv.Value).(*ast.Ident); isId {
						carrier = so.ObjOf(id)
					}
				}
			}
		}
		isTrans := func(n ast.Node) bool {
			as, ok := n.(*ast.AssignStmt)
			if !ok || len(as.Lhs) != 1 || len(as.Rhs) != 1 {
				return false
			}
			if v, isC := constInt(so, as.Rhs[0]); !isC || v != 23456 {
				return false
			}
			if so.MatchNew("M.ASN16", as.Lhs[0]) != nil {
				return true
			}
			return carrier != nil && so.ObjOf(as.Lhs[0]) == carrier
		}
		big := sg.GPat(true, "A > 65535", chk.H("A", a))
		trans := sg.Find(isTrans)
		okT := len(trans) >= 1
		for _, s := range trans {
			okT = okT && sg.Dominated(s, big) // AS_TRANS only above 65535
		}
		// and always above 65535: the message is written only after the substitution when asn > 65535
		for _, w := range sg.FindPat("binary.Write(W, binary.BigEndian, M)") {
			okT = okT && sg.Dominated(w, chk.GOr(chk.GNot(big), chk.GEvent(isTrans)))
		}
		lit := msgLiteral(so)
		okL := false
		if lit != nil {
			for _, e := range lit.Elts {
				if kv, ok := e.(*ast.KeyValueExpr); ok && kv.Key.(*ast.Ident).Name == "ASN32" {
					okL = a(kv.Value)
				}
			}
		}
		y.Check("sendOpen:as-trans-above-65535", so.Pos(), okT && okL, "", "AS_TRANS (23456) is not used exactly for ASNs above 65535, or the 4-byte capability does not carry the ASN")
	}
}

func writesToParam(f *chk.Fn, buf func(ast.Expr) bool) func(ast.Node) bool {
	return func(n ast.Node) bool {
		found := false
		chk.InspectNoLit(n, func(m ast.Node) bool {
			c, ok := m.(*ast.CallExpr)
			if !ok {
				return true
			}
			if sel, ok := c.Fun.(*ast.SelectorExpr); ok && buf(sel.X) && strings.HasPrefix(sel.Sel.Name, "Write") && sel.Sel.Name != "WriteTo" {
				found = true
			}
			if len(c.Args) > 0 && buf(c.Args[0]) {
				if fn, ok := f.Callee(c).(*types.Func); ok && fn.FullName() == "encoding/binary.Write" {
					found = true
				}
			}
			return true
		})
		return found
	}
}

func c16Prefix(p *chk.Prog, r *chk.Report) {
	x := r.Rule("PREFIX-AGREE", "E sibling", "in encodePrefixes, for every prefix (no skip): the length byte is byte(o) and the bytes written are pfx.IP.To4()[:ceil(o/8)] for the same o = ones of pfx.Mask.Size(), ceil(o/8) spelt ((o + 7) &^ 7) / 8 (or (o+7)/8, (o+7)>>3)", 1)
	f := need(x, p, natPkg, "", "encodePrefixes")
	if f != nil {
		g := f.Graph()
		ok := false
		for _, rs := range f.RangeLoops(isParamIdx(f, 1)) {
			pfx := rangeVal(f, rs)
			o := func(e ast.Expr) bool {
				id, isID := ast.Unparen(e).(*ast.Ident)
				if !isID {
					return false
				}
				rhs, idx := g.DefOf(id, g.FactSite(id))
				return rhs != nil && idx == 0 && f.MatchWith("P.Mask.Size()", rhs, chk.H("P", pfx)) != nil
			}
			lenB := f.ContainsPat("B.WriteByte(byte(O))", chk.H("B", isParamIdx(f, 0)), chk.H("O", o))
			// the number of whole bytes that hold o bits, in one of its spellings (the one-line helper that names it is
			// expanded by the normalisation)
			ceil8 := func(n ast.Node) bool {
				for _, pat := range []string{"B.Write(P.IP.To4()[:((O+7)&^7)/8])", "B.Write(P.IP.To4()[:(O+7)/8])", "B.Write(P.IP.To4()[:(O+7)>>3])"} {
					if f.ContainsPat(pat, chk.H("B", isParamIdx(f, 0)), chk.H("P", pfx), chk.H("O", o))(n) {
						return true
					}
				}
				return false
			}
			body := ceil8
			ok = !loopSkipsWithout(g, rs, lenB, chk.NoGuard) && !loopSkipsWithout(g, rs, body, chk.NoGuard) && !loopHasBreak(g, rs)
			// order: length byte first, and nothing else written in between
			for _, s := range g.Find(lenB) {
				if _, isStmt := s.Node.(*ast.ExprStmt); !isStmt {
					continue
				}
				w := (&chk.Walk{G: g, From: s, Stop: body, Hit: writesToParam(f, isParamIdx(f, 0))}).Run()
				if w.Found {
					ok = false
				}
			}
			// exactly these two writes per prefix
			n := 0
			for _, s := range g.Find(func(n ast.Node) bool {
				_, isS := n.(*ast.ExprStmt)
				return isS && chk.InBody(rs, n) && writesToParam(f, isParamIdx(f, 0))(n)
			}) {
				_ = s
				n++
			}
			ok = ok && n == 2
		}
		x.Check("encodePrefixes:length-and-bytes-agree", f.Pos(), ok, "", "an NLRI entry is not {byte(o), pfx.IP.To4()[:ceil(o/8)]} with the same prefix length o (the address bytes written are not the prefix's own)")
	}
	// bytes once appended are never modified in place, except by the length patches of LAYOUT-1
	for _, name := range []string{"sendOpen", "sendUpdate", "sendWithdraw", "sendKeepalive", "encodePathAttrs", "encodePrefixes"} {
		ef := p.LookupFunc(natPkg, "", name)
		if ef == nil {
			continue
		}
		ast.Inspect(ef.Body, func(n ast.Node) bool {
			var lhs []ast.Expr
			switch st := n.(type) {
			case *ast.AssignStmt:
				lhs = st.Lhs
			case *ast.IncDecStmt:
				lhs = []ast.Expr{st.X}
			}
			for _, l := range lhs {
				inPlace := false
				ast.Inspect(l, func(m ast.Node) bool {
					if c, ok := m.(*ast.CallExpr); ok {
						if sel, ok := c.Fun.(*ast.SelectorExpr); ok && sel.Sel.Name == "Bytes" {
							if t := ef.Info().TypeOf(sel.X); t != nil && strings.HasSuffix(strings.TrimPrefix(t.String(), "*"), "bytes.Buffer") {
								inPlace = true
							}
						}
					}
					return true
				})
				if inPlace {
					x.Fail("in-place-edit@"+name, n.Pos(), "bytes already appended to the message buffer are modified in place (only the reviewed length patches may do that): the encoded prefix/attribute no longer equals what was written")
				}
			}
			return true
		})
	}
}

func c16Narrow(p *chk.Prog, r *chk.Report) {
	x := r.Rule("NARROW-1", "F numeric", "in the encoders (sendOpen, sendUpdate, sendWithdraw, sendKeepalive, encodePathAttrs, encodePrefixes) every non-constant conversion to a narrower integer type or from a float is one of the reviewed sites {uint16(asn) in sendOpen: deliberate truncation, overridden by AS_TRANS above 65535; byte(o) in encodePrefixes: o is a prefix length 0..128; int(holdTime.Seconds()): widening of a float that is then range-checked by IntToUInt16}; every safeconvert call's error is tested and the failing branch returns the error", 8)
	reviewed := map[string]string{
		"sendOpen:uint16(asn)":             "deliberate truncation; AS_TRANS replaces it when asn > 65535",
		"encodePrefixes:byte(o)":           "o is Mask.Size() ones, 0..128",
		"sendOpen:int(holdTime.Seconds())": "float seconds to int, then range-checked by safeconvert.IntToUInt16",
	}
	for _, name := range []string{"sendOpen", "sendUpdate", "sendWithdraw", "sendKeepalive", "encodePathAttrs", "encodePrefixes"} {
		f := need(x, p, natPkg, "", name)
		if f == nil {
			continue
		}
		g := f.Graph()
		info := f.Info()
		ast.Inspect(f.Body, func(n ast.Node) bool {
			call, ok := n.(*ast.CallExpr)
			if !ok || len(call.Args) != 1 {
				return true
			}
			tv, ok := info.Types[call.Fun]
			if !ok || !tv.IsType() {
				return true
			}
			if info.Types[call].Value != nil {
				return true // constant conversion
			}
			to, okT := tv.Type.Underlying().(*types.Basic)
			from, okF := info.TypeOf(call.Args[0]).Underlying().(*types.Basic)
			if !okT || !okF || to.Info()&types.IsInteger == 0 {
				return true
			}
			narrowing := from.Info()&types.IsFloat != 0 || (from.Info()&types.IsInteger != 0 && intBits(from) > intBits(to))
			if !narrowing {
				return true
			}
			key := name + ":" + types.ExprString(call)
			_, rev := reviewed[key]
			if !rev {
				// the reviewed sites, recognised by what is converted rather than by the spelling of a local
				arg := call.Args[0]
				switch name {
				case "encodePrefixes":
					if id, isId := ast.Unparen(arg).(*ast.Ident); isId && to.Kind() == types.Uint8 {
						if rhs, idx := g.DefOf(id, g.FactSite(id)); rhs != nil && idx == 0 && f.MatchWith("P.Mask.Size()", rhs) != nil {
							rev = true // the number of ones of a mask: 0..128
						}
					}
				case "sendOpen":
					if to.Kind() == types.Uint16 && isParam(f, "asn")(arg) {
						rev = true
					}
					if to.Kind() == types.Int && f.MatchWith("H.Seconds()", arg, chk.H("H", isParam(f, "holdTime"))) != nil {
						rev = true
					}
				}
			}
			x.Check(key, call.Pos(), rev, "", "unchecked narrowing conversion feeding a wire field: values outside the target range wrap silently (use a checked safeconvert function and handle its error)")
			return true
		})
		// safeconvert errors handled
		for _, s := range g.Find(func(n ast.Node) bool {
			c, ok := n.(*ast.CallExpr)
			if !ok {
				return false
			}
			fn, ok := f.Callee(c).(*types.Func)
			return ok && fn.Pkg() != nil && fn.Pkg().Path() == chk.Module+"/internal/safeconvert"
		}) {
			c := s.Node.(*ast.CallExpr)
			ok := errorAlwaysReturned(f, g, func(rhs ast.Expr) bool { return ast.Unparen(rhs) == ast.Expr(c) }, 0)
			x.Check(name+":checked:"+types.ExprString(c), c.Pos(), ok, "", "the error of a checked conversion is not tested (or the failing branch does not return it)")
		}
	}
}

func intBits(b *types.Basic) int {
	switch b.Kind() {
	case types.Int8, types.Uint8:
		return 8
	case types.Int16, types.Uint16:
		return 16
	case types.Int32, types.Uint32:
		return 32
	}
	return 64
}

func c16Read(p *chk.Prog, r *chk.Report) {
	x := r.Rule("BOUNDED-READ", "F bounded decoder", "in readOpen, readOptions, readCapabilities: after the header read (and readNotification for type 3) every binary.Read / io.Copy source is an io.LimitedReader declared in that function, or the function's reader parameter, which every caller binds to such a LimitedReader; LimitedReader limits are set only in their literals, from the length field just read (minus the header size in readOpen); io.LimitedReader.N is never assigned elsewhere in the package; every `for {}` decoder loop begins with a read whose error leaves the function; the functions contain no index/slice expression, no unchecked type assertion, no division or remainder, no panic", 12)
	names := []string{"readOpen", "readOptions", "readCapabilities"}
	fns := map[string]*chk.Fn{}
	for _, n := range names {
		fns[n] = need(x, p, natPkg, "", n)
	}
	// LimitedReader.N never assigned in the package
	nAssign := 0
	for _, f := range p.FuncsIn(natPkg) {
		ast.Inspect(f.Body, func(n ast.Node) bool {
			as, ok := n.(*ast.AssignStmt)
			if !ok {
				return true
			}
			for _, l := range as.Lhs {
				if sel, ok := l.(*ast.SelectorExpr); ok && sel.Sel.Name == "N" {
					if t := f.Info().TypeOf(sel.X); t != nil && strings.HasSuffix(strings.TrimPrefix(t.String(), "*"), "io.LimitedReader") {
						nAssign++
						x.Fail("limit-reassigned@"+f.Name(), as.Pos(), "the limit of an io.LimitedReader is re-assigned after construction: the bound derived from the announced message length is lost (bytes beyond the message can be consumed)")
					}
				}
			}
			return true
		})
	}
	x.Check("limits-set-only-in-literals", 0, nAssign == 0, "", "see above")
	for _, name := range names {
		f := fns[name]
		if f == nil {
			continue
		}
		g := f.Graph()
		info := f.Info()
		rparam := isParamIdx(f, 0)
		// limited readers declared here
		limited := map[types.Object]ast.Expr{} // var -> N expression
		ast.Inspect(f.Body, func(n ast.Node) bool {
			as, ok := n.(*ast.AssignStmt)
			if !ok || len(as.Lhs) != 1 || len(as.Rhs) != 1 {
				return true
			}
			e := ast.Unparen(as.Rhs[0])
			if u, ok := e.(*ast.UnaryExpr); ok && u.Op == token.AND {
				e = u.X
			}
			cl, ok := e.(*ast.CompositeLit)
			if !ok {
				return true
			}
			if t := info.TypeOf(cl); t == nil || t.String() != "io.LimitedReader" {
				return true
			}
			var rExpr, nExpr ast.Expr
			for _, el := range cl.Elts {
				if kv, ok := el.(*ast.KeyValueExpr); ok {
					switch kv.Key.(*ast.Ident).Name {
					case "R":
						rExpr = kv.Value
					case "N":
						nExpr = kv.Value
					}
				}
			}
			if rExpr != nil && nExpr != nil && rparam(rExpr) {
				limited[f.ObjOf(as.Lhs[0])] = nExpr
			} else {
				x.Fail(name+":limited-reader-shape", cl.Pos(), "an io.LimitedReader that does not wrap the function's reader with an explicit limit")
			}
			return true
		})
		isLimited := func(e ast.Expr) bool {
			e = ast.Unparen(e)
			if u, ok := e.(*ast.UnaryExpr); ok && u.Op == token.AND {
				e = u.X
			}
			_, ok := limited[f.ObjOf(e)]
			return ok
		}
		// limits come from the length just read
		for v, nExpr := range limited {
			hdrSize := 0
			okN := false
			if name == "readOpen" {
				if b := f.MatchNew("int64(H.Len) - C", nExpr); b != nil {
					c, _ := constInt(f, b["C"])
					if t := info.TypeOf(b["H"]); t != nil {
						hdrSize = chk.PackedSize(t)
					}
					okN = c == hdrSize && hdrSize == 19
				} else if b := f.MatchNew("int64(L) - C", nExpr); b != nil {
					// the length handed back by a header-reading helper: on its success exit it is the Len of the header
					// struct read first
					var hdrExpr ast.Expr
					isLen := isOrSucceedsAs(f, g, "H.Len", chk.H("H", func(e ast.Expr) bool { hdrExpr = e; return true }))
					if isLen(b["L"]) && hdrExpr != nil {
						c, _ := constInt(f, b["C"])
						if t := info.TypeOf(hdrExpr); t != nil {
							hdrSize = chk.PackedSize(t)
						}
						okN = c == hdrSize && hdrSize == 19
					} else if n, isArr := c16ByteHeaderLen(f, g, b["L"]); isArr {
						// the header read as its 19 bytes and decoded by hand: the length is the big-endian word after the
						// 16-byte marker
						c, _ := constInt(f, b["C"])
						hdrSize = n
						okN = c == hdrSize && hdrSize == 19
					}
				}
			} else {
				okN = f.MatchNew("int64(H.Len)", nExpr) != nil
				if !okN {
					// the two-byte option / capability header read into a fixed array: the length is its second byte
					if b := f.MatchNew("int64(L)", nExpr); b != nil {
						if hb := f.MatchNew("B[1]", f.Resolve(b["L"])); hb != nil {
							if at, isArr := info.TypeOf(hb["B"]).Underlying().(*types.Array); isArr && at.Len() == 2 {
								okN = len(g.FindPat("io.ReadFull(R, B[:])", chk.H("B", func(e ast.Expr) bool { return f.SameExpr(e, hb["B"]) }))) == 1
							}
						}
					}
				}
			}
			x.Check(name+":limit("+v.Name()+")", nExpr.Pos(), okN, "", "the LimitedReader's limit is not the length field just read (readOpen: message length minus the 19-byte header)")
		}
		// reads
		first := true
		nReads := 0
		for _, s := range g.Find(func(n ast.Node) bool {
			c, ok := n.(*ast.CallExpr)
			if !ok {
				return false
			}
			fn, ok := f.Callee(c).(*types.Func)
			return ok && (fn.FullName() == "encoding/binary.Read" || fn.FullName() == "io.Copy" || fn.FullName() == "io.ReadFull")
		}) {
			c := s.Node.(*ast.CallExpr)
			src := c.Args[0]
			if fn := f.Callee(c).(*types.Func); fn.FullName() == "io.Copy" {
				src = c.Args[1]
			}
			nReads++
			ok := isLimited(src)
			why := "a read that is not bounded by an io.LimitedReader"
			if !ok && rparam(src) {
				if name == "readOpen" {
					// only the header read may use r directly: it is the first read
					ok = first
					why = "readOpen reads from the connection itself after the header: bytes beyond the announced message length can be consumed"
				} else {
					ok = true // parameter: callers are checked below
				}
			}
			first = false
			x.Check(name+":read#"+itoa2(nReads)+"("+types.ExprString(src)+")", c.Pos(), ok, "", why)
		}
		// callers bind the parameter to a limited reader
		if name != "readOpen" {
			for _, cs := range p.CallSites(f.Name()) {
				cf := cs.Fn
				arg := cs.Call.Args[0]
				okc := false
				// limited reader declared in the caller
				ast.Inspect(cf.Body, func(n ast.Node) bool {
					as, ok := n.(*ast.AssignStmt)
					if !ok || len(as.Lhs) != 1 {
						return true
					}
					if cf.ObjOf(as.Lhs[0]) == cf.RootObj(arg) {
						e := ast.Unparen(as.Rhs[0])
						if u, ok := e.(*ast.UnaryExpr); ok {
							e = u.X
						}
						if cl, ok := e.(*ast.CompositeLit); ok && cf.Info().TypeOf(cl).String() == "io.LimitedReader" {
							okc = true
						}
					}
					return true
				})
				x.Check(name+":caller@"+cf.Name(), cs.Call.Pos(), okc, "", name+" is handed a reader that is not bounded by an io.LimitedReader")
			}
		}
		// decoder loops make progress
		chk.InspectNoLit(f.Body, func(n ast.Node) bool {
			fs, ok := n.(*ast.ForStmt)
			if !ok || fs.Cond != nil {
				return true
			}
			// every way to the next iteration has a successful read behind it: a failed read (EOF of the bounded reader
			// included) leaves the function
			ends := g.ForIterationEnds(fs)
			okp := len(ends) > 0
			// io.ReadFull into a fixed-size array is the same read (binary.Read is io.ReadFull of the value's size)
			fixedBuf := func(e ast.Expr) bool {
				t := info.TypeOf(e)
				if t == nil {
					return false
				}
				_, isArr := t.Underlying().(*types.Array)
				return isArr
			}
			didRead := chk.GOr(g.GErrNil(true, "binary.Read(R, binary.BigEndian, V)"), g.GErrNil(true, "io.ReadFull(R, B[:])", chk.H("B", fixedBuf)))
			for _, e := range ends {
				if !g.Dominated(e, didRead) {
					okp = false
				}
			}
			// and that read belongs to this iteration
			nRead := 0
			chk.InspectNoLit(fs.Body, func(m ast.Node) bool {
				if e, isE := m.(ast.Expr); isE && (f.MatchNew("binary.Read(R, binary.BigEndian, V)", e) != nil || f.MatchWith("io.ReadFull(R, B[:])", e, chk.H("B", fixedBuf)) != nil) {
					nRead++
				}
				return true
			})
			okp = okp && nRead >= 1
			x.Check(name+":loop-progress", fs.Pos(), okp, "", "a decoder loop does not start with a read whose failure (including EOF of the bounded reader) leaves the function: it can spin or hang")
			return true
		})
		// panic sources
		bad := ""
		ast.Inspect(f.Body, func(n ast.Node) bool {
			switch v := n.(type) {
			case *ast.IndexExpr:
				if t := info.TypeOf(v.X); t != nil {
					if _, isMap := t.Underlying().(*types.Map); !isMap {
						if _, isSig := t.Underlying().(*types.Signature); !isSig {
							// a constant index into a fixed-size array is checked by the compiler
							if at, isArr := t.Underlying().(*types.Array); isArr {
								if c, isC := constInt(f, v.Index); isC && c >= 0 && int64(c) < at.Len() {
									break
								}
							}
							bad = "index expression " + types.ExprString(v)
						}
					}
				}
			case *ast.SliceExpr:
				// constant (or absent) bounds on a fixed-size array are checked by the compiler
				if at, isArr := info.TypeOf(v.X).Underlying().(*types.Array); isArr && !v.Slice3 {
					okB := true
					lo, hi := int64(0), at.Len()
					if v.Low != nil {
						if c, isC := constInt(f, v.Low); isC {
							lo = int64(c)
						} else {
							okB = false
						}
					}
					if v.High != nil {
						if c, isC := constInt(f, v.High); isC {
							hi = int64(c)
						} else {
							okB = false
						}
					}
					if okB && 0 <= lo && lo <= hi && hi <= at.Len() {
						break
					}
				}
				bad = "slice expression " + types.ExprString(v)
			case *ast.TypeAssertExpr:
				if as, ok := p.Parent(v).(*ast.AssignStmt); !ok || len(as.Lhs) != 2 {
					if _, isSwitch := p.Parent(p.Parent(v)).(*ast.TypeSwitchStmt); !isSwitch && v.Type != nil {
						bad = "unchecked type assertion"
					}
				}
			case *ast.BinaryExpr:
				if v.Op == token.QUO || v.Op == token.REM {
					bad = "division"
				}
			case *ast.CallExpr:
				if id, ok := v.Fun.(*ast.Ident); ok && id.Name == "panic" {
					bad = "panic"
				}
			}
			return true
		})
		x.Check(name+":no-panic-sources", f.Pos(), bad == "", "", "the decoder contains a construct that can panic on peer-controlled input: "+bad)
	}
	y := r.Rule("MIN-LEN", "F layout agreement", "readOpen rejects a message whose announced length is below the packed size of the header struct (19) plus the packed size of the fixed OPEN fields it reads next (10), and accepts every length from that value on (an OPEN without optional parameters is well-formed)", 1)
	f := fns["readOpen"]
	if f != nil {
		g := f.Graph()
		var hdrT, openT types.Type
		n := 0
		for _, s := range g.FindPat("binary.Read(R, binary.BigEndian, &V)") {
			t := f.Info().TypeOf(s.Node.(*ast.CallExpr).Args[2].(*ast.UnaryExpr).X)
			if n == 0 {
				hdrT = t
			} else if n == 1 {
				openT = t
			}
			n++
		}
		ok := false
		byteHdr := 0
		if n == 1 {
			// the header read as its bytes into an array (and decoded by hand), the fixed fields into a struct
			for _, e := range g.EdgesImplying(g.GPat(true, "L < C")) {
				if b := f.MatchNew("L < C", e.B.Nodes[len(e.B.Nodes)-1].(ast.Expr)); b != nil {
					if sz, isArr := c16ByteHeaderLen(f, g, b["L"]); isArr {
						byteHdr = sz
					}
				}
			}
			if byteHdr > 0 {
				hdrT, openT = types.NewArray(types.Typ[types.Uint8], int64(byteHdr)), hdrT
			}
		}
		if hdrT != nil && openT != nil {
			want := chk.PackedSize(hdrT) + chk.PackedSize(openT)
			isLen := isOrSucceedsAs(f, g, "H.Len")
			if byteHdr > 0 {
				want = byteHdr + chk.PackedSize(openT)
				isLen = func(e ast.Expr) bool { _, isArr := c16ByteHeaderLen(f, g, e); return isArr }
			}
			for _, e := range g.EdgesImplying(g.GPat(true, "L < C", chk.H("L", isLen))) {
				cond := e.B.Nodes[len(e.B.Nodes)-1].(ast.Expr)
				b := f.MatchNew("L < C", cond)
				if b == nil {
					continue
				}
				c, okc := constInt(f, b["C"])
				ok = okc && c == want && !g.BranchAlways(e, func(m ast.Node) bool { return isErrReturn2(f, m) }).Found
				if !ok {
					y.Fail("readOpen:minimum-length", cond.Pos(), fmt.Sprintf("the minimum accepted OPEN length is %d, but header (%d) + fixed fields (%d) = %d: a well-formed OPEN is rejected or a truncated one accepted", c, chk.PackedSize(hdrT), chk.PackedSize(openT), want))
					return
				}
			}
		}
		y.Check("readOpen:minimum-length", f.Pos(), ok, "", "no minimum-length test equal to header + fixed OPEN fields")
	}
}

func isErrReturn2(f *chk.Fn, n ast.Node) bool {
	rs, ok := n.(*ast.ReturnStmt)
	return ok && len(rs.Results) == 2 && !f.IsNilLit(rs.Results[1])
}

func c16Validated(p *chk.Prog, r *chk.Report) {
	x := r.Rule("VALIDATED", "B path + constant relation", "native.validate rejects non-IPv4 prefixes and more than C communities with 4 * C <= 255 (the COMMUNITIES length is one byte); session.Set stores an advertisement only behind validate(adv) == nil (so To4()[:n] and the length conversion cannot fail in the encoders)", 2)
	f := need(x, p, natPkg, "", "validate")
	if f != nil {
		g := f.Graph()
		adv := isParamIdx(f, 0)
		okV4, okC := false, false
		for _, e := range g.EdgesImplying(g.GPat(true, "A.Prefix.IP.To4() == nil", chk.H("A", adv))) {
			okV4 = !g.BranchAlways(e, func(n ast.Node) bool { return isErrReturn(f, n) }).Found
		}
		for _, e := range g.EdgesImplying(g.GPat(true, "len(A.Communities) > C", chk.H("A", adv))) {
			cond := e.B.Nodes[len(e.B.Nodes)-1].(ast.Expr)
			b := f.MatchNew("len(A.Communities) > C", cond)
			c, isC := constInt(f, b["C"])
			okC = isC && c*4 <= 255 && !g.BranchAlways(e, func(n ast.Node) bool { return isErrReturn(f, n) }).Found
		}
		// every nil return is behind both refusals
		for _, rt := range g.Returns() {
			if rr := retResults(rt); len(rr) == 1 && f.IsNilLit(rr[0]) {
				if !g.Dominated(rt, g.GPat(false, "A.Prefix.IP.To4() == nil", chk.H("A", adv))) || !g.Dominated(rt, g.GPat(false, "len(A.Communities) > C", chk.H("A", adv))) {
					okV4 = false
				}
			}
		}
		x.Check("validate:ipv4-and-community-bound", f.Pos(), okV4 && okC, "", "validate does not refuse non-IPv4 prefixes and community lists whose encoded length does not fit one byte")
	}
	st := need(x, p, natPkg, "session", "Set")
	if st != nil {
		g := st.Graph()
		ok := false
		for _, rs := range st.RangeLoops(isParamIdx(st, 0)) {
			a := rangeVal(st, rs)
			for _, s := range g.Find(st.IsAssignPat("M[K]", "A", chk.H("A", a))) {
				ok = g.Dominated(s, g.GErrNil(true, "validate(A)", chk.H("A", a)))
			}
		}
		x.Check("Set:stores-only-validated", st.Pos(), ok, "", "an advertisement can become pending without having passed validate")
	}
}

// sendsBuffer: the node hands the whole buffer to a writer: io.Copy(w, &b), b.WriteTo(w) or w.Write(b.Bytes()).
func sendsBuffer(f *chk.Fn, buf types.Object) func(ast.Node) bool {
	isB := f.IsObj(buf)
	forms := []func(ast.Node) bool{
		f.ContainsPat("io.Copy(W, &B)", chk.H("B", isB)),
		f.ContainsPat("io.Copy(W, B)", chk.H("B", isB)),
		f.ContainsPat("B.WriteTo(W)", chk.H("B", isB)),
		f.ContainsPat("W.Write(B.Bytes())", chk.H("B", isB)),
	}
	// the buffer handed out by the (expanded) encoding step as a pointer: a local that is &B on every success exit of it
	ptrB := isOrSucceedsAs(f, f.Graph(), "&B", chk.H("B", isB))
	viaPtr := func(e ast.Expr) bool {
		_, isId := ast.Unparen(e).(*ast.Ident)
		return isId && ptrB(e)
	}
	forms = append(forms, f.ContainsPat("io.Copy(W, P)", chk.H("P", viaPtr)), f.ContainsPat("P.WriteTo(W)", chk.H("P", viaPtr)), f.ContainsPat("W.Write(P.Bytes())", chk.H("P", viaPtr)))
	return func(n ast.Node) bool {
		for _, fm := range forms {
			if fm(n) {
				return true
			}
		}
		return false
	}
}

// fixedWriteAt: the expression appends one fixed-size value to the buffer in network byte order:
// binary.Write(b, binary.BigEndian, v), b.Write(binary.BigEndian.AppendUintN(nil, v)), or b.WriteByte(v) of a
// non-constant byte. It returns the value and its size on the wire.
func fixedWriteAt(f *chk.Fn, buf func(ast.Expr) bool, n ast.Node) (ast.Expr, int, bool) {
	e, isE := n.(ast.Expr)
	if !isE {
		return nil, 0, false
	}
	if b := f.MatchWith("binary.Write(B, binary.BigEndian, V)", e, chk.H("B", buf)); b != nil {
		if t := f.Info().TypeOf(b["V"]); t != nil && chk.PackedSize(t) > 0 {
			return b["V"], chk.PackedSize(t), true
		}
		return nil, 0, false
	}
	for name, sz := range map[string]int{"AppendUint16": 2, "AppendUint32": 4, "AppendUint64": 8} {
		if b := f.MatchWith("B.Write(binary.BigEndian."+name+"(nil, V))", e, chk.H("B", buf)); b != nil {
			return b["V"], sz, true
		}
	}
	if b := f.MatchWith("B.WriteByte(V)", e, chk.H("B", buf)); b != nil && f.ConstVal(b["V"]) == nil {
		return b["V"], 1, true
	}
	return nil, 0, false
}

// fixedWrite: the node contains (outside literals) one such write.
func fixedWrite(f *chk.Fn, buf func(ast.Expr) bool, n ast.Node) (v ast.Expr, sz int, ok bool) {
	chk.InspectNoLit(n, func(m ast.Node) bool {
		if ok {
			return false
		}
		if v2, s2, ok2 := fixedWriteAt(f, buf, m); ok2 {
			v, sz, ok = v2, s2, true
		}
		return true
	})
	return
}

// c16PrecomputedLengths decides the message builders when the sections are encoded into buffers of their own first and
// the header is written with its length fields already filled in (no byte of the message is patched later):
//
//   - every write to the message buffer is executed exactly once before the buffer is sent (no loop, on every path
//     that sends) and appends a number of bytes that is known as an expression: the packed size of a fixed-size value,
//     or X.Len() for another buffer X appended whole (b.Write(X.Bytes()));
//   - hdr.Len is safeconvert.IntToUInt16 of a sum whose terms are exactly those sizes (binary.Size(hdr) stands for the
//     packed size of the header), the error checked, and no appended buffer grows between the sum and its append;
//   - the section length field (WdrLen / AttrLen) is IntToUInt16(X.Len()) of the buffer that only the section's encoder
//     (encodePrefixes / encodePathAttrs) writes and that is appended directly after the header.
//
// It returns false when the function does not have this shape at all (the caller then reports the missing patch).
func c16PrecomputedLengths(x *chk.R, p *chk.Prog, f *chk.Fn, g *chk.Graph, name string, buf types.Object, first chk.Site, ht types.Type, lay []chk.FieldLayout) bool {
	hdrArg := first.Node.(*ast.CallExpr).Args[2]
	hid, isId := ast.Unparen(hdrArg).(*ast.Ident)
	if !isId {
		return false
	}
	hdr := f.ObjOf(hid)
	info := f.Info()
	// the value of each length field when the header is written: one source each (literal key or assignment)
	fieldVal := map[string]ast.Expr{}
	nSrc := map[string]int{}
	bad := false
	ast.Inspect(f.Body, func(n ast.Node) bool {
		switch st := n.(type) {
		case *ast.AssignStmt:
			for i, l := range st.Lhs {
				if id, ok := l.(*ast.Ident); ok && f.ObjOf(id) == hdr && i < len(st.Rhs) && len(st.Lhs) == len(st.Rhs) {
					if cl, isLit := ast.Unparen(st.Rhs[i]).(*ast.CompositeLit); isLit {
						for _, el := range cl.Elts {
							if kv, isKV := el.(*ast.KeyValueExpr); isKV {
								k := kv.Key.(*ast.Ident).Name
								fieldVal[k] = kv.Value
								nSrc[k]++
							} else {
								bad = true
							}
						}
					} else {
						bad = true
					}
					continue
				}
				sel, ok := ast.Unparen(l).(*ast.SelectorExpr)
				if !ok || f.ObjOf(sel.X) != hdr {
					continue
				}
				nSrc[sel.Sel.Name]++
				if st.Pos() > first.Pos() {
					bad = true // set after the header went out
				}
				if len(st.Lhs) == len(st.Rhs) {
					fieldVal[sel.Sel.Name] = st.Rhs[i]
				} else if len(st.Rhs) == 1 && i == 0 {
					fieldVal[sel.Sel.Name] = st.Rhs[0] // hdr.Len, err = F(...)
				} else {
					bad = true
				}
			}
		case *ast.UnaryExpr:
			if id, ok := ast.Unparen(st.X).(*ast.Ident); ok && st.Op == token.AND && f.ObjOf(id) == hdr {
				bad = true
			}
		}
		return true
	})
	if bad || fieldVal["Len"] == nil || nSrc["Len"] != 1 {
		return false
	}
	isWrite := writesTo(f, buf)
	sends := sendsBuffer(f, buf)
	// checked conversion: V is (a local holding) result 0 of safeconvert.IntToUInt16(E), and the error was tested before
	// the header is written
	checked := func(v ast.Expr) ast.Expr {
		var call ast.Expr
		switch y := ast.Unparen(v).(type) {
		case *ast.CallExpr:
			call = y
		case *ast.Ident:
			rhs, idx := g.DefOf(y, g.FactSite(y))
			if rhs != nil && idx == 0 {
				call = rhs
			}
		}
		if call == nil {
			return nil
		}
		b := f.MatchNew("safeconvert.IntToUInt16(E)", call)
		if b == nil {
			return nil
		}
		// the error was tested where the value is used (a later conversion may reuse the error variable)
		use := g.FactSite(v)
		if _, isCall := ast.Unparen(v).(*ast.CallExpr); isCall {
			use = first
		}
		if !g.Dominated(use, g.GErrNil(true, "safeconvert.IntToUInt16(E)", chk.H("E", func(e ast.Expr) bool { return f.SameExpr(e, b["E"]) }))) {
			return nil
		}
		return b["E"]
	}
	// the writes, in program order
	type wr struct {
		site  chk.Site
		size  int          // constant part
		other types.Object // X for b.Write(X.Bytes())
	}
	var writes []wr
	okWrites := true
	for _, s := range g.Find(func(n ast.Node) bool { _, isStmt := n.(ast.Stmt); return isStmt && isWrite(n) }) {
		if f.LoopOf(s.Node) != nil {
			okWrites = false
			continue
		}
		w := wr{site: s}
		var call *ast.CallExpr
		chk.InspectNoLit(s.Node, func(m ast.Node) bool {
			if c, ok := m.(*ast.CallExpr); ok && call == nil && writesTo(f, buf)(c) {
				call = c
			}
			return true
		})
		switch {
		case call == nil:
			okWrites = false
		case f.MatchWith("binary.Write(&B, binary.BigEndian, V)", call, chk.H("B", f.IsObj(buf))) != nil:
			t := info.TypeOf(call.Args[2])
			w.size = chk.PackedSize(t)
			if w.size <= 0 {
				okWrites = false
			}
		case f.MatchWith("B.Write(X.Bytes())", call, chk.H("B", f.IsObj(buf))) != nil:
			b := f.MatchWith("B.Write(X.Bytes())", call, chk.H("B", f.IsObj(buf)))
			w.other = f.ObjOf(b["X"])
			if w.other == nil || w.other == buf {
				okWrites = false
			}
		default:
			okWrites = false
		}
		// executed on every path that sends the buffer
		if (&chk.Walk{G: g, Stop: func(n ast.Node) bool { return n == s.Top }, Hit: sends}).Run().Found {
			okWrites = false
		}
		writes = append(writes, w)
	}
	sort.Slice(writes, func(i, j int) bool { return writes[i].site.Pos() < writes[j].site.Pos() })
	x.Check(name+":writes-of-known-size", f.Pos(), okWrites && len(writes) >= 1 && writes[0].site.Top == first.Top, "", "with the lengths computed before the header is written, every write to the message buffer must append a known number of bytes exactly once (a fixed-size value, or another buffer appended whole) and the header must come first")
	if !okWrites || len(writes) == 0 {
		return true
	}
	// the total length: a sum of exactly the sizes written
	wantConst := 0
	wantBufs := map[types.Object]int{}
	for _, w := range writes {
		wantConst += w.size
		if w.other != nil {
			wantBufs[w.other]++
		}
	}
	sum := checked(fieldVal["Len"])
	haveConst := 0
	haveBufs := map[types.Object]int{}
	okSum := sum != nil
	var lenSites []chk.Site
	var terms func(e ast.Expr, depth int)
	terms = func(e ast.Expr, depth int) {
		e = ast.Unparen(e)
		if be, isBin := e.(*ast.BinaryExpr); isBin && be.Op == token.ADD {
			terms(be.X, depth)
			terms(be.Y, depth)
			return
		}
		if c, isC := constInt(f, e); isC {
			haveConst += c
			return
		}
		if b := f.MatchNew("binary.Size(H)", e); b != nil && f.ObjOf(b["H"]) == hdr {
			haveConst += chk.PackedSize(ht)
			return
		}
		if b := f.MatchNew("X.Len()", e); b != nil {
			if o := f.ObjOf(b["X"]); o != nil {
				haveBufs[o]++
				lenSites = append(lenSites, g.FactSite(e))
				return
			}
		}
		if id, isId := e.(*ast.Ident); isId && depth < 3 {
			if rhs, idx := g.DefOf(id, g.FactSite(id)); rhs != nil && idx == 0 && len(assignsTo(f, f.ObjOf(id))) == 1 {
				terms(rhs, depth+1)
				return
			}
		}
		okSum = false
	}
	if sum != nil {
		terms(sum, 0)
	}
	okSum = okSum && haveConst == wantConst && len(haveBufs) == len(wantBufs)
	for o, n := range wantBufs {
		if haveBufs[o] != n {
			okSum = false
		}
	}
	// an appended buffer does not grow between its measurement and its append
	grows := func(o types.Object, from chk.Site) bool {
		wOther := writesTo(f, o)
		for _, w := range writes {
			if w.other == o {
				if (&chk.Walk{G: g, From: from, Hit: func(n ast.Node) bool { _, isStmt := n.(ast.Stmt); return isStmt && wOther(n) && n != w.site.Top }, Stop: func(n ast.Node) bool { return n == w.site.Top }}).Run().Found {
					return true
				}
			}
		}
		return false
	}
	for _, ls := range lenSites {
		for o := range wantBufs {
			if grows(o, ls) {
				okSum = false
			}
		}
	}
	x.Check(name+":total-length-is-sum-of-writes", f.Pos(), okSum, "", "hdr.Len is not the checked uint16 of exactly the bytes appended to the message (packed header + appended buffers + trailing fixed-size values), or a buffer grows after it was measured")
	// the section length
	for _, c := range []struct{ field, encoder string }{{"WdrLen", "encodePrefixes"}, {"AttrLen", "encodePathAttrs"}} {
		has := false
		for _, l := range lay {
			leaf := l.Name
			if i := strings.LastIndexByte(leaf, '.'); i >= 0 {
				leaf = leaf[i+1:]
			}
			if leaf == c.field {
				has = true
			}
		}
		if !has {
			continue
		}
		if name == "sendUpdate" && c.field == "WdrLen" {
			continue // an UPDATE that announces withdraws nothing: the field stays zero
		}
		if name == "sendWithdraw" && c.field == "AttrLen" {
			continue
		}
		okSec := false
		if v := fieldVal[c.field]; v != nil && nSrc[c.field] == 1 {
			if e := checked(v); e != nil {
				if b := f.MatchNew("X.Len()", e); b != nil {
					o := f.ObjOf(b["X"])
					// appended directly after the header, written only by the section's encoder, before the measurement
					if o != nil && len(writes) >= 2 && writes[1].other == o {
						wOther := writesTo(f, o)
						enc := f.ContainsPat(c.encoder+"(&X, ETC)", chk.H("X", f.IsObj(o)))
						onlyEnc := true
						nEnc := 0
						for _, s := range g.Find(func(n ast.Node) bool { _, isStmt := n.(ast.Stmt); return isStmt && wOther(n) }) {
							if !enc(s.Node) || f.LoopOf(s.Node) != nil {
								onlyEnc = false
							}
							nEnc++
						}
						okSec = onlyEnc && nEnc == 1 && !grows(o, g.FactSite(e))
						// the encoder ran before the measurement
						if okSec {
							w := g.MustPass(chk.Site{}, func(n ast.Node) bool { return n == g.FactSite(e).Top }, false, enc)
							okSec = !w.Found
						}
					}
				}
			}
		}
		x.Check(name+":patch["+c.field+"]:section-length", f.Pos(), okSec, "", c.field+" is not the checked length of the buffer that "+c.encoder+" alone fills and that is appended directly after the header")
	}
	// and the message is sent
	wc := g.MustPass(writes[len(writes)-1].site, nil, true, func(n ast.Node) bool { return sends(n) || isErrReturn(f, n) })
	x.Check(name+":patch[Len]:then-sent", f.Pos(), !wc.Found, "", "the assembled buffer is not written to the connection")
	return true
}

// c16Tolerant: a well-formed OPEN is never refused for what it announces. readOptions / readCapabilities fail only
// with the error of a read (a truncated message), for an option type other than "capabilities", or for a capability
// whose payload was not consumed exactly (leftover bytes); an unknown capability code is skipped. A peer that announces
// BGP Role, BGPsec or a private-use capability must still be able to establish the session.
func c16Tolerant(p *chk.Prog, r *chk.Report) {
	x := r.Rule("CAP-TOLERANT", "B path", "readCapabilities returns an error only (a) handing back the error of a read from the bounded reader, or (b) behind lr.N != 0 (the capability's payload was not consumed exactly): no capability code is refused", 2)
	f := need(x, p, natPkg, "", "readCapabilities")
	if f == nil {
		return
	}
	g := f.Graph()
	isRead := func(e ast.Expr) bool {
		c, ok := ast.Unparen(e).(*ast.CallExpr)
		if !ok {
			return false
		}
		fn, _ := f.Callee(c).(*types.Func)
		if fn == nil {
			return false
		}
		switch fn.FullName() {
		case "encoding/binary.Read", "io.Copy", "io.ReadFull", "io.CopyN":
			return true
		}
		return false
	}
	leftover := chk.GSame(g.GPat(true, "LR.N != 0"), g.GPat(false, "LR.N == 0"), g.GPat(true, "LR.N > 0"))
	n := 0
	for _, ex := range errorExits(f, g, 0) {
		rt, res := ex.Site, []ast.Expr{ex.Expr}
		n++
		ok := false
		switch {
		case isRead(res[0]):
			ok = true
		case g.Dominated(rt, leftover):
			ok = true
		default:
			if id, isId := ast.Unparen(res[0]).(*ast.Ident); isId {
				rhs, _ := g.DefOf(id, g.FactSite(id))
				ok = rhs != nil && isRead(rhs)
			}
		}
		x.Check("readCapabilities:error-is-read-or-leftover", rt.Pos(), ok, "", "readCapabilities refuses an OPEN for a reason other than a failed read or leftover payload bytes (e.g. an unknown capability code): a peer announcing a capability this implementation does not know can never establish the session")
	}
	x.Check("readCapabilities:error-returns-found", f.Pos(), n >= 3, "", "unexpected shape")
}

// readerAlias: e is a plain name of a reader or a conversion of one (io.Reader(conn)): it returns that name.
func readerAlias(f *chk.Fn, e ast.Expr) *ast.Ident {
	e = ast.Unparen(e)
	if c, isC := e.(*ast.CallExpr); isC && len(c.Args) == 1 {
		if tv, has := f.Info().Types[c.Fun]; has && tv.IsType() {
			e = ast.Unparen(c.Args[0])
		}
	}
	id, _ := e.(*ast.Ident)
	return id
}

// constBytesWritten: f's only write is W.Write(K[:]) (or W.Write(K)) of a package-level byte array / slice K that is
// initialised by a literal of constants and never stored into anywhere in its package. It returns the bytes.
func constBytesWritten(p *chk.Prog, f *chk.Fn) ([]int, token.Pos, bool) {
	g := f.Graph()
	ws := g.FindPat("W.Write(B)", chk.H("W", isParamIdx(f, 0)))
	if len(ws) != 1 || len(g.FindPat("binary.Write(ETC)")) != 0 {
		return nil, 0, false
	}
	arg := ast.Unparen(ws[0].Node.(*ast.CallExpr).Args[0])
	if sl, isSl := arg.(*ast.SliceExpr); isSl && sl.Low == nil && sl.High == nil {
		arg = ast.Unparen(sl.X)
	}
	id, isId := arg.(*ast.Ident)
	if !isId {
		return nil, 0, false
	}
	v, isVar := f.ObjOf(id).(*types.Var)
	if !isVar || v.Pkg() == nil || v.Parent() != v.Pkg().Scope() {
		return nil, 0, false
	}
	var init ast.Expr
	for _, file := range f.Pkg.Syntax {
		for _, d := range file.Decls {
			gd, ok := d.(*ast.GenDecl)
			if !ok || gd.Tok != token.VAR {
				continue
			}
			for _, sp := range gd.Specs {
				vs := sp.(*ast.ValueSpec)
				for i, nm := range vs.Names {
					if f.Pkg.TypesInfo.Defs[nm] == types.Object(v) && i < len(vs.Values) {
						init = vs.Values[i]
					}
				}
			}
		}
	}
	cl, isCl := ast.Unparen(init).(*ast.CompositeLit)
	if !isCl {
		return nil, 0, false
	}
	var out []int
	for _, el := range cl.Elts {
		if _, isKV := el.(*ast.KeyValueExpr); isKV {
			return nil, 0, false
		}
		c := f.Pkg.TypesInfo.Types[el].Value
		if c == nil || c.Kind() != constant.Int {
			return nil, 0, false
		}
		n, _ := constant.Int64Val(c)
		out = append(out, int(n))
	}
	if at, isArr := v.Type().Underlying().(*types.Array); isArr {
		for int64(len(out)) < at.Len() {
			out = append(out, 0)
		}
	}
	// nothing in the package stores into it or takes its address
	written := false
	for _, pf := range p.FuncsIn(natPkg) {
		if pf.Body == nil {
			continue
		}
		ast.Inspect(pf.Body, func(n ast.Node) bool {
			switch st := n.(type) {
			case *ast.AssignStmt:
				for _, l := range st.Lhs {
					if pf.RootObj(l) == types.Object(v) {
						written = true
					}
				}
			case *ast.IncDecStmt:
				if pf.RootObj(st.X) == types.Object(v) {
					written = true
				}
			case *ast.UnaryExpr:
				if st.Op == token.AND && pf.RootObj(st.X) == types.Object(v) {
					written = true
				}
			case *ast.CallExpr:
				if fid, isF := st.Fun.(*ast.Ident); isF && fid.Name == "copy" && len(st.Args) == 2 && pf.RootObj(st.Args[0]) == types.Object(v) {
					written = true
				}
			}
			return !written
		})
	}
	if written {
		return nil, 0, false
	}
	return out, cl.Pos(), true
}

// c16ByteHeaderLen: e is the total-length word of a BGP message header that was read as raw bytes:
// binary.BigEndian.Uint16(H[16:18]) for an array H of N bytes filled by one io.ReadFull(R, H[:]) - directly, or as the
// value a header-reading helper hands out on its success exits. It returns N.
func c16ByteHeaderLen(f *chk.Fn, g *chk.Graph, e ast.Expr) (int, bool) {
	var arr ast.Expr
	is := isOrSucceedsAs(f, g, "binary.BigEndian.Uint16(H[16:18])", chk.H("H", func(h ast.Expr) bool { arr = h; return true }))
	if !is(e) || arr == nil {
		return 0, false
	}
	at, isArr := f.Info().TypeOf(arr).Underlying().(*types.Array)
	if !isArr || at.Len() < 18 {
		return 0, false
	}
	if b, isB := at.Elem().Underlying().(*types.Basic); !isB || b.Kind() != types.Uint8 {
		return 0, false
	}
	same := func(x ast.Expr) bool { return f.SameExpr(x, arr) }
	if len(g.FindPat("io.ReadFull(R, H[:])", chk.H("H", same))) != 1 {
		return 0, false
	}
	// nothing else writes the array
	o := f.RootObj(arr)
	for _, n := range assignsTo(f, o) {
		if as, isAs := n.(*ast.AssignStmt); isAs {
			for _, l := range as.Lhs {
				if _, isIx := ast.Unparen(l).(*ast.IndexExpr); isIx {
					return 0, false
				}
			}
		}
	}
	return int(at.Len()), true
}

// c16OpenFields: what sendOpen puts on the wire is what it was asked to send, and the OPEN decoders cannot spin.
func c16OpenFields(p *chk.Prog, r *chk.Report) {
	x := r.Rule("OPEN-FIELDS", "B value flow + D ownership", "in sendOpen the HoldTime of the message is the checked conversion of the holdTime parameter's seconds and nothing else (the variable is assigned once); no function of package internal/bgp/native calls a reader's Read method directly (a raw Read may return short, and returns (0, io.EOF) for ever on a LimitedReader whose source ended: the decoders use the exact reads binary.Read / io.ReadFull / io.Copy, which stop at the first error)", 1)
	so := need(x, p, natPkg, "", "sendOpen")
	if so != nil {
		n := 0
		ast.Inspect(so.Body, func(nd ast.Node) bool {
			kv, ok := nd.(*ast.KeyValueExpr)
			if !ok {
				return true
			}
			if k, isId := kv.Key.(*ast.Ident); !isId || k.Name != "HoldTime" {
				return true
			}
			n++
			okV := false
			if id, isId := ast.Unparen(kv.Value).(*ast.Ident); isId {
				defs := assignsTo(so, so.ObjOf(id))
				if len(defs) == 1 {
					if as, isAs := defs[0].(*ast.AssignStmt); isAs && len(as.Rhs) == 1 {
						if b := so.MatchNew("safeconvert.IntToUInt16(X)", ast.Unparen(as.Rhs[0])); b != nil && so.Mentions(b["X"], so.ParamNamed("holdTime")) {
							okV = true
						}
					}
				}
			} else if b := so.MatchNew("uint16(X)", ast.Unparen(kv.Value)); b != nil && so.Mentions(b["X"], so.ParamNamed("holdTime")) {
				okV = true // an unchecked narrowing is NARROW-1's business
			}
			x.Check("sendOpen:hold-time-is-the-requested-one", kv.Pos(), okV, "", "the hold time written into the OPEN is not just the requested one converted to seconds (it is adjusted afterwards): a requested hold time of 0 - keepalives disabled - goes out as another value, while the session itself keeps using the requested one")
			return true
		})
		x.Check("sendOpen:hold-time-field", so.Pos(), n == 1, "", "no HoldTime field in the OPEN literal")
	}
	nFn := 0
	for _, f := range p.FuncsIn(natPkg) {
		if f.Body == nil {
			continue
		}
		nFn++
		var bad *ast.CallExpr
		ast.Inspect(f.Body, func(nd ast.Node) bool {
			c, ok := nd.(*ast.CallExpr)
			if !ok {
				return true
			}
			se, isSel := ast.Unparen(c.Fun).(*ast.SelectorExpr)
			if !isSel || se.Sel.Name != "Read" || len(c.Args) != 1 {
				return true
			}
			if sel := f.Info().Selections[se]; sel != nil && sel.Kind() == types.MethodVal {
				if sl, isSl := f.Info().TypeOf(c.Args[0]).Underlying().(*types.Slice); isSl {
					if bt, isB := sl.Elem().Underlying().(*types.Basic); isB && bt.Kind() == types.Uint8 {
						bad = c
					}
				}
			}
			return true
		})
		if bad != nil {
			x.Check("raw-read@"+f.Name(), bad.Pos(), false, "", "a reader's Read method is called directly: it may return fewer bytes than asked, and on a LimitedReader whose source ended it returns (0, io.EOF) without consuming the limit - a loop around it that tolerates io.EOF never ends (readOpen hangs with the session lock held)")
		}
	}
	x.Check("raw-read:functions-scanned", 0, nFn >= 20, "", "fewer functions of internal/bgp/native scanned than expected")
}

// c16ParamsReadonly (shared with C17): what the caller asked for - hold time, keepalive time, connect time, handed over as
// pointers in bgp.SessionParameters - is read by the session, never written: the value negotiated with one peer on one
// connection is kept in the session's own fields. A store through one of those pointers changes the request itself:
// the next OPEN announces the last peer's hold time, and the caller's own variable changes under it.
func c16ParamsReadonly(p *chk.Prog, r *chk.Report) {
	x := r.Rule("PARAMS-READONLY", "D ownership (effects)", "in package native nothing is stored through a pointer field of bgp.SessionParameters (`*s.HoldTime = ..`, or through a local copy of such a pointer): negotiated values live in the session's own fields", 0)
	pt := p.LookupType("internal/bgp", "SessionParameters")
	if pt == nil {
		x.Undecided("anchor:bgp.SessionParameters", "UNDECIDED anchor missing: bgp.SessionParameters")
		return
	}
	st, _ := pt.Underlying().(*types.Struct)
	ptrField := map[*types.Var]bool{}
	for i := 0; st != nil && i < st.NumFields(); i++ {
		if _, isPtr := st.Field(i).Type().Underlying().(*types.Pointer); isPtr {
			ptrField[st.Field(i)] = true
		}
	}
	n := 0
	for _, f := range p.FuncsIn(natPkg) {
		if f.Body == nil {
			continue
		}
		f := f
		fromParams := func(e ast.Expr) bool {
			for hop := 0; hop < 3; hop++ {
				e = ast.Unparen(e)
				if sel, isSel := e.(*ast.SelectorExpr); isSel {
					if sn := f.Info().Selections[sel]; sn != nil {
						if v, isVar := sn.Obj().(*types.Var); isVar && ptrField[v] {
							return true
						}
					}
					return false
				}
				id, isId := e.(*ast.Ident)
				if !isId {
					return false
				}
				d := f.LocalDef(id)
				if d == nil {
					// several definitions: any of them a parameter pointer
					for _, a := range assignsTo(f, f.ObjOf(id)) {
						if as, isAs := a.(*ast.AssignStmt); isAs && len(as.Lhs) == len(as.Rhs) {
							for i, l := range as.Lhs {
								if f.ObjOf(l) == f.ObjOf(id) {
									if sel, isSel := ast.Unparen(as.Rhs[i]).(*ast.SelectorExpr); isSel {
										if sn := f.Info().Selections[sel]; sn != nil {
											if v, isVar := sn.Obj().(*types.Var); isVar && ptrField[v] {
												return true
											}
										}
									}
								}
							}
						}
					}
					return false
				}
				e = d
			}
			return false
		}
		chk.InspectNoLit(f.Body, func(nd ast.Node) bool {
			var targets []ast.Expr
			switch v := nd.(type) {
			case *ast.AssignStmt:
				targets = v.Lhs
			case *ast.IncDecStmt:
				targets = []ast.Expr{v.X}
			}
			for _, t := range targets {
				if star, isStar := ast.Unparen(t).(*ast.StarExpr); isStar && fromParams(star.X) {
					n++
					x.Fail("store@"+f.Name()+":"+f.Src(t), nd.Pos(), "a store through a pointer of the session parameters: the requested value itself is changed (the next OPEN carries what the last peer negotiated; the caller's variable changes too)")
				}
			}
			return true
		})
	}
	if n == 0 {
		x.OK("no-store-through-parameter-pointers", 0, "")
	}
}

// c16ReadToEnd (shared with C17): the optional parameters of an OPEN, and the capabilities inside one, are read to the
// end: RFC 5492 lets a peer spread its capabilities over several parameters (one capability each is what FRR and IOS
// send), so the 4-byte-ASN capability may sit in the last one. The decoding loops report success only when the reader
// is exhausted.
func c16ReadToEnd(p *chk.Prog, r *chk.Report) {
	x := r.Rule("READ-TO-END", "B path", "readOptions and readCapabilities return success (a nil error) only behind io.EOF from their own read of the next header: neither stops after the first parameter / capability it understood", 2)
	for _, name := range []string{"readOptions", "readCapabilities"} {
		f := p.LookupFunc(natPkg, "", name)
		if f == nil || f.Body == nil {
			continue // merged into its caller: the other decoders' rules speak for it
		}
		r.Saw(f)
		g := f.Graph()
		eof := chk.GAnyOf(g.GPat(true, "E == io.EOF"), g.GPat(true, "errors.Is(E, io.EOF)"), g.GPat(true, "io.EOF == E"))
		n := 0
		for _, rt := range g.Returns() {
			res := retResults(rt)
			if len(res) == 0 || !f.IsNilLit(res[len(res)-1]) {
				continue
			}
			n++
			x.Check(name+":success-only-at-end-of-input", rt.Pos(), g.Dominated(rt, eof), "", name+" can report success before its input is exhausted: what follows (a further Capabilities parameter with the 4-byte-ASN capability, say) is never looked at - the peer is judged by its 2-byte AS field, or spoken to in the wrong AS_PATH width")
		}
		x.Check(name+":success-return", f.Pos(), n >= 1, "", "no success return")
	}
}
