package rules

import (
	"go/ast"
	"go/token"
	"go/types"

	"verif/mlbcheck/chk"
)

const allocPkg = "internal/allocator"

func init() {
	register(&Prop{
		ID: "C01",
		Explanation: "Decided (structural necessary conditions of address exclusivity, on all paths): the allocator's sharing bookkeeping " +
			"(allocated, sharingKeyForIP, portsInUse, servicesOnIP) is written only by assign/Unassign and raw assign is reachable only " +
			"from Assign and SetPools (OWN-ALLOC); in Assign every address stored in the allocation went through checkSharing with the " +
			"service's own key and ports, after the pool-membership and pool-compatibility guards (GUARD-SHARE); in checkSharing no nil return " +
			"is reachable for an address with an existing key without sharingOK, the sole-tenant test on failure and the per-port owner loop " +
			"(SHARE-BODY); sharingOK returns nil only behind its four comparisons and BackendKey yields the selector exactly under the Local " +
			"policy (SHAREOK); Ports maps protocol and port of the same element (FIELDMAP); the five allocator entry calls of the controller " +
			"pass the three derivations of the handler's own service (ARGS); a changed allocation key leads to a full re-sync (REKEY-REPROCESS).",
		NotDecided: "That sharingOK/port disjointness as computed values are right for every history; agreement of Service statuses with " +
			"the allocator's memory at quiescence; aliasing of *alloc values through element pointers.",
		Run: runC01,
		Mutants: []Mutant{
			{Name: "additional-family-keys-exchanged", File: "controller/service.go",
				Old: "lbIPs[0], currentPool, k8salloc.Ports(svc), SharingKey(svc), k8salloc.BackendKey(svc))", New: "lbIPs[0], currentPool, k8salloc.Ports(svc), k8salloc.BackendKey(svc), SharingKey(svc))", Expect: "ARG-ROLES"},
			{Name: "tenant-set-dropped-on-pool-counter", File: "internal/allocator/allocator.go",
				Old: "\t\tif a.poolIPsInUse[al.pool][ip.String()] == 0 {\n\t\t\tdelete(a.poolIPsInUse[al.pool], ip.String())\n",
				New: "\t\tif a.poolIPsInUse[al.pool][ip.String()] == 0 {\n\t\t\tdelete(a.poolIPsInUse[al.pool], ip.String())\n\t\t\tdelete(a.servicesOnIP, ip.String())\n", Expect: "delete-servicesOnIP"},
			{Name: "only-first-tenant-recorded", File: "internal/allocator/allocator.go",
				Old: "\t\tif a.servicesOnIP[ip.String()] == nil {\n\t\t\ta.servicesOnIP[ip.String()] = map[string]bool{}\n\t\t}\n\t\ta.servicesOnIP[ip.String()][svc] = true\n",
				New: "\t\tif len(a.servicesOnIP[ip.String()]) == 0 {\n\t\t\ta.servicesOnIP[ip.String()] = map[string]bool{svc: true}\n\t\t}\n", Expect: "SIBLING"},
			{Name: "sharing-key-nonempty-instead-of-present", File: "controller/service.go",
				Old: "\tif _, ok := svc.Annotations[AnnotationAllowSharedIP]; ok {\n\t\treturn svc.Annotations[AnnotationAllowSharedIP]\n\t}",
				New: "\tif key := svc.Annotations[AnnotationAllowSharedIP]; key != \"\" {\n\t\treturn key\n\t}", Expect: "stable-annotation-wins"},
			{Name: "value-for-annotation-deprecated-first", File: "controller/service.go",
				Old: "\tif value, ok := annotations[stableAnnotation]; ok {\n\t\treturn value\n\t}\n\tif value, ok := annotations[deprecatedAnnotation]; ok {",
				New: "\tif value, ok := annotations[deprecatedAnnotation]; ok {\n\t\treturn value\n\t}\n\tif value, ok := annotations[stableAnnotation]; ok {", Expect: "valueForAnnotation"},
			{Name: "allocate-readopts-with-recorded-ports", File: "internal/allocator/allocator.go",
				Old: "\tif alloc := a.allocated[svcKey]; alloc != nil {\n\t\tif err := a.Assign(svcKey, svc, alloc.ips, ports, sharingKey, backendKey)",
				New: "\tif alloc := a.allocated[svcKey]; alloc != nil {\n\t\tif err := a.Assign(svcKey, svc, alloc.ips, alloc.ports, sharingKey, backendKey)", Expect: "KEY-THREAD"},
			{Name: "early-validation-before-readoption", File: "controller/service.go",
				Old: "\tif len(lbIPs) != 0 {\n\t\t// This assign is idempotent if the config is consistent,", New: "\tif len(lbIPs) != 0 {\n\t\tif _, _, err := getDesiredLbIPs(svc); err != nil {\n\t\t\treturn ErrConverge\n\t\t}\n\t\t// This assign is idempotent if the config is consistent,", Expect: "READOPT-EXIT"},
			{Name: "check-adopts-key-in-place", File: "internal/allocator/allocator.go",
				Old: "\t\t\t\treturn fmt.Errorf(\"can't change sharing key for %q, address also in use by %s\", svc, strings.Join(otherSvcs, \",\"))\n\t\t\t}\n",
				New: "\t\t\t\treturn fmt.Errorf(\"can't change sharing key for %q, address also in use by %s\", svc, strings.Join(otherSvcs, \",\"))\n\t\t\t}\n\t\t\t*existingSK = *sk\n", Expect: "CHECK-PURE"},
			{Name: "assign-skips-sharing-loop", File: "internal/allocator/allocator.go",
				Old:    "\t\tif err := a.checkSharing(svcKey, ip.String(), ports, sk); err != nil {\n\t\t\treturn err\n\t\t}\n\t}\n\n\t// Either the IP is entirely unused",
				New:    "\t\tif err := a.checkSharing(svcKey, ip.String(), ports, sk); err != nil {\n\t\t\tbreak\n\t\t}\n\t}\n\n\t// Either the IP is entirely unused",
				Expect: "GUARD-SHARE"},
			{Name: "rekey-branch-skips-port-check", File: "internal/allocator/allocator.go",
				Old:    "\t\t\tif len(otherSvcs) > 0 {\n\t\t\t\treturn fmt.Errorf(\"can't change sharing key for %q, address also in use by %s\", svc, strings.Join(otherSvcs, \",\"))\n\t\t\t}\n",
				New:    "\t\t\tif len(otherSvcs) > 0 {\n\t\t\t\treturn fmt.Errorf(\"can't change sharing key for %q, address also in use by %s\", svc, strings.Join(otherSvcs, \",\"))\n\t\t\t}\n\t\t\treturn nil\n",
				Expect: "SHARE-BODY"},
			{Name: "allocate-writes-allocated", File: "internal/allocator/allocator.go",
				Old:    "\tpinnedPools := a.pinnedPoolsForService(svc)\n",
				New:    "\tpinnedPools := a.pinnedPoolsForService(svc)\n\tdelete(a.sharingKeyForIP, svcKey)\n",
				Expect: "OWN-ALLOC"},
			{Name: "empty-backend-key-at-one-site", File: "controller/service.go",
				Old:    "ips, err := c.ips.AllocateFromPool(key, svc, serviceIPFamily, desiredPool, k8salloc.Ports(svc), SharingKey(svc), k8salloc.BackendKey(svc))",
				New:    "ips, err := c.ips.AllocateFromPool(key, svc, serviceIPFamily, desiredPool, k8salloc.Ports(svc), SharingKey(svc), \"\")",
				Expect: "ARGS"},
			{Name: "sharingok-drops-backend-compare", File: "internal/allocator/allocator.go",
				Old: "\tif existing.backend != new.backend {", New: "\tif existing.backend != new.backend && existing.sharing == \"\" {",
				Expect: "SHAREOK"},
			{Name: "backendkey-ignores-local", File: "internal/allocator/k8salloc/k8salloc.go",
				Old: "svc.Spec.ExternalTrafficPolicy == v1.ServiceExternalTrafficPolicyTypeLocal", New: "svc.Spec.ExternalTrafficPolicy == v1.ServiceExternalTrafficPolicyTypeCluster",
				Expect: "SHAREOK"},
			{Name: "port-owner-test-inverted", File: "internal/allocator/allocator.go",
				Old: "ok && curSvc != svc {\n\t\t\t\treturn fmt.Errorf(\"port %s is already in use", New: "ok && curSvc == svc {\n\t\t\t\treturn fmt.Errorf(\"port %s is already in use",
				Expect: "SHARE-BODY"},
			{Name: "rekey-without-reprocess", File: "controller/main.go",
				Old:    "\t\tsyncStateRes = controllers.SyncStateReprocessAll\n\t}\n\n\tif reflect.DeepEqual(svcRo, svc) {",
				New:    "\t}\n\n\tif reflect.DeepEqual(svcRo, svc) {",
				Expect: "REKEY-REPROCESS"},
			{Name: "ports-drop-protocol", File: "internal/allocator/k8salloc/k8salloc.go",
				Old: "Proto: string(port.Protocol),", New: "Proto: \"TCP\",", Expect: "FIELDMAP"},
			{Name: "sharing-key-freed-while-tenants-remain", File: "internal/allocator/allocator.go",
				Old:    "\t\tif len(a.portsInUse[ip.String()]) == 0 {\n\t\t\tdelete(a.portsInUse, ip.String())\n\t\t\tdelete(a.sharingKeyForIP, ip.String())\n\t\t}",
				New:    "\t\tif len(a.portsInUse[ip.String()]) == 0 {\n\t\t\tdelete(a.portsInUse, ip.String())\n\t\t}\n\t\tdelete(a.sharingKeyForIP, ip.String())",
				Expect: "KEY-LIFETIME"},
		},
	})
}

func runC01(p *chk.Prog, r *chk.Report) {
	// an allocation re-homed under a renamed pool keeps its sharing key and ports (REHOME, shared with C03)
	c03Rehome(p, r)
	assignCommitsRule(p, r)
	// the sharing key, the backend key and the Service key are three strings side by side in every allocator entry
	// point: they reach it in the order its parameters are declared in (ARG-ROLES, shared with C03, C07)
	argRolesRule(p, r, 20, allocPkg, "controller")
	c01OwnAlloc(p, r)
	c01Rest(p, r)
}

// c01OwnAlloc (shared with C11): the per-address books are written only by assign / Unassign - a fast path that edits
// them in place (ports, sharing keys) leaves entries behind that no later release removes.
func c01OwnAlloc(p *chk.Prog, r *chk.Report) {
	// ---- OWN-ALLOC ---------------------------------------------------------
	own := r.Rule("OWN-ALLOC", "D ownership", "Allocator.{allocated,sharingKeyForIP,portsInUse,servicesOnIP} are written (assigned, indexed, deleted, or handed out) only in (*Allocator).assign and (*Allocator).Unassign; raw assign is called only from Assign and SetPools", 10)
	const A = "(*internal/allocator.Allocator)."
	for _, fld := range []string{"allocated", "sharingKeyForIP", "portsInUse", "servicesOnIP"} {
		ownRule(own, p, allocPkg, "Allocator", fld, A+"assign", A+"Unassign")
	}
	callersRule(own, p, A+"assign", A+"Assign", A+"SetPools")
}

func c01Rest(p *chk.Prog, r *chk.Report) {
	c01GuardShare(p, r)
	c01ShareBody(p, r)
	c01ShareOK(p, r)
	c01FieldMap(p, r)
	c01Args(p, r)
	c01Rekey(p, r)
	c01KeyLifetime(p, r)
	// an address leaves a Service only together with its recorded status: every release in the controller goes through
	// clearServiceState or is one of the reviewed direct Unassign sites (UNASSIGN-OWN-KEY, shared with C03); a release
	// that leaves the status behind lets a second Service record the same address
	c03Unassign(p, r)
	// ... and a recorded address is always known to the allocator: no exit of convergeBalancer before re-adoption
	readoptBeforeExitRule(p, r)
	// every tenant of an address is recorded (SIBLING, shared with C11): the sole-tenant exemption of checkSharing lets
	// the only recorded tenant change its key in place
	c11Sibling(p, r)
	// the re-adoption of an existing allocation judges and records the ports and keys of the current call, not the
	// remembered ones (KEY-THREAD, shared with C07): stale ports leave the current ones without an owner on the address
	c07Thread(p, r)
	pureCheckRule(p, r.Rule("CHECK-PURE", "D ownership (effects)", "the functions that only judge whether an address may be used - (*Allocator).checkSharing, sharingOK, poolFor, (*Allocator).isPoolCompatibleWithService - store nothing outside their own local variables: no assignment through a pointer, into a field, a map or slice element of something they were given or loaded, no delete, no ++/-- on such a place (the candidate search calls them for addresses it then does not take; the recorded keys are shared with the allocations through pointers)", 3),
		[][3]string{{allocPkg, "Allocator", "checkSharing"}, {allocPkg, "", "sharingOK"}, {allocPkg, "", "poolFor"}, {allocPkg, "Allocator", "isPoolCompatibleWithService"}})
}

// GUARD-SHARE: Assign.
func c01GuardShare(p *chk.Prog, r *chk.Report) {
	x := r.Rule("GUARD-SHARE", "B path", "in (*Allocator).Assign the raw a.assign is reached only after poolFor(...) != nil, isPoolCompatibleWithService(pool, svc), and a loop over the same ips that are stored in the allocation in which every element passed checkSharing(svcKey, ip.String(), ports, sk) (failure leaves the function; no break)", 6)
	f := need(x, p, allocPkg, "Allocator", "Assign")
	if f == nil {
		return
	}
	g := f.Graph()
	sites := g.FindPat("RECV.assign(K, AL)", chk.H("RECV", isRecv(f)))
	if len(sites) != 1 {
		x.Fail("Assign:assign-call", f.Pos(), "expected exactly one call a.assign(svcKey, alloc) in Assign")
		return
	}
	site := sites[0]
	call := site.Node.(*ast.CallExpr)
	ips := isParam(f, "ips")
	x.Check("Assign:dominated-by:poolFor!=nil", site.Pos(),
		g.Dominated(site, g.GErrNil(false, "poolFor(RECV.pools.ByName, IPS)", chk.H("IPS", ips))),
		"", "a.assign is reachable without the pool-membership test poolFor(a.pools.ByName, ips) != nil")
	x.Check("Assign:dominated-by:isPoolCompatibleWithService", site.Pos(),
		g.Dominated(site, g.GPat(true, "RECV.isPoolCompatibleWithService(P, S)", chk.H("S", isParam(f, "svc")),
			chk.H("P", definedBy(g, "poolFor(_, IPS)", chk.H("IPS", ips))))),
		"", "a.assign is reachable without isPoolCompatibleWithService(pool, svc) for the pool that owns the addresses")
	// the forall loop
	loops := f.RangeLoops(ips)
	var ok bool
	why := "no `for _, ip := range ips` loop found"
	for _, rs := range loops {
		guard := g.GErrNil(true, checkSharingCallPat(p, "K", "PORTS", "SK"),
			chk.H("K", isParam(f, "svcKey")), chk.H("IP", rangeVal(f, rs)), chk.H("PORTS", isParam(f, "ports")),
			chk.H("SK", func(e ast.Expr) bool {
				return definedBy(g, "&key{sharing: A, backend: B}", chk.H("A", isParam(f, "sharingKey")), chk.H("B", isParam(f, "backendKey")))(e) ||
					definedBy(g, "&K", chk.H("K", definedBy(g, "key{sharing: A, backend: B}", chk.H("A", isParam(f, "sharingKey")), chk.H("B", isParam(f, "backendKey")))))(e) ||
					definedBy(g, "key{sharing: A, backend: B}", chk.H("A", isParam(f, "sharingKey")), chk.H("B", isParam(f, "backendKey")))(e)
			}))
		if w := forallBefore(f, g, rs, guard, site); w == "" {
			ok = true
		} else {
			why = w
		}
	}
	x.Check("Assign:forall-ips:checkSharing", site.Pos(), ok, "", why)
	// the allocation stored is built from the same ips / key / ports
	al := call.Args[1]
	x.Check("Assign:alloc.ips-is-checked-ips", site.Pos(),
		(definedBy(g, "&alloc{ips: IPS, key: *SK, pool: P.Name}", chk.H("IPS", ips),
			chk.H("SK", definedBy(g, "&key{sharing: A, backend: B}", chk.H("A", isParam(f, "sharingKey")), chk.H("B", isParam(f, "backendKey")))),
			chk.H("P", definedBy(g, "poolFor(_, IPS)", chk.H("IPS", ips))))(al) ||
			definedBy(g, "&alloc{ips: IPS, key: K, pool: P.Name}", chk.H("IPS", ips),
				chk.H("K", definedBy(g, "key{sharing: A, backend: B}", chk.H("A", isParam(f, "sharingKey")), chk.H("B", isParam(f, "backendKey")))),
				chk.H("P", definedBy(g, "poolFor(_, IPS)", chk.H("IPS", ips))))(al)) && len(assignsTo(f, f.ParamNamed("ips"))) == 0,
		"", "the allocation handed to a.assign is not built from the checked ips, the checked key and the owning pool")
	x.Check("Assign:assign-key", site.Pos(), isParam(f, "svcKey")(call.Args[0]), "", "a.assign is keyed by something other than svcKey")
	// ports: alloc.ports is a copy of ports
	cp := g.FindPat("copy(AL.ports, PORTS)", chk.H("PORTS", isParam(f, "ports")))
	portsOK := len(cp) == 1 && f.SameExpr(cp[0].Node.(*ast.CallExpr).Args[0].(*ast.SelectorExpr).X, al) &&
		!g.MustPass(chk.Site{}, func(n ast.Node) bool { return n == site.Top }, false, func(n ast.Node) bool { return n == cp[0].Top }).Found
	if !portsOK && len(cp) == 0 {
		// or the copy is made where the allocation is built: ports: slices.Clone(ports) / append([]T(nil), ports...)
		lit := throughLocals(g, al)
		if u, isU := ast.Unparen(lit).(*ast.UnaryExpr); isU && u.Op == token.AND {
			lit = u.X
		}
		if cl, isCl := ast.Unparen(lit).(*ast.CompositeLit); isCl {
			for _, el := range cl.Elts {
				kv, isKV := el.(*ast.KeyValueExpr)
				if !isKV {
					continue
				}
				if k, isId := kv.Key.(*ast.Ident); !isId || k.Name != "ports" {
					continue
				}
				pp := chk.H("PORTS", isParam(f, "ports"))
				if f.MatchWith("slices.Clone(PORTS)", kv.Value, pp) != nil || f.MatchWith("append(E, PORTS...)", kv.Value, pp, chk.H("E", func(e ast.Expr) bool {
					if f.IsNilLit(e) {
						return true
					}
					if c, isC := ast.Unparen(e).(*ast.CallExpr); isC && len(c.Args) == 1 && f.IsNilLit(c.Args[0]) {
						return true // []T(nil)
					}
					c, isC := ast.Unparen(e).(*ast.CompositeLit)
					return isC && len(c.Elts) == 0
				})) != nil {
					portsOK = len(assignsTo(f, f.ParamNamed("ports"))) == 0
				}
			}
		}
	}
	x.Check("Assign:alloc.ports-is-checked-ports", site.Pos(), portsOK,
		"", "the allocation's ports are not the checked ports (copy(alloc.ports, ports) missing before a.assign)")
	// assign itself releases the previous allocation first
	fa := need(x, p, allocPkg, "Allocator", "assign")
	if fa != nil {
		ga := fa.Graph()
		w := ga.MustPass(chk.Site{}, fa.IsAssignPat("RECV.allocated[K]", "V"), false, fa.ContainsPat("RECV.Unassign(K)", chk.H("K", isParamIdx(fa, 0))))
		okFirst := !w.Found
		if !okFirst {
			// the release made by the callers instead: every call of the raw assign comes after Unassign of the same key in
			// the calling function (the contract moved from the callee to its two callers)
			sites := p.CallSites(fa.Name())
			okFirst = len(sites) >= 1
			for _, cs := range sites {
				if len(cs.Call.Args) < 1 {
					okFirst = false
					continue
				}
				cg := cs.Fn.Graph()
				key := cs.Call.Args[0]
				cw := cg.MustPass(chk.Site{}, func(n ast.Node) bool { return chk.Encloses(n, cs.Call) && n == cg.FactSite(cs.Call).Top }, false,
					cs.Fn.ContainsPat("RECV.Unassign(K)", chk.H("K", func(e ast.Expr) bool { return cs.Fn.SameExpr(e, key) })))
				if cw.Found {
					okFirst = false
				}
			}
		}
		x.Check("assign:unassign-first", posOf(w, fa), okFirst, "", "assign records the new allocation without the service's previous one being released first (neither by assign itself nor by every caller)")
	}
}

// SHARE-BODY: checkSharing.
func c01ShareBody(p *chk.Prog, r *chk.Report) {
	x := r.Rule("SHARE-BODY", "B path", "in (*Allocator).checkSharing every nil return for an address that has a sharing key passed sharingOK(existing, sk), on failure the sole-tenant test (len(otherSvcs) > 0 -> error, otherSvcs = tenants other than svc), and the loop over ports that refuses a port owned by another service", 4)
	f := need(x, p, allocPkg, "Allocator", "checkSharing")
	if f == nil {
		return
	}
	g := f.Graph()
	ip := c01IPKey(f, g)
	existing0 := definedBy(g, "RECV.sharingKeyForIP[IP]", chk.H("IP", ip))
	existing := func(e ast.Expr) bool {
		// the recorded key, or what it points to (keys compared by value)
		if st, isStar := ast.Unparen(e).(*ast.StarExpr); isStar && existing0(st.X) {
			return true
		}
		return existing0(e)
	}
	// "the address has no sharing key yet": the looked-up pointer is nil, or - keys kept by value - the lookup's ok is false
	noKey := chk.GSame(g.GPat(true, "E == nil", chk.H("E", existing)), chk.GBool(false, definedByIdx(g, f, "RECV.sharingKeyForIP[IP]", 1, chk.H("IP", ip))))
	// the compatibility test: the call of sharingOK (found by its role), or its four comparisons spelt out at this place
	sharePat := "sharingOK(E, SK)"
	if _, pat, _, _ := c01ShareFn(p, f, existing, isParam(f, "sk")); pat != "" {
		sharePat = pat
	}
	shareOK := chk.GOr(g.GErrNil(true, sharePat, chk.H("E", existing), chk.H("SK", isParam(f, "sk"))),
		chk.GAnd(c01SharingComparisons(g, existing, isParam(f, "sk"))...))
	// otherSvcs: built by ranging over servicesOnIP[ip] and appending tenants != svc
	var others types.Object
	for _, rs := range f.RangeLoops(func(e ast.Expr) bool {
		return f.MatchWith("RECV.servicesOnIP[IP]", e, chk.H("IP", ip)) != nil
	}) {
		apps := g.Find(func(n ast.Node) bool {
			return chk.InBody(rs, n) && f.IsAssignPat("O", "append(O, T)", chk.H("T", rangeKey(f, rs)))(n)
		})
		if len(apps) == 1 {
			others = f.ObjOf(apps[0].Node.(*ast.AssignStmt).Lhs[0])
		}
	}
	soleTenant := chk.GNever()
	if others != nil {
		soleTenant = g.GPat(false, "len(O) > 0", chk.H("O", f.IsObj(others)))
	}
	x.Check("checkSharing:otherSvcs-collects-other-tenants", f.Pos(), others != nil && c01OthersLoopOK(f, g, others), "",
		"no loop over a.servicesOnIP[ip] that appends every tenant other than svc to the list tested by the sole-tenant check")

	nilRet := func(n ast.Node) bool {
		rs, ok := n.(*ast.ReturnStmt)
		return ok && len(rs.Results) == 1 && f.IsNilLit(rs.Results[0])
	}
	// (1) key present => sharingOK consulted, and failure => sole tenant
	w := (&chk.Walk{G: g, Hit: nilRet, Cut: func(b *cfgBlock, k int) bool {
		return g.EdgeImplies(b, k, chk.GAnyOf(noKey, shareOK, soleTenant))
	}}).Run()
	ok1 := !w.Found
	if !ok1 {
		// the comparisons made on the way (the helper expanded in place, its results carried by a local error): decided
		// path by path, one comparison at a time
		ok1 = true
		call := g.GErrNil(true, sharePat, chk.H("E", existing), chk.H("SK", isParam(f, "sk")))
		for _, site := range g.Find(nilRet) {
			for _, c := range c01SharingComparisons(g, existing, isParam(f, "sk")) {
				if !g.Dominated(site, chk.GAnyOf(noKey, call, c, soleTenant)) {
					ok1 = false
				}
			}
		}
	}
	x.Check("checkSharing:nil-return-needs-sharingOK-or-sole-tenant", posOf(w, f), ok1, "",
		"a nil return is reachable for an address with an existing sharing key although sharingOK failed and other services hold the address: "+describe(f, w))
	// (2) key present => ports loop ran to exhaustion with the owner test
	var portsOK bool
	why := "no loop over ports found"
	for _, rs := range f.RangeLoops(isParam(f, "ports")) {
		guard := func(ft chk.Fact) bool {
			// the false edge of `ok && curSvc != svc`
			if ft.Val {
				return false
			}
			b := f.MatchNew("OK && CUR != S", ft.E)
			if b == nil || !isParam(f, "svc")(b["S"]) {
				return false
			}
			cur, ok1 := ast.Unparen(b["CUR"]).(*ast.Ident)
			okv, ok2 := ast.Unparen(b["OK"]).(*ast.Ident)
			if !ok1 || !ok2 {
				return false
			}
			site := g.FactSite(cur)
			r1, i1 := g.DefOf(cur, site)
			r2, i2 := g.DefOf(okv, site)
			return r1 != nil && r1 == r2 && i1 == 0 && i2 == 1 &&
				f.MatchWith("RECV.portsInUse[IP][P]", r1, chk.H("IP", ip), chk.H("P", rangeVal(f, rs))) != nil
		}
		if o, wy := g.LoopForall(rs, chk.GFunc(guard)); o {
			// every nil return with a key present comes after this loop
			loop, _, _ := g.RangeBlocks(rs)
			w := (&chk.Walk{G: g, Hit: nilRet, Cut: func(b *cfgBlock, k int) bool {
				return (b == loop && k == 1) || g.EdgeImplies(b, k, noKey)
			}}).Run()
			if !w.Found {
				portsOK = true
			} else {
				why = "a nil return for an address with an existing key bypasses the ports loop: " + describe(f, w)
			}
		} else {
			why = wy
		}
	}
	x.Check("checkSharing:nil-return-needs-port-owner-loop", f.Pos(), portsOK, "", why)
	// (3) error returns are not nil-valued constants elsewhere: every return is nil or an error value
	x.Check("checkSharing:falls-through-to-nil", f.Pos(), len(g.Find(nilRet)) >= 1, "", "no nil return")
}

type cfgBlock = chk.Block

// bodyStart returns a Site positioned at the beginning of the loop body.
func bodyStart(g *chk.Graph, rs *ast.RangeStmt) chk.Site {
	_, body, _ := g.RangeBlocks(rs)
	return chk.Site{G: g, B: body, I: -1}
}

// c01OthersLoopOK: in the loop that builds `others`, every iteration whose
// tenant differs from svc appends the tenant.
func c01OthersLoopOK(f *chk.Fn, g *chk.Graph, others types.Object) bool {
	ip := c01IPKey(f, g)
	for _, rs := range f.RangeLoops(func(e ast.Expr) bool { return f.MatchWith("RECV.servicesOnIP[IP]", e, chk.H("IP", ip)) != nil }) {
		loop, body, _ := g.RangeBlocks(rs)
		if body == nil {
			continue
		}
		isApp := f.IsAssignPat("O", "append(O, T)", chk.H("O", f.IsObj(others)), chk.H("T", rangeKey(f, rs)))
		same := g.GPat(false, "T != S", chk.H("T", rangeKey(f, rs)), chk.H("S", isParam(f, "svc")))
		// reaching the loop head again without appending is the failure
		found := false
		seen := map[*cfgBlock]bool{}
		var dfs func(b *cfgBlock, start int) bool
		dfs = func(b *cfgBlock, start int) bool {
			for i := start; i < len(b.Nodes); i++ {
				if isApp(b.Nodes[i]) {
					return false
				}
			}
			for k, s := range b.Succs {
				if g.EdgeImplies(b, k, same) {
					continue
				}
				if s == loop {
					return true
				}
				if !seen[s] {
					seen[s] = true
					if dfs(s, 0) {
						return true
					}
				}
			}
			return false
		}
		found = dfs(body, 0)
		if !found {
			return true
		}
	}
	return false
}

// SHAREOK: sharingOK and BackendKey.
func c01ShareOK(p *chk.Prog, r *chk.Report) {
	x := r.Rule("SHAREOK", "B path", "sharingOK returns nil only behind: existing key non-empty, new key non-empty, sharing keys equal, backend keys equal; k8salloc.BackendKey returns the pod selector exactly under ExternalTrafficPolicy == Local and \"\" otherwise", 6)
	f := p.LookupFunc(allocPkg, "", "sharingOK")
	var exOf, nwOf func(*chk.Fn) func(ast.Expr) bool
	if cs := p.LookupFunc(allocPkg, "Allocator", "checkSharing"); cs != nil {
		cg := cs.Graph()
		existing := definedBy(cg, "RECV.sharingKeyForIP[IP]", chk.H("IP", c01IPKey(cs, cg)))
		if fn, _, e, n := c01ShareFn(p, cs, existing, isParam(cs, "sk")); fn != nil {
			// the helper found by its role (it may have been renamed or turned into a method of the key)
			f, exOf, nwOf = fn, e, n
		}
	}
	if f == nil {
		// the helper was folded into its only user: the four comparisons are decided where they are made
		c01SharingInlined(p, x)
	}
	if f != nil {
		g := f.Graph()
		ex, nw := isParamIdx(f, 0), isParamIdx(f, 1)
		if exOf != nil {
			ex, nw = exOf(f), nwOf(f)
		}
		cmp := c01SharingComparisons(g, ex, nw)
		guards := []struct {
			name string
			g    chk.Guard
		}{
			{"existing.sharing!=\"\"", cmp[0]}, {"new.sharing!=\"\"", cmp[1]}, {"sharing-equal", cmp[2]}, {"backend-equal", cmp[3]},
		}
		n := 0
		for _, rt := range returnsOf(g) {
			res := retResults(rt)
			if len(res) != 1 || !f.IsNilLit(res[0]) {
				continue
			}
			n++
			for _, gd := range guards {
				x.Check("sharingOK:return-nil:"+gd.name, rt.Pos(), g.Dominated(rt, gd.g), "", "sharingOK can return nil without the comparison "+gd.name)
			}
		}
		x.Check("sharingOK:has-nil-return", f.Pos(), n > 0, "", "sharingOK never returns nil")
	}
	b := need(x, p, "internal/allocator/k8salloc", "", "BackendKey")
	if b != nil {
		g := b.Graph()
		svc := isParamIdx(b, 0)
		local := g.GPat(true, "S.Spec.ExternalTrafficPolicy == L", chk.H("S", svc), chk.H("L", constStr(b, "Local")))
		sel := 0
		for _, rt := range returnsOf(g) {
			res := retResults(rt)
			if len(res) != 1 {
				continue
			}
			if b.IsConstString(res[0], "") {
				// "" must not be returned under Local
				continue
			}
			if b.MatchWith("labels.Set(S.Spec.Selector).String()", res[0], chk.H("S", svc)) != nil {
				sel++
				x.Check("BackendKey:selector-only-under-Local", rt.Pos(), g.Dominated(rt, local), "", "the pod selector is used as backend key outside the Local policy branch")
				continue
			}
			x.Fail("BackendKey:unknown-return", rt.Pos(), "BackendKey returns something other than the selector string or \"\"")
		}
		// under Local every return is the selector: no "" return reachable through the Local edge
		w := (&chk.Walk{G: g, Hit: func(n ast.Node) bool {
			rs, ok := n.(*ast.ReturnStmt)
			return ok && len(rs.Results) == 1 && b.IsConstString(rs.Results[0], "")
		}, Cut: func(bl *cfgBlock, k int) bool {
			return g.EdgeImplies(bl, k, g.GPat(false, "S.Spec.ExternalTrafficPolicy == L", chk.H("S", svc), chk.H("L", constStr(b, "Local"))))
		}}).Run()
		x.Check("BackendKey:Local-returns-selector", posOf(w, b), sel > 0 && !w.Found, "", "under the Local policy BackendKey can return \"\" (services with different pod selectors would be allowed to share)")
	}
}

// FIELDMAP: k8salloc.Ports.
func c01FieldMap(p *chk.Prog, r *chk.Report) {
	x := r.Rule("FIELDMAP", "E sibling", "k8salloc.Ports appends, for every element of svc.Spec.Ports, allocator.Port{Proto: string(port.Protocol), Port: int(port.Port)} of that same element, and returns the list", 2)
	f := need(x, p, "internal/allocator/k8salloc", "", "Ports")
	if f == nil {
		return
	}
	g := f.Graph()
	svc := isParamIdx(f, 0)
	loops := f.RangeLoops(func(e ast.Expr) bool { return f.MatchWith("S.Spec.Ports", e, chk.H("S", svc)) != nil })
	if len(loops) != 1 {
		x.Fail("Ports:loop", f.Pos(), "expected one loop over svc.Spec.Ports")
		return
	}
	rs := loops[0]
	isApp := f.IsAssignPat("R", "append(R, allocator.Port{Proto: string(P.Protocol), Port: int(P.Port)})", chk.H("P", rangeVal(f, rs)))
	apps := g.Find(func(n ast.Node) bool { return chk.InBody(rs, n) && isApp(n) })
	if len(apps) != 1 {
		x.Fail("Ports:element-map", rs.Pos(), "the loop does not append allocator.Port{Proto: string(port.Protocol), Port: int(port.Port)} of the ranged element")
		return
	}
	ret := f.ObjOf(apps[0].Node.(*ast.AssignStmt).Lhs[0])
	// every iteration appends (no continue/break), and the list is what is returned
	skip := loopCanSkip(g, rs, isApp)
	x.Check("Ports:every-element", rs.Pos(), !skip, "", "an element of svc.Spec.Ports can be skipped")
	good := true
	for _, rt := range returnsOf(g) {
		res := retResults(rt)
		if len(res) != 1 || f.ObjOf(res[0]) != ret {
			good = false
		}
	}
	x.Check("Ports:returns-list", f.Pos(), good && len(returnsOf(g)) > 0, "", "Ports returns something other than the list it built")
}

// loopCanSkip: some path from the body entry reaches the loop head or leaves
// the loop without passing a node satisfying must.
func loopCanSkip(g *chk.Graph, rs *ast.RangeStmt, must func(ast.Node) bool) bool {
	loop, body, done := g.RangeBlocks(rs)
	if body == nil {
		return true
	}
	seen := map[*cfgBlock]bool{}
	var dfs func(b *cfgBlock) bool
	dfs = func(b *cfgBlock) bool {
		for _, n := range b.Nodes {
			if must(n) {
				return false
			}
		}
		if len(b.Succs) == 0 {
			return false
		}
		for _, s := range b.Succs {
			if s == loop || s == done {
				return true
			}
			if !seen[s] {
				seen[s] = true
				if dfs(s) {
					return true
				}
			}
		}
		return false
	}
	return dfs(body)
}

// ARGS: controller call sites.
func c01Args(p *chk.Prog, r *chk.Report) {
	x := r.Rule("ARGS", "E sibling", "every call of Allocator.{Assign,Allocate,AllocateFromPool,AllocateFromPoolForAdditionalFamily} in package controller passes (key, svc, …, k8salloc.Ports(svc), SharingKey(svc), k8salloc.BackendKey(svc)) of the enclosing function's own key and svc parameters; SharingKey reads only the allow-shared-ip annotations", 5)
	const A = "(*internal/allocator.Allocator)."
	n := 0
	for _, cs := range p.CallSites(A+"Assign", A+"Allocate", A+"AllocateFromPool", A+"AllocateFromPoolForAdditionalFamily") {
		if cs.Fn.Pkg.PkgPath != chk.Module+"/controller" {
			continue
		}
		f := cs.Fn
		r.Saw(f)
		n++
		args := cs.Call.Args
		name := chk.ObjName(f.Callee(cs.Call))
		key := name[len(A):] + "@" + f.Name()
		if len(args) < 5 {
			x.Fail(key, cs.Call.Pos(), "unexpected arity")
			continue
		}
		svc := isParam(f, "svc")
		ok := isParam(f, "key")(args[0]) && svc(args[1]) &&
			f.MatchWith("k8salloc.Ports(S)", args[len(args)-3], chk.H("S", svc)) != nil &&
			f.MatchWith("SharingKey(S)", args[len(args)-2], chk.H("S", svc)) != nil &&
			f.MatchWith("k8salloc.BackendKey(S)", args[len(args)-1], chk.H("S", svc)) != nil
		x.Check(key+"#"+argTag(f, cs.Call), cs.Call.Pos(), ok, "", "the allocator is not given (key, svc, …, k8salloc.Ports(svc), SharingKey(svc), k8salloc.BackendKey(svc)) of the handler's own service")
	}
	r.CallSites += n
	sk := need(x, p, "controller", "", "SharingKey")
	if sk != nil {
		g := sk.Graph()
		good := len(returnsOf(g)) > 0
		for _, rt := range returnsOf(g) {
			res := retResults(rt)
			if len(res) != 1 {
				good = false
				continue
			}
			direct := sk.MatchWith("S.Annotations[K]", res[0], chk.H("S", isParamIdx(sk, 0)),
				chk.H("K", constStr(sk, "metallb.io/allow-shared-ip", "metallb.universe.tf/allow-shared-ip"))) != nil
			// or through the package's stable-then-deprecated lookup helper
			viaHelper := sk.MatchWith("valueForAnnotation(S.Annotations, A, B)", res[0], chk.H("S", isParamIdx(sk, 0)),
				chk.H("A", constStr(sk, "metallb.io/allow-shared-ip")), chk.H("B", constStr(sk, "metallb.universe.tf/allow-shared-ip"))) != nil
			if !direct && !viaHelper {
				good = false
			}
		}
		x.Check("SharingKey:source", sk.Pos(), good, "", "SharingKey returns something other than the service's allow-shared-ip annotation")
		viaHelper := false
		for _, rt := range returnsOf(g) {
			if res := retResults(rt); len(res) == 1 && sk.MatchWith("valueForAnnotation(ETC)", res[0]) != nil {
				viaHelper = true
			}
		}
		if !viaHelper {
			annotationPrecedence(x, sk, "SharingKey:stable-annotation-wins-when-present", func(e ast.Expr) bool {
				return sk.MatchWith("S.Annotations", e, chk.H("S", isParamIdx(sk, 0))) != nil
			}, constStr(sk, "metallb.io/allow-shared-ip"), constStr(sk, "metallb.universe.tf/allow-shared-ip"))
		}
	}
	if vf := need(x, p, "controller", "", "valueForAnnotation"); vf != nil {
		if keys := vf.Param(1); keys != nil && vf.Param(2) == nil {
			if _, isSlice := keys.Type().(*types.Slice); isSlice {
				// the keys as a list, the stable one first (the call sites are matched in that order): the first key that is
				// present answers
				firstPresentKeyRule(x, vf, "valueForAnnotation:first-present-key-wins")
				return
			}
		}
		annotationPrecedence(x, vf, "valueForAnnotation:stable-annotation-wins-when-present", isParamIdx(vf, 0), isParamIdx(vf, 1), isParamIdx(vf, 2))
	}
}

// argTag distinguishes several calls of the same callee in one function by the
// shape of their distinguishing argument (not by position in the file).
func argTag(f *chk.Fn, call *ast.CallExpr) string {
	if len(call.Args) > 2 {
		return types.ExprString(call.Args[2])
	}
	return ""
}

// REKEY-REPROCESS: controller.SetBalancer.
func c01Rekey(p *chk.Prog, r *chk.Report) {
	x := r.Rule("REKEY-REPROCESS", "B path", "in controller.SetBalancer the allocation key is read before and after convergeBalancer, and when they differ every later return yields SyncStateReprocessAll, except the return of SyncStateError after a failed UpdateStatus", 3)
	f := need(x, p, "controller", "controller", "SetBalancer")
	if f == nil {
		return
	}
	g := f.Graph()
	name := isParam(f, "name")
	conv := g.FindPat("RECV.convergeBalancer(_, N, _)", chk.H("N", name))
	if len(conv) != 1 {
		x.Fail("SetBalancer:convergeBalancer-call", f.Pos(), "expected one call of convergeBalancer")
		return
	}
	isKeyRead := f.ContainsPat("RECV.ips.AllocationKey(N)", chk.H("N", name))
	before := g.MustPass(chk.Site{}, func(n ast.Node) bool { return n == conv[0].Top }, false, isKeyRead)
	x.Check("SetBalancer:key-read-before-converge", conv[0].Pos(), !before.Found, "", "the allocation key is not read before convergeBalancer")
	// find the comparison
	var cmpSite *chk.Site
	for _, b := range g.Blocks {
		for k := range b.Succs {
			for _, ft := range g.EdgeFacts(b, k) {
				if m := f.MatchNew("P != Q", ft.E); m != nil && ft.Val {
					defP := definedBy(g, "RECV.ips.AllocationKey(N)", chk.H("N", name))
					if defP(m["P"]) && defP(m["Q"]) {
						s := g.FactSite(ft.E)
						cmpSite = &s
					}
				}
			}
		}
	}
	if cmpSite == nil {
		x.Fail("SetBalancer:key-compare", f.Pos(), "no comparison of the allocation key before and after convergeBalancer")
		return
	}
	// after converge, the second read precedes the comparison
	after := g.MustPass(conv[0], func(n ast.Node) bool { return n == cmpSite.Top }, false, isKeyRead)
	x.Check("SetBalancer:key-read-after-converge", cmpSite.Pos(), !after.Found, "", "the allocation key is not re-read between convergeBalancer and the comparison")
	// from the true edge: all returns are ReprocessAll
	isRA := isObjNamed(f, "internal/k8s/controllers.SyncStateReprocessAll")
	var resVar types.Object
	// the variable assigned ReprocessAll on the true branch
	thenB := cmpSite.B.Succs[0]
	for _, n := range thenB.Nodes {
		if as, ok := n.(*ast.AssignStmt); ok && len(as.Lhs) == 1 && len(as.Rhs) == 1 && isRA(as.Rhs[0]) {
			resVar = f.ObjOf(as.Lhs[0])
		}
	}
	if resVar == nil {
		x.Fail("SetBalancer:rekey-sets-reprocess", cmpSite.Pos(), "the changed-allocation-key branch does not set the result to SyncStateReprocessAll")
		return
	}
	w := stickyReprocess(f, g, chk.Site{G: g, B: thenB, I: len(thenB.Nodes)}, resVar)
	x.Check("SetBalancer:rekey-returns-reprocess", posOf(w, f), !w.Found, "", "after the allocation key changed, a return that is not SyncStateReprocessAll (nor the UpdateStatus failure) is reachable: "+describe(f, w))
}

// KEY-LIFETIME: Unassign frees an address's sharing key only when no port
// owner remains.
func c01KeyLifetime(p *chk.Prog, r *chk.Report) {
	x := r.Rule("KEY-LIFETIME", "B path", "in (*Allocator).Unassign, delete(a.sharingKeyForIP, ip) is dominated by len(a.portsInUse[ip]) == 0 for the same address (the key of an address outlives every service that still owns a port on it)", 1)
	f := need(x, p, allocPkg, "Allocator", "Unassign")
	if f == nil {
		return
	}
	g := f.Graph()
	for _, s := range g.FindPat("delete(RECV.sharingKeyForIP, K)") {
		k := s.Node.(*ast.CallExpr).Args[1]
		ok := g.Dominated(s, g.GPat(true, "len(RECV.portsInUse[K]) == 0", chk.H("K", func(e ast.Expr) bool { return f.SameExpr(e, k) })))
		x.Check("Unassign:delete-sharingKeyForIP", s.Pos(), ok, "", "the sharing key of an address is dropped while other services may still own ports on it")
	}
	// likewise the set of tenants of an address: it is dropped as a whole only when it is empty, or together with the last
	// port - not on a per-pool counter reaching zero (during a pool rename the other tenants are already counted under the
	// new name) - or the remaining tenants become invisible to the sole-tenant exemption of checkSharing
	for _, s := range g.FindPat("delete(RECV.servicesOnIP, K)") {
		k := s.Node.(*ast.CallExpr).Args[1]
		same := chk.H("K", func(e ast.Expr) bool { return f.SameExpr(e, k) })
		ok := g.Dominated(s, chk.GOr(g.GPat(true, "len(RECV.servicesOnIP[K]) == 0", same), g.GPat(true, "len(RECV.portsInUse[K]) == 0", same)))
		x.Check("Unassign:delete-servicesOnIP", s.Pos(), ok, "", "the whole tenant set of an address is dropped although services may still hold the address (the condition is not that the set, or the address's port map, is empty)")
	}
}

// stickyReprocess walks from `from` and reports a path on which the result
// variable is overwritten with something other than SyncStateReprocessAll, or
// a return that yields neither the variable nor ReprocessAll (the return of
// SyncStateError behind a failed UpdateStatus is the one exemption).
func stickyReprocess(f *chk.Fn, g *chk.Graph, from chk.Site, resVar types.Object) chk.Witness {
	isRA := isObjNamed(f, "internal/k8s/controllers.SyncStateReprocessAll")
	isErr := isObjNamed(f, "internal/k8s/controllers.SyncStateError")
	updErr := g.GErrNil(false, "RECV.client.UpdateStatus(_)")
	return (&chk.Walk{G: g, From: from, Inclusive: true, Hit: func(n ast.Node) bool {
		switch s := n.(type) {
		case *ast.AssignStmt:
			for i, l := range s.Lhs {
				if f.ObjOf(l) == resVar && !(len(s.Rhs) == len(s.Lhs) && isRA(s.Rhs[i])) {
					return true
				}
			}
		case *ast.ReturnStmt:
			if len(s.Results) != 1 {
				return true
			}
			if f.ObjOf(s.Results[0]) == resVar || isRA(s.Results[0]) {
				return false
			}
			if isErr(s.Results[0]) {
				site := g.FactSite(s.Results[0])
				return !g.Dominated(site, updErr)
			}
			return true
		}
		return false
	}}).Run()
}

// c01SharingComparisons: the four comparisons that make two sharing keys compatible, over the given key expressions.
func c01SharingComparisons(g *chk.Graph, ex, nw func(ast.Expr) bool) []chk.Guard {
	E, N := chk.H("E", ex), chk.H("N", nw)
	return []chk.Guard{
		g.GPat(false, `E.sharing == ""`, E),
		g.GPat(false, `N.sharing == ""`, N),
		chk.GOr(g.GPat(true, "E.sharing == N.sharing", E, N), g.GPat(true, "N.sharing == E.sharing", E, N)),
		chk.GOr(g.GPat(true, "E.backend == N.backend", E, N), g.GPat(true, "N.backend == E.backend", E, N)),
	}
}

// c01SharingInlined decides SHAREOK's comparisons inside checkSharing when sharingOK no longer exists: a nil return for
// an address with an existing key needs each comparison (or the sole-tenant exemption).
func c01SharingInlined(p *chk.Prog, x *chk.R) {
	f := need(x, p, allocPkg, "Allocator", "checkSharing")
	if f == nil {
		return
	}
	g := f.Graph()
	ip := c01IPKey(f, g)
	existing0 := definedBy(g, "RECV.sharingKeyForIP[IP]", chk.H("IP", ip))
	existing := func(e ast.Expr) bool {
		// the recorded key, or what it points to (keys compared by value)
		if st, isStar := ast.Unparen(e).(*ast.StarExpr); isStar && existing0(st.X) {
			return true
		}
		return existing0(e)
	}
	// "the address has no sharing key yet": the looked-up pointer is nil, or - keys kept by value - the lookup's ok is false
	noKey := chk.GSame(g.GPat(true, "E == nil", chk.H("E", existing)), chk.GBool(false, definedByIdx(g, f, "RECV.sharingKeyForIP[IP]", 1, chk.H("IP", ip))))
	soleTenant := chk.GNever()
	for _, rs := range f.RangeLoops(func(e ast.Expr) bool {
		return f.MatchWith("RECV.servicesOnIP[IP]", e, chk.H("IP", ip)) != nil
	}) {
		apps := g.Find(func(n ast.Node) bool {
			return chk.InBody(rs, n) && f.IsAssignPat("O", "append(O, T)", chk.H("T", rangeKey(f, rs)))(n)
		})
		if len(apps) == 1 {
			soleTenant = g.GPat(false, "len(O) > 0", chk.H("O", f.IsObj(f.ObjOf(apps[0].Node.(*ast.AssignStmt).Lhs[0]))))
		}
	}
	nilRet := func(n ast.Node) bool {
		rs, ok := n.(*ast.ReturnStmt)
		return ok && len(rs.Results) == 1 && f.IsNilLit(rs.Results[0])
	}
	names := []string{"existing.sharing!=\"\"", "new.sharing!=\"\"", "sharing-equal", "backend-equal"}
	for i, c := range c01SharingComparisons(g, existing, isParam(f, "sk")) {
		w := (&chk.Walk{G: g, Hit: nilRet, Cut: func(b *cfgBlock, k int) bool {
			return g.EdgeImplies(b, k, chk.GAnyOf(noKey, c, soleTenant))
		}}).Run()
		ok := !w.Found
		if !ok {
			ok = true
			for _, site := range g.Find(nilRet) {
				if !g.Dominated(site, chk.GAnyOf(noKey, c, soleTenant)) {
					ok = false
				}
			}
		}
		x.Check("sharingOK(folded into checkSharing):return-nil:"+names[i], posOf(w, f), ok, "", "checkSharing can return nil for an address shared with other services without the comparison "+names[i]+": "+describe(f, w))
	}
}

// c01IPKey: the textual form of the address under judgement inside checkSharing: the string parameter, or - when the
// address arrives as a net.IP - a local defined once as ADDR.String() (or that call written in place).
func c01IPKey(f *chk.Fn, g *chk.Graph) func(ast.Expr) bool {
	v := f.ParamNamed("ip")
	if v == nil {
		v = f.Param(1)
	}
	if v == nil {
		return func(ast.Expr) bool { return false }
	}
	if b, ok := v.Type().Underlying().(*types.Basic); ok && b.Kind() == types.String {
		return func(e ast.Expr) bool { return f.Denotes(e, v) }
	}
	addr := func(e ast.Expr) bool { return f.Denotes(e, v) }
	return definedBy(g, "A.String()", chk.H("A", addr))
}

// checkSharingCallPat: the shape of a call of checkSharing for the address matched by the hole IP (a net.IP at the
// caller): its text form when checkSharing takes a string, the address itself when it takes a net.IP.
func checkSharingCallPat(p *chk.Prog, svc, ports, sk string) string {
	arg := "IP.String()"
	if f := p.LookupFunc(allocPkg, "Allocator", "checkSharing"); f != nil {
		if v := f.Param(1); v != nil {
			if _, isStr := v.Type().Underlying().(*types.Basic); !isStr {
				arg = "IP"
			}
		}
	}
	return "RECV.checkSharing(" + svc + ", " + arg + ", " + ports + ", " + sk + ")"
}

// c01ShareFn: the compatibility test of two sharing keys, found by its role: the module function with the single result
// error that checkSharing calls with exactly the key recorded for the address and the requested key as operands (the
// receiver counts as an operand). pat is the call as a pattern over the holes E (recorded key) and SK (requested key).
func c01ShareFn(p *chk.Prog, f *chk.Fn, existing, sk func(ast.Expr) bool) (fn *chk.Fn, pat string, exPred, nwPred func(*chk.Fn) func(ast.Expr) bool) {
	var found []*ast.CallExpr
	chk.InspectNoLit(f.Body, func(n ast.Node) bool {
		call, ok := n.(*ast.CallExpr)
		if !ok {
			return true
		}
		o, _ := f.Callee(call).(*types.Func)
		if o == nil || p.FnOf(o) == nil {
			return true
		}
		sig := o.Type().(*types.Signature)
		if sig.Results().Len() != 1 || sig.Results().At(0).Type().String() != "error" {
			return true
		}
		ops := append([]ast.Expr{}, call.Args...)
		if sig.Recv() != nil {
			sel, ok := ast.Unparen(call.Fun).(*ast.SelectorExpr)
			if !ok {
				return true
			}
			ops = append([]ast.Expr{sel.X}, ops...)
		}
		if len(ops) != 2 {
			return true
		}
		if (existing(ops[0]) && sk(ops[1])) || (existing(ops[1]) && sk(ops[0])) {
			found = append(found, call)
		}
		return true
	})
	if len(found) != 1 {
		return nil, "", nil, nil
	}
	call := found[0]
	o := f.Callee(call).(*types.Func)
	fn = p.FnOf(o)
	isMethod := o.Type().(*types.Signature).Recv() != nil
	var first ast.Expr
	if isMethod {
		first = ast.Unparen(call.Fun).(*ast.SelectorExpr).X
	} else {
		first = call.Args[0]
	}
	exFirst := existing(first)
	operand := func(i int) func(*chk.Fn) func(ast.Expr) bool {
		return func(c *chk.Fn) func(ast.Expr) bool {
			if isMethod {
				if i == 0 {
					return isRecv(c)
				}
				return isParamIdx(c, 0)
			}
			return isParamIdx(c, i)
		}
	}
	a, b := "E", "SK"
	if !exFirst {
		a, b = "SK", "E"
	}
	if isMethod {
		pat = a + "." + o.Name() + "(" + b + ")"
	} else {
		pat = o.Name() + "(" + a + ", " + b + ")"
	}
	if exFirst {
		return fn, pat, operand(0), operand(1)
	}
	return fn, pat, operand(1), operand(0)
}

// c01ShareFnOnly: the key-compatibility helper of checkSharing found by its role, or nil.
func c01ShareFnOnly(p *chk.Prog) *chk.Fn {
	cs := p.LookupFunc(allocPkg, "Allocator", "checkSharing")
	if cs == nil {
		return nil
	}
	cg := cs.Graph()
	existing := definedBy(cg, "RECV.sharingKeyForIP[IP]", chk.H("IP", c01IPKey(cs, cg)))
	fn, _, _, _ := c01ShareFn(p, cs, existing, isParam(cs, "sk"))
	return fn
}
