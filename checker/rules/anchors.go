package rules

import (
	"embed"
	"go/scanner"
	"go/token"
	"strconv"
	"strings"

	"verif/mlbcheck/chk"
)

// The rule files name functions of the analysed tree in many forms (LookupFunc
// arguments, owner lists, patterns, lock tables). Every string literal of the
// rule sources is registered as an anchor: a function whose qualified name is one
// of the literals, or whose bare name occurs as a word in one of them, is never
// expanded by the normalisation pre-pass (chk/inline.go), so the rules find it.
//
//go:embed *.go
var ruleSources embed.FS

func init() {
	ents, _ := ruleSources.ReadDir(".")
	for _, e := range ents {
		src, err := ruleSources.ReadFile(e.Name())
		if err != nil {
			continue
		}
		fset := token.NewFileSet()
		file := fset.AddFile(e.Name(), -1, len(src))
		var sc scanner.Scanner
		sc.Init(file, src, nil, 0)
		prev, prev2 := "", ""
		for {
			_, tok, lit := sc.Scan()
			if tok == token.EOF {
				break
			}
			p1, p2 := prev, prev2
			prev2, prev = prev, lit
			if tok == token.COLON {
				prev = ":"
			}
			if tok != token.STRING {
				continue
			}
			// the source fragments of the mutant tables (Old: "...", New: "...") quote the analysed tree; they do not
			// name functions the rules look up
			if p1 == ":" && (p2 == "Old" || p2 == "New") {
				continue
			}
			s, err := strconv.Unquote(lit)
			if err != nil {
				continue
			}
			chk.Anchors.AddNames(s)
			for _, w := range strings.FieldsFunc(s, func(r rune) bool {
				return !(r == '_' || r >= '0' && r <= '9' || r >= 'a' && r <= 'z' || r >= 'A' && r <= 'Z')
			}) {
				chk.Anchors.AddIdents(w)
			}
		}
	}
}
