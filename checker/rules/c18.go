package rules

import (
	"fmt"
	"go/ast"
	"go/token"
	"go/types"
	"sort"

	"verif/mlbcheck/chk"
)

func init() {
	register(&Prop{
		ID: "C18",
		Explanation: "Decided: both sources of order - the API server's listing order and Go map iteration - are neutralised before the value that the reconcilers " +
			"compare. (LISTS-SORTED) every slice-typed field of config.ClusterResources is passed through sortedCopy in toConfig, which sorts a copy by the " +
			"object's name with a comparator that indexes the slice being sorted; (SORT-IDX, repo-wide) every sort.Slice comparator of the module indexes only " +
			"the slice it sorts; (MAPORDER) in the module-local call-graph closure of toConfig, config.For and the four mode validators no slice whose element " +
			"order comes from ranging over a map (or maps.Keys/UnsortedList) is returned, stored or passed on unsorted, no value depending on the loop variables " +
			"is returned from inside a map range (other than constants and errors), and every comparator-based sort that neutralises map order compares the whole " +
			"element or its name (TOTAL-ORDER); (MAP-LWW) no map insert inside a map range can be last-writer-wins; (COMPARE-BEFORE-APPLY) the Config and Pool " +
			"reconcilers call their handler only when reflect.DeepEqual(current, new) is false, compute new through toConfig, and do not remember a configuration " +
			"whose handling failed.",
		NotDecided: "Order of side effects and of error messages (acceptance does not depend on them); uniqueness of object names within a kind is assumed (the API " +
			"server guarantees it per namespace); reflect.DeepEqual semantics on the value.",
		Run:      runC18,
		Thorough: thoroughC18,
		Mutants: []Mutant{
			{Name: "echo-mode-of-the-last-profile-visited", File: "internal/config/validation.go",
				Old: "func validateConfig(cfg *Config) error {\n", New: "func validateConfig(cfg *Config) error {\n\techo := false\n\tfor _, profile := range cfg.BFDProfiles {\n\t\techo = profile.EchoMode\n\t}\n\tif !echo {\n\t\treturn nil\n\t}\n", Expect: "MAP-LAST"},
			{Name: "pinned-names-sorted-through-an-appended-alias", File: "internal/allocator/allocator.go",
				Old: "\tfor _, svcPoolName := range a.pools.ByServiceSelector {\n", New: "\tselNames := append(a.pools.ByServiceSelector, a.pools.ByNamespace[svc.Namespace]...)\n\tsort.Strings(selNames)\n\tfor _, svcPoolName := range a.pools.ByServiceSelector {\n", Expect: "sort-alias"},
			{Name: "pool-config-forgotten-on-rejected-snapshot", File: "internal/k8s/controllers/pool_controller.go",
				Old: "\tif err != nil {\n\t\tconfigStale.Set(1)\n", New: "\tif err != nil {\n\t\tconfigStale.Set(1)\n\t\tr.currentConfig = nil\n", Expect: "remembered-changes-only-with-the-handler"},
			{Name: "hold-time-truncated-in-place", File: "internal/bgp/native/native.go",
				Old: "\tret := &session{\n\t\tSessionParameters: sessionsParams,",
				New: "\t*sessionsParams.HoldTime = sessionsParams.HoldTime.Truncate(time.Second)\n\tret := &session{\n\t\tSessionParameters: sessionsParams,", Expect: "store-through-field"},
			{Name: "v6-flag-shared-by-all-pools", File: "internal/config/validation.go",
				Old: "\tfor _, p := range cfg.Pools.ByName {\n\t\tcontainsV6 := false\n", New: "\tcontainsV6 := false\n\tfor _, p := range cfg.Pools.ByName {\n", Expect: "MAP-CARRY"},
			{Name: "sortedcopy-indexes-input", File: "internal/k8s/controllers/config_conversion.go",
				Old: "\t\tfirst := PT(&res[i])\n\t\tsecond := PT(&res[j])", New: "\t\tfirst := PT(&toSort[i])\n\t\tsecond := PT(&toSort[j])", Expect: "SORT-IDX"},
			{Name: "namespace-index-unsorted", File: "internal/config/config.go",
				Old: "\tfor _, poolNames := range poolsForNamespace {\n\t\tsort.Strings(poolNames)\n\t}\n", New: "", Expect: "MAPORDER"},
			{Name: "unsorted-listed-kind", File: "internal/k8s/controllers/config_conversion.go",
				Old: "\t\tCommunities:     sortedCopy(fromK8s.Communities),", New: "\t\tCommunities:     fromK8s.Communities,", Expect: "LISTS-SORTED"},
			{Name: "handler-before-comparison", File: "internal/k8s/controllers/pool_controller.go",
				Old: "\tif reflect.DeepEqual(r.currentConfig, cfg) {", New: "\tif reflect.DeepEqual(r.currentConfig, cfg) && r.currentConfig.Pools != nil {", Expect: "COMPARE-BEFORE-APPLY"},
			{Name: "namespace-index-sorted-by-priority-only", File: "internal/config/config.go",
				Old: "\tfor _, poolNames := range poolsForNamespace {\n\t\tsort.Strings(poolNames)\n\t}\n",
				New: "\tfor _, poolNames := range poolsForNamespace {\n\t\tsort.Slice(poolNames, func(i, j int) bool {\n\t\t\treturn pools[poolNames[i]].ServiceAllocations.Priority < pools[poolNames[j]].ServiceAllocations.Priority\n\t\t})\n\t}\n", Expect: "TOTAL-ORDER"},
			{Name: "selector-index-unsorted", File: "internal/config/config.go",
				Old: "\tsort.Strings(poolsByServiceSelector)\n", New: "", Expect: "MAPORDER"},
			{Name: "failed-config-remembered", File: "internal/k8s/controllers/config_controller.go",
				Old: "\t\tr.currentConfig = nil\n", New: "", Expect: "COMPARE-BEFORE-APPLY"},
			{Name: "sortedcopy-descending-unstable-key", File: "internal/k8s/controllers/config_conversion.go",
				Old: "return first.GetName() < second.GetName()", New: "return len(first.GetName()) < len(second.GetName())", Expect: "LISTS-SORTED"},
			{Name: "pool-config-committed-on-error", File: "internal/k8s/controllers/pool_controller.go",
				Old: "\tres := r.Handler(r.Logger, cfg.Pools)\n", New: "\tr.currentConfig = cfg\n\tres := r.Handler(r.Logger, cfg.Pools)\n", Expect: "COMPARE-BEFORE-APPLY"},
			{Name: "D16-cursor-on-the-shared-network", File: "internal/allocator/allocator.go",
				Old: "\treturn ipaddr.NewCursor([]ipaddr.Prefix{*ipaddr.NewPrefix(&net.IPNet{IP: cidr.IP, Mask: cidr.Mask})})", New: "\treturn ipaddr.NewCursor([]ipaddr.Prefix{*ipaddr.NewPrefix(cidr)})", Expect: "SHARED-CONFIG"},
			{Name: "handler-normalises-pool-priority-in-place", File: "internal/allocator/allocator.go",
				Old: "\ta.pools = pools\n\n\t// Need to rearrange existing pool mappings and counts", New: "\ta.pools = pools\n\tfor _, pl := range pools.ByName {\n\t\tif pl.ServiceAllocations != nil && pl.ServiceAllocations.Priority < 0 {\n\t\t\tpl.ServiceAllocations.Priority = 0\n\t\t}\n\t}\n\n\t// Need to rearrange existing pool mappings and counts", Expect: "SHARED-CONFIG"},
			{Name: "first-pool-of-map-selected", File: "internal/config/config.go",
				Old: "func poolsByServiceSelector(pools map[string]*Pool) []string {\n\tvar poolsByServiceSelector []string\n", New: "func poolsByServiceSelector(pools map[string]*Pool) []string {\n\tvar poolsByServiceSelector []string\n\tfor _, pool := range pools {\n\t\tif pool.AutoAssign {\n\t\t\treturn []string{pool.Name}\n\t\t}\n\t}\n", Expect: "MAPORDER"},
		},
	})
}

func c18Roots(p *chk.Prog) []*chk.Fn {
	var roots []*chk.Fn
	for _, r := range [][2]string{{ctrlPkg, "toConfig"}, {cfgPkg, "For"}, {cfgPkg, "DiscardFRROnly"}, {cfgPkg, "DiscardNativeOnly"}, {cfgPkg, "DontValidate"}} {
		if f := p.LookupFunc(r[0], "", r[1]); f != nil {
			roots = append(roots, f)
		}
	}
	return roots
}

func runC18(p *chk.Prog, r *chk.Report) {
	// the per-Service advertisement copies the peer list (AD-BUILD, shared with C05): sorting or editing it in place rewrites the remembered configuration
	// the listed objects are not written through while the advertisements are attached (ATTACH, shared with C08)
	c08Attach(p, r)
	c05Build(p, r)
	fetchCheckedRule(p, r)
	sortIdxRule(p, r, false)
	c18Lists(p, r)
	c18MapOrder(p, r)
	c18Compare(p, r)
	c18Normalise(p, r)
	c18MapExit(p, r)
	c18MapLast(p, r)
	c18MapCarry(p, r)
	// what the reconcilers remember stays equal to what a new parse yields: nothing outside internal/config stores into it
	sharedConfigRule(p, r)
	// acceptance does not depend on the order a map is visited in: every address group is judged by its own family's
	// aggregation length (ADV-VALID, shared with C08)
	c08AdvValid(p, r)
}

// c18Normalise: validateLabelSelectorDuplicate is not pure - it sorts the Values of every match expression of the
// listed objects in place, which is what makes the converted labels.Selector independent of the order in which the
// values were written. A conversion of the same selectors must therefore come after it.
func c18Normalise(p *chk.Prog, r *chk.Report) {
	x := r.Rule("NORMALISE-BEFORE-CONVERT", "B path (ordering)", "in every function of internal/config that calls validateLabelSelectorDuplicate(X, …) and converts elements of the same X with metav1.LabelSelectorAsSelector, the validation (which sorts the match-expression values in place) is on every path before the conversion", 3)
	for _, f := range p.FuncsIn(cfgPkg) {
		g := f.Graph()
		vals := g.FindPat("validateLabelSelectorDuplicate(X, _)")
		if len(vals) == 0 {
			continue
		}
		for _, cv := range g.FindPat("metav1.LabelSelectorAsSelector(&E)") {
			el := cv.Node.(*ast.CallExpr).Args[0].(*ast.UnaryExpr).X
			for _, v := range vals {
				coll := v.Node.(*ast.CallExpr).Args[0]
				if !elementOf(f, func(e ast.Expr) bool { return f.SameExpr(e, coll) })(el) {
					continue
				}
				vt := v.Top
				w := g.MustPass(chk.Site{}, func(n ast.Node) bool { return n == cv.Top }, false, func(n ast.Node) bool { return n == vt })
				x.Check("validated-first:"+f.Name()+":"+types.ExprString(coll), cv.Pos(), !w.Found, "",
					"selectors are converted before validateLabelSelectorDuplicate normalised them: the same snapshot yields configurations that differ under reflect.DeepEqual (value order), so an unchanged configuration is re-applied")
			}
		}
	}
}

// c18MapExit: leaving a range over a Go map early is order-independent only when nothing more can change: in a loop
// that only raises boolean flags, a break is allowed once every flag the loop can raise is already true.
func c18MapExit(p *chk.Prog, r *chk.Report) {
	x := r.Rule("MAP-EARLY-EXIT", "A map order", "in internal/config a `break` out of a range over a map whose body only sets boolean flags to true is dominated by all of those flags being true (otherwise which elements were seen depends on Go's random iteration order)", 1)
	for _, f := range p.FuncsIn(cfgPkg) {
		g := f.Graph()
		for _, rs := range f.RangeLoops(func(e ast.Expr) bool {
			t := f.Info().TypeOf(e)
			if t == nil {
				return false
			}
			_, isMap := t.Underlying().(*types.Map)
			return isMap
		}) {
			// flags raised in the body
			flags := map[types.Object]bool{}
			other := false
			ast.Inspect(rs.Body, func(n ast.Node) bool {
				switch s := n.(type) {
				case *ast.AssignStmt:
					for i, l := range s.Lhs {
						id, ok := l.(*ast.Ident)
						if ok && i < len(s.Rhs) && len(s.Lhs) == len(s.Rhs) && f.IsConstBool(s.Rhs[i], true) {
							flags[f.ObjOf(id)] = true
						} else if s.Tok == token.ASSIGN {
							other = true
						}
					}
				case *ast.IncDecStmt, *ast.ReturnStmt:
					other = true
				}
				return true
			})
			if other || len(flags) == 0 {
				continue
			}
			for _, e := range g.LoopIteration(rs, chk.GNever()) {
				if !e.Break {
					continue
				}
				var all []chk.Guard
				for fl := range flags {
					all = append(all, chk.GBool(true, f.IsObj(fl)))
				}
				ok := true
				for _, e2 := range g.LoopIteration(rs, chk.GAnd(all...)) {
					if e2.Break && !e2.OK {
						ok = false
					}
				}
				x.Check("break-only-when-saturated:"+f.Name(), rs.Pos(), ok, "", "the loop over a map stops before every flag it can raise is raised: the flags that are set depend on the iteration order")
				break
			}
		}
	}
}

// sortIdxRule: SORT-IDX for every sort.Slice call of the module.
func sortIdxRule(p *chk.Prog, r *chk.Report, _ bool) {
	x := r.Rule("SORT-IDX", "A' comparator", "in every sort.Slice / sort.SliceStable call of the module (non-test files) the comparator's index parameters are used only to index the slice being sorted", 11)
	seen := map[string]int{}
	for _, sc := range p.SortCalls() {
		r.Saw(sc.Fn)
		key := sc.Fn.Name() + ":" + types.ExprString(sc.Slice)
		seen[key]++
		if seen[key] > 1 {
			key += "#" + itoa(seen[key])
		}
		if sc.Less == nil {
			r.Info = append(r.Info, "sort comparator is not a literal at "+p.Rel(sc.Call.Pos())+" (not decided by SORT-IDX)")
			continue
		}
		ok, bad := sc.IndexesOnlySorted()
		pos := sc.Call.Pos()
		if bad != nil {
			pos = bad.Pos()
		}
		x.Check(key, pos, ok, "", "the comparator indexes something other than the slice being sorted: once sort.Slice swaps two elements the comparator describes stale positions (only lists of at most 2 elements come out sorted)")
	}
}

func c18Lists(p *chk.Prog, r *chk.Report) {
	x := r.Rule("LISTS-SORTED", "E sibling (field coverage)", "in controllers.toConfig the value handed to config.For is a config.ClusterResources literal in which every slice-typed field F is sortedCopy(fromK8s.F) and every other field is fromK8s.F; sortedCopy sorts a copy of its argument ascending by GetName() of the element at i / j and returns that copy", 11)
	f := need(x, p, ctrlPkg, "", "toConfig")
	if f == nil {
		return
	}
	g := f.Graph()
	crT := p.LookupType(cfgPkg, "ClusterResources")
	if crT == nil {
		x.Undecided("anchor:ClusterResources", "UNDECIDED anchor missing: config.ClusterResources")
		return
	}
	from := isParamIdx(f, 0)
	// the value handed to config.For as a map field -> expression: a ClusterResources literal, or a copy of the
	// listed resources, each followed by field assignments that are executed on every path to the call
	kv := map[string]ast.Expr{}
	baseCopy, found := false, false
	var pos token.Pos = f.Pos()
	for _, c := range g.FindPat("config.For(R, V)", chk.H("V", isParamIdx(f, 1))) {
		arg := c.Node.(*ast.CallExpr).Args[0]
		pos = arg.Pos()
		var base ast.Expr = arg
		var obj types.Object
		if id, ok := ast.Unparen(arg).(*ast.Ident); ok {
			obj = f.ObjOf(id)
			if rhs, _ := g.DefOf(id, c); rhs != nil {
				base = rhs
			}
		}
		switch bx := ast.Unparen(base).(type) {
		case *ast.CompositeLit:
			found = true
			for _, e := range bx.Elts {
				if k, ok := e.(*ast.KeyValueExpr); ok {
					kv[k.Key.(*ast.Ident).Name] = k.Value
				}
			}
		default:
			if from(base) {
				found, baseCopy = true, true
			}
		}
		if obj != nil {
			for _, s := range g.Find(func(n ast.Node) bool {
				as, ok := n.(*ast.AssignStmt)
				if !ok || len(as.Lhs) != 1 || len(as.Rhs) != 1 {
					return false
				}
				sel, ok := ast.Unparen(as.Lhs[0]).(*ast.SelectorExpr)
				return ok && f.ObjOf(sel.X) == obj
			}) {
				as := s.Node.(*ast.AssignStmt)
				name := ast.Unparen(as.Lhs[0]).(*ast.SelectorExpr).Sel.Name
				top := s.Top
				if w := g.MustPass(chk.Site{}, func(n ast.Node) bool { return n == c.Top }, false, func(n ast.Node) bool { return n == top }); w.Found {
					found = false // a conditional override: the value handed on is not determined
				}
				kv[name] = as.Rhs[0]
			}
		}
	}
	if !found {
		x.Fail("toConfig:resources-literal", f.Pos(), "config.For is not called with a ClusterResources value built from the listed resources (a literal, or a copy with its lists replaced)")
		return
	}
	lit := posNode(pos)
	st := crT.Underlying().(*types.Struct)
	for i := 0; i < st.NumFields(); i++ {
		fld := st.Field(i)
		v := kv[fld.Name()]
		_, isSlice := fld.Type().Underlying().(*types.Slice)
		if isSlice {
			ok := v != nil && (f.MatchWith("sortedCopy(X."+fld.Name()+")", v, chk.H("X", from)) != nil ||
				f.MatchWith("sortedCopy(X."+fld.Name()+", ETC)", v, chk.H("X", from)) != nil)
			x.Check("toConfig:"+fld.Name()+":sorted", lit.Pos(), ok, "", "the listed "+fld.Name()+" reach config.For in API listing order (not passed through sortedCopy)")
		} else {
			ok := (v == nil && baseCopy) || (v != nil && f.MatchWith("X."+fld.Name(), v, chk.H("X", from)) != nil)
			x.Check("toConfig:"+fld.Name()+":copied", lit.Pos(), ok, "", "field "+fld.Name()+" is not taken from the listed resources")
		}
	}
	sc := need(x, p, ctrlPkg, "", "sortedCopy")
	if sc != nil {
		sg := sc.Graph()
		var call *chk.SortCall
		for _, c := range p.SortCalls() {
			if c.Fn == sc {
				c := c
				call = &c
			}
		}
		ok := call != nil && call.Less != nil
		if ok {
			res := sc.ObjOf(call.Slice)
			// res is a copy of the argument
			ok = len(sg.FindPat("copy(R, T)", chk.H("R", sc.IsObj(res)), chk.H("T", isParamIdx(sc, 0)))) == 1 &&
				definedBy(sg, "make([]T, len(X))", chk.H("X", isParamIdx(sc, 0)))(call.Slice)
			// the other copy idioms: appended to a fresh (empty) slice, slices.Clone
			if !ok {
				for _, pat := range []string{"append(make([]T, 0, N), X...)", "append(make([]T, 0), X...)", "append([]T{}, X...)", "append([]T(nil), X...)", "slices.Clone(X)"} {
					if definedBy(sg, pat, chk.H("X", isParamIdx(sc, 0)))(call.Slice) && len(assignsTo(sc, res)) == 1 {
						ok = true
					}
				}
			}
			for _, rt := range sg.Returns() {
				rr := retResults(rt)
				if len(rr) != 1 || sc.ObjOf(rr[0]) != res {
					ok = false
				}
				ss := sg.Find(func(n ast.Node) bool { return n == ast.Node(call.Call) })
				if len(ss) != 1 || sg.MustPass(chk.Site{}, func(n ast.Node) bool { return n == rt.Top }, false, func(n ast.Node) bool { return n == ss[0].Top }).Found {
					ok = false
				}
			}
			// comparator: GetName() of element i < GetName() of element j
			lf := sc.LitFn(call.Less)
			lg := lf.Graph()
			cmpOK := false
			for _, rt := range lg.Returns() {
				rr := retResults(rt)
				if len(rr) != 1 {
					continue
				}
				b := lf.MatchNew("A.GetName() < B.GetName()", rr[0])
				if b == nil {
					// the name taken through a function parameter: nameOf(&res[i]) < nameOf(&res[j]), where every caller
					// passes the GetName method expression of the element's pointer type
					if kb := lf.MatchNew("K(&R[I]) < K2(&R2[J])", rr[0]); kb != nil {
						k1, k2 := sc.ObjOf(kb["K"]), sc.ObjOf(kb["K2"])
						pi := -1
						for i := 0; ; i++ {
							pv := sc.Param(i)
							if pv == nil {
								break
							}
							if types.Object(pv) == k1 {
								pi = i
							}
						}
						allGetName := pi >= 0 && k1 == k2
						sites := p.CallSites(sc.Name())
						for _, cs := range sites {
							if pi < 0 || pi >= len(cs.Call.Args) {
								allGetName = false
								continue
							}
							sel, isSel := ast.Unparen(cs.Call.Args[pi]).(*ast.SelectorExpr)
							if !isSel || sel.Sel.Name != "GetName" {
								allGetName = false
								continue
							}
							if sn := cs.Fn.Info().Selections[sel]; sn == nil || sn.Kind() != types.MethodExpr {
								allGetName = false
							}
						}
						if allGetName && len(sites) > 0 && lf.ObjOf(kb["R"]) == res && lf.ObjOf(kb["R2"]) == res && lf.ObjOf(kb["I"]) == call.I && lf.ObjOf(kb["J"]) == call.J {
							cmpOK = true
						}
					}
					continue
				}
				elem := func(e ast.Expr, idx types.Object) bool {
					id, isID := ast.Unparen(e).(*ast.Ident)
					if isID {
						e, _ = lg.DefOf(id, lg.FactSite(id))
					}
					m := lf.MatchNew("PT(&R[I])", e)
					return m != nil && lf.ObjOf(m["R"]) == res && lf.ObjOf(m["I"]) == idx
				}
				cmpOK = elem(b["A"], call.I) && elem(b["B"], call.J)
			}
			ok = ok && cmpOK
		}
		x.Check("sortedCopy:sorted-copy-by-name", sc.Pos(), ok, "", "sortedCopy does not return a copy of its argument sorted ascending by object name")
	}
}

func c18MapOrder(p *chk.Prog, r *chk.Report) {
	x := r.Rule("MAPORDER", "A map-order taint", "in the module-local call-graph closure of toConfig, config.For and the mode validators: every slice that receives elements while ranging over a map (or maps.Keys / UnsortedList, or a slice already in map order) and is not private to the iteration is sorted on every path before it is returned, stored or passed on; no value depending on the loop variables is returned from inside a map range (constants and errors excepted)", 2)
	roots := c18Roots(p)
	if len(roots) < 5 {
		x.Undecided("anchor:roots", "UNDECIDED anchor missing: one of toConfig, config.For, DiscardFRROnly, DiscardNativeOnly, DontValidate")
		return
	}
	a := p.AnalyseMapOrder(roots...)
	r.Saw(a.Funcs...)
	r.Extra["maporder_functions"] = len(a.Funcs)
	r.Extra["maporder_loops"] = a.Loops
	r.Extra["maporder_sites"] = a.Sites
	r.Extra["maporder_private_sites"] = a.Private
	var un []string
	for k := range a.Unresolved {
		un = append(un, k)
	}
	sort.Strings(un)
	r.Extra["maporder_unresolved_calls"] = un
	for _, s := range a.Sanitised {
		x.OK("sorted-before-escape:"+s, 0, "")
	}
	for _, fd := range a.Findings {
		x.Fail(fd.Key(), fd.Pos, fd.Detail+" (map range at "+p.Rel(fd.Loop)+"): two computations of the same snapshot can differ under reflect.DeepEqual")
	}
	for f := range a.Returns {
		// a closure function that returns map-ordered data must have every caller sort it; callers are in the closure, so an
		// unsorted use is a finding there. Exported roots must not be summarised as map-ordered.
		for _, rt := range roots {
			if rt == f {
				x.Fail("root-returns-map-ordered:"+f.Name(), f.Pos(), "a root returns a slice in map iteration order")
			}
		}
	}
	x.Check("coverage:loops", 0, a.Loops >= 10 && len(a.Funcs) >= 15, "", fmt.Sprintf("only %d map-range loops in %d functions were analysed (floor 10 loops, 15 functions after helper expansion; confirmed tree: 12 loops)", a.Loops, len(a.Funcs)))

	y := r.Rule("TOTAL-ORDER", "A' comparator", "every comparator-based sort (sort.Slice etc.) that neutralises map order in that closure compares the elements themselves (x[i] < x[j]) or a unique name of the element (GetName(), .Name, .String()); a comparator on any other key leaves ties in map order", 0)
	for _, u := range a.SortSanitisers {
		var sc *chk.SortCall
		for _, c := range p.SortCalls() {
			if c.Call == u.Call {
				c := c
				sc = &c
			}
		}
		key := u.Fn.Name() + ":" + types.ExprString(u.Call.Args[0])
		if sc == nil || sc.Less == nil {
			y.Fail(key, u.Call.Pos(), "comparator is not a literal; cannot decide that it is a total order")
			continue
		}
		ok := false
		rets := sc.ReturnsOfLess()
		if len(rets) == 1 {
			if kc := sc.AsKeyCompare(rets[0]); kc != nil && (kc.Op == "<" || kc.Op == ">") {
				f := sc.Fn
				if f.MatchNew("X[I]", kc.Left) != nil || f.MatchNew("X[I].Name", kc.Left) != nil || f.MatchNew("X[I].GetName()", kc.Left) != nil || f.MatchNew("X[I].String()", kc.Left) != nil {
					ok = true
				}
			}
		}
		y.Check(key, u.Call.Pos(), ok, "", "a list in map iteration order is sorted by a key that is not the element or its unique name: elements with equal keys keep map order, so two computations of the same snapshot can differ")
	}

	z := r.Rule("MAP-LWW", "A map-order taint", "inside a map range in that closure, a map insert m[k] = v with a non-constant v uses the loop's own key as k (otherwise which iteration writes last depends on map order)", 0)
	for _, f := range a.Funcs {
		chk.InspectNoLit(f.Body, func(n ast.Node) bool {
			rs, ok := n.(*ast.RangeStmt)
			if !ok {
				return true
			}
			if t := f.Info().TypeOf(rs.X); t == nil {
				return true
			} else if _, isMap := t.Underlying().(*types.Map); !isMap {
				return true
			}
			chk.InspectNoLit(rs.Body, func(m ast.Node) bool {
				as, ok := m.(*ast.AssignStmt)
				if !ok || len(as.Lhs) != 1 || len(as.Rhs) != 1 {
					return true
				}
				ix, ok := as.Lhs[0].(*ast.IndexExpr)
				if !ok {
					return true
				}
				if t := f.Info().TypeOf(ix.X); t == nil {
					return true
				} else if _, isMap := t.Underlying().(*types.Map); !isMap {
					return true
				}
				if f.ConstVal(as.Rhs[0]) != nil {
					return true
				}
				// appending to m[k] is handled by MAPORDER
				if c, ok := ast.Unparen(as.Rhs[0]).(*ast.CallExpr); ok {
					if id, ok := c.Fun.(*ast.Ident); ok && (id.Name == "append" || id.Name == "make") {
						return true
					}
				}
				if _, isLit := ast.Unparen(as.Rhs[0]).(*ast.CompositeLit); isLit {
					return true
				}
				ok2 := rangeKey(f, rs)(ix.Index)
				z.Check(f.Name()+":"+types.ExprString(as.Lhs[0]), as.Pos(), ok2, "", "map insert inside a map range keyed by something other than the loop key (last writer wins in map order)")
				return true
			})
			return true
		})
	}
}

func c18Compare(p *chk.Prog, r *chk.Report) {
	x := r.Rule("COMPARE-BEFORE-APPLY", "B path", "in the Config reconciler (requestHandler) and (*PoolReconciler).Reconcile: cfg comes from toConfig(resources, r.ValidateConfig); the handler call is dominated by the false edge of the reflect.DeepEqual(r.currentConfig, cfg) test; a configuration whose handling returned SyncStateError is not remembered (Config: r.currentConfig = nil on that branch; Pool: r.currentConfig = cfg is unreachable from the error cases)", 6)
	for _, c := range []struct {
		name string
		f    *chk.Fn
		pool bool
	}{
		{"ConfigReconciler", p.LookupFunc(ctrlPkg, "", "requestHandler"), false},
		{"PoolReconciler", p.LookupFunc(ctrlPkg, "PoolReconciler", "Reconcile"), true},
	} {
		f := c.f
		if !x.Need(f, c.name+".Reconcile") {
			continue
		}
		g := f.Graph()
		cfg := definedBy(g, "toConfig(RES, R.ValidateConfig)")
		handlers := g.FindPat("R.Handler(ETC)")
		x.Check(c.name+":handler-call", f.Pos(), len(handlers) == 1, "", "expected one handler call")
		for _, h := range handlers {
			call := h.Node.(*ast.CallExpr)
			arg := call.Args[len(call.Args)-1]
			okArg := cfg(arg)
			if c.pool {
				if sel, ok := ast.Unparen(arg).(*ast.SelectorExpr); ok {
					okArg = cfg(sel.X) && sel.Sel.Name == "Pools"
				}
			}
			x.Check(c.name+":handler-gets-converted-config", h.Pos(), okArg, "", "the handler is not given the configuration computed by toConfig")
			var guard chk.Guard
			if c.pool {
				guard = g.GPat(false, "reflect.DeepEqual(R.currentConfig, C)", chk.H("C", cfg))
			} else {
				guard = chk.GAnyOf(g.GPat(false, "R.currentConfig != nil && reflect.DeepEqual(R.currentConfig, C)", chk.H("C", cfg)),
					g.GPat(false, "reflect.DeepEqual(R.currentConfig, C)", chk.H("C", cfg)))
			}
			x.Check(c.name+":handler-only-on-change", h.Pos(), g.Dominated(h, guard), "", "the handler (reload + full re-sync) can run although the new configuration equals the current one")
		}
		errCase := g.EdgesImplying(g.GPat(true, "T == C", chk.H("C", isObjNamed(f, ctrlPkg+".SyncStateError"))))
		x.Check(c.name+":error-case", f.Pos(), len(errCase) >= 1, "", "no SyncStateError case")
		for _, e := range errCase {
			if c.pool {
				start := chk.Site{G: g, B: e.B.Succs[e.K], I: 0}
				w := (&chk.Walk{G: g, From: start, Inclusive: true, Hit: f.IsAssignPat("R.currentConfig", "C", chk.H("C", cfg))}).Run()
				x.Check(c.name+":failed-config-not-remembered", posOf(w, f), !w.Found, "", "a configuration whose handling failed is remembered as current: the retry finds it unchanged and never applies it")
			} else {
				w := g.BranchAlways(e, f.IsAssignPat("R.currentConfig", "nil"))
				x.Check(c.name+":failed-config-not-remembered", posOf(w, f), !w.Found, "", "a configuration whose handling failed stays remembered as current: the retry finds it unchanged and never applies it")
			}
		}
		// what is remembered changes only with what was handed to the handler: r.currentConfig is assigned the new
		// configuration, or nil on the branch of the handler's SyncStateError answer - nothing else (a snapshot that was
		// rejected before reaching the handler changed nothing in the component, so the remembered value stays)
		errG := g.GPat(true, "T == C", chk.H("C", isObjNamed(f, ctrlPkg+".SyncStateError")))
		for _, st := range g.Find(func(n ast.Node) bool {
			as, ok := n.(*ast.AssignStmt)
			if !ok || as.Tok != token.ASSIGN {
				return false
			}
			for _, l := range as.Lhs {
				if f.MatchNew("R.currentConfig", l) != nil {
					return true
				}
			}
			return false
		}) {
			as := st.Node.(*ast.AssignStmt)
			okW := len(as.Lhs) == 1 && len(as.Rhs) == 1
			if okW {
				switch {
				case cfg(as.Rhs[0]):
				case f.IsNilLit(as.Rhs[0]):
					okW = g.Dominated(st, errG)
				default:
					okW = false
				}
			}
			x.Check(c.name+":remembered-changes-only-with-the-handler", st.Pos(), okW, "", "the remembered configuration is reset or replaced outside the handler's outcome (on a rejected snapshot, say): the next snapshot that equals what is applied is no longer recognised as unchanged and the handler - a full re-sync of all Services - runs for nothing")
		}
		if c.pool && len(handlers) == 1 {
			// ... and what the handler accepted (any answer but the two error answers: success, or "re-sync everything",
			// which is what the controller's pool handler always answers) is remembered: otherwise every later event finds
			// a difference and re-delivers the pools with a full re-sync of the Services
			errNR := g.GPat(true, "T == C", chk.H("C", isObjNamed(f, ctrlPkg+".SyncStateErrorNoRetry")))
			commit := f.IsAssignPat("R.currentConfig", "C", chk.H("C", cfg))
			w := (&chk.Walk{G: g, From: handlers[0], Stop: commit,
				Hit: func(n ast.Node) bool { _, isRet := n.(*ast.ReturnStmt); return isRet },
				Cut: func(b *cfgBlock, k int) bool { return g.EdgeImplies(b, k, errG) || g.EdgeImplies(b, k, errNR) }}).Run()
			x.Check(c.name+":accepted-config-remembered", posOf(w, f), !w.Found, "", "a configuration the handler accepted (answering success or a full re-sync) is not remembered as current: the comparison never matches again and every unrelated event reloads the pools and re-syncs every Service")
		}
		if c.pool {
			// the commit happens only after the handler was called
			for _, s := range g.Find(f.IsAssignPat("R.currentConfig", "C", chk.H("C", cfg))) {
				w := g.MustPass(chk.Site{}, func(n ast.Node) bool { return n == s.Top }, false, func(n ast.Node) bool { return len(handlers) == 1 && (n == handlers[0].Top) })
				x.Check(c.name+":commit-after-handler", s.Pos(), !w.Found, "", "the new configuration is remembered before the handler ran")
			}
		}
	}
}

// thoroughC18 runs the map-order engine over every function of the module and
// reports, as information only, escapes outside the claimed sinks.
func thoroughC18(p *chk.Prog, r *chk.Report) {
	a := p.AnalyseMapOrder(p.Funcs()...)
	r.Extra["thorough_maporder_functions"] = len(a.Funcs)
	r.Extra["thorough_maporder_loops"] = a.Loops
	var lines []string
	for _, fd := range a.Findings {
		lines = append(lines, fd.Key()+" at "+p.Rel(fd.Pos)+": "+fd.Detail)
	}
	r.Extra["thorough_maporder_candidates_repo_wide"] = lines
}

// c18MapCarry: a decision taken for one element of a map range must not depend on the elements visited before it.
// A boolean local that is declared outside the loop, assigned inside it and tested inside it carries state from one
// iteration to the next unless every test is preceded, in the same iteration, by an assignment that does not read it
// (a per-element flag that is reset first).
func c18MapCarry(p *chk.Prog, r *chk.Report) {
	x := r.Rule("MAP-CARRY", "A map order (loop-carried state)", "in the call-graph closure of toConfig / config.For / the mode validators no range over a map tests a boolean that an earlier iteration may have set: a local declared outside such a loop and assigned inside it is, at every test inside the loop, freshly assigned in the same iteration", 0)
	roots := c18Roots(p)
	if len(roots) < 5 {
		return
	}
	a := p.AnalyseMapOrder(roots...)
	n := 0
	for _, f := range a.Funcs {
		if f.Body == nil {
			continue
		}
		g := f.Graph()
		for _, rs := range f.RangeLoops(func(e ast.Expr) bool {
			tv, ok := f.Info().Types[e]
			if !ok || tv.Type == nil {
				return false
			}
			_, isMap := tv.Type.Underlying().(*types.Map)
			return isMap
		}) {
			n++
			cands := map[types.Object]bool{}
			ast.Inspect(rs.Body, func(nd ast.Node) bool {
				as, ok := nd.(*ast.AssignStmt)
				if !ok || as.Tok != token.ASSIGN {
					return true
				}
				for _, l := range as.Lhs {
					id, isId := l.(*ast.Ident)
					if !isId {
						continue
					}
					v, isVar := f.ObjOf(id).(*types.Var)
					if !isVar || v.IsField() || (v.Pos() >= rs.Pos() && v.Pos() <= rs.End()) {
						continue
					}
					if b, isB := v.Type().Underlying().(*types.Basic); !isB || b.Info()&types.IsBoolean == 0 {
						continue
					}
					cands[v] = true
				}
				return true
			})
			for v := range cands {
				for _, b := range g.Blocks {
					if len(b.Succs) != 2 || len(b.Nodes) == 0 {
						continue
					}
					c := g.EdgeCondExpr(b, 0)
					if c == nil || !chk.InBody(rs, c) {
						continue
					}
					uses := false
					ast.Inspect(c, func(m ast.Node) bool {
						if id, ok := m.(*ast.Ident); ok && f.ObjOf(id) == v {
							uses = true
						}
						return true
					})
					if !uses {
						continue
					}
					okReset := resetInIteration(f, g, rs, b.Nodes[len(b.Nodes)-1], v)
					if !okReset {
						// `if found { break }` for a flag that is only ever set to true: the loop merely stops early,
						// what it computed does not depend on the order
						if ifs, isIf := f.Prog.Parent(c).(*ast.IfStmt); isIf && ifs.Cond == c && ifs.Else == nil && len(ifs.Body.List) == 1 {
							if br, isBr := ifs.Body.List[0].(*ast.BranchStmt); isBr && br.Tok == token.BREAK && br.Label == nil {
								mono := true
								for _, a := range assignsTo(f, v) {
									as, isAs := a.(*ast.AssignStmt)
									if !isAs || len(as.Lhs) != len(as.Rhs) {
										mono = false
										continue
									}
									for i, l := range as.Lhs {
										if id, isId := l.(*ast.Ident); isId && f.ObjOf(id) == v && !f.IsConstBool(as.Rhs[i], true) && chk.InBody(rs, as) {
											mono = false
										}
									}
								}
								okReset = mono
							}
						}
					}
					// a test whose only effect is to leave the loop (found-flag with break) does not decide anything per element
					x.Check(f.Name()+":"+v.Name()+"@"+f.Prog.Rel(rs.Pos()), c.Pos(), okReset, "", "the flag "+v.Name()+" is tested inside a range over a map although an earlier element may have set it: what is decided for one element depends on the (random) order in which the map is visited")
				}
			}
		}
	}
	r.Extra["mapcarry_loops"] = n
}

// resetInIteration: on every path from the start of the loop body to the test, the variable is assigned from a value
// that does not depend on it.
func resetInIteration(f *chk.Fn, g *chk.Graph, rs *ast.RangeStmt, test ast.Node, v types.Object) bool {
	isReset := func(n ast.Node) bool {
		as, ok := n.(*ast.AssignStmt)
		if !ok {
			return false
		}
		for i, l := range as.Lhs {
			if id, isId := l.(*ast.Ident); isId && (f.ObjOf(id) == v) && i < len(as.Rhs) {
				reads := false
				ast.Inspect(as.Rhs[i], func(m ast.Node) bool {
					if id2, ok := m.(*ast.Ident); ok && f.ObjOf(id2) == v {
						reads = true
					}
					return true
				})
				return !reads
			}
		}
		return false
	}
	start := bodyStart(g, rs)
	w := g.MustPass(chk.Site{G: g, B: start.B, I: -1}, func(n ast.Node) bool { return n == test }, false, isReset)
	return !w.Found
}

// c18MapLast: a range over a map leaves nothing behind that depends on which element came last (or first). A local
// declared outside such a loop, assigned inside it a value computed from the element at hand, and read after the loop,
// holds whatever the last visited element gave it: two parses of the same resources then differ. Constants (found
// flags), monotone updates (x = x || e, x = x && e), and variables that are assigned afresh before every later read are
// not order-dependent.
func c18MapLast(p *chk.Prog, r *chk.Report) {
	x := r.Rule("MAP-LAST", "A map order (last writer)", "in the call-graph closure of toConfig / config.For / the mode validators no range over a map assigns to a local declared outside it a value computed from the element at hand (other than a constant or a monotone x = x || e / x = x && e update) that is read after the loop", 0)
	roots := c18Roots(p)
	if len(roots) < 5 {
		return
	}
	a := p.AnalyseMapOrder(roots...)
	n := 0
	for _, f := range a.Funcs {
		if f.Body == nil {
			continue
		}
		g := f.Graph()
		for _, rs := range f.RangeLoops(func(e ast.Expr) bool {
			tv, ok := f.Info().Types[e]
			if !ok || tv.Type == nil {
				return false
			}
			_, isMap := tv.Type.Underlying().(*types.Map)
			return isMap
		}) {
			n++
			elem := map[types.Object]bool{}
			for _, e := range []ast.Expr{rs.Key, rs.Value} {
				if id, isId := e.(*ast.Ident); isId && id.Name != "_" {
					if o := f.ObjOf(id); o != nil {
						elem[o] = true
					}
				}
			}
			chk.InspectNoLit(rs.Body, func(nd ast.Node) bool {
				as, ok := nd.(*ast.AssignStmt)
				if !ok || as.Tok != token.ASSIGN || len(as.Lhs) != len(as.Rhs) {
					return true
				}
				for i, l := range as.Lhs {
					id, isId := l.(*ast.Ident)
					if !isId {
						continue
					}
					v, isVar := f.ObjOf(id).(*types.Var)
					if !isVar || v.IsField() || (v.Pos() >= rs.Pos() && v.Pos() <= rs.End()) || v.Pkg() == nil || v.Parent() == v.Pkg().Scope() {
						continue
					}
					switch v.Type().Underlying().(type) {
					case *types.Basic, *types.Pointer, *types.Struct:
					default:
						continue // lists, maps and errors have their own rules (MAPORDER, MAP-EXIT)
					}
					rhs := as.Rhs[i]
					if f.ConstVal(rhs) != nil || f.IsNilLit(rhs) || monotone(f, v, rhs) != token.ILLEGAL {
						continue
					}
					// computed from the element at hand?
					dep := false
					ast.Inspect(rhs, func(m ast.Node) bool {
						if rid, isR := m.(*ast.Ident); isR && elem[f.ObjOf(rid)] {
							dep = true
						}
						return true
					})
					if !dep {
						continue
					}
					// read after the loop with this assignment still in force?
					var readAt ast.Node
					ast.Inspect(f.Body, func(m ast.Node) bool {
						uid, isU := m.(*ast.Ident)
						if !isU || readAt != nil || f.ObjOf(uid) != types.Object(v) || uid.Pos() <= rs.End() || f.Info().Defs[uid] != nil {
							return true
						}
						if par, isAs := f.Prog.Parent(uid).(*ast.AssignStmt); isAs {
							for _, ll := range par.Lhs {
								if ll == ast.Expr(uid) {
									return true // a store, not a read
								}
							}
						}
						st := g.FactSite(uid)
						if st.B == nil {
							return true
						}
						if def, _ := g.DefOf(uid, st); def != nil && (def.Pos() < rs.Pos() || def.Pos() > rs.End()) {
							return true // assigned afresh before this read
						}
						readAt = uid
						return true
					})
					x.Check(f.Name()+":"+v.Name()+"@"+f.Src(rs.X), as.Pos(), readAt == nil, "", "the value of `"+v.Name()+"` after the loop over "+f.Src(rs.X)+" (a Go map) is the one computed from whichever element was visited last: the outcome (a configuration accepted or refused, a field rendered) changes from one parse of the same resources to the next")
				}
				return true
			})
		}
	}
	if n == 0 {
		x.OK("no-map-loops", 0, "")
	}
}
